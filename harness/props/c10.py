"""C10 — string / bytes / char literals keep their exact values.

Part A (D-py, three-way): the real scanner + `Parsing.p_cat_string_literal` called in-process on literal
source text  vs  the Lean model `CyVerif.C10.cyDecode`  vs  CPython (`eval` of the same literal), plus the
Lean reference decoder `refDecode` against CPython.
Part B (D-py, I-art, D-c): the module string table: captured inputs of `generate_pystring_constants`
-> Lean `compileTable`; the generated `.c` table section -> Lean `artRun` (C lexer of C11, LZSS decoder of
C12, index walk, UTF-8 decoder); compiled modules under every value of CYTHON_COMPRESS_STRINGS vs CPython.
"""
import ast
import io
import os
import re
import sys
import types
import unicodedata
import warnings

import cybuild
import lib

# --------------------------------------------------------------------------
# helpers


def cps(s):
    """code points of a str / bytes as the driver's comma-separated hex list"""
    if isinstance(s, (bytes, bytearray)):
        return ",".join("%x" % b for b in s) if s else "-"
    return ",".join("%x" % ord(c) for c in s) if s else "-"


def uncps(t):
    return [] if t == "-" else [int(x, 16) for x in t.split(",")]


def hx(b):
    return bytes(b).hex() if len(b) else "-"


def short(s, n=120):
    s = s if isinstance(s, str) else repr(s)
    return s if len(s) <= n else s[:n] + "…(%d)" % len(s)


# --------------------------------------------------------------------------
# the implementation: real scanner + parser, in-process


class Impl:
    def __init__(self, ctx):
        from Cython.Compiler import Parsing, Scanning, Main, Errors, ExprNodes
        for m in (Parsing, Scanning):
            if not m.__file__.startswith(ctx.stage) or not m.__file__.endswith(".py"):
                raise lib.Infra("staged module not in use: %s" % m.__file__)
        self.P, self.S, self.E, self.X = Parsing, Scanning, Errors, ExprNodes
        self.context = Main.Context.from_options(Main.CompilationOptions(language_level=3))
        self.scope = types.SimpleNamespace(included_files=[])

    def scanner(self, src):
        self.E.init_thread()
        self.E.open_listing_file(None, echo_to_stderr=False)
        return self.S.PyrexScanner(io.StringIO(src), self.S.StringSourceDescriptor("lit", src), source_encoding="UTF-8",
                                   context=self.context, scope=self.scope)

    def tokens(self, src, limit=64):
        """token stream of the real scanner: [(sy, systring)]"""
        out = []
        try:
            s = self.scanner(src)
            while s.sy in ("INDENT", "NEWLINE") and len(out) < 4:
                s.next()
            while s.sy not in ("EOF", None) and len(out) < limit:
                out.append((s.sy, s.systring))
                s.next()
        except Exception as e:
            out.append(("EXC", type(e).__name__))
        return out

    def parse(self, src):
        """-> canonical outcome of p_cat_string_literal on `src`:
        ('ok', kind, bytes|None, text|None) | ('unsupported',) | ('err', name)"""
        try:
            s = self.scanner(src)
            while s.sy in ("INDENT", "NEWLINE"):
                s.next()
            if s.sy not in ("BEGIN_STRING", "BEGIN_FT_STRING"):
                return ("err", "NotAString")
            kind, bv, uv = self.P.p_cat_string_literal(s)
            rest_sy = s.sy
        except self.E.CompileError:
            return ("err", "CompileError")
        except Exception as e:
            return ("err", type(e).__name__)
        if self.E.get_errors_count() > 0:
            return ("err", "CompileError")
        if rest_sy not in ("NEWLINE", "EOF"):
            return ("err", "TrailingTokens")
        if kind in ("f", "t"):
            txt = []
            for node in uv:
                if type(node) is self.X.UnicodeNode:
                    txt.append(str(node.value))
                else:
                    return ("unsupported",)
            return ("ok", kind, None, "".join(txt))
        return ("ok", kind, None if bv is None else bytes(bv), None if uv is None else str(uv))


# --------------------------------------------------------------------------
# part A: literal bodies

NAMES_OK = ["DIGIT ONE", "BULLET", "LATIN SMALL LETTER A", "GRINNING FACE", "hyphen-minus", "LF", "NULL", "EM DASH",
            "TIBETAN MARK BKA- SHOG GI MGO RGYAN", "Latin Capital Letter A"]
NAMES_DIGIT = ["CJK UNIFIED IDEOGRAPH-4E00", "VARIATION SELECTOR-17", "EGYPTIAN HIEROGLYPH A001", "LINEAR B SYLLABLE B008 A"]
NAMES_BAD = ["", " ", "NO SUCH NAME", "DIGIT  ONE", "KEYCAP NUMBER SIGN", "LATIN SMALL LETTER A WITH MACRON AND GRAVE", "A{B", "É", "X_Y"]
ORD_ASCII = "aZ09 _-:;,.!?#@$%^&*()[]<>/|~`+=\t"
ORD_NON_ASCII = ["\x80", "é", "ÿ", "Ā", "\u07ff", "ࠀ", "€", "\ud7ff", "\ue000", "\uffff", "\U00010000", "😀", "\U0010ffff", "\xa0", "\u2028"]
HEXD = "0123456789abcdefABCDEF"


def gen_escape(rng):
    """source text of one escape-like item (valid or not)"""
    r = rng.random()
    if r < 0.14:
        return "\\" + rng.choice("\\'\"abfnrtv\n")
    if r < 0.30:
        n = rng.choice((1, 1, 2, 3, 3, 3))
        s = "".join(rng.choice("01234567") for _ in range(n))
        if rng.random() < 0.3:
            s = rng.choice("4567") + s[1:]
        return "\\" + s + rng.choice(["", "", "8", "0", "7"])
    if r < 0.42:
        n = rng.choice((0, 1, 2, 2, 2, 3))
        return "\\x" + "".join(rng.choice(HEXD) for _ in range(n)) + rng.choice(["", "", "g", "G", "x"])
    if r < 0.54:
        n = rng.choice((0, 1, 2, 3, 4, 4, 4, 4, 5))
        s = "".join(rng.choice(HEXD) for _ in range(n))
        if rng.random() < 0.25:
            s = rng.choice(["d800", "dfff", "DBFF", "dc00", "0000", "ffff", "d7ff", "e000"])
        return "\\u" + s + rng.choice(["", "", "g", "0"])
    if r < 0.66:
        n = rng.choice((0, 1, 4, 7, 8, 8, 8, 8, 9))
        s = "".join(rng.choice(HEXD) for _ in range(n))
        if rng.random() < 0.5:
            s = rng.choice(["0010ffff", "00110000", "0001f600", "0000d800", "00000000", "ffffffff", "00010000", "0010FFFF", "7fffffff"])
        return "\\U" + s + rng.choice(["", "", "g", "0"])
    if r < 0.84:
        q = rng.random()
        nm = rng.choice(NAMES_OK) if q < 0.5 else rng.choice(NAMES_DIGIT) if q < 0.7 else rng.choice(NAMES_BAD)
        if rng.random() < 0.1:
            nm = nm.lower()
        form = rng.random()
        if form < 0.8:
            return "\\N{" + nm + "}"
        if form < 0.9:
            return "\\N{" + nm
        return "\\N" + nm[:3]
    if r < 0.97:
        return "\\" + chr(rng.choice([c for c in range(1, 128) if c != 13]))
    return "\\" + rng.choice(ORD_NON_ASCII)


def gen_body(rng, kind):
    n = rng.choice((0, 1, 1, 2, 2, 3, 4, 6, 10))
    out = []
    for _ in range(n):
        r = rng.random()
        if r < 0.55:
            out.append(gen_escape(rng))
        elif r < 0.80:
            out.append(rng.choice(ORD_ASCII))
        elif r < 0.86:
            out.append(rng.choice("'\""))
        elif r < 0.90:
            out.append(rng.choice(ORD_NON_ASCII if kind not in "bc" or rng.random() < 0.3 else ORD_ASCII))
        elif r < 0.93:
            out.append("\n")
        elif r < 0.97 and kind == "f":
            out.append(rng.choice(["{{", "}}", "{{{{", "}}}}", "{{}}", "\\{{", "{{\\", "}", "}}}"]))
        else:
            out.append(rng.choice(["{", "}", "{{", "\\"]) if kind != "f" else rng.choice(ORD_ASCII))
    return "".join(out)


def delimitable(body, q):
    """would `q + body + q` be scanned as one literal with exactly this body?"""
    i, n, triple = 0, len(body), len(q) == 3
    while i < n:
        c = body[i]
        if c == "\\":
            if i + 1 >= n:
                return False
            i += 2
            continue
        if triple:
            if body.startswith(q, i):
                return False
        elif c == q or c == "\n":
            return False
        i += 1
    if triple and n and body[-1] == q[0]:
        # the last character would merge with the closing quotes unless it was escaped
        j, k = n - 2, 0
        while j >= 0 and body[j] == "\\":
            k += 1
            j -= 1
        if k % 2 == 0:
            return False
    return True


PREFIX = {("u", False): ["u", "U"], ("s", False): [""], ("b", False): ["b", "B"], ("c", False): ["c"],
          ("f", False): ["f", "F"], ("s", True): ["r", "R"], ("b", True): ["br", "rb", "Rb", "bR", "BR"],
          ("f", True): ["rf", "fr", "Rf", "FR"], ("c", True): []}
KINDS = [("u", False), ("s", False), ("b", False), ("c", False), ("f", False), ("s", True), ("b", True), ("f", True)]


def make_source(rng, kind, raw, body):
    qs = ["'''", '"""'] if "\n" in body else ["'", '"', "'''", '"""']   # the model is of the body: no unclosed-line logic
    rng.shuffle(qs)
    for q in qs:
        if delimitable(body, q):
            return rng.choice(PREFIX[(kind, raw)]) + q + body + q
    return None


def lookup_table(body):
    """the Unicode name lookup restricted to the names that occur in the body (the model's `Lookup` parameter)"""
    ents = []
    seen = set()
    for m in re.finditer(r"(?=N\{([^}]*)\})", body):
        nm = m.group(1)
        if nm in seen or not nm or not nm.isascii():
            continue
        seen.add(nm)
        try:
            ch = unicodedata.lookup(nm)
        except KeyError:
            continue
        ents.append("%s:%s" % (nm.encode().hex(), "M" if len(ch) != 1 else "%x" % ord(ch)))
    return ";".join(ents) if ents else "-"


def cpython_value(kind, src):
    """-> ('ok', value) | ('err', name) | ('unsupported',)"""
    if kind == "c":
        src = "b" + src[1:]
    try:
        with warnings.catch_warnings():
            warnings.simplefilter("ignore")
            tree = ast.parse(src, mode="eval")
            if kind == "f":
                node = tree.body
                if isinstance(node, ast.JoinedStr) and any(not isinstance(v, ast.Constant) for v in node.values):
                    return ("unsupported",)
            v = eval(compile(tree, "<lit>", "eval"), {"__builtins__": {}})
    except SyntaxError:
        return ("err", "SyntaxError")
    except ValueError:          # e.g. source contains NUL
        return ("err", "SyntaxError")
    if kind == "c" and len(v) != 1:
        return ("err", "SyntaxError")
    return ("ok", v)


def probe_name_chars(impl):
    """characters the real scanner accepts between `\\N{` and `}` (behavioural probe of Lexicon.escapeseq)"""
    chars = []
    for c in list(range(32, 127)) + [0xE9, 0x100, 0x4E00]:
        ch = chr(c)
        if ch in "\\":
            continue
        body = "\\N{A" + ch + "A}"
        toks = impl.tokens('"""' + body + '"""' if ch != '"' else "'''" + body + "'''")
        esc = [t for t in toks if t[0] == "ESCAPE"]
        if esc and esc[0][1] == body:
            chars.append(c)
    return chars


def probe_oct_wrap():
    """does BytesLiteralBuilder.append_charval keep the low 8 bits (1) or raise above 255 (0)?"""
    from Cython.Compiler import StringEncoding as S
    try:
        b = S.BytesLiteralBuilder("UTF-8")
        b.append_charval(0o477)
        v = bytes(b.getstring())
    except UnicodeEncodeError:
        return 0
    if v == bytes([0o477 & 0xFF]):
        return 1
    raise ExtractErrorLate("append_charval(0o477) gives %r: neither variant of the model" % v)


class ExtractErrorLate(Exception):
    pass


def boundary_bodies():
    out = []
    tails = ["", "0", "7", "8", "77", "777", "1234", "A", "g", "{", "{}", "{DIGIT ONE}", "{CJK UNIFIED IDEOGRAPH-4E00}", "0041", "00000041",
             "0010ffff", "00110000", "d800", "41", "4", "\\", "é", "\n"]
    for c in range(1, 128):
        if c == 13:
            continue
        for t in tails:
            out.append("\\" + chr(c) + t)
    out += ["", "a", "\\", "a\\", "\\\\", "\\\\\\", "é", "\\é", "\\400", "\\377", "\\777", "\\1234", "\\08", "{{", "}}", "{", "}", "{{{",
            "\\{{", "\\}}", "a\nb", "'", '"', "''", '""', "'\"", "\\N{KEYCAP NUMBER SIGN}", "\\N{}", "\\N{ }", "\\N", "\\N{", "\\N{A",
            "\\ud800\\udc00", "\\U0001F600😀", "\\x00", "\\0", "\\x7f\\x80\\xff", "\\u0100\\xff", "\\N{LATIN SMALL LETTER A}\\400"]
    return out


def canon_impl(r):
    if r[0] == "ok":
        return "ok b=%s u=%s" % ("none" if r[2] is None else cps(r[2]), "none" if r[3] is None else cps(r[3]))
    if r[0] == "unsupported":
        return "err unsupported"
    return "err " + r[1]


def reject_class(kind, raw, body, impl_err):
    if impl_err == "UnicodeEncodeError":
        return "octal-escape-above-377"
    if impl_err == "TypeError":
        return "N-named-sequence"
    if "\\N{" in body and not raw:
        return "N-name-charset"
    if raw and kind == "f" and "\\\n" in body:
        return "raw-fstring-backslash-newline"
    return "other/%s%s" % ("r" if raw else "", kind)


def run_literals(ctx, impl, name_chars, wrap):
    rng = ctx.rng
    NC = hx(bytes(c for c in name_chars if c < 256)) + " %d" % wrap
    cases = []
    try:
        import json
        for c in json.load(open(os.path.join(lib.VERIF, "corpus", "C10", "witnesses.json")))["literals"]:
            cases.append((c["kind"], bool(c["raw"]), c["body"]))
    except (OSError, ValueError, KeyError) as e:
        ctx.notes["corpus"] = "not loaded: %s" % e
    for (kind, raw) in KINDS:
        for body in boundary_bodies():
            cases.append((kind, raw, body))
    for _ in range(12000 if ctx.quick else 150000):
        kind, raw = rng.choice(KINDS)
        cases.append((kind, raw, gen_body(rng, kind)))
    rc = getattr(ctx, "replay_case", None)
    if rc and rc.get("case", {}).get("literal"):
        c = rc["case"]["literal"]
        cases = [(c["kind"], c["raw"], c["body"])]
    todo, lines = [], []
    for kind, raw, body in cases:
        if not PREFIX[(kind, raw)]:
            continue
        try:
            body.encode("utf-8")
        except UnicodeEncodeError:
            continue                    # lone surrogates cannot be written in a UTF-8 source file
        src = make_source(rng, kind, raw, body)
        if src is None:
            ctx.count("A/not-delimitable")
            continue
        lk = lookup_table(body)
        todo.append((kind, raw, body, src))
        lines.append("C10 lit %s %d %s %s %s" % (kind, raw, NC, lk, cps(body)))
        lines.append("C10 ref %s %d %s %s" % (kind, raw, lk, cps(body)))
    out = ctx.drv.batch(lines)
    for i, (kind, raw, body, src) in enumerate(todo):
        model, mref = out[2 * i], out[2 * i + 1]
        r = impl.parse(src)
        impl_s = canon_impl(r)
        o = cpython_value(kind, src)
        if o[0] == "ok":
            oracle = "ok " + cps(o[1])
        elif o[0] == "unsupported":
            oracle = "err unsupported"
        else:
            oracle = "err"
        esc = "esc" if "\\" in body else "plain"
        ctx.count("A/%s%s/%s/%s" % ("r" if raw else "", kind, esc, impl_s.split(" ")[0] + ("" if impl_s[:2] == "ok" else ":" + impl_s[4:])))
        ctx.seen(("A", kind, raw, body), nontrivial=("\\" in body or not body.isascii()))
        rep = {"literal": {"kind": kind, "raw": raw, "body": body, "source": src}, "impl": impl_s, "model": model, "oracle": oracle}
        if i % 997 == 0:
            ctx.sample({"source": short(src, 80), "impl": short(impl_s, 80), "model": short(model, 80), "cpython": short(oracle, 80)})
        if model == "err unsupported" or mref == "err unsupported" or r[0] == "unsupported" or o[0] == "unsupported":
            # a replacement field starts in this f-string: outside the literal-part model (the compiled leg covers fields)
            ctx.count("A/f/replacement-field(out of model)")
            continue
        # reference model vs CPython
        ref_c = mref if mref.startswith("ok") or mref == "err unsupported" else "err"
        if ref_c != oracle:
            ctx.tie_break("reference decoder refDecode vs CPython", "%s: Lean reference %s, CPython %s" % (short(src, 100), short(mref), short(oracle)), rep)
        # model vs implementation
        if model != impl_s:
            ctx.tie_break("D-py p_string_literal vs CyVerif.C10.cyDecode", "%s: model %s impl %s" % (short(src, 100), short(model), short(impl_s)), rep)
        # implementation vs CPython
        if r[0] == "ok":
            val = r[3] if kind in "usf" else r[2]
            if o[0] != "ok":
                ctx.violation("literal-accepted-but-CPython-rejects/%s" % kind,
                              "%s is accepted with value %r; CPython rejects it" % (short(src, 100), short(val)), rep)
            elif val != o[1]:
                ctx.violation("literal-wrong-value/%s%s" % ("r" if raw else "", kind),
                              "%s has value %s, CPython gives %s" % (short(src, 100), short(repr(val)), short(repr(o[1]))), rep)
        elif o[0] == "ok":
            ctx.violation("literal-rejected/%s" % reject_class(kind, raw, body, r[1]),
                          "%s is rejected (%s); CPython gives %s" % (short(src, 100), r[1], short(repr(o[1]))), rep)



# --------------------------------------------------------------------------
# part B: the module string table

import concurrent.futures as cf
import inspect
import subprocess
import textwrap


class ExtractError(Exception):
    pass


def extract_table_params(Code):
    """G: (minWidth, intLoopLimit) of generate_pystring_constants.
    minWidth: the bit-field width expression is located in the source (the formatted value after `length:`), and
    evaluated on sample indexes; it must behave as max(minWidth, max(index).bit_length()).
    intLoopLimit: the constants compared with the entry counts in `'int' if N < C else 'Py_ssize_t'`."""
    fn = Code.GlobalState.generate_pystring_constants
    src = textwrap.dedent(inspect.getsource(fn))
    tree = ast.parse(src)
    width_exprs = []
    for node in ast.walk(tree):
        if isinstance(node, ast.JoinedStr):
            vals = node.values
            for i, v in enumerate(vals):
                if (isinstance(v, ast.FormattedValue) and i > 0 and isinstance(vals[i - 1], ast.Constant)
                        and isinstance(vals[i - 1].value, str) and vals[i - 1].value.rstrip().endswith("length:")):
                    width_exprs.append(v.value)
    if len(width_exprs) != 1:
        raise ExtractError("expected exactly one `length: {…}` bit-field width expression, found %d" % len(width_exprs))
    code = compile(ast.Expression(width_exprs[0]), "<width>", "eval")

    def width(index):
        return eval(code, {"__builtins__": {"max": max, "min": min, "len": len}}, {"index": index})
    w0 = width([0])
    for index in ([0], [0, 0], [1], [5], [0, 7, 3], [255], [256], [65535, 1], [2 ** 31], [2 ** 32 - 1]):
        if width(index) != max(w0, max(index).bit_length()):
            raise ExtractError("bit-field width of %r is %r, not max(%d, bit_length(max))" % (index, width(index), w0))
    limits = []
    for node in ast.walk(tree):
        if isinstance(node, ast.IfExp) and isinstance(node.body, ast.Constant) and node.body.value == "int":
            t = node.test
            if isinstance(t, ast.Compare) and len(t.ops) == 1 and isinstance(t.ops[0], ast.Lt):
                try:
                    limits.append(int(eval(compile(ast.Expression(t.comparators[0]), "<lim>", "eval"), {"__builtins__": {}})))
                except Exception:
                    raise ExtractError("non-constant int/Py_ssize_t threshold")
    if not limits or len(set(limits)) != 1:
        raise ExtractError("int/Py_ssize_t loop thresholds: %r" % limits)
    return w0, limits[0], ast.unparse(width_exprs[0])


def extract_chain(Code, stage):
    """G: `compression_algorithms` (number, name) and the module selection of __Pyx_DecompressString."""
    algos = [(int(n), str(nm)) for n, nm, _ in Code.compression_algorithms]
    ctext = open(os.path.join(stage, "Cython", "Utility", "StringTools.c")).read()
    m = re.search(r'module_name\s*=\s*algo\s*==\s*(\d+)\s*\?\s*"([\w.]+)"\s*:\s*algo\s*==\s*(\d+)\s*\?\s*"([\w.]+)"\s*:\s*"([\w.]+)"', ctext)
    if not m:
        raise ExtractError("module selection of __Pyx_DecompressString not found")
    cmap = {int(m.group(1)): m.group(2), int(m.group(3)): m.group(4), None: m.group(5)}
    return algos, cmap


ALGO_LEAN = {"lzss": ".lzss", "zlib": ".zlib", "bz2": ".bz2", "zstd": ".zstd"}
MODNAME = {"zlib": "zlib", "bz2": "bz2", "zstd": "compression.zstd"}


def regenerated_obligations(ctx, Code, name_chars, wrap=0):
    notes = ctx.notes
    ok = True
    # scanner parameters
    src = ("import CyVerif.Model.C10\nopen CyVerif.C10 in\nexample : (LexP.mk [%s] %s).WF := by decide\n"
           % (", ".join(str(c) for c in name_chars), "true" if wrap else "false"))
    ok &= ctx.lean_obligation("LexP.WF(current \\N{…} name characters of the scanner)", src,
                              "characters accepted inside \\N{…} by the real scanner (probed): %r — '}' and backslash excluded, all ASCII"
                              % "".join(chr(c) for c in name_chars))
    # table constants
    try:
        mw, il, wexpr = extract_table_params(Code)
        notes["table_params"] = {"minWidth": mw, "intLoopLimit": il, "width_expression": wexpr}
        src = "import CyVerif.Model.C10Table\nopen CyVerif.C10 in\nexample : (TableP.mk %d %d).WF := by decide\n" % (mw, il)
        ok &= ctx.lean_obligation("TableP.WF(current bit-field width rule, int-loop threshold)", src,
                                  "width = max(%d, bit_length(max index)) [%s], `int` loop variable below %d entries" % (mw, wexpr, il))
        notes["table_theorem_applicable"] = ("table_roundtrip (full)" if mw >= 1 else
                                             "table_roundtrip_partial (minWidth = 0: zero_width_counterexample applies to this tree)")
    except ExtractError as e:
        ctx.obligation("translate generate_pystring_constants constants", False, str(e))
        mw, il, ok = 0, 2 ** 15, False
    # compression chain
    try:
        algos, cmap = extract_chain(Code, ctx.stage)
        notes["compression_algorithms"] = algos
        notes["c_module_selection"] = {str(k): v for k, v in cmap.items()}
        bad = [nm for _, nm in algos if nm not in ALGO_LEAN]
        cm_ok = cmap.get(3) == "compression.zstd" and cmap.get(2) == "bz2" and cmap.get(None) == "zlib"
        if bad or not cm_ok:
            ctx.obligation("compression chain translates to the model", False, "algorithms %r, C selection %r" % (algos, cmap))
            ok = False
        else:
            src = ("import CyVerif.Model.C10Table\nopen CyVerif.C10 in\nexample : chainWF [%s] = true := by decide\n"
                   % ", ".join("⟨%d, %s⟩" % (n, ALGO_LEAN[nm]) for n, nm in algos))
            ok &= ctx.lean_obligation("chainWF(current compression_algorithms vs __Pyx_DecompressString module selection)", src,
                                      "numbers %r select the module whose compressor was used" % (algos,))
    except ExtractError as e:
        ctx.obligation("translate compression_algorithms", False, str(e))
        algos, ok = [], False
    return ok, mw, il, algos


# ---------------- compile with capture (in-process), parse the generated C


def compile_capture(ctx, name, source):
    """compile `source` with the staged compiler in-process; returns dict(cfile, texts, bytes, errors)"""
    from Cython.Compiler import Main, Code
    d = os.path.join(ctx.scratch, "tb", name)
    os.makedirs(d, exist_ok=True)
    path = os.path.join(d, name + ".pyx")
    with open(path, "w", encoding="utf-8") as f:
        f.write(source)
    cap = {}
    orig = Code.GlobalState.generate_pystring_constants

    def wrapper(self, text_strings, byte_strings):
        cap["texts"] = [(bool(i), str(c), str(t)) for i, c, t in text_strings]
        cap["bytes"] = [(str(c), bytes(t) if isinstance(t, bytes) else bytes(t.byteencode() if t.encoding else t.utf8encode()))
                        for _, c, t in byte_strings]
        return orig(self, text_strings, byte_strings)
    Code.GlobalState.generate_pystring_constants = wrapper
    err = None
    try:
        cwd = os.getcwd()
        os.chdir(d)
        try:
            with contextlib_redirect():
                res = Main.compile(path, Main.CompilationOptions(language_level=3))
            nerr = res.num_errors
        finally:
            os.chdir(cwd)
    except Exception as e:
        nerr, err = 1, "%s: %s" % (type(e).__name__, str(e)[:300])
    finally:
        Code.GlobalState.generate_pystring_constants = orig
    return {"dir": d, "cfile": os.path.join(d, name + ".c"), "texts": cap.get("texts"), "bytes": cap.get("bytes"),
            "errors": nerr, "exc": err}


class contextlib_redirect:
    """silence the compiler's error listing on stderr"""

    def __enter__(self):
        self._old = sys.stderr
        sys.stderr = io.StringIO()

    def __exit__(self, *a):
        self.text = sys.stderr.getvalue()
        sys.stderr = self._old
        return False


DECL_RE = re.compile(r"static const char (\w+)\[\] = (.*);\s*$")


def parse_table_c(ctext, stringtab="__pyx_string_tab"):
    """the string-table section of a generated C file -> dict; raises ExtractError if it is not understood"""
    T = {"defines": {}, "branches": [], "default_macro": None}
    for m in re.finditer(r"^\s*#define (\w+) %s\[(\d+)\]\s*$" % re.escape(stringtab), ctext, re.M):
        T["defines"][m.group(1)] = int(m.group(2))
    lines = ctext.split("\n")
    start = None
    for i, l in enumerate(lines):
        if "_length_index[] =" in l:
            start = i
            break
    for kind in ("str", "bytes"):
        m = re.search(r"const struct \{ const unsigned int length: (\d+); \} %s_length_index\[\] = \{(.*?)\};" % kind, ctext)
        if m:
            T[kind + "_width"] = int(m.group(1))
            T[kind + "_index"] = [int(x) for x in re.findall(r"\{(\d+)\}", m.group(2))]
        else:
            T[kind + "_width"], T[kind + "_index"] = 0, []
    if start is None:
        # a module without any Python string constant
        start = next((i for i, l in enumerate(lines) if "/* compression: none" in l), None)
        if start is None:
            raise ExtractError("string table section not found")
    end = next((i for i in range(start, len(lines)) if "PyObject **stringtab =" in lines[i]), None)
    if end is None:
        raise ExtractError("end of the data section not found")
    depth, cur = 0, None

    def new_branch(guard, comment):
        b = {"guard": guard, "comment": comment, "string": None, "array": None, "call": None, "var": None}
        T["branches"].append(b)
        return b
    msvc = None     # None | 'array' | 'string'  (inside `#ifdef _MSC_VER` of one declaration)
    for l in lines[start:end]:
        s = l.strip()
        m = re.match(r"#define CYTHON_COMPRESS_STRINGS (\d+)", s)
        if m:
            T["default_macro"] = int(m.group(1))
        if s.startswith("#if") and "CYTHON_COMPRESS_STRINGS)" in s and depth == 0:
            depth = 1
            cur = new_branch(s.split("/*")[0].strip()[3:].strip(), s)
            continue
        if depth >= 1 and s.startswith(("#if", "#ifdef", "#ifndef")):
            if s.startswith("#ifdef _MSC_VER"):
                msvc = "array"
            depth += 1
            continue
        if depth >= 1 and s.startswith("#endif"):
            depth -= 1
            if msvc and depth >= 1:
                msvc = None
            continue
        if depth == 1 and s.startswith("#elif"):
            cur = new_branch(s.split("/*")[0].strip()[5:].strip(), s)
            continue
        if s.startswith("#else") and depth == 1 and "compression: none" in s:
            cur = new_branch("else", s)
            continue
        if s.startswith("#else") and msvc == "array":
            msvc = "string"
            continue
        if depth == 0 and s.startswith("/* compression: none"):
            cur = new_branch("else", s)
            continue
        if depth == 0 and s.startswith("#ifdef _MSC_VER"):
            msvc, depth = "array", 1
            continue
        m = DECL_RE.match(s)
        if m and cur is not None:
            cur["var"] = m.group(1)
            if m.group(2).startswith("{"):
                cur["array"] = m.group(2)
            else:
                cur["string"] = m.group(2)
            continue
        m = re.match(r"PyObject \*data = (__Pyx_DecompressString(?:_LZSS)?)\(cstring, (\d+), (\d+)\);", s)
        if m and cur is not None:
            cur["call"] = (m.group(1), int(m.group(2)), int(m.group(3)))
    sect = "\n".join(lines[end:end + 60])
    loops = re.findall(r"for \((int|Py_ssize_t) i = (\d+); i < (\d+); i\+\+\) \{\s*\n\s*Py_ssize_t bytes_length = (str|bytes)_length_index", sect)
    T["loops"] = [(t, int(a), int(b), k) for t, a, b, k in loops]
    m = re.search(r"i >= (\d+)\) PyUnicode_InternInPlace", sect)
    T["first_interned"] = int(m.group(1)) if m else -1
    if not T["branches"] or T["branches"][-1]["guard"] != "else" or T["branches"][-1]["string"] is None:
        raise ExtractError("uncompressed branch not found")
    return T


def eval_guard(guard, macro, version_hex):
    """evaluate a chain guard the way the preprocessor does"""
    if guard == "else":
        return True
    expr = guard.replace("(CYTHON_COMPRESS_STRINGS)", "(%d)" % macro).replace("__PYX_LIMITED_VERSION_HEX", str(version_hex))
    expr = expr.replace("&&", " and ").replace("||", " or ")
    if not re.fullmatch(r"[\d\s()<>=!andorx0-9a-fA-F-]+", expr):
        raise ExtractError("guard not understood: " + guard)
    return bool(eval(expr, {"__builtins__": {}}))


def array_elements(text):
    """`{'a','\\n',…}` -> list of character-constant texts (with their quotes)"""
    return re.findall(r"'(?:\\.|[^'\\])+'", text)


def texts_arg(texts):
    return ";".join("%s:%s:%s" % ("I" if i else "N", c.encode().hex(), cps(t)) for i, c, t in texts) if texts else "-"


def bytes_arg(bts):
    return ";".join("%s:%s" % (c.encode().hex(), hx(b)) for c, b in bts) if bts else "-"


def expected_consts(cap, defines):
    """captured generator inputs placed at their #defined positions -> canonical constants string of the driver"""
    n = len(cap["texts"]) + len(cap["bytes"])
    slots = [None] * n
    for i, c, t in cap["texts"]:
        if c not in defines or not (0 <= defines[c] < n) or slots[defines[c]] is not None:
            return None
        slots[defines[c]] = ("I:" if i else "N:") + cps(t)
    for c, b in cap["bytes"]:
        if c not in defines or not (0 <= defines[c] < n) or slots[defines[c]] is not None:
            return None
        slots[defines[c]] = "B:" + hx(b)
    if any(s is None for s in slots):
        return None
    return ";".join(slots) if slots else "-"


# ---------------- module generators (D-c)

FSTRING_EXTRAS = [
    'f"a{X!r:>{W}}b\\x41{{{S}}}"', "f'{X}'", "f'{{}}'", "f'\\N{BULLET}{S!s}\\u20ac'", "f'''{X:04d}\n{S*2}'''",
    'rf"\\x41{X}\\n"', "f'{S!a}'", "f'x{X=}'", "F'{X}{W}' 'tail' f'{S}'", "'pre' f'{X}' \"post\"",
]


def literal_pool(ctx, impl, n, kinds=KINDS):
    """(source, value) of literals accepted by both the real parser and CPython with equal values"""
    rng = ctx.rng
    out, seen, tries = [], set(), 0
    while len(out) < n and tries < n * 30:
        tries += 1
        kind, raw = rng.choice(kinds)
        if not PREFIX[(kind, raw)]:
            continue
        body = gen_body(rng, kind)
        try:
            body.encode("utf-8")
        except UnicodeEncodeError:
            continue
        if "\x0c" in body or "\x0b" in body or "\x1c" in body or "\x1d" in body or "\x1e" in body or "\x85" in body or " " in body:
            continue    # characters that some line-splitting code treats as line ends: keep module texts unambiguous
        src = make_source(rng, kind, raw, body)
        if src is None or src in seen:
            continue
        r = impl.parse(src)
        o = cpython_value(kind, src)
        if r[0] != "ok" or o[0] != "ok":
            continue
        val = r[3] if kind in "usf" else r[2]
        if val != o[1]:
            continue
        seen.add(src)
        out.append((src, signed_char(o[1][0]) if kind == "c" else o[1]))
    return out


def signed_char(b):
    """a char literal is a C `char` (signed on this platform) when it becomes a Python int"""
    return b if b < 128 else b - 256


def module_source(items, with_vars=True):
    lines = ["# -*- coding: utf-8 -*-"]
    if with_vars:
        lines += ["X = 42", "W = 7", "S = 'é'"]
    for i, (src, _) in enumerate(items):
        lines.append("v%d = %s" % (i, src))
    lines.append("def _all():")
    lines.append("    return [%s]" % ", ".join("v%d" % i for i in range(len(items))))
    return "\n".join(lines) + "\n"


def canon_value(v):
    if isinstance(v, (tuple, list)):
        return type(v).__name__ + ":[" + ";".join(canon_value(x) for x in v) + "]"
    return type(v).__name__ + ":" + repr(v)


def special_items():
    X, W, S = 42, 7, "é"
    items = []
    for src in FSTRING_EXTRAS:
        items.append((src, eval(src, {"X": X, "W": W, "S": S})))
    for src in ['""', 'b""', '"\\0"', 'b"\\0"', '"\\x00\\x00a\\x00"', 'b"\\x00\\xff\\x00"', '"\\ud800"', '"a\\udfffb\\U0001F600"',
                '"\\ud83d\\ude00"', "'\\U0010ffff\\uffff\\x7f\\x80\\xff\\u0100'", "'😀é€'", "u'\\N{GRINNING FACE}\\N{LATIN SMALL LETTER A}'",
                "b'\\377\\0\\1\\12\\123'", "'\\377\\0\\1\\12\\123'", "br'\\x00\\''", "r'\\N{BULLET}\\u1234'", "'??=??/\\\\?\"'", "b'??)??('",
                "'a' 'b' \"c\" '''d''' r'\\e'", "b'a' B'b' br'\\c'", "'%s %d' ", "b'/* */ // \\n #'", "'\\\n'", "'line1\\\nline2'",
                "'''a\nb'''", '"""\\\n"""']:
        items.append((src, eval(src)))
    items.append(("c'a'", 97))
    items.append(("c'\\n'", 10))
    items.append(("c'\\xff'", -1))
    items.append(("c'\\0'", 0))
    items.append(("c'\\''", 39))
    return items


def long_items(rng, big, lengths=(1998, 1999, 2000, 2001)):
    """strings whose C text crosses the 2000-character split at awkward places; `big`: one of 70000 characters"""
    items = []
    for n in lengths:
        for unit in ("\\\\", "?", "\\\"", "\\x00", "é", "\\377", "a"):
            body = unit * n
            src = '"' + body + '"'
            items.append((src, eval(src)))
            srcb = 'b"' + body + '"' if unit != "é" else None
            if srcb:
                items.append((srcb, eval(srcb)))
    if big:
        s = "".join(rng.choice(["ab", "cd ", "\\\\", "\\n", "?", "??", "\\\"", "é", "\\x00", "\\377", "😀", "xyz"]) for _ in range(big))
        src = '"' + s + '"'
        items.append((src, eval(src)))
        src = 'b"' + "".join(rng.choice(["ab", "\\\\", "\\x00", "\\377", "??/", "\\n", "q"]) for _ in range(big // 4)) + '"'
        items.append((src, eval(src)))
    return items


def word_items(rng, n):
    items = []
    for i in range(n):
        w = "".join(rng.choice("abcdefgh _") for _ in range(rng.randrange(3, 40))) + str(i)
        items.append((repr(w), w))
        if i % 3 == 0:
            b = bytes(rng.randrange(256) for _ in range(rng.randrange(0, 24))) + str(i).encode()
            items.append((repr(b), b))
    return items


ARR_RE = re.compile(r"#ifdef _MSC_VER\n(static const char (\w+)\[\] = \{.*?\};)\n#else\n(static const char \2\[\] = \".*?\";)\n#endif\n", re.S)


def check_array_forms(ctx, name, ctext, d):
    """C string constants (`__pyx_k_…`: used as `char*` / with `sizeof(x) - 1`) that have an MSVC array form:
    both forms must define the same array, terminator included (gcc reads both)."""
    for m in ARR_RE.finditer(ctext):
        var = m.group(2)
        if not var.startswith("__pyx_k_"):
            continue
        prog = ("#include <stdio.h>\n" + m.group(0) +
                "int main(void){ unsigned long h = 5381; size_t i; for (i = 0; i < sizeof(%s); i++) h = h * 33 + (unsigned char)%s[i];\n"
                " printf(\"%%lu %%lu %%d\\n\", (unsigned long)sizeof(%s), h, (int)%s[sizeof(%s) - 1]); return 0; }\n" % ((var,) * 5))
        src = os.path.join(d, "arr_%s.c" % var[:40])
        open(src, "w").write(prog)
        outs = []
        for flag in ([], ["-D_MSC_VER=1930"]):
            exe = src[:-2] + ("_msvc" if flag else "_std")
            p = subprocess.run(["gcc", "-w", "-O0"] + flag + [src, "-o", exe], stdout=subprocess.PIPE, stderr=subprocess.STDOUT, text=True)
            if p.returncode != 0:
                outs.append("cc-error " + p.stdout[-200:])
                continue
            outs.append(subprocess.run([exe], stdout=subprocess.PIPE, text=True, timeout=60).stdout.strip())
        ctx.count("B/array-form-of-C-string-constant")
        ctx.seen(("arr", name, var))
        if outs[0] != outs[1]:
            ctx.violation("msvc-array-form-lacks-terminator",
                          "%s: constant %s… (>= 64 KiB): string form gives (sizeof, hash, last) = %s, the `#ifdef _MSC_VER` array form %s: "
                          "no terminating NUL, `sizeof(x) - 1` drops the last character" % (name, var[:24], outs[0], outs[1]),
                          {"name": name, "constant": var})


# ---------------- one module: I-art (generated C -> Lean) and D-c (run under every macro value)

MACROS = [None, 0, 1, 2, 3, 45, 90, 91, -1]
PY_HEX = sys.hexversion


def gcc_build(cfile, so, macro, extra=()):
    cmd = ["gcc", "-O0", "-shared", "-fPIC", "-w", "-I" + cybuild.PYINC] + list(extra)
    if macro is not None:
        cmd.append("-DCYTHON_COMPRESS_STRINGS=%d" % macro)
    cmd += [cfile, "-o", so]
    p = subprocess.run(cmd, stdout=subprocess.PIPE, stderr=subprocess.STDOUT, text=True, timeout=1800)
    return p.returncode, p.stdout[-1500:]


def check_module(ctx, name, items, mw, il, algos, cmap, macros=MACROS, art=True, art_runs=True):
    """items: [(literal source, CPython value)].  Returns nothing; reports through ctx."""
    # a str literal with lone surrogates and a bytes literal equal to its unicode_escape form crash the compiler
    # (witness `surrogate_clash`): keep that combination out of the generated modules
    clash = set()
    for _, v in items:
        if isinstance(v, str) and any(0xD800 <= ord(ch) <= 0xDFFF for ch in v):
            clash.add(v.encode("unicode_escape"))
    items = [(s_, v) for s_, v in items if not (isinstance(v, bytes) and v in clash)]
    source = module_source(items)
    import time
    _t = [time.time()]
    tm = ctx.notes.setdefault("timing_modules_s", {}).setdefault(name, {})

    def lap(k):
        tm[k] = round(time.time() - _t[0], 1)
        _t[0] = time.time()
    cap = compile_capture(ctx, name, source)
    lap("cython")
    rep = {"module": source if len(source) < 4000 else source[:4000] + "…(%d characters; regenerated from the seed)" % len(source),
           "name": name}
    if cap["errors"] or cap["texts"] is None:
        ctx.violation("module-of-accepted-literals-does-not-compile", "%s: %s errors %s" % (name, cap["errors"], cap["exc"]), rep)
        return
    ctext = open(cap["cfile"], encoding="utf-8", errors="surrogateescape").read()
    try:
        T = parse_table_c(ctext)
    except ExtractError as e:
        ctx.tie_break("I-art: generated string-table section not understood", "%s: %s" % (name, e), rep)
        return
    ctx.notes.setdefault("modules", {})[name] = {
        "text_strings": len(cap["texts"]), "byte_strings": len(cap["bytes"]), "blob_bytes": sum(T["str_index"]) + sum(T["bytes_index"]),
        "branches": [b["comment"].split("/*")[-1].strip(" */") for b in T["branches"]], "default_macro": T["default_macro"],
        "array_form": any(b["array"] for b in T["branches"]), "loops": [(t, a, b) for t, a, b, _ in T["loops"]]}
    check_array_forms(ctx, name, ctext, cap["dir"])
    nT, nA = len(T["str_index"]), len(T["str_index"]) + len(T["bytes_index"])
    head = "C10 run %d %d %d %s %d %s %d %d %d" % (mw, il, T["str_width"], ",".join(map(str, T["str_index"])) or "-", T["bytes_width"],
                                                  ",".join(map(str, T["bytes_index"])) or "-", nT, nA, T["first_interned"])
    exp = expected_consts(cap, T["defines"])
    if exp is None:
        ctx.tie_break("I-art: #define positions do not cover the generator inputs", name, rep)
        return
    if art:
        lines = ["C10 compile %d %d %s %s" % (mw, il, texts_arg(cap["texts"]), bytes_arg(cap["bytes"]))]
        plain = T["branches"][-1]
        lines.append("C11 clex 0 " + hx(plain["string"].encode("ascii")))
        out = ctx.drv.batch(lines)
        ctx.count("B/compile-layout")
        m = re.match(r"ok sw=(\d+) si=(\S+) bw=(\d+) bi=(\S+) n=(\d+)/(\d+) fi=(-?\d+) blob=(\S+) defs=(\S+)$", out[0])
        if not m:
            ctx.tie_break("D-py generate_pystring_constants vs compileTable", "%s: model %s" % (name, short(out[0])), rep)
        else:
            sw, si, bw, bi, n1, n2, fi, blob, defs = m.groups()
            mdefs = {} if defs == "-" else {bytes.fromhex(k).decode(): int(v) for k, v in (d.split("=") for d in defs.split(","))}
            real = {"si": ",".join(map(str, T["str_index"])) or "-", "bi": ",".join(map(str, T["bytes_index"])) or "-",
                    "n": "%d/%d" % (nT, nA), "fi": str(T["first_interned"]), "blob": out[1][3:] if out[1].startswith("ok ") else out[1],
                    "defs": {k: v for k, v in T["defines"].items() if k in mdefs or True}}
            model = {"si": si, "bi": bi, "n": "%s/%s" % (n1, n2), "fi": fi, "blob": blob, "defs": mdefs}
            if T["str_index"]:
                real["sw"], model["sw"] = str(T["str_width"]), sw
            if T["bytes_index"]:
                real["bw"], model["bw"] = str(T["bytes_width"]), bw
            for k in model:
                if model[k] != real[k]:
                    ctx.tie_break("D-py generate_pystring_constants vs compileTable",
                                  "%s: %s differs: model %s, generated C %s" % (name, k, short(str(model[k])), short(str(real[k]))), rep)
            loops_ok = all((t == "int") == (b < il) for t, a, b, _ in T["loops"])
            if not loops_ok:
                ctx.tie_break("I-art loop variable types", "%s: %r vs threshold %d" % (name, T["loops"], il), rep)
        # every branch, read by the Lean C lexer / LZSS decoder / index walk
        lines, tags = [], []
        for b in (T["branches"] if art_runs else []):
            lit = hx(b["string"].encode("ascii"))
            if b["guard"] == "else":
                lines.append(head + " plain 0 " + lit)
                tags.append("none/string")
                lines.append(head + " plain 1 " + lit)
                tags.append("none/string-trigraphs")
            elif b["call"] and b["call"][0].endswith("_LZSS"):
                lines.append(head + " lzss 0 %s %d %d" % (lit, b["call"][1], b["call"][2]))
                tags.append("lzss/string")
            elif b["call"]:
                raw = ctx.drv.batch(["C11 clex 0 " + lit])[0]
                modname = cmap.get(b["call"][2], cmap[None])
                try:
                    comp = bytes.fromhex(raw[3:]) if raw != "ok -" else b""
                    if len(comp) != b["call"][1]:
                        raise ValueError("length %d, call says %d" % (len(comp), b["call"][1]))
                    data = __import__(modname, fromlist=["decompress"]).decompress(comp)
                    lines.append(head + " raw " + hx(data))
                    tags.append(modname + "/string")
                except Exception as e:
                    ctx.tie_break("I-art %s branch" % modname, "%s: %s" % (name, e), rep)
            if b["array"]:
                els = array_elements(b["array"])
                form = " chars 0 " + ".".join(e.encode("ascii").hex() for e in els)
                if b["guard"] == "else":
                    lines.append(head + form)
                    tags.append("none/msvc-array")
        res = ctx.drv.batch(lines) if lines else []
        for tag, r in zip(tags, res):
            ctx.count("B/I-art/" + tag)
            if r != "ok " + exp:
                ctx.tie_break("I-art: generated table (%s) read by the Lean run-time model" % tag,
                              "%s: model reads %s, generator inputs %s" % (name, short(r, 160), short(exp, 160)), rep)
    lap("lean-art")
    if not macros:
        return      # I-art only (a C file too large to build within the budget)
    # D-c
    want = canon_value([v for _, v in items])
    d = cap["dir"]

    def one(macro):
        so = os.path.join(d, "m%s" % ("def" if macro is None else str(macro).replace("-", "n")), name + cybuild.EXT_SUFFIX)
        os.makedirs(os.path.dirname(so), exist_ok=True)
        rc, log = gcc_build(cap["cfile"], so, macro)
        return macro, so, rc, log
    with cf.ThreadPoolExecutor(max_workers=min(16, len(macros))) as ex:
        builds = list(ex.map(one, macros))
    lap("gcc")
    def runit(b):
        macro, so, rc, log = b
        if rc != 0:
            return None
        try:
            return cybuild.run_cases(ctx, so, [("_all", "()")], timeout_per_case=120, modname=name)[0]
        except lib.Infra as e:
            # the module could not be imported (e.g. its string table does not decode): an observation, not an infrastructure error
            msg = str(e)
            last = [l for l in msg.strip().split("\n") if l.strip()][-1] if msg.strip() else ""
            return "err import failed: " + last[:200]
    cybuild.run_cases(ctx, builds[0][1], [], modname=name) if False else None
    runner = os.path.join(ctx.scratch, "runner.py")
    if not os.path.exists(runner):
        with open(runner, "w") as f:
            f.write(cybuild._RUNNER)
    with cf.ThreadPoolExecutor(max_workers=min(8, len(macros))) as ex:
        gots = list(ex.map(runit, builds))
    lap("run")
    for (macro, so, rc, log), got in zip(builds, gots):
        eff = T["default_macro"] if macro is None else macro
        eff = 0 if eff is None else eff
        branch = next(b for b in T["branches"] if eval_guard(b["guard"], eff, PY_HEX))
        tag = "macro=%s->%s" % ("unset" if macro is None else macro, branch["comment"].split("compression:")[-1].split("(")[0].strip())
        ctx.count("B/D-c/" + tag)
        rep2 = dict(rep, macro=macro, literals=[short(src_, 200) for src_, _ in items[:12]], n_literals=len(items))
        if rc != 0:
            ctx.violation("module-does-not-build/" + tag, "%s: gcc: %s" % (name, log[-300:]), rep2)
            continue
        ctx.seen(("D-c", name, macro, hash(want)))
        if got != "ok " + want:
            k = 0
            a, b = got, "ok " + want
            while k < min(len(a), len(b)) and a[k] == b[k]:
                k += 1
            ctx.violation("runtime-value-differs/" + tag,
                          "%s: module constants differ from CPython at offset %d: got …%s, want …%s"
                          % (name, k, short(a[max(0, k - 30):k + 60], 100), short(b[max(0, k - 30):k + 60], 100)), rep2)


# ---------------- smaller ties: UTF-8 codec, escape token lengths, implicit concatenation


def run_utf8(ctx):
    rng = ctx.rng
    lines, want = [], []
    pieces = [b"a", b"\x00", b"\x7f", b"\x80", b"\xbf", b"\xc0\x80", b"\xc1\xbf", b"\xc2\x80", b"\xdf\xbf", b"\xe0\x80\x80", b"\xe0\x9f\xbf",
              b"\xe0\xa0\x80", b"\xed\x9f\xbf", b"\xed\xa0\x80", b"\xed\xbf\xbf", b"\xee\x80\x80", b"\xef\xbf\xbf", b"\xf0\x80\x80\x80",
              b"\xf0\x8f\xbf\xbf", b"\xf0\x90\x80\x80", b"\xf4\x8f\xbf\xbf", b"\xf4\x90\x80\x80", b"\xf5\x80\x80\x80", b"\xff", b"\xe2\x82",
              b"\xf0\x9f\x98", b"\xc3", "é€😀".encode()]
    cases = [b""] + pieces + [a + b for a in pieces for b in pieces[:8]]
    for _ in range(3000 if ctx.quick else 60000):
        n = rng.randrange(1, 6)
        cases.append(b"".join(rng.choice(pieces) if rng.random() < 0.7 else bytes([rng.randrange(256)]) for _ in range(n)))
    for b in cases:
        lines.append("C10 utf8dec " + hx(b))
        try:
            want.append("ok " + cps(b.decode("utf-8")))
        except UnicodeDecodeError:
            want.append("err UnicodeDecodeError")
    edges = [0, 0x7F, 0x80, 0x7FF, 0x800, 0xD7FF, 0xD800, 0xDBFF, 0xDC00, 0xDFFF, 0xE000, 0xFFFF, 0x10000, 0x10FFFF]
    strs = [[c] for c in edges] + [[a, b] for a in edges for b in edges[:6]]
    for _ in range(2000 if ctx.quick else 40000):
        strs.append([rng.choice(edges) if rng.random() < 0.5 else rng.randrange(0x110000) for _ in range(rng.randrange(0, 5))])
    for cp in strs:
        lines.append("C10 utf8enc " + (",".join("%x" % c for c in cp) or "-"))
        try:
            want.append("ok " + hx("".join(map(chr, cp)).encode("utf-8")))
        except UnicodeEncodeError:
            want.append("err UnicodeEncodeError")
    out = ctx.drv.batch(lines)
    for l, o, w in zip(lines, out, want):
        ctx.count("U/" + l.split(" ")[1] + "/" + w[:3].strip())
        ctx.seen(("utf8", l))
        if o != w:
            ctx.tie_break("reference UTF-8 codec vs CPython", "%s: Lean %s, CPython %s" % (short(l), short(o), short(w)), {"line": l})


def run_esclen(ctx, impl, name_chars):
    NC = hx(bytes(c for c in name_chars if c < 256))
    lines, want, srcs = [], [], []
    bodies = boundary_bodies() + [gen_body(ctx.rng, "s") for _ in range(500 if ctx.quick else 6000)]
    for body in bodies:
        if not delimitable(body, '"""'):
            continue
        src = '"""' + body + '"""'
        toks = impl.tokens(src, limit=200)
        if not toks or toks[0][0] != "BEGIN_STRING":
            continue
        pos = 0
        for sy, text in toks[1:]:
            if sy == "END_STRING":
                break
            if sy == "ESCAPE":
                lines.append("C10 esclen %s %s" % (NC, cps(body[pos + 1:])))
                want.append("ok %d" % (len(text) - 1))
                srcs.append((body, pos))
            if sy not in ("CHARS", "ESCAPE", "NEWLINE"):
                break
            pos += len(text)
    out = ctx.drv.batch(lines)
    for o, w, (body, pos) in zip(out, want, srcs):
        ctx.count("L/escape-token")
        ctx.seen(("esclen", body, pos))
        if o != w:
            ctx.tie_break("D-py Lexicon escapeseq (token length) vs escLen", "body %r at %d: model %s scanner %s" % (short(body, 60), pos, o, w),
                          {"body": body, "pos": pos})


def run_cat(ctx, impl):
    rng = ctx.rng
    pool = {}
    for kind, raw in KINDS:
        pool[(kind, raw)] = literal_pool(ctx, impl, 12, kinds=[(kind, raw)])
    ck = {"u": "u", "s": "u", "b": "b", "c": "c", "f": "f"}
    lines, meta = [], []
    for _ in range(600 if ctx.quick else 6000):
        n = rng.choice((1, 2, 2, 3, 4))
        style = rng.random()
        parts = []
        for _i in range(n):
            if style < 0.45:
                key = rng.choice([k for k in pool if k[0] in "usf"])
            elif style < 0.7:
                key = rng.choice([k for k in pool if k[0] == "b"])
            else:
                key = rng.choice(list(pool))
            if pool[key]:
                parts.append((key[0],) + rng.choice(pool[key]))
        if not parts:
            continue
        src = rng.choice([" ", "  ", "\t"]).join(p[1] for p in parts)
        vals = [(ck[k], (bytes([v & 0xFF]) if k == "c" else v)) for k, _, v in parts]
        lines.append("C10 cat " + " ".join("%s:%s" % (k, cps(v)) for k, v in vals))
        meta.append((src, parts))
    out = ctx.drv.batch(lines)
    for o, (src, parts) in zip(out, meta):
        mcy, mref = o.split(" | ")
        r = impl.parse(src)
        if r[0] == "ok":
            v = r[3] if r[1] in ("u", "f", "") else r[2]
            impl_s = "ok %s:%s" % ("u" if r[1] == "" else r[1], cps(v))
        else:
            impl_s = "err"
        ctx.count("C/%d-parts/%s" % (len(parts), impl_s[:3].strip()))
        ctx.seen(("cat", src))
        rep = {"source": src}
        if (mcy if mcy.startswith("ok") else "err") != impl_s:
            ctx.tie_break("D-py p_cat_string_literal vs cyCat", "%s: model %s impl %s" % (short(src, 100), short(mcy), short(impl_s)), rep)
        if any(k == "c" for k, _, _ in parts):
            continue
        o2 = cpython_value("s", src)
        if o2[0] == "unsupported":
            continue
        if o2[0] == "ok":
            kind = "b" if isinstance(o2[1], bytes) else ("f" if any(k == "f" for k, _, _ in parts) else "u")
            oracle = "ok %s:%s" % (kind, cps(o2[1]))
        else:
            oracle = "err"
        if (mref if mref.startswith("ok") else "err") != oracle:
            ctx.tie_break("reference refCat vs CPython", "%s: Lean %s CPython %s" % (short(src, 100), short(mref), short(oracle)), rep)
        if impl_s != oracle:
            if impl_s.startswith("ok"):
                ctx.violation("concatenation-wrong-value", "%s: Cython %s, CPython %s" % (short(src, 100), short(impl_s), short(oracle)), rep)
            else:
                ctx.violation("concatenation-rejected", "%s rejected, CPython %s" % (short(src, 100), short(oracle)), rep)


# ---------------- witnesses of the counterexample theorems, replayed on the real code


def safe_run(ctx, so, cases, modname):
    """run_cases, with a failing module import as an outcome"""
    try:
        return cybuild.run_cases(ctx, so, cases, modname=modname)
    except lib.Infra as e:
        return ["err import failed: " + str(e).strip().split("\n")[-1][:200]] * len(cases)


def witnesses(ctx, impl, mw):
    # (1) zero-width bit-field: a module whose only bytes constant is b""
    cap = compile_capture(ctx, "zw", 'x = b""\n')
    note = {}
    if cap["errors"]:
        ctx.violation("table-zero-width-bitfield", "x = b\"\" does not compile: %s" % cap["exc"], {"module": 'x = b""\n'})
    else:
        ctext = open(cap["cfile"]).read()
        m = re.search(r"unsigned int length: (\d+); \} bytes_length_index", ctext)
        so = os.path.join(cap["dir"], "zw" + cybuild.EXT_SUFFIX)
        rc, log = gcc_build(cap["cfile"], so, None)
        note = {"bytes_width_written": int(m.group(1)) if m else None, "gcc_rc": rc}
        model = ctx.drv.batch(["C10 compile %d 32768 - %s:-" % (mw, b"c".hex())])[0]
        mwidth = re.search(r"bw=(\d+)", model)
        if m and mwidth and int(mwidth.group(1)) != int(m.group(1)):
            ctx.tie_break("D-py bit-field width rule vs widthOf", "x = b\"\": model %s, generated %s" % (mwidth.group(1), m.group(1)), {})
        if rc != 0:
            ctx.violation("table-zero-width-bitfield",
                          "module `x = b\"\"` (only bytes constant is empty): generated C does not compile: %s"
                          % " ".join(l for l in log.split("\n") if "error" in l)[:200], {"module": 'x = b""\n'})
        else:
            got = safe_run(ctx, so, [("__getattribute__", "('x',)")], "zw")[0]
            note["runs"] = got
            if got != "ok bytes:b''":
                ctx.violation("table-zero-width-bitfield", "x = b\"\" gives %s" % got, {"module": 'x = b""\n'})
    ctx.notes["witness_zero_width"] = note
    # (1b) a str literal with a lone surrogate followed by the bytes literal spelling its unicode_escape form
    src = 'a = "\\ud800"\nb = b"\\\\ud800"\ndef _all():\n    return [a, b]\n'
    cap = compile_capture(ctx, "clash", src)
    ctx.count("W/surrogate-clash")
    ok = False
    if not cap["errors"]:
        so = os.path.join(cap["dir"], "clash" + cybuild.EXT_SUFFIX)
        rc, log = gcc_build(cap["cfile"], so, None)
        if rc == 0:
            ok = safe_run(ctx, so, [("_all", "()")], "clash")[0] == "ok " + canon_value(["\ud800", b"\\ud800"])
    ctx.notes["witness_surrogate_clash"] = {"compiles_and_runs": ok, "exc": cap["exc"]}
    if not ok:
        ctx.violation("module-crash/surrogate-str-then-equal-bytes",
                      "module `a = \"\\ud800\"; b = b\"\\\\ud800\"` crashes the compiler: %s" % (cap["exc"] or "")[:160], {"module": src})
    # (2) the completeness counterexamples of part A
    res = {}
    for key, src, want in (("literal-rejected/octal-escape-above-377", "'\\400'", "Ā"),
                           ("literal-rejected/N-name-charset", "'\\N{CJK UNIFIED IDEOGRAPH-4E00}'", "一"),
                           ("literal-rejected/raw-fstring-backslash-newline", 'rf"\\\n"', "\\\n")):
        r = impl.parse(src)
        res[key] = canon_impl(r)
        ctx.count("W/" + key.split("/")[1])
        if not (r[0] == "ok" and r[3] == want):
            ctx.violation(key, "%s is %s; CPython gives %r" % (short(src), canon_impl(r), want), {"literal": {"source": src}})
    ctx.notes["witness_rejected_literals"] = res


def run_tables(ctx, impl, mw, il, algos, cmap):
    rng = ctx.rng
    specials = special_items()
    pool = literal_pool(ctx, impl, 120 if ctx.quick else 600)
    # M1: every literal form, small table
    check_module(ctx, "lits", specials + pool, mw, il, algos, cmap)
    # M2: large table: all compression variants, 2000-character split, 64 KiB array form
    items = (word_items(rng, 260) + pool[:40] +
             long_items(rng, 2500 if ctx.quick else 30000,
                        (1999, 2000, 2001) if ctx.quick else (1990, 1997, 1998, 1999, 2000, 2001, 2003, 3999, 4001)))
    sur = '"\\ud800' + "x" * 66000 + 'END"'
    items.append((sur, eval(sur)))
    check_module(ctx, "big", items, mw, il, algos, cmap, macros=[None, 0, 1, 2, 45] if ctx.quick else MACROS)
    # M3: a table of moderate size (LZSS only or none), strings with many NULs and high bytes
    items = [(repr(bytes([i % 256] * (i % 7))), bytes([i % 256] * (i % 7))) for i in range(0, 300, 7)]
    items += [(repr("\x00" * i + chr(0x10000 + i)), "\x00" * i + chr(0x10000 + i)) for i in range(40)]
    check_module(ctx, "nuls", items, mw, il, algos, cmap, macros=[None, 0] if ctx.quick else [None, 0, 1, 90])
    # M3b: index maxima that are powers of two (boundary of the bit-field width rule); no other long strings in the module
    items = [(repr("p" * n), "p" * n) for n in (1, 2, 4, 8, 16, 31, 32)] + [(repr(b"q" * n), b"q" * n) for n in (0, 1, 2, 3, 4)]
    check_module(ctx, "pow2", items, mw, il, algos, cmap, macros=[None, 0])
    if not ctx.quick:
        # M4: more than 2**15 text strings: Py_ssize_t loop variable.  Generated C only (gcc needs > 30 min for this file,
        # the list-based run-time model is quadratic in the number of entries): layout vs compileTable, loop variable types.
        items = [(repr("k%dz" % i), "k%dz" % i) for i in range(il + 40)] + [(repr(b"q%d" % i), b"q%d" % i) for i in range(50)]
        check_module(ctx, "many", items, mw, il, algos, cmap, macros=[], art_runs=False)


# ---------------- codec boundary leg: repeats engineered to hit every token-form threshold of lzss_compress


def lzss_thresholds(stage):
    """offset / length thresholds of the current LZSS.py (via the C12 translator); fall-back: the pinned values"""
    try:
        from props import c12 as C12H
        P = C12H.extract_params(stage)
        return P
    except Exception:
        return {"shortMax": 0x7F, "midOffLim": 512, "midLenLim": 32, "longOffLim": 16384, "maxMatch": 258, "window": 16512}


def _unique_trigram_seq(rng, alphabet, n):
    for _ in range(200):
        s = [rng.choice(alphabet) for _ in range(n)]
        tri = set()
        ok = True
        for i in range(n - 2):
            t = (s[i], s[i + 1], s[i + 2])
            if t in tri:
                ok = False
                break
            tri.add(t)
        if ok:
            return s
    return s


def repeat_item(rng, gap, length, as_bytes):
    """HEAD + FILLER + HEAD: a phrase of `length` bytes repeated after exactly `gap` other bytes"""
    if as_bytes:
        head = bytes(_unique_trigram_seq(rng, list(range(128, 256)), length))
        fill = bytes(_unique_trigram_seq(rng, list(range(1, 92)) + list(range(93, 128)), gap))
        v = head + fill + head
    else:
        head = "".join(_unique_trigram_seq(rng, list("abcdefghijklmnopqrstuvwxyz0123456789+-*/=<>.,;:!@#$%^&()[]{}|~_"), length))
        fill = "".join(_unique_trigram_seq(rng, list("ABCDEFGHIJKLMNOPQRSTUVWXYZ "), gap))
        v = head + fill + head
    return (repr(v), v)


def codec_cases(ctx, P):
    s, m, ml = P["shortMax"], P["midOffLim"], P["midLenLim"]
    lo, mm = P["longOffLim"], P["maxMatch"]
    gaps_small = sorted(set([0, 1, 2] + list(range(s - 1, s + 4)) + list(range(2 * s, 2 * s + 5)) + list(range(3 * s + 1, 3 * s + 6))
                            + list(range(4 * (s + 1) - 2, 4 * (s + 1) + 3)) + list(range(s + m - 1, s + m + 5))))
    lens_all = sorted(set([3, 4, 5, ml + 1, ml + 2, ml + 3, ml + 4, ml + 5, 130, 131, 132, mm - 1, mm, mm + 1, mm + 42]))
    lens_few = sorted(set([4, ml + 2, ml + 3, 131])) if ctx.quick else sorted(set([3, 4, ml + 2, ml + 3, ml + 4, 131, mm, mm + 1]))
    cases = []
    for g in gaps_small:
        near_short = s - 1 <= g <= s + 3
        for L in (lens_all if near_short or not ctx.quick else lens_few):
            cases.append((g, L))
    big_g = [lo + s, lo + s + 1] if ctx.quick else [lo + s - 1, lo + s, lo + s + 1, lo + s + 2]
    for g in big_g:
        for L in ([4, ml + 3] if ctx.quick else [3, 4, ml + 2, ml + 3, mm]):
            cases.append((g, L))
    return cases


def lzss_tokens(comp, dst_len):
    """the C decoder transcribed to Python with bounds checks: (decoded bytes | None, tokens [(form, gap, length, out_pos)], error)"""
    pos, out, toks = 0, bytearray(), []
    n = len(comp)
    try:
        while True:
            flags = comp[pos] | 0xFF00
            pos += 1
            while flags & 0x100:
                if flags & 1:
                    out.append(comp[pos])
                    pos += 1
                else:
                    lo, hi = comp[pos], comp[pos + 1]
                    pos += 2
                    if not lo & 0x80:
                        form, gap, ln = "short", lo, hi
                    elif not hi & 0x80:
                        form, gap, ln = "mid", 0x80 + (((hi << 2) & 0x180) | (lo & 0x7F)), hi & 0x1F
                    else:
                        form, gap, ln = "long", 0x80 + ((hi & 0x7F) << 7 | (lo & 0x7F)), comp[pos]
                        pos += 1
                    ln += 3
                    ref = len(out) - gap - ln
                    if ref < 0 or len(out) + ln > dst_len:
                        return None, toks, "%s token gap=%d len=%d at output offset %d reads/writes outside the buffer" % (form, gap, ln, len(out))
                    toks.append((form, gap, ln, len(out)))
                    out += out[ref:ref + ln]
                if len(out) >= dst_len:
                    return bytes(out), toks, None if pos == n else "consumed %d of %d bytes" % (pos, n)
                flags >>= 1
    except IndexError:
        return None, toks, "read past the end of the compressed stream"


def run_codec(ctx, impl, mw, il, algos, cmap):
    from Cython.LZSS import lzss_compress
    import Cython.LZSS as LZ
    if not LZ.__file__.startswith(ctx.stage) or not LZ.__file__.endswith(".py"):
        raise lib.Infra("staged LZSS not in use: %s" % LZ.__file__)
    rng = ctx.rng
    P = lzss_thresholds(ctx.stage)
    cases = codec_cases(ctx, P)
    items, meta = [], []
    for i, (g, L) in enumerate(cases):
        it = repeat_item(rng, g, L, as_bytes=(i % 2 == 1))
        items.append(it)
        meta.append((g, L))
    runs = [(repr("r" * 1000), "r" * 1000), (repr(b"xy" * 700), b"xy" * 700), (repr("abc" * 300 + "abd" * 300), "abc" * 300 + "abd" * 300),
            (repr(b"\x00" * 5000), b"\x00" * 5000)]
    # D-py: the real compressor on each engineered string alone, read back by the transcribed C decoder
    hit = {}
    for (src, v), (g, L) in zip(items + runs, meta + [(-1, -1)] * len(runs)):
        data = v.encode("utf-8") if isinstance(v, str) else v
        comp = bytes(lzss_compress(data))
        dec, toks, err = lzss_tokens(comp, len(data))
        ctx.count("K/compress-alone")
        ctx.seen(("codec", data))
        for form, gap, ln, _ in toks:
            cls = (form, "gap=%d" % gap if gap <= P["shortMax"] + P["midOffLim"] + 4 or gap >= P["longOffLim"] else "gap~",
                   "len=%d" % ln if ln in (3, 4, P["midLenLim"] + 2, P["midLenLim"] + 3, 130, 131, P["maxMatch"]) else "len~")
            hit[cls] = hit.get(cls, 0) + 1
        if dec != data:
            ctx.violation("lzss-stream-misdecoded",
                          "lzss_compress of a %d-byte phrase repeated after exactly %d other bytes is not read back by the C decoder: %s"
                          % (L, g, err or "wrong bytes"),
                          {"string_literal": short(src, 900), "repeat_length": L, "gap": g, "data_hex": short(data.hex(), 2400),
                           "compressed_hex": short(comp.hex(), 600)})
    keyg = set("gap=%d" % g for g in (P["shortMax"], P["shortMax"] + 1, P["shortMax"] + P["midOffLim"], P["shortMax"] + P["midOffLim"] + 1,
                                       P["longOffLim"] + P["shortMax"], 0))
    ctx.notes["codec_tokens_hit"] = {"%s/%s/%s" % k: v for k, v in sorted(hit.items()) if k[1] in keyg}
    ctx.notes["codec_cases"] = {"thresholds": {k: P[k] for k in ("shortMax", "midOffLim", "midLenLim", "longOffLim", "maxMatch") if k in P},
                                "engineered_repeats": len(cases)}
    # D-c + I-art: the same strings in module tables (text and bytes), built under default (LZSS) / 0 / zlib / bz2-or-fallback / 90
    small = [(it, m) for it, m in zip(items, meta) if m[0] < 2000]
    large = [(it, m) for it, m in zip(items, meta) if m[0] >= 2000]
    chunks = [small[i::2] for i in range(2)] if not ctx.quick else [small]
    for k, ch in enumerate(chunks):
        check_module(ctx, "codec%d" % k, [it for it, _ in ch] + runs, mw, il, algos, cmap, macros=[None, 0, 1, 2, 90])
    if large and not ctx.quick:      # quick tier: the 16 KiB gaps are covered by the compress-alone leg above
        pad = [(repr("r" * 40000), "r" * 40000), (repr(b"\x01\x02" * 20000), b"\x01\x02" * 20000)]   # compressible: the LZSS variant is emitted
        check_module(ctx, "codecL", [it for it, _ in large] + pad, mw, il, algos, cmap, macros=[None, 0, 1])


# ---------------- line coverage of the modelled Python functions


def line_coverage(ctx, impl):
    from Cython.Compiler import Parsing, StringEncoding, Code
    funcs = {}

    def add(name, f):
        code = getattr(f, "__code__", None)
        if code is not None:
            funcs[code] = name
    for nm in ("_append_escape_sequence", "p_string_literal", "p_string_literal_shared_read", "p_cat_string_literal",
               "check_for_non_ascii_characters", "p_ft_string_literal", "_validate_kind_string"):
        add("Parsing." + nm, getattr(Parsing, nm))
    for cls in (StringEncoding.UnicodeLiteralBuilder, StringEncoding.BytesLiteralBuilder, StringEncoding.StrLiteralBuilder):
        for nm in ("append", "append_charval", "append_uescape", "getstring", "getstrings", "getchar"):
            if hasattr(cls, nm):
                add("%s.%s" % (cls.__name__, nm), getattr(cls, nm))
    add("Code.generate_pystring_constants", Code.GlobalState.generate_pystring_constants)
    add("Code._write_cstring_const", Code._write_cstring_const)
    hit = {c: set() for c in funcs}

    def tracer(frame, event, arg):
        if frame.f_code in hit:
            if event == "line":
                hit[frame.f_code].add(frame.f_lineno)
            return tracer
        return None
    rng = ctx.rng
    srcs = []
    for kind, raw in KINDS:
        if not PREFIX[(kind, raw)]:
            continue
        for body in boundary_bodies()[::7] + [gen_body(rng, kind) for _ in range(150)]:
            try:
                body.encode("utf-8")
            except UnicodeEncodeError:
                continue
            s = make_source(rng, kind, raw, body)
            if s:
                srcs.append(s)
    srcs += ["'a' 'b'", "b'a' b'b'", "'a' b'b'", "c'a' 'b'", "'a' c'b'", "f'a' 'b'", "'a' f'{1}'", "ub'x'", "bb'x'", "c'ab'", "rb'\\xé'",
             "'''a\nb'''", "'abc", "'''abc", "u'é'", "b'é'", "bu'x'"]
    sys.settrace(tracer)
    try:
        for s in srcs:
            impl.parse(s)
        items = special_items() + word_items(rng, 140) + long_items(rng, 3000)[-2:]
        compile_capture(ctx, "cov", module_source(items))
        compile_capture(ctx, "cov2", "x = 'only text'\n")
    finally:
        sys.settrace(None)
    res = {}
    for code, name in funcs.items():
        lines = set(l for _, _, l in code.co_lines() if l is not None and l != code.co_firstlineno)
        miss = sorted(lines - hit[code])
        res[name] = {"lines": len(lines), "executed": len(lines & hit[code]), "missed": miss}
    return res


def run(ctx):
    from Cython.Compiler import Code
    impl = Impl(ctx)
    ctx.rule = ("A: literal bodies = every backslash + ASCII character followed by 23 continuations (digits, hex, {name}, "
                "non-ASCII, newline) x 8 kinds/prefix classes (u, unprefixed, b, c, f part, r, br/rb, rf/fr), then seeded random bodies "
                "(55% escape items: simple, octal 1-3 digits incl. > 0o377, \\x/\\u/\\U with too few/enough/too many digits, "
                "surrogates, > U+10FFFF, \\N{valid|digit-name|alias|named sequence|unknown|unterminated}, unknown escapes, "
                "non-ASCII after backslash; ordinary ASCII/non-ASCII/BMP-edge/non-BMP characters, quotes, newlines, brace runs), "
                "random quote style and prefix case; non-trivial = body contains a backslash or a non-ASCII character. "
                "B: modules of accepted literals (all forms, NUL, lone surrogates, non-BMP, 1990..4001-character strings of "
                "backslashes/?/quotes/NUL/high bytes around the 2000-character split, 24k-40k item strings making a table >= 64 KiB, "
                "300-33000 distinct strings; codec-boundary modules: a phrase of L bytes repeated after exactly G other bytes for G around every "
                "offset threshold of lzss_compress (0..2, 126..130, 254..258, 382..386, 510..514, 638..642, 16510..16513) x L around every length "
                "threshold (3..5, 33..37, 130..132, 257..259, 300), long runs, as str and bytes constants) compiled once and built under CYTHON_COMPRESS_STRINGS unset/0/1/2/3/45/90/91/-1; the "
                "generated table section is read by the Lean C lexer + LZSS decoder + index walk. Distinct by (leg, input)")
    ctx.explanation = ("Theorems: (A) soundness of literal decoding for ALL bodies and kinds (accepted => CPython's value), implicit "
                       "concatenation; (B) table round trip for ALL string lists, ordering/interned invariant, #define positions, "
                       "end-to-end through the C literal (C11) and LZSS (C12) and every value of the macro. NOT covered by a theorem: "
                       "where the scanner ends a literal (quote matching, unclosed-line logic; sampled), source decoding (UTF-8 assumed), "
                       "f-string replacement fields, the route from literal nodes to the table (constant folding, dedup in "
                       "get_py_string_const, identifier interning), lone-surrogate literals (unicode_escape + "
                       "PyUnicode_DecodeUnicodeEscape: CPython's codec both ways, compiled leg only), char* constants, "
                       "zlib/bz2/zstd (CPython's codecs, assumed inverse), completeness (two classes of valid literals are "
                       "rejected: counterexample theorems).")
    ctx.assumptions += ["source files are UTF-8 (BytesLiteralBuilder encodes to the source encoding)",
                        "unicodedata.lookup('') raises KeyError (checked at run time)",
                        "zlib/bz2/compression.zstd decompress inverts compress (CPython's own codecs)",
                        "a C compiler accepts unsigned int bit-fields of width 1..32 and int holds 32767"]
    ctx.extra_trusted += ["Lean reference decoders refStr/refBytes/utf8Decode as the meaning of CPython's literal and UTF-8 semantics "
                          "(compared with CPython on every case)", "C11 model cLex (C lexer) and C12 model (LZSS decoder) as tied by their own checks",
                          "probe of the scanner's \\N{…} character set; ast extraction of the bit-field width rule, the int-loop "
                          "threshold and compression_algorithms; regex extraction of the table section of the generated C"]
    try:
        unicodedata.lookup("")
        ctx.obligation("unicodedata.lookup('') raises KeyError (hypothesis `lk [] = missing`)", False, "lookup('') returned a value")
    except KeyError:
        ctx.obligation("unicodedata.lookup('') raises KeyError (hypothesis `lk [] = missing`)", True, "checked in this interpreter")
    name_chars = probe_name_chars(impl)
    ctx.notes["scanner_name_chars"] = "".join(chr(c) for c in name_chars)
    try:
        wrap = probe_oct_wrap()
        ctx.obligation("BytesLiteralBuilder.append_charval above 255 is one of the two modelled variants", True,
                       "keeps the low 8 bits" if wrap else "raises UnicodeEncodeError (octWrap = false)")
    except ExtractErrorLate as e:
        wrap = 0
        ctx.obligation("BytesLiteralBuilder.append_charval above 255 is one of the two modelled variants", False, str(e))
    ctx.notes["oct_wrap"] = wrap
    g_ok, mw, il, algos = regenerated_obligations(ctx, Code, name_chars, wrap)
    try:
        _, cmap = extract_chain(Code, ctx.stage)
    except ExtractError:
        cmap = {3: "compression.zstd", 2: "bz2", None: "zlib"}
    if not g_ok:
        ctx.budget_scale = 2.0
    rc = getattr(ctx, "replay_case", None)
    if rc and rc.get("case", {}).get("literal"):
        run_literals(ctx, impl, name_chars, wrap)
        return
    import time
    t = [time.time()]
    ctx.notes["timing_s"] = {}

    def lap(name):
        ctx.notes["timing_s"][name] = round(time.time() - t[0], 1)
        t[0] = time.time()
    lap("G")
    witnesses(ctx, impl, mw)
    lap("witnesses")
    run_literals(ctx, impl, name_chars, wrap)
    lap("literals")
    run_esclen(ctx, impl, name_chars)
    lap("esclen")
    run_cat(ctx, impl)
    lap("cat")
    run_utf8(ctx)
    lap("utf8")
    run_tables(ctx, impl, mw, il, algos, cmap)
    lap("tables")
    run_codec(ctx, impl, mw, il, algos, cmap)
    lap("codec")
    ctx.notes["line_coverage"] = line_coverage(ctx, impl)
    lap("coverage")
    if os.environ.get("C10_DEBUG"):
        for t in ctx.tie_breaks[:40]:
            sys.stderr.write("TIE %s :: %s\n" % (t["name"], t["what"][:300]))
        for v in ctx.violations:
            sys.stderr.write("VIO %s :: %s\n" % (v["key"], v["what"][:300]))

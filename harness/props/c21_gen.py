"""C21 program generator: random structured functions over a few local variables whose
unbound-ness depends on run-time selectors.

Every function has the shape `def fN(c, L[, args]): ...`:
 * `c` is the chooser (class Chooser below, pure Python, same text for CPython and for the
   compiled run); every decision point ("site") k reads selector s[k]:
     c.b(k) -> bool            c.n(k) -> int for range()      c.w(k) -> while condition (True s[k] times)
     c.r(k) -> raises ValueError iff s[k]      c.cm(k) -> context manager (0 plain, 1 __enter__ raises,
     2 __exit__ swallows)      c.v(k) -> match subject picked from SUBJECTS
 * `L` is the observation log: every read is `L.append((K, <expr reading a variable>))`.
Assigned values are unique integers, so the log shows which definition was seen.
"""

CHOOSER_SRC = r'''
class _CM:
    def __init__(self, k, mode):
        self.k = k; self.mode = mode
    def __enter__(self):
        if self.mode == 1:
            raise ValueError(self.k)
        return 7000 + self.k
    def __exit__(self, t, v, tb):
        return self.mode == 2 and t is not None and issubclass(t, ValueError)

SUBJECTS = [0, 1, (1, 2), (3,), [4, 5, 6], {"a": 8}, {"a": 9, "b": 10}, "s", None]

class Chooser:
    def __init__(self, s, budget=7):
        self.s = s; self.left = {}; self.budget = budget
    def b(self, k):
        return bool(self.s[k])
    def n(self, k):
        n = min(self.s[k], self.budget)
        self.budget -= n
        return n
    def w(self, k):
        left = self.left.get(k, self.s[k])
        if left <= 0 or self.budget <= 0:
            self.left[k] = 0
            return False
        self.left[k] = left - 1
        self.budget -= 1
        return True
    def r(self, k):
        if self.s[k]:
            raise ValueError(k)
    def cm(self, k):
        return _CM(k, self.s[k])
    def v(self, k):
        return SUBJECTS[self.s[k]]
'''

NSUBJ = 9
VARS = ["x", "y", "z", "w"]


class FuncGen:
    """Generates one function.  `sites` = list of domain sizes of the selectors."""

    def __init__(self, rng, name, weights=None, max_sites=7, max_stmts=26):
        self.rng = rng
        self.name = name
        self.sites = []
        self.kinds = []
        self.lines = []
        self.K = 0
        self.max_sites = max_sites
        self.max_stmts = max_stmts
        self.nstmts = 0
        self.features = set()
        self.w = dict(DEFAULT_WEIGHTS)
        if weights:
            self.w.update(weights)
        nv = rng.choice((2, 3, 3, 4))
        self.vars = VARS[:nv]
        # variables captured by inner functions (never deleted / never except-targets: Cython rejects that)
        self.captured = [v for v in self.vars if rng.random() < 0.25]
        self.args = [v for v in self.vars if rng.random() < 0.15]
        self.bound = set(self.args)   # variables with a binding statement in the outer function
        self.in_inner_now = False
        self.inner = []          # names of inner functions defined so far (may be unbound at the call!)
        self.ninner = 0

    # ---- helpers
    def site(self, kind, dom):
        self.sites.append(dom)
        self.kinds.append(kind)
        return len(self.sites) - 1

    def can_site(self):
        return len(self.sites) < self.max_sites

    def const(self):
        self.K += 1
        return self.K

    def emit(self, ind, text):
        self.lines.append("    " * ind + text)

    def var(self, bind=False):
        v = self.rng.choice(self.vars)
        if bind and not self.in_inner_now:
            self.bound.add(v)
        return v

    def two(self):
        a, b = self.rng.sample(self.vars, 2) if len(self.vars) >= 2 else (self.vars[0], "_q")
        if not self.in_inner_now:
            self.bound.update((a, b))
        return a, b

    def free_var(self):
        cand = [v for v in self.vars if v not in self.captured]
        return self.rng.choice(cand) if cand else None

    # ---- expressions that read variables
    def read_expr(self, ctx):
        r = self.rng.random()
        v = self.var()
        if r < 0.70:
            return v
        if r < 0.78 and self.can_site():
            self.features.add("condexpr")
            return "(%s if c.b(%d) else %s)" % (v, self.site("b", 2), self.var())
        if r < 0.84 and self.can_site():
            self.features.add("boolop")
            return "(c.b(%d) and %s)" % (self.site("b", 2), v)
        if r < 0.90 and self.captured and not ctx.get("in_inner"):
            self.features.add("lambda")
            return "(lambda: %s)()" % self.rng.choice(self.captured)
        if r < 0.96 and self.can_site():
            self.features.add("listcomp")
            return "[(_i, %s) for _i in range(c.n(%d))]" % (v, self.site("n", 3))
        self.features.add("tuple")
        return "(%s, %s)" % (v, self.var())

    # ---- statements
    def stmt_read(self, ind, ctx):
        self.emit(ind, "L.append((%d, %s))" % (self.const(), self.read_expr(ctx)))

    def stmt_assign(self, ind, ctx):
        r = self.rng.random()
        v = self.var(bind=True)
        if r < 0.75:
            self.emit(ind, "%s = %d" % (v, self.const()))
        elif r < 0.83:
            self.features.add("augassign")
            self.emit(ind, "%s += 1000" % v)
        elif r < 0.90:
            self.features.add("multiassign")
            self.emit(ind, "%s, %s = %d, %d" % (v, self.var(bind=True), self.const(), self.const()))
        elif r < 0.95:
            self.features.add("cascade")
            self.emit(ind, "%s = %s = %d" % (v, self.var(bind=True), self.const()))
        elif r < 0.975:
            self.features.add("import")
            self.emit(ind, "import math as %s" % v)
        else:
            self.features.add("from-import")
            self.emit(ind, "from math import pi as %s" % v)

    def stmt_del(self, ind, ctx):
        v = self.free_var()
        if v is None or ctx.get("in_inner"):
            return self.stmt_read(ind, ctx)
        self.features.add("del")
        self.emit(ind, "del %s" % v)

    def stmt_raisepoint(self, ind, ctx):
        if not self.can_site():
            return self.stmt_read(ind, ctx)
        if self.rng.random() < 0.7:
            self.features.add("raising-call")
            self.emit(ind, "c.r(%d)" % self.site("r", 2))
        else:
            self.features.add("raise")
            self.emit(ind, "if c.b(%d): raise ValueError(%d)" % (self.site("b", 2), self.const()))

    def stmt_if(self, ind, ctx, depth):
        if not self.can_site():
            return self.stmt_read(ind, ctx)
        self.features.add("if")
        if self.rng.random() < 0.12:
            self.features.add("walrus")
            self.emit(ind, "if (%s := c.n(%d)):" % (self.var(bind=True), self.site("n", 3)))
        else:
            self.emit(ind, "if c.b(%d):" % self.site("b", 2))
        self.block(ind + 1, ctx, depth + 1)
        has_elif = self.rng.random() < 0.25 and self.can_site()
        has_else = self.rng.random() < 0.5
        if (not has_elif and not has_else and not ctx.get("in_inner") and not ctx.get("in_finally")
                and self.can_site() and self.rng.random() < 0.12):
            # both branches of an inner if/else leave the function.  Only at the end of the body of an `if` without
            # else: the code after it stays reachable (the pinned compiler drops unreachable code before it declares
            # names, and crashes on a lambda inside unreachable code)
            self.features.add("if-else-both-leave")
            self.emit(ind + 1, "if c.b(%d):" % self.site("b", 2))
            self.emit(ind + 2, "return %d" % self.const())
            self.emit(ind + 1, "else:")
            self.emit(ind + 2, "raise ValueError(%d)" % self.const())
        if has_elif:
            self.features.add("elif")
            self.emit(ind, "elif c.b(%d):" % self.site("b", 2))
            self.block(ind + 1, ctx, depth + 1)
        if has_else:
            self.emit(ind, "else:")
            self.block(ind + 1, ctx, depth + 1)

    def loop_tail(self, ind, ctx, depth):
        if self.rng.random() < 0.35:
            self.features.add("loop-else")
            self.emit(ind, "else:")
            self.block(ind + 1, ctx, depth + 1)

    def stmt_while(self, ind, ctx, depth):
        if not self.can_site():
            return self.stmt_read(ind, ctx)
        self.features.add("while")
        self.emit(ind, "while c.w(%d):" % self.site("w", 3))
        self.block(ind + 1, dict(ctx, loop=True, in_finally=False), depth + 1)
        self.loop_tail(ind, ctx, depth)

    def stmt_for(self, ind, ctx, depth):
        if not self.can_site():
            return self.stmt_read(ind, ctx)
        self.features.add("for")
        r = self.rng.random()
        k = self.site("n", 3)
        if r < 0.5:
            tgt, it = self.var(bind=True), "range(c.n(%d))" % k
        elif r < 0.62:
            tgt, it = "_j", "range(c.n(%d))" % k
        elif r < 0.8:
            self.features.add("for-list")
            tgt, it = self.var(bind=True), "[%d, %d][:c.n(%d)]" % (self.const(), self.const(), k)
        elif r < 0.92:
            self.features.add("for-tuple-target")
            tgt, it = "%s, %s" % self.two(), "[(%d, %d)][:c.n(%d)]" % (self.const(), self.const(), k)
        elif r < 0.96:
            self.features.add("for-enumerate")
            tgt, it = "%s, %s" % self.two(), "enumerate([%d, %d][:c.n(%d)])" % (self.const(), self.const(), k)
        elif r < 0.98:
            self.features.add("for-reversed")
            tgt, it = self.var(bind=True), "reversed(range(c.n(%d)))" % k
        else:
            self.features.add("for-range-step")
            tgt, it = self.var(bind=True), "range(0, 2 * c.n(%d), 2)" % k
        self.emit(ind, "for %s in %s:" % (tgt, it))
        self.block(ind + 1, dict(ctx, loop=True, in_finally=False), depth + 1)
        self.loop_tail(ind, ctx, depth)

    def stmt_jump(self, ind, ctx):
        r = self.rng.random()
        if r > 0.88 and self.can_site():
            self.features.add("assert")
            return self.emit(ind, "assert c.b(%d), %s" % (self.site("b", 2), self.var()))
        if ctx.get("in_finally"):
            return self.stmt_read(ind, ctx)
        if ctx.get("loop") and r < 0.7 and self.can_site():
            kw = "break" if self.rng.random() < 0.5 else "continue"
            self.features.add(kw)
            self.emit(ind, "if c.b(%d): %s" % (self.site("b", 2), kw))
        elif self.can_site() and not ctx.get("in_inner"):
            self.features.add("return")
            self.emit(ind, "if c.b(%d): return %d" % (self.site("b", 2), self.const()))
        else:
            self.stmt_read(ind, ctx)

    def stmt_try(self, ind, ctx, depth):
        self.features.add("try")
        r = self.rng.random()
        has_except = r < 0.8
        has_finally = r >= 0.8 or self.rng.random() < 0.3
        self.emit(ind, "try:")
        self.block(ind + 1, ctx, depth + 1, want_raise=True)
        if has_except:
            q = self.rng.random()
            tgt = self.free_var() if not ctx.get("in_inner") else None
            if q < 0.5:
                self.emit(ind, "except ValueError:")
            elif q < 0.7 and tgt:
                self.features.add("except-as")
                self.bound.add(tgt)
                self.emit(ind, "except ValueError as %s:" % tgt)
            elif q < 0.8:
                self.features.add("except-NameError")
                self.emit(ind, "except NameError:")
            elif q < 0.9:
                self.features.add("except-bare")
                self.emit(ind, "except:")
            else:
                self.features.add("except-two")
                self.emit(ind, "except NameError:")
                self.block(ind + 1, ctx, depth + 1)
                self.emit(ind, "except ValueError:")
            self.block(ind + 1, ctx, depth + 1)
            if self.rng.random() < 0.3:
                self.features.add("try-else")
                self.emit(ind, "else:")
                self.block(ind + 1, ctx, depth + 1)
        if has_finally:
            self.features.add("finally")
            self.emit(ind, "finally:")
            self.block(ind + 1, dict(ctx, in_finally=True), depth + 1)

    def stmt_with(self, ind, ctx, depth):
        if not self.can_site():
            return self.stmt_read(ind, ctx)
        self.features.add("with")
        k = self.site("cm", 3)
        if self.rng.random() < 0.6:
            self.features.add("with-as")
            self.emit(ind, "with c.cm(%d) as %s:" % (k, self.var(bind=True)))
        else:
            self.emit(ind, "with c.cm(%d):" % k)
        self.block(ind + 1, ctx, depth + 1, want_raise=True)

    def stmt_match(self, ind, ctx, depth):
        if not self.can_site():
            return self.stmt_read(ind, ctx)
        self.features.add("match")
        self.emit(ind, "match c.v(%d):" % self.site("v", NSUBJ))
        ctx = dict(ctx, in_match=True)
        makers = [lambda: "0", lambda: "(%s, %s)" % self.two(), lambda: "[%s, *%s]" % self.two(),
                  lambda: "{'a': %s, **%s}" % self.two(), lambda: "{'a': %s}" % self.var(bind=True),
                  lambda: "str() as %s" % self.var(bind=True), lambda: "(%s,) | [%s, 5, 6]" % ((self.var(bind=True),) * 2),
                  lambda: "None", lambda: "1 | 0"]
        self.rng.shuffle(makers)
        for mk in makers[:self.rng.choice((1, 2, 3))]:
            p = mk()
            if self.rng.random() < 0.3 and self.can_site():
                self.features.add("match-guard")
                p += " if c.b(%d)" % self.site("b", 2)
            self.emit(ind + 1, "case %s:" % p)
            self.block(ind + 2, ctx, depth + 2)
        q = self.rng.random()
        if q < 0.3 and self.can_site():
            self.features.add("match-capture-guard")
            self.emit(ind + 1, "case %s if c.b(%d):" % (self.var(bind=True), self.site("b", 2)))
            self.block(ind + 2, ctx, depth + 2)
        if q < 0.6:
            self.emit(ind + 1, "case _:")
            self.block(ind + 2, ctx, depth + 2)

    def stmt_inner(self, ind, ctx, depth):
        if ctx.get("in_inner") or ctx.get("in_match") or not self.captured or self.ninner >= 2:
            # (a nested def inside a match case makes the pinned compiler emit C that does not compile)
            return self.stmt_read(ind, ctx)
        self.features.add("closure")
        self.ninner += 1
        g = "g%d" % self.ninner
        self.emit(ind, "def %s():" % g)
        v = self.rng.choice(self.captured)
        ictx = {"in_inner": True}
        saved, self.vars = self.vars, list(self.captured)
        self.in_inner_now = True
        if self.rng.random() < 0.5:
            self.features.add("nonlocal")
            self.emit(ind + 1, "nonlocal %s" % v)
            self.block(ind + 1, ictx, depth + 2)
        else:
            self.emit(ind + 1, "L.append((%d, %s))" % (self.const(), v))
        self.vars = saved
        self.in_inner_now = False
        self.inner.append(g)

    def stmt_call_inner(self, ind, ctx):
        if not self.inner or ctx.get("in_inner"):
            return self.stmt_read(ind, ctx)
        self.features.add("closure-call")
        self.emit(ind, "%s()" % self.rng.choice(self.inner))

    def block(self, ind, ctx, depth, want_raise=False):
        n = self.rng.choice((1, 1, 2, 2, 3))
        if depth == 0:
            n = self.rng.choice((3, 4, 5, 6))
        for i in range(n):
            if want_raise and i == n - 1 and self.rng.random() < 0.6:
                # a raise point late in a try/with body: the state there differs from the state at its start
                self.stmt_raisepoint(ind, ctx)
                if self.rng.random() < 0.5:
                    self.stmt_simple(ind, ctx)
                continue
            self.stmt(ind, ctx, depth)
    def stmt_simple(self, ind, ctx):
        r = self.rng.random()
        if r < 0.45:
            self.stmt_assign(ind, ctx)
        elif r < 0.8:
            self.stmt_read(ind, ctx)
        else:
            self.stmt_del(ind, ctx)

    def stmt(self, ind, ctx, depth):
        self.nstmts += 1
        w = self.w
        if depth >= 3 or self.nstmts > self.max_stmts:
            return self.stmt_simple(ind, ctx)
        items = [("assign", w["assign"]), ("read", w["read"]), ("del", w["del"]), ("raisepoint", w["raisepoint"]),
                 ("jump", w["jump"] * (3 if ctx.get("loop") else 1)), ("if", w["if"]), ("while", w["while"]), ("for", w["for"]), ("try", w["try"]),
                 ("with", w["with"]), ("match", w["match"]), ("inner", w["inner"]), ("call_inner", w["call_inner"])]
        tot = sum(x[1] for x in items)
        r = self.rng.random() * tot
        for nm, wt in items:
            r -= wt
            if r < 0:
                break
        if nm in ("assign", "read", "del", "raisepoint", "jump", "call_inner"):
            return getattr(self, "stmt_" + nm)(ind, ctx)
        return getattr(self, "stmt_" + nm)(ind, ctx, depth)

    def generate(self):
        sig = "def %s(c, L%s):" % (self.name, "".join(", " + a for a in self.args))
        self.emit(0, sig)
        for v in self.vars:
            if v not in self.args and self.rng.random() < 0.55:
                self.bound.add(v)
                self.emit(1, "%s = %d" % (v, self.const()))
        self.block(1, {}, 0)
        # always end with reads of some variables: the final state is observed
        pos = len(self.lines)
        for v in self.vars:
            if self.rng.random() < 0.5:
                self.emit(1, "L.append((%d, %s))" % (self.const(), v))
        self.emit(1, "return %d" % self.const())
        # every variable must be a local of the function: one binding statement each (checked with symtable);
        # missing bindings are inserted before the final reads
        import re
        import symtable
        for _ in range(len(self.vars) + 1):
            missing = []
            try:
                fn = symtable.symtable("\n".join(self.lines), "f", "exec").get_children()[0]
                for v in self.vars:
                    try:
                        sym = fn.lookup(v)
                        if not (sym.is_local() or sym.is_parameter()):
                            missing.append(v)
                    except KeyError:
                        pass          # never mentioned at all
                # a name used only inside a lambda / inner function / comprehension would be a global
                todo = list(fn.get_children())
                while todo:
                    ch = todo.pop()
                    todo.extend(ch.get_children())
                    for v in self.vars:
                        try:
                            if ch.lookup(v).is_global() and v not in missing:
                                missing.append(v)
                        except KeyError:
                            pass
            except SyntaxError as e:
                m = re.search(r"nonlocal '(\w+)'", str(e))
                if not m:
                    raise
                missing.append(m.group(1))
            if not missing:
                break
            for v in missing:
                tail, self.lines = self.lines[pos:], self.lines[:pos]
                if self.can_site():
                    self.emit(1, "if c.b(%d):" % self.site("b", 2))
                    self.emit(2, "%s = %d" % (v, self.const()))
                else:
                    self.emit(1, "%s = %d" % (v, self.const()))
                pos = len(self.lines)
                self.lines += tail
        return {"name": self.name, "src": "\n".join(self.lines), "sites": self.sites, "kinds": self.kinds,
                "nargs": len(self.args), "features": sorted(self.features)}


DEFAULT_WEIGHTS = {"assign": 5, "read": 5, "del": 1.8, "raisepoint": 1.5, "jump": 1.5, "if": 3, "while": 1.5,
                   "for": 2, "try": 3, "with": 1.2, "match": 0.8, "inner": 0.8, "call_inner": 1.0}


def gen_function(rng, name, weights=None, **kw):
    return FuncGen(rng, name, weights, **kw).generate()


def vectors(rng, sites, cap):
    """Selector vectors: the full product if it fits under `cap`, else all-low, all-high and random ones."""
    import itertools
    total = 1
    for d in sites:
        total *= d
    if total <= cap:
        return [list(v) for v in itertools.product(*[range(d) for d in sites])]
    out = {tuple(0 for _ in sites), tuple(1 for _ in sites), tuple(d - 1 for d in sites)}
    # every single-site deviation from all-zero and from all-one
    for base in (0, 1):
        for i, d in enumerate(sites):
            for val in range(d):
                v = [min(base, dd - 1) for dd in sites]
                v[i] = val
                out.add(tuple(v))
    out = sorted(out)[:cap]
    seen = set(out)
    while len(out) < cap:
        v = tuple(rng.randrange(d) for d in sites)
        if v not in seen:
            seen.add(v)
            out.append(v)
    return [list(v) for v in out]


def module_source(funcs):
    """Module text; returns (text, {func name: first line number (1-based)})."""
    lines = ["# generated by harness/props/c21_gen.py"]
    first = {}
    for f in funcs:
        lines.append("")
        first[f["name"]] = len(lines) + 1
        lines.extend(f["src"].split("\n"))
    return "\n".join(lines) + "\n", first

"""C50 — Plex: the lexer engine recognises exactly its regular-expression rules.

Legs (every case three-way: implementation = staged pure-Python Cython.Plex, model = Lean driver, oracle):
  A  TransitionMap operation sequences: real `TransitionMap` vs `CyVerif.C50.TMap` vs a per-code dict oracle.
  B  structure: RE attribute trees, NFA (`Machine`) dumps and DFA (`FastMachine`, up to renaming) of generated
     lexicons: real vs model.
  C  token sequences of `Scanner.read()` on generated lexicons x all strings up to length 4/5 over {a,b,c,\\n}
     plus random longer ones: real vs model vs Python `re` oracles (event-level reference semantics; for
     lexicons without Bol/Eol/Eof also plain longest-match tokenisation of the raw text).
  D  the real Cython lexicon: token boundaries of source files, real scanner vs model DFA walk (thorough).
"""
import io
import re
import signal

import lib

MAXINT = 2 ** 31 - 1
BOLC, EOLC, EOFC = "\ue001", "\ue002", "\ue003"
PSEUDO = BOLC + EOLC + EOFC
CAP = 14          # scan_a_token calls per text
ORACLE_LIMIT = 2.0  # seconds per text for the Python-re reference (nested repetitions can backtrack exponentially)


class Hang(Exception):
    pass


def _alarm(signum, frame):
    raise Hang()


class guard:
    """per-call time limit (a mutated scanner may loop forever: that is an observation, not an infra error)"""

    def __init__(self, secs):
        self.secs = secs

    def __enter__(self):
        self.old = signal.signal(signal.SIGALRM, _alarm)
        signal.setitimer(signal.ITIMER_REAL, self.secs)

    def __exit__(self, *a):
        signal.setitimer(signal.ITIMER_REAL, 0)
        signal.signal(signal.SIGALRM, self.old)
        return False


# --------------------------------------------------------------------------
# RE trees: ('c',code) ('B',) ('L',) ('F',) ('E',) ('D',) ('s',codes) ('S',[codes..]) ('a',codes) ('n',codes)
# ('r',lo,hi) ('R',codes) ('q',[t..]) ('A',[t..]) ('P',t) ('O',t) ('T',t) ('I',t) ('C',t)

def dots(codes):
    return ".".join(str(c) for c in codes)


def wire(t):
    k = t[0]
    if k == 'c':
        return ["c%d" % t[1]]
    if k in 'BLFED':
        return [k]
    if k in 'sanR':
        return [k + dots(t[1])]
    if k == 'S':
        return ["S" + "/".join(dots(s) for s in t[1])]
    if k == 'r':
        return ["r%d.%d" % (t[1], t[2])]
    if k in 'qA':
        out = ["%s%d" % (k, len(t[1]))]
        for x in t[1]:
            out += wire(x)
        return out
    return [k] + wire(t[1])


def txt(codes):
    return "".join(chr(c) for c in codes)


def plex(t, P):
    k = t[0]
    if k == 'c':
        return P.Char(chr(t[1]))
    if k == 'B':
        return P.Bol
    if k == 'L':
        return P.Eol
    if k == 'F':
        return P.Eof
    if k == 'E':
        return P.Empty
    if k == 'D':
        return P.AnyChar
    if k == 's':
        return P.Str(txt(t[1]))
    if k == 'S':
        return P.Str(*[txt(s) for s in t[1]])
    if k == 'a':
        return P.Any(txt(t[1]))
    if k == 'n':
        return P.AnyBut(txt(t[1]))
    if k == 'r':
        return P.Range(chr(t[1]), chr(t[2]))
    if k == 'R':
        return P.Range(txt(t[1]))
    if k == 'q':
        return P.Seq(*[plex(x, P) for x in t[1]])
    if k == 'A':
        return P.Alt(*[plex(x, P) for x in t[1]])
    if k == 'P':
        return P.Rep1(plex(t[1], P))
    if k == 'O':
        return P.Opt(plex(t[1], P))
    if k == 'T':
        return P.Rep(plex(t[1], P))
    if k == 'I':
        return P.NoCase(plex(t[1], P))
    if k == 'C':
        return P.Case(plex(t[1], P))
    raise ValueError(k)


def has_special(t):
    k = t[0]
    if k in 'BLF':
        return True
    if k in 'qA':
        return any(has_special(x) for x in t[1])
    if k in 'POTIC':
        return has_special(t[1])
    return False


def has_dup_chars(t):
    """Any/AnyBut with a repeated character (chars_to_ranges mishandles duplicates: listed finding)"""
    k = t[0]
    if k in 'an':
        return len(set(t[1])) != len(t[1])
    if k in 'qA':
        return any(has_dup_chars(x) for x in t[1])
    if k in 'POTIC':
        return has_dup_chars(t[1])
    return False


# --------------------------------------------------------------------------
# oracle: reference semantics as Python regular expressions

def charset(t):
    """(negated, set of codes) denoted by a one-character construct, from the documentation of Regexps.py"""
    k = t[0]
    if k == 'c':
        return (False, {t[1]})
    if k == 'D':
        return (True, set())
    if k == 'a':
        return (False, set(t[1]))
    if k == 'n':
        return (True, set(t[1]))
    if k == 'r':
        return (False, set(range(t[1], t[2] + 1)))
    if k == 'R':
        s = set()
        for i in range(0, len(t[1]), 2):
            s |= set(range(t[1][i], t[1][i + 1] + 1))
        return (False, s)
    return None


def swapc(c):
    if 97 <= c <= 122:
        return c - 32
    if 65 <= c <= 90:
        return c + 32
    return None


def fold(cs):
    neg, s = cs
    if not neg:
        return (False, s | {swapc(c) for c in s if swapc(c) is not None})
    # complement: x stays excluded iff it is excluded and its other-case twin (if any) is excluded too
    return (True, {x for x in s if swapc(x) is None or swapc(x) in s})


def cls(cs, extra_excl=""):
    """regex character class for a charset, never matching newline or the pseudo-event characters"""
    neg, s = cs
    if neg:
        body = "".join(re.escape(chr(c)) for c in sorted(s | {10}))
        return "[^%s%s]" % (body, PSEUDO)
    s = s - {10}
    if not s:
        return None
    return "[%s]" % "".join(re.escape(chr(c)) for c in sorted(s))


def has_nl(cs):
    neg, s = cs
    return (10 not in s) if neg else (10 in s)


def nullable(t):
    k = t[0]
    if k == 'E':
        return True
    if k == 's':
        return len(t[1]) == 0
    if k == 'S':
        return any(len(s) == 0 for s in t[1]) if len(t[1]) != 1 else len(t[1][0]) == 0
    if k == 'q':
        return all(nullable(x) for x in t[1])
    if k == 'A':
        return any(nullable(x) for x in t[1])
    if k in 'OT':
        return True
    if k in 'PIC':
        return nullable(t[1])
    return False


def ends_nl(t):
    """can match a string ending with a newline character (attribute match_nl)"""
    k = t[0]
    cs = charset(t)
    if cs is not None:
        return has_nl(cs)
    if k == 's':
        return len(t[1]) > 0 and t[1][-1] == 10
    if k == 'S':
        return any(len(s) > 0 and s[-1] == 10 for s in t[1])
    if k == 'q':
        for x in reversed(t[1]):
            if ends_nl(x):
                return True
            if not nullable(x):
                return False
        return False
    if k == 'A':
        return any(ends_nl(x) for x in t[1])
    if k in 'POTIC':
        return ends_nl(t[1])
    return False


def core(t):
    """expand the composite constructors as documented: Str, Opt, Rep"""
    k = t[0]
    if k == 's':
        return ('q', [('c', c) for c in t[1]])
    if k == 'S':
        if len(t[1]) == 1:
            return core(('s', t[1][0]))
        return ('A', [core(('s', x)) for x in t[1]])
    if k == 'E':
        return ('q', [])
    if k == 'O':
        return ('A', [core(t[1]), ('q', [])])
    if k == 'T':
        return ('A', [('P', core(t[1])), ('q', [])])
    if k in 'qA':
        return (k, [core(x) for x in t[1]])
    if k in 'PIC':
        return (k, core(t[1]))
    return t


def ev_rx(t, mb, nc):
    """event-level reference language of a core tree: BOL is optional before the first symbol consumed at a
    place where a line may start, EOL is optional before a newline character"""
    k = t[0]
    bol = "%s?" % BOLC if mb else ""
    cs = charset(t)
    if cs is not None:
        if nc:
            cs = fold(cs)
        alts = []
        c = cls(cs)
        if c is not None:
            alts.append(c)
        if has_nl(cs):
            alts.append("%s?\n" % EOLC)
        if not alts:
            return "(?!)"
        return bol + "(?:" + "|".join(alts) + ")"
    if k == 'B':
        return BOLC
    if k == 'L':
        return bol + EOLC
    if k == 'F':
        return EOFC
    if k == 'q':
        out = []
        for x in t[1]:
            out.append(ev_rx(x, mb, nc))
            mb = ends_nl(x) or (mb and nullable(x))
        return "".join(out)
    if k == 'A':
        alts = [ev_rx(x, mb, nc) for x in t[1] if nullable(x)]
        non = [ev_rx(x, False, nc) for x in t[1] if not nullable(x)]
        if non:
            alts.append(bol + "(?:" + "|".join(non) + ")")
        if not alts:
            return "(?!)"
        return "(?:" + "|".join(alts) + ")"
    if k == 'P':
        return "(?:" + ev_rx(t[1], mb or ends_nl(t[1]), nc) + ")+"
    if k == 'I':
        return ev_rx(t[1], mb, True)
    if k == 'C':
        return ev_rx(t[1], mb, False)
    raise ValueError(k)


def plain_rx(t, nc):
    """ordinary regular expression over the raw text (only for trees without Bol/Eol/Eof)"""
    k = t[0]
    cs = charset(t)
    if cs is not None:
        if nc:
            cs = fold(cs)
        neg, s = cs
        if neg:
            return "[^%s]" % "".join(re.escape(chr(c)) for c in sorted(s)) if s else "[\\s\\S]"
        if not s:
            return "(?!)"
        return "[%s]" % "".join(re.escape(chr(c)) for c in sorted(s))
    if k == 'q':
        return "".join(plain_rx(x, nc) for x in t[1])
    if k == 'A':
        if not t[1]:
            return "(?!)"
        return "(?:" + "|".join(plain_rx(x, nc) for x in t[1]) + ")"
    if k == 'P':
        return "(?:" + plain_rx(t[1], nc) + ")+"
    if k == 'I':
        return plain_rx(t[1], True)
    if k == 'C':
        return plain_rx(t[1], False)
    raise ValueError(k)


def events(text):
    ev = [BOLC]
    for ch in text:
        if ch == "\n":
            ev += [EOLC, "\n", BOLC]
        else:
            ev.append(ch)
    ev += [EOLC, EOFC]
    return "".join(ev)


def fmt_tok(act, text):
    codes = dots(ord(c) for c in text)
    if act[0] == 'v':
        return "v%d:%s" % (act[1], codes)
    return "t:" + codes


def oracle_scan(rules, rxs, subject, text_of, cap, strict_end):
    """reference tokenisation: at each position the longest prefix matched by a rule of the current state,
    earliest rule on ties.  rules = [(state, act, tree)], rxs = compiled patterns, subject = string scanned,
    text_of = consumed slice -> token text.  Returns (tokens, status)."""
    pos, state, toks = 0, "", []
    states = {r[0] for r in rules} | {""}
    n = len(subject)
    for _ in range(cap):
        best = None
        for i, (st, act, _) in enumerate(rules):
            if st != state:
                continue
            for L in range(n - pos, -1, -1):
                if best is not None and L <= best[0]:
                    break
                if rxs[i].fullmatch(subject, pos, pos + L):
                    best = (L, i)
                    break
        if best is None:
            rest = text_of(subject[pos:])
            if rest:
                return toks, "err"
            return toks, ("end" if strict_end else "noinput")
        L, i = best
        tx = text_of(subject[pos:pos + L])
        pos += L
        act = rules[i][1]
        if act[0] in 'vt':
            toks.append(fmt_tok(act, tx))
        elif act[0] == 'b':
            if act[1] not in states:
                return toks, "keyerr"
            state = act[1]
    return toks, "cap"


def strip_pseudo(s):
    return "".join(c for c in s if c not in PSEUDO)


class Oracle:
    def __init__(self, rules):
        self.rules = rules
        cores = [core(t) for _, _, t in rules]
        self.ev = [re.compile(ev_rx(c, True, False)) for c in cores]
        self.plain = None
        if not any(has_special(t) for _, _, t in rules):
            self.plain = [re.compile(plain_rx(c, False)) for c in cores]

    def by_events(self, text, cap):
        return oracle_scan(self.rules, self.ev, events(text), strip_pseudo, cap, False)

    def by_text(self, text, cap):
        return oracle_scan(self.rules, self.plain, text, lambda s: s, cap, True)


# --------------------------------------------------------------------------
# implementation side

class CapReached(Exception):
    pass


class Chunky:
    """a stream whose read() returns 1..3 characters at a time (exercises the buffer refill)"""

    def __init__(self, text, sizes):
        self.text, self.pos, self.sizes, self.k = text, 0, sizes, 0

    def read(self, n):
        m = self.sizes[self.k % len(self.sizes)]
        self.k += 1
        out = self.text[self.pos:self.pos + m]
        self.pos += m
        return out


class Impl:
    """a real Lexicon built from rules [(state, act, tree)] with one distinct Action object per rule"""

    def __init__(self, rules):
        import Cython.Plex as P
        from Cython.Plex import Actions, Lexicons, DFA
        self.P = P
        self.rules = rules
        self.actions = []
        specs, cur = [], None
        for st, act, tree in rules:
            if act[0] == 'v':
                a = Actions.Return(act[1])
            elif act[0] == 'i':
                a = Actions.Ignore()
            elif act[0] == 't':
                a = Actions.Text()
            else:
                a = Actions.Begin(act[1])
            self.actions.append(a)
            tok = (plex(tree, P.Regexps), a)
            if st == "":
                specs.append(tok)
                cur = None
            elif cur is not None and cur.name == st:
                cur.tokens.append(tok)
            else:
                cur = Lexicons.State(st, [tok])
                specs.append(cur)
        self.res = [plex(tree, P.Regexps) for _, _, tree in rules]
        captured = []
        orig = DFA.nfa_to_dfa

        def spy(old_machine, debug=None):
            captured.append(old_machine)
            return orig(old_machine, debug=debug)
        Lexicons.DFA.nfa_to_dfa = spy
        try:
            self.lexicon = P.Lexicon(specs)
        finally:
            Lexicons.DFA.nfa_to_dfa = orig
        self.nfa = captured[0]

        class Counting(P.Scanner):
            def scan_a_token(sc):
                if sc._n >= sc._cap:
                    raise CapReached()
                sc._n += 1
                return P.Scanner.scan_a_token(sc)
        self.Counting = Counting

    def scan(self, text, cap, chunks=None):
        P = self.P
        stream = io.StringIO(text) if chunks is None else Chunky(text, chunks)
        sc = self.Counting.__new__(self.Counting)
        sc._n, sc._cap = 0, cap
        sc.__init__(self.lexicon, stream)
        toks = []
        while True:
            try:
                v, t = sc.read()
            except P.Errors.UnrecognizedInput:
                return toks, "err"
            except CapReached:
                return toks, "cap"
            except KeyError:
                return toks, "keyerr"
            if v is None:
                toks.append("N:")
                return toks, "end"
            toks.append(("t:" if isinstance(v, str) else "v%d:" % v) + dots(ord(c) for c in t))

    # ---- structure dumps in the model's print format
    def dump_re(self, r):
        from Cython.Plex import Regexps as R
        if isinstance(r, R.RawCodeRange):
            return "raw(%d,%d)" % r.range
        if isinstance(r, R._RawNewline):
            return "nl"
        if isinstance(r, R.SpecialSymbol):
            return "sym(%s)" % {"bol": "b", "eol": "l", "eof": "f"}[r.sym]
        if isinstance(r, (R.Seq, R.Alt)):
            return ("seq(" if isinstance(r, R.Seq) else "alt(") + "".join(
                self.dump_re(x) + "/" + self.bits(x) + ";" for x in r.re_list) + ")"
        if isinstance(r, R.Rep1):
            return "rep1(" + self.dump_re(r.re) + ")"
        if isinstance(r, R.SwitchCase):
            return ("nocase(" if r.nocase else "case(") + self.dump_re(r.re) + ")"
        raise ValueError(type(r))

    @staticmethod
    def bits(r):
        return ("1" if r.nullable else "0") + ("1" if r.match_nl else "0")

    def dump_res(self):
        return "|".join(self.dump_re(r) + "/" + self.bits(r) for r in self.res)

    def dump_nfa(self):
        out = []
        for nd in self.nfa.states:
            out.append(dump_tmap(nd.transitions) + "@%s/%d" % (
                "-" if nd.action is None else str(self.actions.index(nd.action)), nd.action_priority))
        inits = ",".join("%s=%d" % (k or "-", v.number) for k, v in self.nfa.initial_states.items())
        return "|".join(out) + "#" + inits

    def dfa_canon(self):
        m = self.lexicon.machine
        states = {id(s): s for s in m.states}

        def edges(s):
            out = []
            for k in sorted(c for c in s if len(c) == 1):
                out.append((ord(k), s[k]))
            for k in ("else", "bol", "eol", "eof"):
                if s.get(k) is not None:
                    out.append((k, s[k]))
            if s.get("") is not None:
                out.append(("eps", s[""]))
            return out
        act = lambda s: None if s["action"] is None else self.actions.index(s["action"])
        inits = sorted((k, id(v)) for k, v in m.initial_states.items())
        return canon(inits, lambda i: edges(states[i]), lambda s: id(s), lambda i: act(states[i])), len(m.states)


def set_str(s):
    return "{" + ".".join(str(n) for n in sorted(x.number if hasattr(x, "number") else x for x in s)) + "}"


def dump_tmap(tm):
    mp = tm.map
    out = []
    for i in range(0, len(mp) - 1, 2):
        out.append("%d%s" % (mp[i], set_str(mp[i + 1])))
    out.append("%d" % mp[-1])
    sp = "".join({"": "e", "bol": "b", "eol": "l", "eof": "f"}[k] + set_str(v) for k, v in tm.special.items())
    return "[" + "".join(out) + "]+" + sp


def dump_items(tm):
    out = []
    for ev, st in tm.items():
        if type(ev) is tuple:
            out.append("%d_%d%s" % (ev[0], ev[1], set_str(st)))
        else:
            out.append({"": "e", "bol": "b", "eol": "l", "eof": "f"}[ev] + set_str(st))
    return ",".join(out)


def canon(inits, edges_of, ident, action_of):
    """canonical form of a deterministic machine up to renaming: BFS from the initial states"""
    num, order, queue = {}, [], []
    for _, i in inits:
        if i not in num:
            num[i] = len(num)
            queue.append(i)
    k = 0
    table = []
    while k < len(queue):
        i = queue[k]
        k += 1
        row = []
        for key, tgt in edges_of(i):
            j = ident(tgt)
            if j not in num:
                num[j] = len(num)
                queue.append(j)
            row.append((str(key), num[j]))
        table.append((action_of(i), tuple(row)))
    return tuple((name, num[i]) for name, i in inits), tuple(table)


def model_dfa_canon(line):
    """parse `ok st|st|…#inits#keys` printed by the model and canonicalise it the same way"""
    body = line[3:]
    sts, inits, _keys = body.split("#")
    states = []
    for s in sts.split("|"):
        a, e, b, l, f, chars = s.split(";")
        d = {}
        if chars:
            for item in reversed(chars.split(",")):       # newest first in the model: later assignment wins
                rng, t = item.split(">")
                c0, c1 = rng.split("_") if not rng.startswith("-") else ("-" + rng[1:].split("_")[0], rng[1:].split("_")[1])
                for c in range(int(c0), int(c1)):
                    d[c] = int(t)
        sp = {}
        for key, v in (("else", e), ("bol", b), ("eol", l), ("eof", f)):
            if v[1:] != "-":
                sp[key] = int(v[1:])
        states.append((None if a[1:] == "-" else int(a[1:]), d, sp))
    ini = sorted((("" if k == "-" else k), int(v)) for k, v in (x.split("=") for x in inits.split(",")))

    def edges(i):
        _, d, sp = states[i - 1]
        out = [(c, d[c]) for c in sorted(d)]
        for key in ("else", "bol", "eol", "eof"):
            if key in sp:
                out.append((key, sp[key]))
        return out
    return canon(ini, edges, lambda t: t, lambda i: states[i - 1][0]), len(states)


# --------------------------------------------------------------------------
# generators

def gen_leaf(rng, pool, specials, dups):
    r = rng.random()
    if specials and r < 0.16:
        return (rng.choice("BLLF"),)
    r = rng.random()
    if r < 0.22:
        return ('c', rng.choice(pool))
    if r < 0.44:
        return ('s', [rng.choice(pool) for _ in range(rng.choice((0, 1, 1, 2, 2, 3)))])
    if r < 0.50:
        return ('S', [[rng.choice(pool) for _ in range(rng.choice((0, 1, 2)))] for _ in range(rng.choice((2, 3)))])
    if r < 0.64:
        n = rng.choice((1, 2, 2, 3))
        cs = [rng.choice(pool) for _ in range(n)] if dups else rng.sample(sorted(set(pool)), min(n, len(set(pool))))
        return ('a', cs)
    if r < 0.76:
        n = rng.choice((0, 1, 1, 2))
        cs = [rng.choice(pool) for _ in range(n)] if dups else rng.sample(sorted(set(pool)), n)
        return ('n', cs)
    if r < 0.83:
        lo, hi = rng.choice(((97, 98), (97, 99), (98, 99), (9, 13), (10, 10), (10, 97), (99, 97), (65, 98), (98, 122)))
        return ('r', lo, hi)
    if r < 0.87:
        prs = rng.sample(((97, 98), (99, 99), (9, 10), (65, 66), (98, 100)), rng.choice((1, 2)))
        return ('R', [c for p in prs for c in p])
    if r < 0.92:
        return ('D',)
    return ('E',)


def gen_tree(rng, depth, pool, specials, dups):
    if depth <= 0 or rng.random() < 0.3:
        return gen_leaf(rng, pool, specials, dups)
    k = rng.choice("qqqAAAPOTTIC")
    if k in "qA":
        return (k, [gen_tree(rng, depth - 1, pool, specials, dups) for _ in range(rng.choice((1, 2, 2, 3)))])
    return (k, gen_tree(rng, depth - 1, pool, specials, dups))


def gen_lexicon(rng):
    specials = rng.random() < 0.5
    dups = rng.random() < 0.03
    nocase = rng.random() < 0.25
    pool = [97, 98, 99, 10, 97, 98, 10] + ([65, 66, 98] if nocase else []) + ([100] if rng.random() < 0.2 else [])
    nrules = rng.choice((1, 2, 2, 3, 3, 4))
    two_states = rng.random() < 0.15 and nrules >= 2
    rules = []
    for i in range(nrules):
        tree = gen_tree(rng, rng.choice((0, 1, 2, 2, 3)), pool, specials, dups)
        if nocase and rng.random() < 0.5:
            tree = ('I', tree)
        r = rng.random()
        act = ('v', i)
        if r < 0.08:
            act = ('i',)
        elif r < 0.14:
            act = ('t',)
        st = ""
        if two_states:
            if i >= nrules // 2:
                st = "x"
                if rng.random() < 0.4:
                    act = ('b', rng.choice(("", "", "y")))
            elif rng.random() < 0.5:
                act = ('b', rng.choice(("x", "x", "y")))
        rules.append((st, act, tree))
    if specials and rng.random() < 0.5:        # the usual idiom: explicit end-of-line / end-of-file tokens
        rules.append(("", ('v', len(rules)), ('L',)))
        if rng.random() < 0.5:
            rules.append(("", ('v', len(rules)), ('F',)))
    return rules


def tree_has(t, kind):
    if t[0] == kind:
        return True
    if t[0] in 'qA':
        return any(tree_has(x, kind) for x in t[1])
    if t[0] in 'POTIC':
        return tree_has(t[1], kind)
    return False


def all_strings(alpha, maxlen):
    out = [""]
    layer = [""]
    for _ in range(maxlen):
        layer = [s + c for s in layer for c in alpha]
        out += layer
    return out


def lex_wire(rules):
    parts = []
    for st, act, tree in rules:
        a = {'v': lambda: "v%d" % act[1], 'i': lambda: "i", 't': lambda: "t", 'b': lambda: "b" + act[1]}[act[0]]()
        parts.append("%s:%s:%s" % (st or "-", a, ",".join(wire(tree))))
    return ";".join(parts)


def text_wire(s):
    return dots(ord(c) for c in s) if s else "-"


def jrules(rules):
    return [[st, list(act), tree] for st, act, tree in rules]


def unj(x):
    """JSON round trip turns tuples into lists: rebuild trees"""
    if isinstance(x, list) and x and isinstance(x[0], str) and len(x[0]) == 1 and x[0] in "cBLFEDsSanrRqAPOTIC":
        k = x[0]
        if k in 'qA':
            return (k, [unj(y) for y in x[1]])
        if k in 'POTIC':
            return (k, unj(x[1]))
        return tuple(x)
    return x


def cut(s, n=300):
    s = str(s)
    return s if len(s) <= n else s[:n] + "…"


# --------------------------------------------------------------------------
# leg B + C: one lexicon

def classify(rules, itoks, istat, otoks, ostat):
    body = itoks[:-1] if istat == "end" else itoks
    if body == otoks and istat == "err" and ostat == "end":
        return "eof-unrecognized-without-eol-rule"
    if any(has_dup_chars(t) for _, _, t in rules):
        return "chars-to-ranges-duplicates"
    return "scan-mismatch"


def agree(itoks, istat, otoks, ostat):
    body = itoks[:-1] if istat == "end" else itoks
    if body != otoks:
        return False
    if ostat == "noinput":
        return istat in ("end", "err")
    return istat == ostat


def run_lexicon(ctx, rules, texts, fix, structure=True, chunk_rng=None):
    lw = lex_wire(rules)
    case = {"rules": jrules(rules)}
    try:
        with guard(20):
            impl = Impl(rules)
    except Hang:
        ctx.violation("lexicon-build-hang", "Lexicon(...) does not terminate for " + cut(lw), dict(case, texts=[]))
        return
    except Exception as e:      # the generator only produces well-formed specifications
        mline = ctx.drv.batch(["C50 dfa %s %s" % (fix, lw)])[0]
        ctx.count("lexicon/build-error")
        if not mline.startswith("err " + type(e).__name__):
            ctx.violation("lexicon-build-error", "Lexicon(...) raised %s for %s (model: %s)" % (
                type(e).__name__, cut(lw), cut(mline, 60)), dict(case, texts=[]))
        return
    lines = ["C50 scan %s %s %d %s" % (fix, lw, CAP, " ".join(text_wire(t) for t in texts))]
    if structure:
        lines += ["C50 re %s %s" % (fix, lw), "C50 nfa %s %s" % (fix, lw), "C50 dfa %s %s" % (fix, lw)]
    mout = ctx.drv.batch(lines)
    if structure:
        for name, got, exp in (("re", "ok " + impl.dump_res(), mout[1]), ("nfa", "ok " + impl.dump_nfa(), mout[2])):
            ctx.count("structure/" + name)
            if got != exp:
                ctx.tie_break("D-py %s dump vs CyVerif.C50" % name,
                              "%s: impl %s model %s" % (cut(lw, 120), cut(got, 120), cut(exp, 120)), dict(case, texts=texts[:3]))
        ctx.count("structure/dfa")
        try:
            mc = model_dfa_canon(mout[3]) if mout[3].startswith("ok ") else mout[3]
        except Exception as e:
            mc = "unparsable " + repr(e)
        ic = impl.dfa_canon()
        if ic != mc:
            ctx.tie_break("D-py FastMachine vs CyVerif.C50.nfaToDfa (up to renaming)",
                          "%s: impl %d states, model %s" % (cut(lw, 150), ic[1], cut(mc[1] if isinstance(mc, tuple) else mc, 80)),
                          dict(case, texts=texts[:3]))
        ctx.notes["max_dfa_states"] = max(ctx.notes.get("max_dfa_states", 0), ic[1])
        # hypothesis `EndsAgree` of dfa_simulates_nfa / lexicon_scanner_correct, checked on the real NFA
        bad_ends = [nd.number for nd in impl.nfa.states if nd.transitions.map[1] != nd.transitions.map[-2]]
        ctx.notes["ends_agree_checked"] = ctx.notes.get("ends_agree_checked", 0) + len(impl.nfa.states)
        if bad_ends:
            ctx.notes.setdefault("ends_agree_failures", []).append(cut(lw, 120))
    if not mout[0].startswith("ok "):
        ctx.tie_break("D-py scan vs CyVerif.C50.readAll", "%s: model says %s" % (cut(lw, 150), cut(mout[0], 80)), dict(case, texts=texts[:3]))
        mres = [None] * len(texts)
    else:
        mres = mout[0][3:].split("|")
    orc = Oracle(rules)
    special_free = orc.plain is not None
    re_timeouts = 0
    for k, text in enumerate(texts):
        chunks = None
        if chunk_rng is not None and chunk_rng.random() < 0.25:
            chunks = [chunk_rng.choice((1, 2, 3)) for _ in range(5)]
        try:
            with guard(10):
                itoks, istat = impl.scan(text, CAP, chunks)
        except Hang:
            ctx.violation("scanner-hang", "Scanner.read() does not return: %s on %r" % (cut(lw, 200), text[:40]),
                          dict(case, texts=[text]))
            continue
        ires = ",".join(itoks) + ";" + istat
        ctx.count("scan/%s/%s" % ("plain" if special_free else "special", istat))
        ctx.seen((lw, text), nontrivial=bool(itoks))
        if k == 1:
            ctx.sample({"lexicon": cut(lw, 160), "text": text[:40], "impl": cut(ires, 120), "model": cut(mres[k], 120)})
        if mres[k] is not None and mres[k] != ires:
            ctx.tie_break("D-py scan vs CyVerif.C50.readAll",
                          "%s on %r: impl %s model %s" % (cut(lw, 150), text[:40], cut(ires, 100), cut(mres[k], 100)),
                          dict(case, texts=[text]))
        if re_timeouts >= 3:     # this lexicon makes Python's re backtrack exponentially: model vs impl only
            ctx.count("oracle/skipped-after-re-timeouts")
            continue
        try:
            with guard(ORACLE_LIMIT):
                otoks, ostat = orc.by_events(text, CAP)
        except Hang:        # catastrophic backtracking of Python's re on nested repetitions: no oracle verdict
            ctx.count("oracle/re-timeout")
            re_timeouts += 1
            continue
        if not agree(itoks, istat, otoks, ostat):
            ctx.violation(classify(rules, itoks, istat, otoks, ostat),
                          "%s on %r: Scanner.read() gives %s; longest-match/earliest-rule reference over the event stream gives %s;%s"
                          % (cut(lw, 150), text[:40], cut(ires, 100), cut(",".join(otoks), 100), ostat),
                          dict(case, texts=[text], impl=ires, oracle=[otoks, ostat]))
        if special_free:
            try:
                with guard(ORACLE_LIMIT):
                    ptoks, pstat = orc.by_text(text, CAP)
            except Hang:
                ctx.count("oracle/re-timeout")
                re_timeouts += 1
                continue
            if not agree(itoks, istat, ptoks, pstat):
                ctx.violation(classify(rules, itoks, istat, ptoks, pstat),
                              "%s on %r: Scanner.read() gives %s; plain longest-match tokenisation of the text gives %s;%s"
                              % (cut(lw, 150), text[:40], cut(ires, 100), cut(",".join(ptoks), 100), pstat),
                              dict(case, texts=[text], impl=ires, oracle=[ptoks, pstat]))


def probe_fix(ctx):
    """which variants are in the tree: (1) does the end of the input need an Eol rule?  (2) does
    chars_to_ranges drop repeated characters?  Returns the variant word of the line protocol."""
    from Cython.Plex.Regexps import chars_to_ranges
    impl = Impl([("", ('v', 0), ('s', [97]))])
    toks, stat = impl.scan("a", CAP)
    return ("1" if stat == "end" else "0") + ("1" if chars_to_ranges("aa") == [97, 98] else "0")


# --------------------------------------------------------------------------
# leg A: TransitionMap operation sequences

CODES = [-MAXINT, 0, 1, 2, 3, 4, 5, 6, 7, 8, 9, 10, 11, 12, 100, MAXINT]
PROBES = [-MAXINT, -MAXINT + 1, -1] + list(range(0, 14)) + [99, 100, 101, MAXINT - 1]
SPKEY = {"e": "", "b": "bol", "l": "eol", "f": "eof"}


def gen_ops(rng, n):
    ops = []
    for _ in range(n):
        r = rng.random()
        if r < 0.45:
            ops.append(["a", rng.choice(CODES), rng.choice(CODES), rng.randint(1, 6)])
        elif r < 0.75:
            ops.append(["A", rng.choice(CODES), rng.choice(CODES), sorted(rng.sample(range(1, 7), rng.randint(0, 3)))])
        elif r < 0.9:
            ops.append(["s", rng.choice("ebblf"), rng.randint(1, 6)])
        else:
            ops.append(["S", rng.choice("ebblf"), sorted(rng.sample(range(1, 7), rng.randint(0, 3)))])
    return ops


def ops_wire(ops):
    out = []
    for op in ops:
        if op[0] == "a":
            out.append("a:%d:%d:%d" % (op[1], op[2], op[3] - 1))
        elif op[0] == "A":
            out.append("A:%d:%d:%s" % (op[1], op[2], dots(x - 1 for x in op[3])))
        elif op[0] == "s":
            out.append("s:%s:%d" % (op[1], op[2] - 1))
        else:
            out.append("S:%s:%s" % (op[1], dots(x - 1 for x in op[2])))
    return ",".join(out) if out else "-"


def run_tmap(ctx, ops, model):
    from Cython.Plex.Transitions import TransitionMap
    tm = TransitionMap()
    spec = {c: set() for c in PROBES}          # oracle: the function code -> set, updated point-wise
    sspec = {}
    for op in ops:
        if op[0] in "aA":
            new = {op[3]} if op[0] == "a" else set(op[3])
            (tm.add if op[0] == "a" else tm.add_set)((op[1], op[2]), op[3] if op[0] == "a" else set(op[3]))
            for c in PROBES:
                if op[1] <= c < op[2]:
                    spec[c] |= new
        else:
            new = {op[2]} if op[0] == "s" else set(op[2])
            (tm.add if op[0] == "s" else tm.add_set)(SPKEY[op[1]], op[2] if op[0] == "s" else set(op[2]))
            sspec.setdefault(op[1], set()).update(new)
    mp = tm.map
    codes = mp[0::2]
    wf = codes[0] == -MAXINT and codes[-1] == MAXINT and all(a < b for a, b in zip(codes, codes[1:])) and len(mp) % 2 == 1

    def look(c):
        for i in range(0, len(mp) - 1, 2):
            if mp[i] <= c < mp[i + 2]:
                return mp[i + 1]
        return set()

    def look_items(c):
        hit = [st for ev, st in tm.items() if type(ev) is tuple and ev[0] <= c < ev[1]]
        return hit[0] if len(hit) == 1 else (set() if not hit else None)
    eps = tm.get_epsilon()
    impl = "ok %s %s %s %s" % (dump_tmap(tm), dump_items(tm), ",".join(set_str(look(c)) for c in PROBES),
                               "-" if eps is None else set_str(eps))
    ctx.count("tmap/ops=%d" % min(len(ops), 12))
    ctx.seen(("tmap", ops_wire(ops)), nontrivial=len(ops) > 0)
    case = {"ops": ops}
    if model != impl:
        ctx.tie_break("D-py TransitionMap vs CyVerif.C50.TMap", "%s: impl %s model %s" % (cut(ops_wire(ops), 120), cut(impl, 140), cut(model, 140)), case)
    bad = None
    if not wf:
        bad = "representation invariant broken: codes %s" % cut(codes, 120)
    else:
        for c in PROBES:
            if look(c) != spec[c]:
                bad = "state set for code %d is %s, expected %s" % (c, set_str(look(c)), set_str(spec[c]))
                break
            li = look_items(c)
            if li is None or li != spec[c]:
                bad = "items() gives %s for code %d, expected %s" % (li, c, set_str(spec[c]))
                break
        for k, v in sspec.items():
            got = tm.special.get(SPKEY[k], set())
            if got != v:
                bad = "special[%r] is %s, expected %s" % (SPKEY[k], set_str(got), set_str(v))
        sp_items = {ev: st for ev, st in tm.items() if type(ev) is not tuple}
        if sp_items != {SPKEY[k]: v for k, v in sspec.items() if v}:
            bad = "items() special part %s, expected %s" % (cut(sp_items, 80), cut(sspec, 80))
    if bad:
        ctx.violation("transition-map-lookup", "after %s: %s" % (cut(ops_wire(ops), 200), bad), case)


def run_tmaps(ctx, opss):
    mout = ctx.drv.batch(["C50 tmap %s %s" % (ops_wire(ops), ",".join(str(c) for c in PROBES)) for ops in opss])
    for ops, model in zip(opss, mout):
        run_tmap(ctx, ops, model)


# --------------------------------------------------------------------------

WITNESSES = [
    # (rules, texts): listed findings and boundary cases, replayed first on every run
    ([("", ('v', 0), ('s', [97]))], ["", "a", "a\n", "aa", "b"]),
    ([("", ('v', 0), ('a', [97, 97]))], ["a", "b", "c"]),
    ([("", ('v', 0), ('n', [97, 97]))], ["a", "b", "c"]),
    ([("", ('v', 0), ('s', [97])), ("", ('v', 1), ('L',)), ("", ('v', 2), ('s', [10])), ("", ('v', 3), ('F',)),
      ("", ('v', 4), ('B',))], ["", "a", "a\n", "\n\n", "a\na"]),
    ([("", ('v', 0), ('T', ('c', 97)))], ["", "a", "b", "aab"]),
    ([("", ('v', 0), ('s', [97])), ("", ('v', 1), ('q', [('s', [97]), ('L',)]))], ["a", "a\n", "aa"]),
    ([("", ('v', 0), ('q', [('s', [97, 98])])), ("", ('v', 1), ('P', ('c', 97))), ("", ('v', 2), ('D',))],
     ["ab", "aab", "aaa", "a\nab", "abab"]),
    ([("", ('v', 0), ('F',))], ["", "a"]),
    ([("", ('i',), ('P', ('a', [97, 10]))), ("", ('t',), ('I', ('s', [98, 99])))], ["abc", "aBCbc\nbC", "\n\na"]),
    ([("", ('b', 'x'), ('c', 97)), ("x", ('v', 1), ('c', 97)), ("x", ('b', ''), ('c', 98)), ("", ('b', 'y'), ('c', 99))],
     ["aaba", "abaab", "ac", "c"]),
]


def run(ctx):
    import Cython.Plex.Scanners as S
    import Cython.Plex.Transitions as T
    import Cython.Plex.DFA as D
    import Cython.Plex.Machines as M
    import Cython.Plex.Regexps as R
    import Cython.Plex.Lexicons as L
    for mod in (S, T, D, M, R, L):
        if not mod.__file__.endswith(".py") or not mod.__file__.startswith(ctx.stage):
            raise lib.Infra("staged pure-Python Plex not in use: " + mod.__file__)
    ctx.rule = ("leg A: seeded random TransitionMap add/add_set sequences (<= 12 ops, 16 boundary codes incl. +-maxint, states 1..6), "
                "distinct by op sequence; legs B/C: seeded random lexicons (1-4 rules + optional Eol/Eof rules, RE depth <= 3 over "
                "Char/Str/Any/AnyBut/Range/AnyChar/Empty/Bol/Eol/Eof/Seq/Alt/Rep1/Opt/Rep/NoCase/Case, actions Return/IGNORE/TEXT/Begin, "
                "optional second scanner state) x ALL strings up to length 4 (quick) / 5 (thorough) over {a,b,c,newline} "
                "(or {a,b,A,newline} for NoCase lexicons) + random strings of length 6-12; distinct by (lexicon, text); "
                "non-trivial = at least one token produced")
    ctx.explanation = ("Theorems cover every layer at full strength: TransitionMap (all operation sequences), RE -> NFA "
                       "(build_machine of every RE class = denotational event-level reference semantics), epsilon closure and "
                       "subset construction (all NFAs, all event words), FastMachine encoding, the scanning loop (all DFAs, all "
                       "texts: longest accepted prefix, UnrecognizedInput), ties -> earliest rule, and the end-to-end corollary "
                       "for single-state lexicons. NOT covered by a theorem (differential legs only): termination of nfa_to_dfa "
                       "and of the closure recursion (theorems are about every call that returns), multi-state lexicons "
                       "(State(...)/Begin) at the RE->NFA and end-to-end level, the hypothesis EndsAgree for AnyBut-style ranges "
                       "(re-checked here on every generated NFA), the chunked buffer refill of run_machine_inlined (the text is "
                       "a list in the model), the epsilon_closure cache, hash-order iteration of Python sets, the read() queue / "
                       "actions other than Return/IGNORE/TEXT/Begin, position tuples, the composite constructors' desugaring "
                       "(Str/Any/AnyBut/Range/Opt/Rep: model code tied structurally, no theorem).")
    ctx.assumptions = ["EndsAgree: in every NFA node the state sets of the first and last code range agree (checked on every "
                       "generated NFA of this run; proved for nothing beyond that)",
                       "character codes < 2**31-1, fewer than 2**31-2 rules",
                       "theorems about nfa_to_dfa / epsilon_closure speak about calls that return (model fuel not exhausted)"]
    ctx.extra_trusted = ["Python `re` (reference matcher of the oracle legs)"]
    rc = ctx.replay_case
    fix = probe_fix(ctx)
    ctx.notes["scan_a_token_variant"] = ("eol-skip at end of input present (model eolFix=true)" if fix[0] == "1"
                                         else "end of input needs an Eol rule (listed finding; model eolFix=false)")
    ctx.notes["chars_to_ranges_variant"] = ("repeated characters dropped (model dedup=true)" if fix[1] == "1"
                                            else "repeated characters widen the range (listed finding; model dedup=false)")
    if rc is not None:
        case = rc.get("case", {})
        if "ops" in case:
            run_tmaps(ctx, [case["ops"]])
        if "rules" in case:
            rules = [(r[0], tuple(r[1]), unj(r[2])) for r in case["rules"]]
            run_lexicon(ctx, rules, case.get("texts") or [""], fix)
        return
    rng = ctx.rng
    # leg A
    run_tmaps(ctx, [[]] + [gen_ops(rng, rng.randint(1, 12)) for _ in range(ctx.n(3000, 40000))])
    # witnesses
    for rules, texts in WITNESSES:
        run_lexicon(ctx, rules, texts, fix)
    # legs B, C
    maxlen = 4 if ctx.quick else 5
    nlex = ctx.n(110, 700)
    t_budget = 100 if ctx.quick else 900
    done = 0
    for _ in range(nlex):
        if ctx.elapsed() > t_budget:
            break
        rules = gen_lexicon(rng)
        nocase = any(tree_has(t, 'I') for _, _, t in rules)
        alpha = "abA\n" if nocase else "abc\n"
        texts = all_strings(alpha, maxlen)
        pool = "abcABd\n\n"
        texts += ["".join(rng.choice(pool) for _ in range(rng.randint(6, 12))) for _ in range(20)]
        run_lexicon(ctx, rules, texts, fix, chunk_rng=rng)
        done += 1
    ctx.notes["lexicons"] = done
    ctx.obligation("EndsAgree on every generated NFA (hypothesis of dfa_simulates_nfa / lexicon_scanner_correct)",
                   not ctx.notes.get("ends_agree_failures"),
                   "%d NFA nodes checked: map[1] == map[-2]" % ctx.notes.get("ends_agree_checked", 0))
    ctx.notes["max_text_len_exhaustive"] = maxlen

"""C19 part 1: SwitchTransform — generated if-chains / boolean tests, three-way:
implementation (real transform in-process = D-py; compiled with and without optimize.use_switch = D-c),
Lean model (cydrv `C19 sw`), oracle (CPython running the chain on Python ints; the compiled if-chain)."""
import os
import re

import cybuild
import lib

CAP = 300


def cap(s, n=CAP):
    s = str(s)
    return s if len(s) <= n else s[:n] + "..."


# name -> (bits, signed) on LP64; E has a negative member (gcc: int), U has none (gcc: unsigned int)
TYPES = {
    "char": (8, True), "signed char": (8, True), "unsigned char": (8, False), "short": (16, True),
    "unsigned short": (16, False), "int": (32, True), "unsigned int": (32, False), "long": (64, True),
    "unsigned long": (64, False), "long long": (64, True), "unsigned long long": (64, False),
    "Py_ssize_t": (64, True), "size_t": (64, False), "Py_UCS4": (32, False), "E": (32, True), "U": (32, False),
}
ENUMS = {"E": [("EA", 1), ("EB", -3), ("EC", 70000), ("ED", 70001)], "U": [("UA", 0), ("UB", 2), ("UC", 300)]}
EXTS = [("XA", 3), ("XB", -7), ("XC", 100000), ("XD", 11)]
HEADER = '''
cdef enum E:
    EA = 1
    EB = -3
    EC = 70000
    ED
cdef enum U:
    UA = 0
    UB = 2
    UC = 300
cdef extern from *:
    """
    #define XA 3
    #define XB (-7)
    #define XC 100000
    #define XD 11
    """
    enum: XA
    enum: XB
    enum: XC
    enum: XD
'''
PY_HEADER = "EA = 1; EB = -3; EC = 70000; ED = 70001; UA = 0; UB = 2; UC = 300; XA = 3; XB = -7; XC = 100000; XD = 11\n"


def type_range(name):
    bits, sg = TYPES[name]
    if name == "Py_UCS4":
        return 0, 0x10FFFF
    return (-(1 << (bits - 1)), (1 << (bits - 1)) - 1) if sg else (0, (1 << bits) - 1)


def promoted_range(name):
    bits, sg = TYPES[name]
    if bits < 32:
        bits, sg = 32, True
    return (-(1 << (bits - 1)), (1 << (bits - 1)) - 1) if sg else (0, (1 << bits) - 1)


# ---------------------------------------------------------------- constants
# ('i', neg, mag, hex, u, l) ('b', b) ('c', code, style) ('f', v) ('e', enumname, idx) ('x', idx)


def const_pyval(c):
    k = c[0]
    if k == "i":
        return -c[2] if c[1] else c[2]
    if k == "b":
        return 1 if c[1] else 0
    if k == "c":
        return c[1]
    if k == "f":
        return c[1]
    if k == "e":
        return ENUMS[c[1]][c[2]][1]
    return EXTS[c[1]][1]


def const_src(c):
    k = c[0]
    if k == "i":
        body = ("0x%X" % c[2]) if c[3] else str(c[2])
        return ("-" if c[1] else "") + body + ("U" if c[4] else "") + ("", "L", "LL")[c[5]]
    if k == "b":
        return "True" if c[1] else "False"
    if k == "c":
        ch = chr(c[1])
        lit = ch if (32 <= c[1] < 127 and ch not in "'\\") else "\\x%02x" % c[1] if c[1] < 256 else ch
        return {0: "c'%s'", 1: "b'%s'", 2: "'%s'"}[c[2]] % lit
    if k == "f":
        return "%d.0" % c[1]
    if k == "e":
        return ENUMS[c[1]][c[2]][0]
    return EXTS[c[1]][0]


def const_tok(c, subj):
    k = c[0]
    if k == "i":
        return "i,%d,%d,%d,%d,%d" % (1 if c[1] else 0, c[2], 1 if c[3] else 0, 1 if c[4] else 0, c[5])
    if k == "b":
        return "b,%d" % (1 if c[1] else 0)
    if k == "c":
        return "c,%d" % c[1]
    if k == "f":
        return "f,%d" % c[1]
    if k == "e":
        return "e,%d,%d,%d" % (c[2], ENUMS[c[1]][c[2]][1], 1 if subj == c[1] else 0)
    return "x,%d" % c[1]


def gen_const(rng, subj, simple=False):
    """constant for a test on a variable of C type `subj` (None: object/double variable)"""
    lo, hi = type_range(subj) if subj else (-100, 100)
    r = rng.random()
    if subj is None:                  # object / double variable: plain numbers only
        v = rng.choice([0, 1, 2, 5, 7, 97, -1])
        return ("i", v < 0, abs(v), False, False, 0) if rng.random() < 0.8 else ("f", rng.choice([1, 2, 5, 97]))
    if subj in ENUMS and r < 0.45:
        return ("e", subj, rng.randrange(len(ENUMS[subj])))
    if simple or r < 0.55:
        pool = [0, 1, 2, 3, 5, 7, 11, 97, 98, 100, 127, 128, 255, 256, -1, -2, -3, -7, -128, lo, hi, hi - 1]
        v = rng.choice(pool)
        if not (-(1 << 31) <= v < (1 << 31)):
            v = rng.randrange(-50, 300)
        return ("i", v < 0, abs(v), rng.random() < 0.2, False, 0)
    if r < 0.75:
        # suffixed / wide / boundary literals
        v = rng.choice([lo, lo + 1, hi, hi - 1, 1 << 31, (1 << 31) - 1, -(1 << 31), 1 << 32, (1 << 32) - 1, (1 << 32) + 5,
                        (1 << 32) + 97, -(1 << 32) + 3, (1 << 63) - 1, 5, 97, -5, -1, 0, 255, 256, 65536, 65535 + (1 << 32)])
        u, l = rng.choice([(False, 0), (True, 0), (False, 1), (False, 2), (False, 2), (True, 1), (True, 2)])
        if u and v < 0 and rng.random() < 0.7:
            v = -v
        mag = abs(v)
        if mag >= (1 << 63) and not u:
            mag = (1 << 63) - 1
        if mag >= (1 << 64):
            mag = (1 << 64) - 1
        return ("i", v < 0 and mag != 0, mag, rng.random() < 0.3, u, l)
    if r < 0.80:
        return ("b", rng.random() < 0.5)
    if r < 0.88 and subj in ("char", "signed char", "unsigned char", "int", "Py_UCS4", "short"):
        if subj == "Py_UCS4":
            return ("c", rng.choice([97, 98, 65, 0xE9, 0x20AC, 0x1F600, 48]), 2)
        return ("c", rng.choice([97, 98, 99, 65, 48, 10]), rng.choice([0, 1, 2]))
    if r < 0.91 and subj not in ENUMS:       # Cython rejects `enum == double`
        return ("f", rng.choice([1, 2, 5, 97]))
    if r < 0.96 and subj not in ENUMS:
        en = rng.choice(sorted(ENUMS))
        return ("e", en, rng.randrange(len(ENUMS[en])))
    return ("x", rng.randrange(len(EXTS)))


# ---------------------------------------------------------------- tests (Cond)
# ('cmp', ne, v, const, swapped) ('ins', notin, v, [codes], bytes) ('seq', notin, v, [consts], brackets)
# ('bin', isAnd, a, b) ('not', a) ('oth', k)
VARNAMES = ["x", "y", "o", "d"]


def gen_cond(rng, vts, depth, mainvar=0, p_other=0.12):
    """vts: list of C type names (or None) per variable index 0..3"""
    r = rng.random()
    v = mainvar if rng.random() < 0.85 else rng.randrange(4)
    subj = vts[v]
    if depth > 0 and r < 0.45:
        is_and = rng.random() < 0.3
        a = gen_cond(rng, vts, depth - 1, mainvar, p_other)
        b = gen_cond(rng, vts, depth - 1, mainvar, p_other)
        if is_and and rng.random() < 0.6:
            a, b = force_ne(a), force_ne(b)
        return ("bin", is_and, a, b)
    if depth > 0 and r < 0.50:
        return ("not", gen_cond(rng, vts, depth - 1, mainvar, p_other))
    if r < 0.50 + p_other:
        return ("oth", rng.choice([0, 1, 0, 1, 2]))
    if r < 0.72 and subj in ("char", "unsigned char", "Py_UCS4"):
        by = subj != "Py_UCS4"
        pool = [97, 98, 99, 100, 65, 48] if by else [97, 98, 99, 0xE9, 0x20AC, 0x1F600]
        n = rng.choice([2, 2, 3, 4])
        return ("ins", rng.random() < 0.25, v, [rng.choice(pool) for _ in range(n)], by)
    if r < 0.80 and subj is not None:
        n = rng.choice([1, 2, 2, 3, 4])
        return ("seq", rng.random() < 0.25, v, [gen_const(rng, subj, simple=rng.random() < 0.6) for _ in range(n)],
                rng.choice(["()", "[]", "{}"]))
    return ("cmp", rng.random() < 0.15, v, gen_const(rng, subj, simple=rng.random() < 0.5), rng.random() < 0.3)


def force_ne(c):
    if c[0] == "cmp":
        return ("cmp", True) + c[2:]
    if c[0] in ("ins", "seq"):
        return (c[0], True) + c[2:]
    return c


def py_const(c):
    return str(const_pyval(c))


def cond_src(c, py=False):
    k = c[0]
    if k == "cmp":
        a, b = VARNAMES[c[2]], (py_const(c[3]) if py else const_src(c[3]))
        if c[4]:
            a, b = b, a
        return "%s %s %s" % (a, "!=" if c[1] else "==", b)
    if k == "ins":
        if py:
            return "%s %s (%s,)" % (VARNAMES[c[2]], "not in" if c[1] else "in", ", ".join(str(x) for x in c[3]))
        s = "".join(chr(x) if (32 < x < 127 and chr(x) not in "'\\") or x > 255 else "\\x%02x" % x for x in c[3])
        return "%s %s %s'%s'" % (VARNAMES[c[2]], "not in" if c[1] else "in", "b" if c[4] else "", s)
    if k == "seq":
        items = ", ".join((py_const(x) if py else const_src(x)) for x in c[3])
        br = c[4]
        if br == "()" and len(c[3]) == 1:
            items += ","
        return "%s %s %s%s%s" % (VARNAMES[c[2]], "not in" if c[1] else "in", br[0], items, br[1])
    if k == "bin":
        return "(%s) %s (%s)" % (cond_src(c[2], py), "and" if c[1] else "or", cond_src(c[3], py))
    if k == "not":
        return "not (%s)" % cond_src(c[1], py)
    return "p%d" % c[1] if c[1] < 2 else "(p0 == p0 == p0)"      # 2: an always-true cascaded comparison


def normalise(c):
    """ConstantFolding (children first): `not (a in b)` becomes `a not in b`; `==` is never negated (__ne__ may differ)"""
    if c[0] == "not":
        a = normalise(c[1])
        if a[0] in ("ins", "seq"):
            return (a[0], not a[1]) + tuple(a[2:])
        return ("not", a)
    if c[0] == "bin":
        return ("bin", c[1], normalise(c[2]), normalise(c[3]))
    return c


def cond_toks(c, vts, out, top=True):
    if top:
        c = normalise(c)
    k = c[0]
    if k == "cmp":
        out += ["cmp", "1" if c[1] else "0", str(c[2]), const_tok(c[3], vts[c[2]])]
    elif k == "ins":
        out += ["ins", "1" if c[1] else "0", str(c[2]), "1" if c[4] else "0", ".".join(str(x) for x in c[3])]
    elif k == "seq":
        # FlattenInListTransform: reduce(concat): ((t1 op t2) op t3) ...
        tests = [("cmp", c[1], c[2], x, False) for x in c[3]]
        node = tests[0]
        for t in tests[1:]:
            node = ("bin", c[1], node, t)
        cond_toks(node, vts, out, False)
    elif k == "bin":
        out.append("and" if c[1] else "or")
        cond_toks(c[2], vts, out, False)
        cond_toks(c[3], vts, out, False)
    elif k == "not":
        out.append("not")
        cond_toks(c[1], vts, out, False)
    else:
        out += ["oth", str(c[1])]


def cond_consts(c, acc):
    k = c[0]
    if k == "cmp":
        acc.append((c[2], c[3]))
    elif k == "ins":
        acc.extend((c[2], ("c", x, 2)) for x in c[3])
    elif k == "seq":
        acc.extend((c[2], x) for x in c[3])
    elif k == "bin":
        cond_consts(c[2], acc)
        cond_consts(c[3], acc)
    elif k == "not":
        cond_consts(c[1], acc)
    return acc


def has_and(c):
    if c[0] == "bin":
        return c[1] or has_and(c[2]) or has_and(c[3])
    if c[0] == "not":
        return has_and(c[1])
    return c[0] == "seq" and c[1] and len(c[3]) > 1


class Func:
    """one generated function: kind 'if' (clauses, els) or 'expr' (cond, style)"""

    def __init__(self, idx, kind, vts, clauses=None, els=None, cond=None, style=0):
        self.name = "f%d" % idx
        self.kind, self.vts, self.clauses, self.els, self.cond, self.style = kind, vts, clauses, els, cond, style

    def conds(self):
        return [c for c, _ in self.clauses] if self.kind == "if" else [self.cond]

    def source(self, py=False):
        if py:
            sig = "def %s(x, y, o, d, p0, p1):" % self.name
        else:
            sig = "def %s(%s x, %s y, object o, double d, p0, p1):" % (self.name, self.vts[0], self.vts[1])
        lines = [sig]
        if self.kind == "if":
            for i, (c, b) in enumerate(self.clauses):
                lines.append("    %s %s:" % ("if" if i == 0 else "elif", cond_src(c, py)))
                lines.append("        return %d" % b)
            if self.els is not None:
                lines.append("    else:")
                lines.append("        return %d" % self.els)
            lines.append("    return 0")
        elif self.style == 0:
            lines.append("    return 1 if (%s) else 0" % cond_src(self.cond, py))
        else:
            lines.append("    r = %s" % cond_src(self.cond, py))
            lines.append("    return 1 if r else 0")
        return "\n".join(lines) + "\n"

    def model_tail(self):
        out = []
        if self.kind == "if":
            out += ["if", str(len(self.clauses))]
            for c, b in self.clauses:
                cond_toks(c, self.vts, out)
                out.append(str(b))
            out.append("-" if self.els is None else str(self.els))
        else:
            out.append("expr")
            cond_toks(self.cond, self.vts, out)
        return " ".join(out)

    def to_json(self):
        return {"name": self.name, "kind": self.kind, "vts": self.vts, "clauses": self.clauses, "els": self.els,
                "cond": self.cond, "style": self.style}


def tup(x):
    return tuple(tup(y) for y in x) if isinstance(x, list) else x


def func_from_json(j, idx=None):
    f = Func(0, j["kind"], j["vts"], [(tup(c), b) for c, b in j["clauses"]] if j["clauses"] else None, j["els"],
             tup(j["cond"]) if j["cond"] else None, j.get("style", 0))
    f.name = j["name"] if idx is None else "f%d" % idx
    return f


def gen_func(rng, idx):
    subj = rng.choice(sorted(TYPES))
    other = rng.choice(["int", "unsigned char", "long", "unsigned int"])
    vts = [subj, other, None, None]
    if rng.random() < 0.65:
        n = rng.choice([1, 2, 2, 3, 3, 4])
        depth = rng.choice([0, 0, 1, 1, 2])
        clauses = [(gen_cond(rng, vts, depth, 0, p_other=0.04), i + 1) for i in range(n)]
        return Func(idx, "if", vts, clauses, 9 if rng.random() < 0.6 else None)
    return Func(idx, "expr", vts, cond=gen_cond(rng, vts, rng.choice([1, 2, 2, 3]), 0), style=rng.randrange(2))


# ---------------------------------------------------------------- independent C literal reader
_LIT = re.compile(r"^(-?)(0[xX][0-9a-fA-F]+|0[0-7]*|[1-9][0-9]*)((?:[uU](?:ll|LL|l|L)?)|(?:(?:ll|LL|l|L)[uU]?))?$")


def c_literal(code):
    """C11 6.4.4.1 on LP64 -> (type string 's32'|'u32'|'s64'|'u64', value)"""
    code = code.strip()
    if code.startswith("'"):
        body = code[1:-1]
        if body.startswith("\\"):
            esc = {"n": 10, "t": 9, "r": 13, "\\": 92, "'": 39, '"': 34, "0": 0, "a": 7, "b": 8, "f": 12, "v": 11}
            if body[1] == "x":
                v = int(body[2:], 16)
            elif body[1] in "01234567" and len(body) > 1 and body[1:].isdigit():
                v = int(body[1:], 8)
            else:
                v = esc[body[1]]
        else:
            v = ord(body)
        if v >= 128:
            v -= 256          # plain char is signed here
        return "s32", v
    m = _LIT.match(code)
    if not m:
        return None
    neg, digits, suf = m.group(1), m.group(2), (m.group(3) or "").lower()
    mag = int(digits, 16) if digits[:2].lower() == "0x" else (int(digits, 8) if digits.startswith("0") and len(digits) > 1 else int(digits))
    dec = not digits.startswith("0") or digits == "0"
    u, l = "u" in suf, "l" in suf
    if u:
        cands = ([("u32", 32)] if not l else []) + [("u64", 64)]
    elif l:
        cands = [("s64", 63)] + ([] if dec else [("u64", 64)])
    else:
        cands = [("s32", 31), ("s64", 63)] if dec else [("s32", 31), ("u32", 32), ("s64", 63), ("u64", 64)]
    for ty, b in cands:
        if mag < (1 << b):
            break
    else:
        return None
    v = -mag if neg else mag
    if ty[0] == "u":
        v %= 1 << int(ty[1:])
    return ty, v


# ---------------------------------------------------------------- D-py: the real transform, in-process


def run_transform(ctx, src, use_switch, tag):
    """-> ('ok', {fname: ('switch', var, [[labels], ...], bodies) | ('ifs', [[sw...], ...]) | ('expr', [sw...])}) | ('error', msg)"""
    from Cython.Compiler import Main, Pipeline, Errors, Options
    from Cython.Compiler.Optimize import SwitchTransform
    from Cython.Compiler.Main import CompilationOptions, CompilationSource, Context
    from Cython.Compiler.Scanning import FileSourceDescriptor
    from Cython.Compiler.Visitor import TreeVisitor
    import io
    import sys
    d = os.path.join(ctx.scratch, "dpy")
    os.makedirs(d, exist_ok=True)
    path = os.path.join(d, "%s.pyx" % tag)
    with open(path, "w", encoding="utf-8") as f:
        f.write(src)
    ext_ids = {n: i for i, (n, _) in enumerate(EXTS)}

    def label(cond):
        entry = getattr(cond, "entry", None)
        if entry is not None and getattr(entry, "enum_int_value", None) is not None:
            v = entry.enum_int_value
            return "s32:%d" % v
        if entry is not None and getattr(cond, "name", None) in ext_ids:
            return "x%d" % ext_ids[cond.name]
        code = None
        try:
            code = cond.get_constant_c_result_code() if hasattr(cond, "get_constant_c_result_code") else None
        except Exception:
            code = None
        if code is None:
            try:
                code = cond.calculate_result_code()
            except Exception as e:      # noqa: B902
                return "?%s" % type(e).__name__
        r = c_literal(code)
        return ("%s:%d" % r) if r else "?" + cap(code, 40)

    def sw_desc(node, with_ni):
        v = getattr(node.test, "name", "?")
        var = VARNAMES.index(v) if v in VARNAMES else -1
        cases = [[label(c) for c in case.conditions] for case in node.cases]
        if not with_ni:
            return var, cases
        rhs = getattr(node.cases[0].body, "rhs", None)
        while rhs is not None and hasattr(rhs, "arg"):
            rhs = rhs.arg
        val = getattr(rhs, "value", None)
        if not isinstance(val, bool):
            val = getattr(rhs, "constant_result", None)
        ni = 0 if val in (True, 1) else 1
        return "SW%d:v%d:%s" % (ni, var, ",".join(cases[0]))

    class Rec(TreeVisitor):
        def __init__(self):
            super().__init__()
            self.out, self.fn, self.bucket = {}, None, None

        def visit_FuncDefNode(self, node):
            name = getattr(getattr(node, "entry", None), "name", None) or getattr(node, "name", None)
            old = self.fn
            self.fn = name
            self.out[name] = {"stat": None, "expr": []}
            self.bucket = self.out[name]["expr"]
            self.visitchildren(node)
            self.fn = old

        def visit_IfStatNode(self, node):
            rec = self.out.get(self.fn)
            if rec is not None and rec["stat"] is None:
                buckets = [[] for _ in node.if_clauses]
                rec["stat"] = ("ifs", buckets)
                for i, cl in enumerate(node.if_clauses):
                    self.bucket = buckets[i]
                    self.visit(cl.condition)
                self.bucket = rec["expr"]
            else:
                self.visitchildren(node)

        def visit_TempResultFromStatNode(self, node):
            body = node.body
            if type(body).__name__ == "SwitchStatNode":
                self.bucket.append(sw_desc(body, True))
            else:
                self.visitchildren(node)

        def visit_SwitchStatNode(self, node):
            rec = self.out.get(self.fn)
            if rec is not None and rec["stat"] is None:
                var, cases = sw_desc(node, False)
                bodies = []
                for case in node.cases:
                    b = case.body
                    while hasattr(b, "stats") and b.stats:
                        b = b.stats[0]
                    bodies.append(getattr(getattr(b, "value", None), "constant_result", "?"))
                rec["stat"] = ("switch", var, cases, bodies)
            else:
                self.visitchildren(node)

        def visit_Node(self, node):
            self.visitchildren(node)

    try:
        opts = CompilationOptions(Options.default_options, compiler_directives={"optimize.use_switch": bool(use_switch)},
                                  language_level=3)
        context = Context.from_options(opts)
        Errors.init_thread()
        Errors.open_listing_file(None, echo_to_stderr=False)
        source = CompilationSource(FileSourceDescriptor(path, os.path.basename(path)), tag, d)
        result = Main.create_default_resultobj(source, opts)
        pipeline = Pipeline.create_pyx_pipeline(context, opts, result)
        cut = []
        for ph in pipeline:
            cut.append(ph)
            if isinstance(ph, SwitchTransform):
                break
        else:
            raise lib.Infra("SwitchTransform not in the pipeline")
        old = sys.stderr
        sys.stderr = io.StringIO()
        try:
            err, tree = Pipeline.run_pipeline(cut, source)
        finally:
            sys.stderr = old
        if err is not None:
            return ("error", cap(err, 300))
        rec = Rec()
        rec.visit(tree)
        return ("ok", rec.out)
    except lib.Infra:
        raise
    except BaseException as e:      # noqa: B902
        return ("error", "crash " + type(e).__name__ + ": " + cap(e, 200))


def real_decision(rec, kind):
    """canonical string comparable with the model's `statStr` / expr output"""
    if rec is None:
        return "missing"
    if kind == "if":
        st = rec["stat"]
        if st is None:
            return "none"
        if st[0] == "switch":
            return "switch v%d %s" % (st[1], "|".join("%s>%s" % (",".join(ls), b) for ls, b in zip(st[2], st[3])))
        return "ifs " + "|".join((";".join(b) if b else "-") for b in st[1])
    return "expr " + (";".join(rec["expr"]) if rec["expr"] else "-")


# ---------------------------------------------------------------- environments and model lines


def vk_tokens(f, guard):
    toks = []
    for i in (0, 1):
        t = f.vts[i]
        bits, sg = TYPES[t]
        glo, ghi = guard.get(t, promoted_range(t))
        toks.append("c,%d,%d,%d,%d,%d" % (bits, 1 if sg else 0, glo, ghi, 1 if t in ENUMS else 0))
    return ";".join(toks + ["o", "d"])


def env_values(rng, f, n_extra):
    """values for x covering every constant +-1, wrapped images of wide constants, and the type bounds"""
    lo, hi = type_range(f.vts[0])
    cand = {lo, lo + 1, hi, hi - 1, 0, 1, -1, 2, 96, 97, 98}
    for c in f.conds():
        for v, k in cond_consts(c, []):
            pv = const_pyval(k)
            for w in (pv, pv % (1 << 8), pv % (1 << 16), pv % (1 << 32), pv % (1 << 64), pv - (1 << 32), pv - (1 << 64),
                      ((pv + (1 << 31)) % (1 << 32)) - (1 << 31), ((pv + (1 << 63)) % (1 << 64)) - (1 << 63)):
                cand.update((w - 1, w, w + 1))
    xs = sorted(v for v in cand if lo <= v <= hi)
    if len(xs) > 40:
        keep = set(rng.sample(xs, 36)) | {lo, hi, 0 if lo <= 0 <= hi else lo, 1 if lo <= 1 <= hi else lo}
        xs = sorted(keep)
    for _ in range(n_extra):
        xs.append(rng.randint(lo, hi))
    envs = []
    ylo, yhi = type_range(f.vts[1])
    ycands = [0, 1, 2, 5, 7, 97, yhi]
    for c in f.conds():
        ycands += [const_pyval(k) for v, k in cond_consts(c, []) if v == 1 and ylo <= const_pyval(k) <= yhi]
    for x in xs:
        y = rng.choice(ycands)
        o = rng.choice([0, 1, 2, 5, 97])
        dd = rng.choice([1, 2, 5, 97])
        ps = rng.choice(["00", "01", "10", "11", "00"])
        envs.append((x, y, o, dd, ps))
    return envs


def model_line(variant, us, f, env, guard):
    x, y, o, dd, ps = env
    return "C19 sw %s %d %s %d,%d,%d,%d %s1 %s %s" % (
        variant, 1 if us else 0, vk_tokens(f, guard), x, y, o, dd, ps, ",".join(str(v) for _, v in EXTS), f.model_tail())


_MODEL = re.compile(r"^ok (.*) t=(\S+) c=(\S+) p=(\S+) d=(\S+)$")


def parse_model(line):
    m = _MODEL.match(line)
    if not m:
        return None
    return {"dec": m.group(1), "t": m.group(2), "c": m.group(3), "p": m.group(4), "d": m.group(5)}


def arm_str(out):
    """runner outcome 'ok int:3' -> '3' ; fallthrough 0 -> 'none' for if-functions handled by caller"""
    if out.startswith("ok int:"):
        return out[7:]
    return out


def classify(f, impl_nosw_ok):
    if not impl_nosw_ok:
        return "c-compare-conversion"
    if any(has_and(c) for c in f.conds()):
        return "switch-and-merge"
    lo, hi = promoted_range(f.vts[0])
    for c in f.conds():
        for v, k in cond_consts(c, []):
            if v == 0 and k[0] in "ibce" and not (lo <= const_pyval(k) <= hi):
                return "switch-wide-constant"
            if v == 0 and k[0] == "i" and k[1] and k[4]:
                return "switch-wide-constant"
    return "switch-other"


def module_source(funcs, py=False):
    return (PY_HEADER if py else HEADER) + "\n" + "\n".join(f.source(py) for f in funcs)


def guard_ranges(ctx):
    """G: the value ranges the repaired transform assumes per type (None if the source has no range guard)"""
    from Cython.Compiler import PyrexTypes as PT
    from Cython.Compiler.Optimize import SwitchTransform
    fn = getattr(SwitchTransform, "switch_value_range", None)
    if fn is None:
        return None
    tys = {"char": PT.c_char_type, "signed char": PT.c_schar_type, "unsigned char": PT.c_uchar_type,
           "short": PT.c_short_type, "unsigned short": PT.c_ushort_type, "int": PT.c_int_type,
           "unsigned int": PT.c_uint_type, "long": PT.c_long_type, "unsigned long": PT.c_ulong_type,
           "long long": PT.c_longlong_type, "unsigned long long": PT.c_ulonglong_type,
           "Py_ssize_t": PT.c_py_ssize_t_type, "size_t": PT.c_size_t_type, "Py_UCS4": PT.c_py_ucs4_type,
           "E": PT.CEnumType("E", "E", False), "U": PT.CEnumType("U", "U", False)}
    out = {}
    for name, t in tys.items():
        r = fn(t)
        if not (isinstance(r, tuple) and len(r) == 2 and all(isinstance(v, int) for v in r)):
            return "unparsable: %s -> %r" % (name, r)
        out[name] = (int(r[0]), int(r[1]))
    return out


PROBES = [
    # (name, source body, what a firing switch means)
    ("andFix", "def f0(int x, int y, object o, double d, p0, p1):\n    return 1 if ((x == 1) and (x == 2)) else 0\n"),
    ("rangeGuard", "def f0(int x, int y, object o, double d, p0, p1):\n    if x == 4294967296LL:\n        return 1\n"
                   "    elif x == 5:\n        return 2\n    return 0\n"),
    ("bchrInt", "def f0(char x, int y, object o, double d, p0, p1):\n    if x in b'ab' or x == 97:\n        return 1\n"
                "    elif x == 5:\n        return 2\n    return 0\n"),
]


def detect_variant(ctx):
    """behavioural detection of the three sites: a probe that still becomes a switch = the source as found"""
    fired = {}
    probes = PROBES + [("bytesAlone", "def f0(char x, int y, object o, double d, p0, p1):\n    return 1 if (x in b'ab') else 0\n")]
    for name, src in probes:
        st, out = run_transform(ctx, HEADER + "\n" + src, True, "probe_" + name)
        if st != "ok":
            raise lib.Infra("variant probe %s failed: %s" % (name, out))
        rec = out.get("f0") or {}
        fired[name] = (rec.get("stat") or ("",))[0] == "switch" or bool(rec.get("expr"))
    a = "0" if fired["andFix"] else "1"
    g = "0" if fired["rangeGuard"] else "1"
    b = "1" if (not fired["bchrInt"] and fired["bytesAlone"]) else "0"
    return a + g + b


# ---------------------------------------------------------------- corpus: witnesses of the counterexample theorems
def corpus_funcs():
    I = lambda v, **kw: ("i", v < 0, abs(v), kw.get("hex", False), kw.get("u", False), kw.get("l", 0))   # noqa: E731
    cmp_ = lambda v, c: ("cmp", False, v, c, False)   # noqa: E731
    out = []
    out.append(("and-eq", Func(0, "expr", ["int", "int", None, None], cond=("bin", True, cmp_(0, I(1)), cmp_(0, I(2))), style=0)))
    out.append(("and-eq-if", Func(0, "if", ["int", "int", None, None],
                                  [(("bin", True, ("bin", False, cmp_(0, I(1)), cmp_(0, I(2))), cmp_(0, I(3))), 1)], 9)))
    out.append(("wide", Func(0, "if", ["int", "int", None, None], [(cmp_(0, I(1 << 32, l=2)), 1), (cmp_(0, I(5)), 2)], 9)))
    out.append(("wide-dup", Func(0, "if", ["int", "int", None, None], [(cmp_(0, I(1 << 32, l=2)), 1), (cmp_(0, I(0)), 2)], 9)))
    out.append(("neg-unsigned", Func(0, "if", ["unsigned int", "int", None, None], [(cmp_(0, I(-1)), 1), (cmp_(0, I(5)), 2)], None)))
    out.append(("bchr-dup", Func(0, "if", ["char", "int", None, None],
                                 [(("bin", False, ("ins", False, 0, [97, 98], True), cmp_(0, I(97))), 1), (cmp_(0, I(5)), 2)], None)))
    out.append(("c-vs-py", Func(0, "if", ["int", "int", None, None], [(cmp_(0, I((1 << 32) - 1, u=True)), 1), (cmp_(0, I(5)), 2)], 9)))
    out.append(("dup-bool", Func(0, "if", ["int", "int", None, None], [(cmp_(0, I(1)), 1), (cmp_(0, ("b", True)), 2)], 9)))
    out.append(("uchar-256", Func(0, "if", ["unsigned char", "int", None, None], [(cmp_(0, I(255)), 1), (cmp_(0, I(256)), 2), (cmp_(0, I(-1)), 3)], None)))
    out.append(("notin", Func(0, "expr", ["int", "int", None, None], cond=("seq", True, 0, [I(1), I(2), I(3)], "()"), style=1)))
    out.append(("enum-own", Func(0, "if", ["E", "int", None, None], [(cmp_(0, ("e", "E", 0)), 1), (cmp_(0, ("e", "E", 1)), 2), (cmp_(0, I(-1)), 3)], 9)))
    ne_ = lambda v, c: ("cmp", True, v, c, False)   # noqa: E731
    out.append(("ne-at-if-level", Func(0, "if", ["int", "int", None, None], [(ne_(0, I(1)), 1), (cmp_(0, I(2)), 2)], 9)))
    out.append(("or-of-ne", Func(0, "if", ["int", "int", None, None], [(("bin", False, ne_(0, I(1)), ne_(0, I(2))), 1), (cmp_(0, I(1)), 2)], 9)))
    out.append(("or-of-ne-expr", Func(0, "expr", ["int", "int", None, None], cond=("bin", False, ne_(0, I(1)), ne_(0, I(2))), style=1)))
    out.append(("or-two-vars", Func(0, "expr", ["int", "int", None, None], cond=("bin", False, cmp_(0, I(1)), cmp_(1, I(2))), style=0)))
    out.append(("or-two-vars-if", Func(0, "if", ["int", "unsigned char", None, None],
                                       [(("bin", False, cmp_(0, I(1)), cmp_(1, I(2))), 1), (cmp_(0, I(3)), 2)], 9)))
    out.append(("and-ne-two-vars", Func(0, "expr", ["int", "int", None, None], cond=("bin", True, ne_(0, I(1)), ne_(1, I(2))), style=1)))
    out.append(("mixed-eq-ne-and", Func(0, "expr", ["int", "int", None, None], cond=("bin", True, cmp_(0, I(1)), ne_(0, I(2))), style=0)))
    out.append(("two-vars", Func(0, "if", ["int", "int", None, None], [(cmp_(0, I(1)), 1), (cmp_(1, I(2)), 2), (cmp_(0, I(3)), 3)], 9)))
    out.append(("cascade-clause", Func(0, "if", ["int", "int", None, None], [(cmp_(0, I(1)), 1), (("bin", True, ("oth", 2), cmp_(0, I(2))), 2)], 9)))
    out.append(("ucs4", Func(0, "if", ["Py_UCS4", "int", None, None], [(("ins", False, 0, [0x20AC, 97, 0x1F600], False), 1), (cmp_(0, ("c", 0xE9, 2)), 2)], 9)))
    return out


# ---------------------------------------------------------------- the run


class LineCov:
    """2.4(4): executed lines of the modelled pure-Python functions during the D-py run (sys.monitoring, local events)"""
    NAMES = [("SwitchTransform", n) for n in ("extract_conditions", "extract_in_string_conditions", "extract_common_conditions",
                                               "has_duplicate_values", "visit_IfStatNode", "visit_CondExprNode", "visit_BoolBinopNode",
                                               "visit_PrimaryCmpNode", "build_simple_switch_statement", "visit_EvalWithTempExprNode",
                                               "is_safe_case_value", "switch_value_range")] + \
            [("FlattenInListTransform", "visit_PrimaryCmpNode")]

    def __init__(self):
        import sys
        from Cython.Compiler import Optimize
        self.mon = getattr(sys, "monitoring", None)
        self.codes, self.hit = {}, {}
        for cls, name in self.NAMES:
            fn = getattr(getattr(Optimize, cls, None), name, None)
            fn = getattr(fn, "__func__", fn)
            code = getattr(fn, "__code__", None)
            if code is not None:
                self.codes[code] = "%s.%s" % (cls, name)
                self.hit[code] = set()
        self.tool = None

    def start(self):
        if self.mon is None:
            return
        for tid in (3, 4, 5):
            try:
                self.mon.use_tool_id(tid, "c19cov")
                self.tool = tid
                break
            except ValueError:
                continue
        if self.tool is None:
            return
        ev = self.mon.events.LINE
        self.mon.register_callback(self.tool, ev, lambda code, line: self.hit[code].add(line) if code in self.hit else None)
        for code in self.codes:
            self.mon.set_local_events(self.tool, code, ev)

    def stop(self):
        if self.mon is None or self.tool is None:
            return {}
        for code in self.codes:
            self.mon.set_local_events(self.tool, code, 0)
        self.mon.free_tool_id(self.tool)
        out = {}
        for code, name in self.codes.items():
            lines = sorted({ln for _, _, ln in code.co_lines() if ln is not None and ln != code.co_firstlineno})
            miss = [ln for ln in lines if ln not in self.hit[code]]
            out[name] = "%d/%d" % (len(lines) - len(miss), len(lines)) + (" missing " + ",".join(map(str, miss[:12])) if miss else "")
        return out


def dup_class(f):
    """which kind of label collision makes the C compiler reject the switch"""
    bytes_codes, others, exts = [], [], []
    for c in _walk(f):
        if c[0] == "ins" and c[4]:
            bytes_codes += list(set(c[3]))
        elif c[0] == "ins":
            others += list(set(c[3]))
        elif c[0] == "cmp":
            (exts if c[3][0] == "x" else others).append(const_pyval(c[3]))
        elif c[0] == "seq":
            for k in c[3]:
                (exts if k[0] == "x" else others).append(const_pyval(k))
    if any(b in others for b in bytes_codes):
        return "switch-duplicate-label-bytes"
    if any(e in others or e in bytes_codes for e in exts):
        return "switch-duplicate-label-extern-constant"
    lo, hi = promoted_range(f.vts[0])
    for c in f.conds():
        for v, k in cond_consts(c, []):
            if k[0] in "ibce" and (not (lo <= const_pyval(k) <= hi) or (k[0] == "i" and k[1] and k[4])):
                return "switch-duplicate-label-wide"
    return "switch-duplicate-label"


def _walk(f):
    st = list(f.conds())
    while st:
        c = st.pop()
        yield c
        if c[0] == "bin":
            st += [c[2], c[3]]
        elif c[0] == "not":
            st.append(c[1])


def run(ctx, info):
    rng = ctx.rng
    variant = detect_variant(ctx)
    info["switch_variant(andFix,rangeGuard,bchrInt)"] = variant
    guard = {}
    if variant[1] == "1":
        g = guard_ranges(ctx)
        if not isinstance(g, dict):
            ctx.obligation("C19 G: SwitchTransform.switch_value_range readable", False,
                           "range guard detected but its table cannot be read: %s" % cap(g, 200))
            g = {}
        else:
            items = []
            for name in sorted(g):
                bits, sg = TYPES[name]
                items.append("example : (VarKind.cint ⟨%d, %s⟩ (%d) (%d) %s).WF := by\n  simp [VarKind.WF, CTy.promote, CTy.lo, CTy.hiX, s32]"
                             % (bits, "true" if sg else "false", g[name][0], g[name][1], "true" if name in ENUMS else "false"))
            ctx.lean_obligation("C19 G: guard ranges lie inside the promoted C types",
                                "import CyVerif.Props.C19\nopen CyVerif.C19\n" + "\n".join(items) + "\n",
                                "switch_value_range of the current source: " + cap(sorted(g.items()), 250))
        guard = g
    # ---- functions: replay / corpus first, then generated
    rp = ctx.replay_case["case"] if ctx.replay_case and "func" in ctx.replay_case.get("case", {}) else None
    funcs, tags = [], {}
    if rp:
        f = func_from_json(rp["func"], 0)
        funcs.append(f)
        tags[f.name] = "replay"
    else:
        for tag, f in corpus_funcs():
            f.name = "f%d" % len(funcs)
            funcs.append(f)
            tags[f.name] = tag
        for _ in range(ctx.n(150, 900)):
            funcs.append(gen_func(rng, len(funcs)))
    # ---- model: one line per (function, env)
    envs = {}
    lines, index = [], []
    for f in funcs:
        if rp and "env" in rp:
            envs[f.name] = [tuple(rp["env"])]
        else:
            envs[f.name] = env_values(rng, f, 2 if ctx.quick else 12)
        for e in envs[f.name]:
            lines.append(model_line(variant, True, f, e, guard))
            index.append((f.name, e))
        lines.append(model_line(variant, False, f, envs[f.name][0], guard))
        index.append((f.name, None))
    mout = ctx.drv.batch(lines)
    model, model_off = {}, {}
    for (fn, e), ln in zip(index, mout):
        pm = parse_model(ln)
        if pm is None:
            raise lib.Infra("model line rejected: %s" % cap(ln, 200))
        if e is None:
            model_off[fn] = pm
        else:
            model.setdefault(fn, {})[e] = pm
    byname = {f.name: f for f in funcs}
    # ---- D-py: decisions of the real transform
    boost = set()
    chunk = 60
    cov = LineCov()
    cov.start()
    for us in (True, False):
        for i in range(0, len(funcs), chunk):
            part = funcs[i:i + chunk]
            st, out = run_transform(ctx, module_source(part), us, "m%d_%d" % (i, 1 if us else 0))
            if st != "ok":
                ctx.tie_break("D-py pipeline up to SwitchTransform", "module %d: %s" % (i, cap(out, 250)),
                              {"module": cap(module_source(part), 4000)})
                continue
            for f in part:
                real = real_decision(out.get(f.name), f.kind)
                exp = (next(iter(model[f.name].values())) if us else model_off[f.name])["dec"]
                if f.kind == "if" and exp.startswith("ifs") is False and exp.startswith("switch") is False:
                    exp = exp
                ctx.count("D-py/%s/%s" % ("on" if us else "off", exp.split(" ")[0] + ("+sw" if "SW" in exp else "")))
                ctx.seen(("dpy", us, f.source()))
                if real != exp:
                    boost.add(f.name)
                    ctx.tie_break("D-py SwitchTransform decision vs CyVerif.C19.xformIf/xformE",
                                  "%s use_switch=%s: real '%s' model '%s' :: %s" % (tags.get(f.name, f.name), us, cap(real, 90), cap(exp, 90), cap(f.source(), 120)),
                                  {"func": f.to_json(), "real": cap(real), "model": cap(exp), "use_switch": us})
    info["line_coverage(D-py)"] = cov.stop()
    ctx.sample({"switch_source": cap(funcs[min(len(funcs) - 1, 14)].source(), 280),
                "model": cap(next(iter(model[funcs[min(len(funcs) - 1, 14)].name].values())), 200)})
    if os.environ.get("C19_DPY_ONLY"):
        return variant
    # ---- D-c: compile with and without the directive; functions with predicted duplicate labels go alone
    dup = [f for f in funcs if any(pm["d"] == "0" for pm in model[f.name].values())]
    good = [f for f in funcs if f not in dup]
    specs, keys = [], []
    for i in range(0, len(good), chunk):
        part = good[i:i + chunk]
        for us in (True, False):
            specs.append({"name": "c19sw%d_%d" % (i, 1 if us else 0), "source": module_source(part),
                          "directives": {"optimize.use_switch": us}})
            keys.append((i, us, part))
    if not ctx.quick:           # thorough: the first modules once more with -O2 (UB that -O0 hides)
        for i in range(0, min(len(good), 2 * chunk), chunk):
            specs.append({"name": "c19swO2_%d" % i, "source": module_source(good[i:i + chunk]),
                          "directives": {"optimize.use_switch": True}, "opt": "-O2"})
            keys.append((i, "O2", good[i:i + chunk]))
    dup_limit = dup[:8] if ctx.quick else dup[:30]
    for f in dup_limit:
        specs.append({"name": "c19dup_%s" % f.name, "source": module_source([f]), "directives": {"optimize.use_switch": True}})
        keys.append(("dup", True, [f]))
    built = cybuild.build_many(ctx, specs)
    pyns = {}
    exec(compile(module_source(funcs, py=True), "c19_oracle.py", "exec"), pyns)
    results = {}     # (fname, us) -> list of outcomes aligned with envs
    for (i, us, part), so in zip(keys, built):
        if i == "dup":
            f = part[0]
            ctx.count("D-c/duplicate-label-predicted")
            if isinstance(so, cybuild.BuildError) and so.stage == "cc" and "duplicate case value" in so.log:
                ctx.violation(dup_class(f), "generated C does not compile (duplicate case value): %s" % cap(f.source(), 220),
                              {"func": f.to_json(), "cc": cap(so.log, 300)})
            elif isinstance(so, cybuild.BuildError):
                ctx.tie_break("D-c build", "%s: %s" % (so.stage, cap(so.log, 200)), {"func": f.to_json()})
            else:
                ctx.tie_break("D-c duplicate labels predicted by the model but the C compiler accepted the switch",
                              cap(f.source(), 200), {"func": f.to_json()})
            continue
        if isinstance(so, cybuild.BuildError):
            culprits = sorted(set(re.findall(r"In function \W__pyx_pf_\w*?\d+(f\d+)\W", so.log))) if "duplicate case value" in so.log else []
            for fn in culprits[:5]:
                f = byname[fn]
                ctx.violation(dup_class(f) + "-unexplained", "generated C does not compile (duplicate case value): %s" % cap(f.source(), 220),
                              {"func": f.to_json(), "cc": cap(so.log, 300)})
            ctx.tie_break("D-c build of a switch module (use_switch=%s)" % us, "%s: %s" % (so.stage, cap(so.log[-400:], 300)),
                          {"culprits": culprits[:10], "funcs": [f.to_json() for f in part[:3]]})
            continue
        cases, owner = [], []
        for f in part:
            for e in envs[f.name]:
                cases.append((f.name, "(%d, %d, %d, %d.0, %s, %s)" % (e[0], e[1], e[2], e[3], e[4][0] == "1", e[4][1] == "1")))
                owner.append((f.name, e))
        outs = cybuild.run_cases(ctx, so, cases)
        for (fn, e), o in zip(owner, outs):
            results[(fn, us, e)] = arm_str(o)
    for (fn, us, e), v in list(results.items()):
        if us == "O2":
            ctx.count("D-c/-O2")
            if results.get((fn, True, e)) != v:
                ctx.violation("switch-O2-differs", "%s x=%d: -O0 %s, -O2 %s :: %s" % (fn, e[0], results.get((fn, True, e)), v, cap(byname[fn].source(), 200)),
                              {"func": byname[fn].to_json(), "env": list(e)})
    # ---- three-way per (function, env)
    nviol = 0
    for f in good:
        for e in envs[f.name]:
            pm = model[f.name][e]
            sw, ch = results.get((f.name, True, e)), results.get((f.name, False, e))
            if sw is None or ch is None:
                continue
            x, y, o, dd, ps = e
            try:
                py = str(pyns[f.name](x, y, o, float(dd), ps[0] == "1", ps[1] == "1"))
            except Exception as ex:      # noqa: B902
                py = "err " + type(ex).__name__
            norm = lambda a: "0" if a == "none" else a      # noqa: E731
            mt, mc, mp = norm(pm["t"]), norm(pm["c"]), norm(pm["p"])
            dec = pm["dec"].split(" ")[0] + ("+sw" if "SW" in pm["dec"] else "")
            ctx.count("D-c/%s/%s" % (dec, f.vts[0]))
            ctx.seen(("dc", f.source(), e), nontrivial=dec != "ifs" or "SW" in pm["dec"] or py != "0")
            rj = {"func": f.to_json(), "env": list(e), "switch": sw, "ifchain": ch, "python": py}
            if sw != py or ch != py:
                key = classify(f, ch == py)
                if sw != mt or ch != mc:
                    key += "-unexplained"       # not the behaviour of any modelled variant: never a listed finding
                nviol += 1
                ctx.violation(key, "%s x=%d: with switch %s, if-chain %s, CPython %s :: %s" % (tags.get(f.name, f.name), x, sw, ch, py, cap(f.source(), 200)), rj)
            if sw != mt or ch != mc:
                ctx.tie_break("D-c compiled arm vs CyVerif.C19.runT/runIf",
                              "%s x=%d: switch build %s (model %s), if-chain build %s (model %s) :: %s" % (tags.get(f.name, f.name), x, sw, mt, ch, mc, cap(f.source(), 160)), rj)
            if py != mp:
                ctx.tie_break("reference model CyVerif.C19.runPy vs CPython", "x=%d: CPython %s model %s :: %s" % (x, py, mp, cap(f.source(True), 160)), rj)
    info["switch_functions"] = len(funcs)
    info["switch_dup_label_functions"] = len(dup)
    info["switch_envs_with_outcome_not_cpython"] = nviol
    return variant

"""C17 — buffer acquisition accepts exactly the matching buffers.

Implementation: modules compiled by the staged compiler whose functions assign an arbitrary object to a typed
memoryview `T[:]` / legacy buffer `object[T, ndim=1]` (many dtypes) or to `int` memoryviews with many axis
declarations; the object is a compiled exporter (`Exp`) that presents ARBITRARY format strings, item sizes,
shapes, strides, suboffsets and ignores the request flags, or a NumPy array / array.array / bytes / memoryview.
Model: Lean driver (`C17 fmt|spec|ref|contig`).  Oracle: NumPy's independent PEP 3118 parser
(`_dtype_from_pep3118`) for the meaning of a format string, ctypes for the C layout of the dtype, the definition
of C/F contiguity computed in Python, `ctypes.from_buffer_copy` for the element values.
"""
import ctypes
import os
import re

import cybuild
import lib

# ------------------------------------------------------------------ dtypes
SCALARS = {      # code: (cython type, ctypes type, group, readable)
    'b': ('signed char', ctypes.c_byte, 'I'), 'B': ('unsigned char', ctypes.c_ubyte, 'U'),
    'c': ('char', ctypes.c_char, 'H'), 'h': ('short', ctypes.c_short, 'I'), 'H': ('unsigned short', ctypes.c_ushort, 'U'),
    'i': ('int', ctypes.c_int, 'I'), 'I': ('unsigned int', ctypes.c_uint, 'U'), 'l': ('long', ctypes.c_long, 'I'),
    'L': ('unsigned long', ctypes.c_ulong, 'U'), 'q': ('long long', ctypes.c_longlong, 'I'),
    'Q': ('unsigned long long', ctypes.c_ulonglong, 'U'), 'f': ('float', ctypes.c_float, 'R'),
    'd': ('double', ctypes.c_double, 'R'), 'g': ('long double', ctypes.c_longdouble, 'R'),
    'Zf': ('float complex', ctypes.c_float * 2, 'C'), 'Zd': ('double complex', ctypes.c_double * 2, 'C'),
    'O': ('object', ctypes.c_void_p, 'O'),
}
SCALAR_NAMES = {'b': 'schar', 'B': 'uchar', 'c': 'char', 'h': 'short', 'H': 'ushort', 'i': 'int', 'I': 'uint', 'l': 'long',
                'L': 'ulong', 'q': 'llong', 'Q': 'ullong', 'f': 'float', 'd': 'double', 'g': 'ldouble', 'Zf': 'cfloat',
                'Zd': 'cdouble', 'O': 'obj'}
# structs: name -> (packed, [(field, type)]) ; type = scalar code | ('arr', code, dims) | struct name
STRUCTS = {
    'SA': (False, [('a', 'i'), ('d', 'd')]),
    'PA': (True, [('c', 'b'), ('a', 'i'), ('d', 'd')]),
    'SB': (False, [('c', 'B'), ('h', 'h'), ('l', 'l'), ('f', 'f')]),
    'SI': (False, [('a', 'i'), ('b', 'i'), ('c', 'i'), ('h', 'h')]),
    'FF': (False, [('re', 'f'), ('im', 'f')]),
    'SC': (False, [('a', 'i'), ('z', 'FF'), ('w', 'Zd')]),
    'SN': (False, [('c', 'b'), ('inner', 'SA'), ('z', 'h')]),
    'AR': (False, [('a', ('arr', 'i', (3,))), ('m', ('arr', 'd', (2, 2))), ('s', ('arr', 'c', (4,)))]),
    'PQ': (True, [('h', 'H'), ('q', 'Q'), ('u', 'B')]),
    'SL': (False, [('a', 'i'), ('l', 'l'), ('u', 'L'), ('b', 'i')]),
}
# "state" structs {P a; P b; N c}: two adjacent equal items are pooled by the checker (enc_count, is_complex, got_Z,
# enc_packmode carried across items); the third item presents every kind next.
STATE_P = ['Zd', 'Zf', 'd', 'f', 'i']
STATE_N = ['d', 'f', 'Zd', 'Zf', 'i', 'g']
STATE_NAMES = []
for _p in STATE_P:
    for _n in STATE_N:
        _nm = 'X%s_%s' % (_p.replace('Z', 'c'), _n.replace('Z', 'c'))
        STRUCTS[_nm] = (False, [('a', _p), ('b', _p), ('c', _n)])
        STATE_NAMES.append(_nm)
MODULE_OF = {}     # dtype name -> module index


def _ctype(t, cache={}):
    if isinstance(t, tuple):
        ct = _ctype(t[1])
        for d in reversed(t[2]):
            ct = ct * d
        return ct
    if t in SCALARS:
        return SCALARS[t][1]
    if t not in cache:
        packed, fields = STRUCTS[t]
        ns = {'_fields_': [(n, _ctype(ft)) for n, ft in fields]}
        if packed:
            ns['_pack_'] = 1
        cache[t] = type(t, (ctypes.Structure,), ns)
    return cache[t]


def can_be_complex(t):
    if t in STRUCTS:
        f = STRUCTS[t][1]
        return len(f) == 2 and f[0][1] == f[1][1] and f[0][1] in ('f', 'd', 'g')
    return False


def slots_of(t, base=0):
    """leaves in the order of the C walk: (group, elemsize, offset, dims, cplx)"""
    if isinstance(t, tuple):
        return [(SCALARS[t[1]][2], ctypes.sizeof(SCALARS[t[1]][1]), base, tuple(t[2]), 0)]
    if t in SCALARS:
        return [(SCALARS[t][2], ctypes.sizeof(SCALARS[t][1]), base, (), 0)]
    if can_be_complex(t):
        return [('C', ctypes.sizeof(_ctype(t)), base, (), 1)]
    out = []
    ct = _ctype(t)
    for n, ft in STRUCTS[t][1]:
        out += slots_of(ft, base + getattr(ct, n).offset)
    return out


def dtypes():
    ds = []
    for code in SCALARS:
        ds.append({'name': SCALAR_NAMES[code], 'ctype': SCALARS[code][0], 'key': code, 'canon': code})
    for s in STRUCTS:
        ds.append({'name': s, 'ctype': s, 'key': s, 'canon': None})
    for d in ds:
        d['slots'] = slots_of(d['key'])
        d['size'] = ctypes.sizeof(_ctype(d['key']))
        d['read'] = d['key'] not in ('O', 'g', 'AR') and not d['key'].endswith('_g')
    return ds


def canon_fmt(t, top=True):
    """native-mode format string that denotes the dtype (explicit padding through natural alignment)"""
    if isinstance(t, tuple):
        return "(%s)%s" % (",".join(map(str, t[2])), t[1])
    if t in SCALARS:
        return t
    packed, fields = STRUCTS[t]
    body = "".join(canon_fmt(ft, False) + ":%s:" % n for n, ft in fields)
    return "T{%s%s}" % ("^" if packed else "", body)


EXP_SRC = r'''
from cpython.buffer cimport Py_buffer
cimport cython

cdef class Exp:
    cdef bytes data, fmt
    cdef Py_ssize_t itemsize, length
    cdef int ndim, nofmt
    cdef Py_ssize_t shp[8]
    cdef Py_ssize_t std[8]
    cdef Py_ssize_t sub[8]
    cdef int has_std, has_sub
    cdef public int flags_seen, released, acquired
    def __init__(self, data, fmt, itemsize, shape, strides=None, suboffsets=None, length=None):
        self.data = data
        self.fmt = fmt if fmt is not None else b""
        self.nofmt = fmt is None
        self.itemsize = itemsize
        self.ndim = len(shape)
        for i, v in enumerate(shape): self.shp[i] = v
        self.has_std = strides is not None
        if strides is not None:
            for i, v in enumerate(strides): self.std[i] = v
        self.has_sub = suboffsets is not None
        if suboffsets is not None:
            for i, v in enumerate(suboffsets): self.sub[i] = v
        self.length = len(data) if length is None else length
        self.flags_seen = -1
    def __getbuffer__(self, Py_buffer* view, int flags):
        self.flags_seen = flags
        self.acquired += 1
        view.buf = <char*>self.data
        view.obj = self
        view.len = self.length
        view.readonly = 0
        view.itemsize = self.itemsize
        view.format = NULL if self.nofmt else <char*>self.fmt
        view.ndim = self.ndim
        view.shape = self.shp
        view.strides = self.std if self.has_std else NULL
        view.suboffsets = self.sub if self.has_sub else NULL
        view.internal = NULL
    def __releasebuffer__(self, Py_buffer* view):
        self.released += 1

def _verif_env():
    import numpy, array
    return {'Exp': Exp, 'np': numpy, 'array': array}
'''


def struct_decls(names):
    out = []
    done = set()

    def emit(s):
        if s in done or s not in STRUCTS:
            return
        packed, fields = STRUCTS[s]
        for _, ft in fields:
            if isinstance(ft, str):
                emit(ft)
        done.add(s)
        lines = ["cdef %sstruct %s:" % ("packed " if packed else "", s)]
        for n, ft in fields:
            if isinstance(ft, tuple):
                lines.append("    %s %s%s" % (SCALARS[ft[1]][0], n, "".join("[%d]" % d for d in ft[2])))
            else:
                lines.append("    %s %s" % (SCALARS[ft][0] if ft in SCALARS else ft, n))
        out.append("\n".join(lines))
    for s in names:
        emit(s)
    return "\n\n".join(out)


def fmt_module_source(ds):
    parts = [EXP_SRC, struct_decls([d['key'] for d in ds])]
    for d in ds:
        rd = "[a[i] for i in range(n)]"
        parts.append('''
def mv_%(name)s(obj, int n):
    cdef %(ctype)s[:] a
    try:
        a = obj
    except Exception as e:
        return "E " + type(e).__name__ + " " + str(e)[:160]
    return "A " + repr(%(rd)s)

def bf_%(name)s(obj, int n):
    cdef object[%(ctype)s, ndim=1] a
    try:
        a = obj
    except Exception as e:
        return "E " + type(e).__name__ + " " + str(e)[:160]
    return "A " + repr(%(rd)s)
''' % {'name': d['name'], 'ctype': d['ctype'], 'rd': rd})
    return "\n".join(parts)


# ------------------------------------------------------------------ contiguity module
AXDECL = [      # (tag, declaration of the axes, ndim)
    ('s1', ':', 1), ('c1', '::1', 1), ('s2', ':, :', 2), ('c2', ':, ::1', 2), ('f2', '::1, :', 2),
    ('s3', ':, :, :', 3), ('c3', ':, :, ::1', 3), ('f3', '::1, :, :', 3),
    ('i1', '::view.indirect', 1), ('i2', '::view.indirect, :', 2), ('ic2', '::view.indirect_contiguous, ::1', 2),
    ('g1', '::view.generic', 1), ('g2', '::view.generic, ::view.generic', 2), ('ii2', '::view.indirect, ::view.indirect', 2),
    ('gc2', '::view.generic, ::view.contiguous', 2), ('ss2', '::view.strided, ::view.strided', 2),
]


def contig_module_source():
    parts = [EXP_SRC, "from cython cimport view\n"]
    for tag, decl, nd in AXDECL:
        parts.append('''
def cg_%(tag)s(obj):
    cdef int[%(decl)s] a
    try:
        a = obj
    except Exception as e:
        return "E " + type(e).__name__ + " " + str(e)[:160]
    return "A " + repr(([a.shape[k] for k in range(%(nd)d)], [a.strides[k] for k in range(%(nd)d)], [a.suboffsets[k] for k in range(%(nd)d)]))
''' % {'tag': tag, 'decl': decl, 'nd': nd})
    return "\n".join(parts)


ACCESS = {'direct': 1, 'ptr': 2, 'full': 4}
PACKING = {'contig': 8, 'strided': 16, 'follow': 32}


def expected_axes(decl):
    """the documented meaning of an axes declaration: list of (access, packing), c_or_f flag"""
    axes = []
    items = [x.strip() for x in decl.split(',')]
    for it in items:
        if it == ':':
            axes.append(['direct', 'strided'])
        elif it == '::1':
            axes.append(['direct', 'cfcontig'])
        else:
            nm = it.split('.')[-1]
            axes.append({'indirect': ['ptr', 'strided'], 'indirect_contiguous': ['ptr', 'contig'], 'generic': ['full', 'strided'],
                         'strided': ['direct', 'strided'], 'contiguous': ['direct', 'contig'],
                         'indirect_follow': ['ptr', 'follow']}[nm])
    # `::1` in the last (first) position makes every plain ':' axis after the last indirect one 'follow'
    for idx, ax in enumerate(axes):
        if ax[1] == 'cfcontig':
            ax[1] = 'contig'
            rng = range(0, idx) if idx == len(axes) - 1 and idx > 0 else (range(idx + 1, len(axes)) if idx == 0 else [])
            start = 0
            for k in rng:
                if items[k] == ':' :
                    axes[k][1] = 'follow'
    flag = 0
    if all(a[0] == 'direct' for a in axes):
        if axes[-1][1] == 'contig' and all(a[1] == 'follow' for a in axes[:-1]):
            flag = 1
        elif axes[0][1] == 'contig' and all(a[1] == 'follow' for a in axes[1:]) and len(axes) > 1:
            flag = 2
    return [ACCESS[a] | PACKING[p] for a, p in axes], flag


# ------------------------------------------------------------------ oracle: meaning of a format string
KIND_GROUP = {'i': 'I', 'u': 'U', 'b': 'U', 'f': 'R', 'c': 'C', 'O': 'O'}


def np_leaves(dt, base=0):
    """flatten a numpy dtype into (group, size, offset) leaves; None if something has no C meaning here"""
    if dt.subdtype is not None:
        sub, shape = dt.subdtype
        n = 1
        for s in shape:
            n *= s
        out = []
        if n > 4096:
            return None
        for k in range(n):
            r = np_leaves(sub, base + k * sub.itemsize)
            if r is None:
                return None
            out += r
        return out
    if dt.fields is not None:
        out = []
        for nm in dt.names:
            sub, off = dt.fields[nm][:2]
            r = np_leaves(sub, base + off)
            if r is None:
                return None
            out += r
        return out
    if dt.kind == 'S':
        return [('H', 1, base + k) for k in range(dt.itemsize)]
    if dt.kind == 'V':
        return []       # named padding
    if dt.kind not in KIND_GROUP or dt.byteorder == '>':
        return None
    return [(KIND_GROUP[dt.kind], dt.itemsize, base)]


def oracle_layout(fmt):
    """('valid', leaves) | ('invalid', None) by NumPy's PEP 3118 parser (struct module for white space)"""
    import struct
    import warnings
    from numpy._core._internal import _dtype_from_pep3118
    try:
        s = fmt.decode('ascii')
    except UnicodeDecodeError:
        return ('invalid', None)
    if '\x00' in s or len(s) == 0:
        return ('invalid', None)
    bare = re.sub(r':[^:]*:', '', s)
    depth = 0
    for i, ch in enumerate(bare):
        if ch == '{':
            if i == 0 or bare[i - 1] != 'T':
                return ('invalid', None)
            depth += 1
        elif ch == '}':
            depth -= 1
            if depth < 0:
                return ('invalid', None)
    if depth != 0 or 's' in bare or 'p' in bare or bare.count(':') or re.search(r'T(?!\{)', bare):
        return ('invalid', None)            # unbalanced; strings are outside the reference semantics used here
    tries = [s]
    stripped = s.replace(' ', '').replace('\r', '').replace('\n', '')
    if stripped != s:
        try:
            struct.calcsize(s)
            tries = [stripped]
        except Exception:
            return ('invalid', None)
    for t in tries:
        try:
            with warnings.catch_warnings():
                warnings.simplefilter("ignore")
                dt = _dtype_from_pep3118(t)
        except Exception:
            return ('invalid', None)
        if '>' in bare or '!' in bare:
            return ('valid', None)          # big-endian data: not readable by a little-endian view
        lv = np_leaves(dt)
        return ('valid', lv)
    return ('invalid', None)


def kind_ok(f, s):
    return f[1] == s[1] and (f[0] == s[0] or f[0] == 'H' or s[0] == 'H')


def expand_slots(slots):
    out = []
    for g, size, off, dims, cplx in slots:
        n = 1
        for d in dims:
            n *= d
        for k in range(n):
            out.append((g, size, off + k * size, cplx))
    return out


def oracle_match(leaves, slots):
    ss = expand_slots(slots)
    i = 0
    for s in ss:
        if i >= len(leaves):
            return False
        f = leaves[i]
        if kind_ok(f, s) and f[2] == s[2]:
            i += 1
            continue
        if s[3] and i + 1 < len(leaves):
            h = s[1] // 2
            f2 = leaves[i + 1]
            if kind_ok(f, ('R', h)) and f[2] == s[2] and kind_ok(f2, ('R', h)) and f2[2] == s[2] + h:
                i += 2
                continue
        return False
    return i == len(leaves)


def to_py(obj, t):
    if isinstance(t, tuple):
        def rec(o, dims):
            if not dims:
                return to_py(o, t[1])
            return [rec(o[k], dims[1:]) for k in range(dims[0])]
        return rec(obj, t[2])
    if t in ('Zf', 'Zd'):
        return complex(obj[0], obj[1])
    if t == 'c':
        v = obj if isinstance(obj, bytes) else obj.value
        return v[0] - 256 if v[0] > 127 else v[0]
    if t in SCALARS:
        return obj.value if hasattr(obj, 'value') else obj
    return {n: to_py(getattr(obj, n), ft) for n, ft in STRUCTS[t][1]}


def oracle_values(d, data, n, stride):
    ct = _ctype(d['key'])
    out = []
    for k in range(n):
        o = ct.from_buffer_copy(data, k * stride)
        out.append(to_py(o, d['key']))
    return repr(out)


MSG_KIND = [
    ("Buffer dtype mismatch, expected", "mismatch"), ("Buffer dtype mismatch; next field", "offset"),
    ("Does not understand character buffer dtype format string", "unknownchar"),
    ("Unexpected format string character", "unexpectedchar"), ("Expected a dimension of size", "dimsize"),
    ("dimensions, got", "ndim"), ("dimension(s), got", "ndim"), ("Cannot handle repeated arrays", "repeatedarray"),
    ("Expected a comma in format string", "comma"), ("Unexpected end of format string", "eof-array"),
    ("after 'T'", "expectedbrace"), ("Big-endian buffer not supported", "bigendian"), ("Item size of buffer", "itemsize"),
    ("Buffer has wrong number of dimensions", "wrongndim"),
    ("not indirectly contiguous", "indirect-contig"), ("C-contiguous buffer is not contiguous in", "nostrides-contig"),
    ("C-contiguous buffer is not indirect", "nostrides-ptr"), ("suboffsets but no strides", "sub-nostrides"),
    ("not compatible with direct access", "not-direct"), ("not indirectly accessible", "not-indirect"),
    ("not fortran contiguous", "not-f-contig"), ("Buffer not C contiguous", "not-c-contig"),
    ("are not contiguous in the same dimension", "contig-or-follow-dim"),
]


def parse_impl(out):
    """canonical runner line -> ('A', payload) | ('E', exc, kind) | ('X', raw)"""
    if out.startswith("ok str:"):
        import ast
        s = ast.literal_eval(out[len("ok str:"):])
        if s.startswith("A "):
            return ('A', s[2:])
        _, exc, msg = s.split(" ", 2)
        for pat, kind in MSG_KIND:
            if pat in msg:
                return ('E', exc, kind)
        return ('E', exc, "other:" + msg[:60])
    return ('X', out)


# ------------------------------------------------------------------ format generators
ALPHABET = "@=<^ 0123456789xZ?cbBhHiIlLqQfdgOpsT{}:(),>!Pe\t\n" + "iiiidddfffxx22"
CODE_OF = {('I', 1): 'b', ('I', 2): 'h', ('I', 4): 'i', ('I', 8): 'q', ('U', 1): 'B', ('U', 2): 'H', ('U', 4): 'I', ('U', 8): 'Q',
           ('R', 4): 'f', ('R', 8): 'd', ('R', 16): 'g', ('C', 8): 'Zf', ('C', 16): 'Zd', ('O', 8): 'O', ('H', 1): 'c'}
SPECIALS = ["", "0i", "0ii", "i0i", "=i0q", "i0q", "0qi", "1i", "01i", "i}", "i}zz", "T{i", "T{i}", "2T{i}", "T{T{i}}", ":x:i", "i:x:",
            ":abc", "i:", "(1)i", "()i", "( 1)i", "(1 )i", "i x", "ix", "xi", "0xi", "i2", "2 i", "2<i", "i<", ">i", "!i", ">b", "<i",
            "=i", "^i", "@i", "Zf", "Zi", "Z", "ff", "fZf", "2f", "P", "n", "e", "\ti", "i\t", "s", "1s", "3s", "4s", "p", "4p",
            "(4)c", "(4)s", "(3)i", "(3,)i", "(2,2)d", "(2)(2)d", "2(3)i", "(3)2i", "(3", "(3,", "(3x)", "(a)", "2147483647i",
            "idi", "id", "ii", "iid", "i 2x", "T{i}x", "3T{i}", "0T{i}", "T", "T[", "{", "}", "=g", "^g", "=Zg", "g", "Zg", "=l", "=q",
            "^l", "<l", "l", "q", "T{i:a:f:b:}", "T{i:a:d:b:i:c:}", "T{=i:a:d:b:}", "if", "i}i", "iif}", "T{ii}T{i}", "2T{ii}", "T{2i}2i",
            "=l@l@L@i", "=l@lLi", "T{=l:a:@l:l:L:u:i:b:}", "=l4x@l=Q@i", "=i@id", "=b@bid", "^i@l", "=i@i", "@i=i", "=b@b", "xxxxi", "4xi", "i4x", "=ixxxxd", "ixxxxd", "i4xd", "^i4xd", "=bid", "^bid", "bid", "T{^bid}", "T{=b:c:i:a:d:d:}",
            "T{b:c:=i:a:d:d:}", "3ih", "iiih", "2iih", "i2ih", "=3ih", "iiihxx", "3i(1)h", "(3)i(2,2)d(4)c", "(3)i(2,2)d4s",
            "(3)i(2,2)d(4)s", "(3)i4d4c", "3i4d4c", "(3)i(4)d(4)c", "(3)i(2,2)d(4)b", "T{(3)i:a:(2,2)d:m:(4)c:s:}", "bidh", "T{b:c:T{i:a:d:d:}:inner:h:z:}",
            "b7xi4xdh", "b7xidh6x", "iZfZd", "iffZd", "iffdd", "i2fZd", "i4f", "T{i:a:T{f:re:f:im:}:z:Zd:w:}", "Zf8x", "?", "c", "b", "B"]


def flat_fmt(slots, mode, explicit_pad=True):
    """format string denoting the slot list, in the given byte-order mode ('' = native '@')"""
    out = [mode]
    off = 0
    for g, size, o, dims, cplx in slots:
        code = CODE_OF.get((g, size))
        if code is None:
            return None
        if mode in ('=', '<') and code in ('g', 'Zg'):
            return None
        if o > off and (explicit_pad or mode in ('=', '<', '^')):
            out.append("%dx" % (o - off) if o - off > 1 else "x")
        n = 1
        for d in dims:
            n *= d
        out.append("(%s)" % ",".join(map(str, dims)) + code if dims else code)
        off = o + n * size
    return "".join(out)


def mixed_fmt(rng, slots):
    """the same layout with a byte-order mode chosen per item (mode switches between equal type codes included)"""
    out = []
    off = 0
    for g, size, o, dims, cplx in slots:
        if dims or cplx or (g, size) not in CODE_OF:
            return None
        mode = rng.choice('@=^')
        code = CODE_OF[(g, size)]
        if g in 'IU' and size == 4 and mode == '=' and rng.random() < 0.7:
            code = 'l' if g == 'I' else 'L'
        if g in 'IU' and size == 8 and mode in '@^' and rng.random() < 0.7:
            code = 'l' if g == 'I' else 'L'
        if size == 16 and mode == '=':
            mode = '^'
        if mode == '@' and (off + (-off) % min(size, 16 if g != 'C' else size // 2)) != o:
            mode = '^'
        if mode != '@' and o > off:
            out.append("%dx" % (o - off))
        out.append(mode + code)
        off = o + size
    return "".join(out)


def compress_runs(s):
    return re.sub(r'([a-zA-Z?])\1+', lambda m: "%d%s" % (len(m.group(0)), m.group(1)), s)


def mutate(rng, s):
    s = list(s)
    k = rng.randrange(4)
    pos = rng.randrange(len(s) + 1)
    if k == 0 or not s:
        s.insert(pos, rng.choice(ALPHABET))
    elif k == 1:
        del s[min(pos, len(s) - 1)]
    elif k == 2:
        s[min(pos, len(s) - 1)] = rng.choice(ALPHABET)
    else:
        i = min(pos, len(s) - 1)
        j = rng.randrange(len(s))
        s[i], s[j] = s[j], s[i]
    return "".join(s)


def gen_format_cases(ctx, ds):
    """list of (dtype index, fmt str, itemsize)"""
    import numpy as np
    rng = ctx.rng
    cases = []
    good = {}
    for k, d in enumerate(ds):
        g = [canon_fmt(d['key'])]
        try:
            g.append(memoryview(np.zeros(1, dtype=np.dtype(_ctype(d['key'])))).format)
        except Exception:
            pass
        for mode in ('', '@', '=', '<', '^'):
            for ep in (True, False):
                f = flat_fmt(d['slots'], mode, ep)
                if f is not None:
                    g += [f, compress_runs(f), "T{%s}" % f, f + ":nm:", " " + f.replace("x", "x ")]
        for _ in range(12):
            f = mixed_fmt(rng, d['slots'])
            if f is not None:
                g += [f, "T{%s}" % f]
        good[k] = sorted(set(g))
        for f in good[k]:
            cases.append((k, f, d['size']))
    sp_dt = [k for k, d in enumerate(ds) if d['name'] in ('int', 'char', 'schar', 'float', 'cfloat', 'long', 'ldouble', 'obj',
                                                          'FF', 'SA', 'PA', 'AR', 'SI', 'SN', 'SC', 'SL', 'uchar', 'llong', 'cdouble',
                                                          'Xcd_d', 'Xcd_cf', 'Xcf_f', 'Xd_cd', 'Xi_d')]
    for f in SPECIALS:
        for k in sp_dt:
            cases.append((k, f, ds[k]['size']))
    # checker state carried across items x every item kind next
    prefixes = ["ZdZd", "ZfZf", "2Zd", "Zd2Zd", "ZdZd:n:", "ZdZdx", "ZfZf4x", "=ZdZd", "^ZfZf", "Zd Zd", "dd", "ff", "2d", "ii", "2i", "=ii",
                "ZgZg", "Zd", "Zf", "T{ZdZd}", "T{ZfZf}", "ZdZd@", "ZdZd=", "dZdZd", "fZfZf", "(1)i", "0Zd", "ZdZd0Zd"]
    nexts = ["d", "f", "g", "Zd", "Zf", "Zg", "i", "q", "b", "c", "O", "x", "2d", "2f", "3Zd", "dd", "ff", "dZd", "fZf", "T{d}", "T{f}", "s", "p", "(1)d", ""]
    st_dt = [k for k, d in enumerate(ds) if d['name'] in STATE_NAMES]
    few = [k for k, d in enumerate(ds) if d['name'] in ('cdouble', 'cfloat', 'double', 'float', 'FF', 'SC', 'int')]
    for p_ in prefixes:
        for n_ in nexts:
            f = p_ + n_
            for k in few + rng.sample(st_dt, 8):
                cases.append((k, f, ds[k]['size']))
    # every spelling of one state struct against every other one, with the SOURCE struct's item size (what its exporter reports)
    for ks in st_dt:
        for f in good[ks]:
            for kd in st_dt:
                if kd != ks and (ds[kd]['size'] == ds[ks]['size'] or rng.random() < 0.2):
                    cases.append((kd, f, ds[ks]['size']))
    allgood = sorted(set(f for v in good.values() for f in v))
    for _ in range(ctx.n(2500, 25000)):
        k = rng.randrange(len(ds))
        r = rng.random()
        if r < 0.45:
            f = mutate(rng, rng.choice(good[k]))
            if rng.random() < 0.3:
                f = mutate(rng, f)
        elif r < 0.6:
            f = rng.choice(allgood)
        elif r < 0.75:
            f = "".join(rng.choice(ALPHABET) for _ in range(rng.randrange(1, 7)))
        elif r < 0.9:
            a, b = rng.choice(good[k]), rng.choice(SPECIALS)
            f = a + b if rng.random() < 0.5 else b + a
        else:
            f = rng.choice(good[k])
        isz = ds[k]['size']
        if rng.random() < 0.12:
            isz = max(1, isz + rng.choice((-1, 1, 2, 4, 8, -4, isz)))
        cases.append((k, f, isz))
    return cases


def model_line(op, guard, d, fmt, itemsize):
    toks = ["C17", op, str(guard), str(itemsize), str(d['size']), str(len(d['slots']))]
    for g, size, off, dims, cplx in d['slots']:
        toks += [str(ord(g)), str(size), str(off), str(cplx), str(len(dims))] + [str(x) for x in dims]
    toks += [str(c) for c in fmt]
    return " ".join(toks)


def has_zero_count(f):
    return re.search(r'(?<![0-9])0+[a-zA-Z?]', f) is not None


# ------------------------------------------------------------------ the format leg
def build_all(ctx):
    ds = dtypes()
    base = [d for d in ds if d['name'] not in STATE_NAMES]
    state = [d for d in ds if d['name'] in STATE_NAMES]
    groups = [base[0:9], base[9:17], base[17:]] + [state[i:i + 8] for i in range(0, len(state), 8)]
    specs = [{'name': 'c17f%d' % i, 'source': fmt_module_source(g)} for i, g in enumerate(groups)]
    specs.append({'name': 'c17cg', 'source': contig_module_source()})
    res = cybuild.build_many(ctx, specs)
    for s, r in zip(specs, res):
        if isinstance(r, cybuild.BuildError):
            ctx.tie_break("D-c build of " + s['name'], r.stage + ": " + r.log[-300:], {"module": s['name']})
            return None
    for i, g in enumerate(groups):
        for d in g:
            d['so'] = res[i]
    return ds, res


def detect_variant(ctx, ds):
    d = [x for x in ds if x['name'] == 'int'][0]
    outs = cybuild.run_cases(ctx, d['so'], [("mv_int", "(Exp(bytes(8), b'idi', 4, (2,), (4,)), 0)"),
                                            ("mv_int", "(Exp(bytes(8), b'T{i:a:f:b:}', 4, (2,), (4,)), 0)")], timeout_per_case=3)
    guarded = all(parse_impl(o)[0] == 'E' for o in outs)
    ctx.notes["variant"] = "guarded (head==NULL raises)" if guarded else "pinned (head==NULL dereferenced): " + ";".join(o[:20] for o in outs)
    return 1 if guarded else 0


def impl_arg(fmt, itemsize, n, data):
    return "(Exp(%r, %r, %d, (2,), (%d,)), %d)" % (data, fmt, itemsize, itemsize, n)


def classify(f):
    if has_zero_count(f):
        return "zero-count"
    if '>' in f or '!' in f:
        return "bigendian"
    if '(' in f:
        return "array"
    if 's' in f or 'p' in f:
        return "string"
    if 'T' in f:
        return "struct"
    return "flat"


def run_formats(ctx, ds, guard, cases):
    rng = ctx.rng
    lines = []
    for k, f, isz in cases:
        fb = f.encode('latin-1')
        lines.append(model_line("fmt", guard, ds[k], fb, isz))
        lines.append(model_line("spec", guard, ds[k], fb, isz))
        lines.append("C17 ref " + " ".join(str(c) for c in fb))
    mout = ctx.drv.batch(lines)
    # implementation runs, per module; ub cases separately and capped
    per_so = {}
    ub_budget = ctx.n(10, 40)
    hang_budget = 1
    skipped_ub = 0
    plan = []
    for idx, (k, f, isz) in enumerate(cases):
        model = mout[3 * idx]
        d = ds[k]
        fn = ("mv_" if (idx % 3) else "bf_") + d['name']
        n = 2 if (d['read'] and isz == d['size']) else 0
        data = bytes(rng.randrange(256) for _ in range(2 * isz)) if n else bytes(2 * isz)
        if d['key'] == 'c':
            data = bytes(b or 1 for b in data)
        entry = [idx, fn, impl_arg(f.encode('latin-1'), isz, n, data), data, n, None]
        if model == "fuel" or (model.startswith("ub hang") and hang_budget <= 0):
            entry[5] = "skipped"
            skipped_ub += 1
        elif model.startswith("ub hang"):
            hang_budget -= 1
            per_so.setdefault((d['so'], 'ub'), []).append(entry)
        elif model.startswith("ub"):
            if ub_budget > 0:
                ub_budget -= 1
                per_so.setdefault((d['so'], 'ub'), []).append(entry)
            else:
                entry[5] = "skipped"
                skipped_ub += 1
        else:
            per_so.setdefault((d['so'], 'n'), []).append(entry)
        plan.append(entry)
    for (so, kind), ents in per_so.items():
        outs = cybuild.run_cases(ctx, so, [(e[1], e[2]) for e in ents], timeout_per_case=3 if kind == 'ub' else 10)
        for e, o in zip(ents, outs):
            e[5] = o
    ctx.notes["ub_cases_not_run_on_impl"] = skipped_ub
    for idx, (k, f, isz) in enumerate(cases):
        d = ds[k]
        model, spec, ref = mout[3 * idx], mout[3 * idx + 1], mout[3 * idx + 2]
        e = plan[idx]
        fb = f.encode('latin-1')
        validity, leaves = oracle_layout(fb)
        cls = classify(f)
        rep = {"dtype": d['name'], "fmt": f[:120], "itemsize": isz, "fn": e[1]}
        if validity == 'valid':
            omatch = leaves is not None and oracle_match(leaves, d['slots'])
            oracle = "accept" if (omatch and isz == d['size']) else "reject"
        else:
            oracle = None
        ctx.count("fmt/%s/%s/%s" % (cls, oracle or "outside-grammar", model.split(" ")[0] + (":" + model.split(" ")[1] if " " in model else "")))
        ctx.seen((d['name'], f, isz), nontrivial=(oracle is not None))
        # Lean reference vs NumPy/struct reference on the flat alphabet (our spec is tied to the struct meaning)
        if oracle is not None and ref not in ("none", "toobig") and cls in ("flat", "zero-count"):
            rl = [tuple(int(x) for x in t.split(",")) for t in ref.split()[1:-2]]
            rl = [(chr(g), s, o) for g, s, o in rl]
            if leaves is not None and rl != [tuple(x) for x in leaves]:
                ctx.tie_break("Lean reference layout vs NumPy PEP 3118 parser", "fmt %r: lean %s numpy %s" % (f[:60], str(rl)[:120], str(leaves)[:120]), rep)
            if (spec == "accept") != (oracle == "accept") and not any(sl[3] for sl in d['slots']):
                ctx.tie_break("Lean refAccept vs oracle", "fmt %r dtype %s: lean %s oracle %s" % (f[:60], d['name'], spec, oracle), rep)
        if e[5] == "skipped":
            continue
        impl = parse_impl(e[5])
        ctx.sample({"dtype": d['name'], "fmt": f[:60], "itemsize": isz, "impl": e[5][:80], "model": model, "oracle": oracle})
        # ---- property: implementation vs oracle
        if impl[0] == 'X':
            key = "fmt-null-deref" if model.startswith("ub nullderef") else ("fmt-" + model.replace(" ", "-") if model.startswith("ub") else "fmt-crash-other")
            ctx.violation(key, "%s(%s fmt=%r itemsize=%d): %s (model %s)" % (e[1], d['name'], f[:80], isz, impl[1][:40], model), rep)
        elif oracle == "accept" and impl[0] != 'A':
            ctx.violation("reject-valid-%s-%s" % (cls, impl[2][:12]), "%s fmt=%r denotes exactly dtype %s but acquisition raised %s/%s" % (e[1], f[:80], d['name'], impl[1], impl[2][:40]), rep)
        elif oracle == "reject" and impl[0] == 'A':
            ctx.violation("accept-mismatch-" + cls, "%s fmt=%r (itemsize %d) does not denote dtype %s (size %d) but was accepted" % (e[1], f[:80], isz, d['name'], d['size']), rep)
        elif oracle is None and impl[0] == 'A':
            ctx.count("fmt-accepted-outside-grammar")
        if impl[0] == 'E' and impl[1] not in ("ValueError", "TypeError") and not model.startswith("ub"):
            ctx.violation("wrong-exception-class", "%s fmt=%r raised %s" % (e[1], f[:80], impl[1]), rep)
        if impl[0] == 'A' and e[4]:
            want = oracle_values(d, e[3], e[4], isz)
            if impl[1] != want:
                ctx.violation("values-differ", "%s fmt=%r: read %s, raw bytes say %s" % (e[1], f[:60], impl[1][:100], want[:100]), rep)
        # ---- tie: model vs implementation
        if model.startswith("ub"):
            continue
        mi = "ok" if impl[0] == 'A' else ("err " + impl[2] if impl[0] == 'E' else impl[1])
        if mi != model:
            ctx.tie_break("D-c BufFmt_CheckString vs CyVerif.C17.acquire", "%s fmt=%r itemsize=%d: model %s impl %s" % (d['name'], f[:80], isz, model, mi[:60]), rep)


# ------------------------------------------------------------------ the contiguity leg
def c_strides(shape, itemsize):
    st = []
    acc = itemsize
    for s in reversed(shape):
        st.append(acc)
        acc *= s
    return list(reversed(st))


def oracle_contig(specs, flag, shape, strides, sub, itemsize):
    """definition of C/F contiguity and of direct / indirect access on the (shape, strides, suboffsets) description"""
    n = 1
    for s in shape:
        n *= s
    if n == 0:
        return True                     # no element: every layout is contiguous
    if strides is None:
        return None     # every memoryview request includes PyBUF_STRIDES: an exporter leaving strides NULL is non-conforming (model-vs-implementation only)
    for i, sp in enumerate(specs):
        so = -1 if sub is None else sub[i]
        if sp & 1 and so >= 0:
            return False
        if sp & 2 and so < 0:
            return False
        if shape[i] > 1:
            if sp & 8 and strides[i] != (8 if sp & 6 else itemsize):
                return False
            if sp & 32 and abs(strides[i]) < itemsize:
                return False
    if flag == 1:
        acc = itemsize
        for i in reversed(range(len(shape))):
            if shape[i] > 1 and strides[i] != acc:
                return False
            acc *= shape[i]
    if flag == 2:
        acc = itemsize
        for i in range(len(shape)):
            if shape[i] > 1 and strides[i] != acc:
                return False
            acc *= shape[i]
    return True


def gen_contig_cases(ctx):
    rng = ctx.rng
    out = []
    for tag, decl, nd in AXDECL:
        shapes = [[1] * nd, [0] * nd, [2] * nd, [3, 1, 2][:nd], [1, 3, 1][:nd], [2, 0, 3][:nd], [1, 1, 4][:nd], [4, 1, 1][:nd]]
        for _ in range(ctx.n(60, 250)):
            shapes.append([rng.choice((0, 1, 1, 2, 3, 4)) for _ in range(nd)])
        for shape in shapes:
            cs = c_strides(shape, 4)
            fs = list(reversed(c_strides(list(reversed(shape)), 4)))
            cands = [cs, fs, [8] * nd, [4] * nd, [-x for x in cs], [x * 2 for x in cs], [0] * nd, [2] * nd, [8] + cs[1:], cs[:-1] + [8]]
            for _ in range(3):
                base = rng.choice((cs, fs))
                cands.append([x if rng.random() < 0.6 else rng.choice((0, 1, 2, 4, 8, 12, 16, -4, -8, 24, 48, x + 4)) for x in base])
            for strides in cands:
                for sub in (None, [-1] * nd, [0] * nd, [rng.choice((-1, 0, 4)) for _ in range(nd)]):
                    if sub is not None and rng.random() < 0.5 and strides not in (cs, fs):
                        continue
                    out.append((tag, decl, nd, shape, strides, sub))
            out.append((tag, decl, nd, shape, None, None))
            out.append((tag, decl, nd, shape, None, [-1] * nd))
        for wrong in (nd + 1, nd - 1):
            if 1 <= wrong <= 4:
                out.append((tag, decl, nd, [2] * wrong, c_strides([2] * wrong, 4), None))
    return out


def run_contig(ctx, so, conv):
    cases = gen_contig_cases(ctx)
    if ctx.quick and len(cases) > 30000:
        cases = cases[:30000]
    lines, impl_cases, meta = [], [], []
    for tag, decl, nd, shape, strides, sub in cases:
        specs, flag = expected_axes(decl)
        n = 1
        for s in shape:
            n *= s
        ln = n * 4
        toks = ["C17", "contig", str(flag), "1" if strides is not None else "0", "1" if sub is not None else "0", "4", str(ln), str(len(shape))]
        for i in range(len(shape)):
            toks += [str(shape[i]), str(strides[i] if strides is not None else 0), str(sub[i] if sub is not None else -1),
                     str(specs[i] if i < len(specs) else 17)]
        lines.append(" ".join(toks))
        impl_cases.append(("cg_" + tag, "(Exp(bytes(%d), b'i', 4, %r, %r, %r, %d),)" % (max(ln, 4), tuple(shape), strides and tuple(strides),
                                                                                  sub and tuple(sub), ln)))
        meta.append((specs, flag, ln))
    mout = ctx.drv.batch(lines)
    outs = cybuild.run_cases(ctx, so, impl_cases)
    for (tag, decl, nd, shape, strides, sub), (specs, flag, ln), model, o in zip(cases, meta, mout, outs):
        impl = parse_impl(o)
        rep = {"decl": decl, "shape": shape, "strides": strides, "suboffsets": sub, "itemsize": 4}
        if len(shape) != nd:
            model = "err wrongndim"
            oracle = False
        else:
            oracle = oracle_contig(specs, flag, shape, strides, sub, 4)
        mi = "ok" if impl[0] == 'A' else ("err " + impl[2] if impl[0] == 'E' else impl[1])
        if mi == "err contig-or-follow-dim":
            mi = model if model in ("err contig-dim", "err follow-dim") else mi
        zero = ln == 0
        ext1 = any(s == 1 for s in shape)
        ctx.count("contig/%s/%s/%s%s" % (tag, "accept" if oracle else "reject", model.replace(" ", ":"), "/zero" if zero else ("/ext1" if ext1 else "")))
        ctx.seen((tag, tuple(shape), strides and tuple(strides), sub and tuple(sub)), nontrivial=not zero)
        if impl[0] == 'X':
            ctx.violation("contig-crash", "cg_%s %s: %s" % (tag, str(rep)[:150], impl[1][:30]), rep)
        elif oracle is not None and (impl[0] == 'A') != oracle:
            kind = "nostrides" if strides is None else ("zero" if zero else "strided")
            ctx.violation("contig-%s-%s" % ("accepts-noncontig" if impl[0] == 'A' else "rejects-contig", kind),
                          "int[%s] <- shape %s strides %s suboffsets %s: %s, definition says %s" % (decl, shape, strides, sub, mi[:40], "accept" if oracle else "reject"), rep)
        elif impl[0] == 'E' and impl[1] not in ("ValueError", "TypeError"):
            ctx.violation("wrong-exception-class", "cg_%s raised %s" % (tag, impl[1]), rep)
        elif impl[0] == 'A':
            want = repr((list(shape), list(strides) if strides is not None else c_strides(shape, 4), list(sub) if sub is not None else [-1] * nd))
            if impl[1] != want:
                ctx.violation("slice-init-differs", "cg_%s view has %s, exporter gave %s" % (tag, impl[1][:100], want[:100]), rep)
        if mi != model:
            ctx.tie_break("D-c ValidateAndInit_memviewslice axes checks vs CyVerif.C17.validateAxes", "int[%s] %s: model %s impl %s" % (decl, str(rep)[:150], model, mi[:50]), rep)


# ------------------------------------------------------------------ real exporters
REAL_OBJS = (["np.frombuffer(bytes(range(1, 65)), dtype=%r)[:4].copy()" % t for t in ('i1', 'u1', '<i2', '>i2', '<u2', '<i4', '>i4', '=i4', '<u4', '<i8', '>i8', '<u8', '<f4', '>f4',
                                                      '<f8', '>f8', 'f16', '<c8', '>c8', '<c16', '?', 'S1', 'S4', 'l', 'L', 'q', 'Q', 'p')] +
             ["array.array(%r, [1, 2, 3])" % t for t in 'bBhHiIlLqQfd'] +
             ["bytearray(b'abcdefgh')", "memoryview(bytearray(16)).cast('i')", "memoryview(bytearray(16)).cast('d')",
              "memoryview(bytearray(16)).cast('c')", "memoryview(bytearray(16)).cast('?')", "memoryview(bytearray(16)).cast('@l')",
              "np.zeros(3, dtype=[('a','i4'),('d','f8')])", "np.zeros(3, dtype=np.dtype([('a','i4'),('d','f8')], align=True))",
              "np.zeros(3, dtype=np.dtype([('c','i1'),('a','i4'),('d','f8')], align=True))", "np.zeros(3, dtype=[('c','i1'),('a','i4'),('d','f8')])",
              "np.zeros(3, dtype=[('re','f4'),('im','f4')])", "np.zeros(3, dtype=[('a','i4'),('b','f4')])",
              "np.zeros(3, dtype=np.dtype([('a','i4'),('z','c8'),('w','c16')], align=True))",
              "np.zeros(3, dtype=np.dtype([('a','i4',(3,)),('m','f8',(2,2)),('s','S4')], align=True))",
              "np.zeros(3, dtype=np.dtype([('h','u2'),('q','u8'),('u','u1')]))", "np.arange(8, dtype='i4')[::2]", "np.arange(8, dtype='i4')[::-1]",
              "np.zeros((2,2), dtype='i4')", "np.zeros((), dtype='i4')", "np.zeros(0, dtype='i4')", "np.zeros(0, dtype='f8')", "3", "'abc'"])


def run_real(ctx, ds, guard):
    import array
    import numpy as np
    env = {'np': np, 'array': array}
    plan = []
    for src in REAL_OBJS:
        obj = eval(src, env)
        try:
            mv = memoryview(obj)
            info = (mv.format.encode(), mv.itemsize, mv.ndim, mv.shape, mv.strides, bytes(mv.tobytes()) if mv.ndim == 1 and mv.format not in ('g',) else b"")
        except Exception:
            info = None
        for d in ds:
            if d['key'] == 'O':
                continue
            plan.append((src, info, d))
    lines = [model_line("fmt", guard, d, info[0], info[1]) if info else "C17 bad" for src, info, d in plan]
    mout = ctx.drv.batch(lines)
    by_so = {}
    for j, (src, info, d) in enumerate(plan):
        n = 0
        if info and info[2] == 1 and d['read'] and info[1] == d['size'] and info[4][0] == info[1]:
            n = min(2, info[3][0])
        by_so.setdefault(d['so'], []).append((j, ("mv_" if j % 2 else "bf_") + d['name'], "(%s, %d)" % (src, n), n))
    for so, ents in by_so.items():
        ents_run = [e for e in ents if not mout[e[0]].startswith("ub")]
        outs = cybuild.run_cases(ctx, so, [(e[1], e[2]) for e in ents_run])
        for e, o in zip(ents_run, outs):
            src, info, d = plan[e[0]]
            model = mout[e[0]]
            impl = parse_impl(o)
            rep = {"obj": src, "dtype": d['name'], "fn": e[1]}
            if info is None or info[2] != 1:
                oracle = "reject"
                model = None
            else:
                validity, leaves = oracle_layout(info[0])
                if validity != 'valid':
                    continue
                oracle = "accept" if (validity == 'valid' and leaves is not None and oracle_match(leaves, d['slots']) and info[1] == d['size']) else "reject"
            ctx.count("real/%s/%s" % (oracle, "A" if impl[0] == 'A' else impl[1][:12]))
            ctx.seen((src, d['name']), nontrivial=True)
            if impl[0] == 'X':
                ctx.violation("fmt-null-deref" if (model or "").startswith("ub nullderef") else "fmt-crash-other", "%s(%s): %s" % (e[1], src[:80], impl[1][:30]), rep)
            elif (impl[0] == 'A') != (oracle == "accept"):
                ctx.violation("real-exporter-" + ("accepted" if impl[0] == 'A' else "rejected"), "%s(%s): %s, oracle %s (format %r)" % (e[1], src[:80], o[:50], oracle, info and info[0][:40]), rep)
            elif impl[0] == 'E' and impl[1] not in ("ValueError", "TypeError", "BufferError"):
                ctx.violation("wrong-exception-class", "%s(%s) raised %s" % (e[1], src[:60], impl[1]), rep)
            elif impl[0] == 'A' and e[3]:
                want = oracle_values(d, info[5], e[3], info[1])
                if impl[1] != want:
                    ctx.violation("values-differ", "%s(%s): read %s, raw bytes say %s" % (e[1], src[:60], impl[1][:80], want[:80]), rep)
            if model is not None and not model.startswith("ub") and model != "bad-op":
                mi = "ok" if impl[0] == 'A' else ("err " + impl[2] if impl[0] == 'E' else impl[1])
                if mi != model:
                    ctx.tie_break("D-c real exporter vs CyVerif.C17.acquire", "%s(%s): model %s impl %s" % (e[1], src[:60], model, mi[:50]), rep)


def parse_converters(csrc):
    out = {}
    vals = {"__Pyx_MEMVIEW_DIRECT": 1, "__Pyx_MEMVIEW_PTR": 2, "__Pyx_MEMVIEW_FULL": 4, "__Pyx_MEMVIEW_CONTIG": 8, "__Pyx_MEMVIEW_STRIDED": 16,
            "__Pyx_MEMVIEW_FOLLOW": 32, "__Pyx_IS_C_CONTIG": 1, "__Pyx_IS_F_CONTIG": 2, "0": 0}
    for m in re.finditer(r'__Pyx_PyObject_to_MemoryviewSlice_(\w+)\(PyObject \*obj, int writable_flag\) \{.*?int axes_specs\[\] = \{(.*?)\};'
                         r'.*?__Pyx_ValidateAndInit_memviewslice\(axes_specs, (\w+),\s*(.*?) \| writable_flag, (\d+)', csrc, re.S):
        specs = []
        for part in m.group(2).split("),"):
            v = 0
            for nm in re.findall(r'__Pyx_MEMVIEW_\w+', part):
                v |= vals[nm]
            specs.append(v)
        out[m.group(1)] = (specs, vals.get(m.group(3), -1), m.group(4), int(m.group(5)))
    return out


def suffix_of(specs):
    return "".join({1: 'd', 2: 'p', 4: 'f'}[s & 7] + {8: 'c', 16: 's', 32: '_'}[s & 56] for s in specs) + "_int"


def run(ctx):
    ctx.rule = ("format leg: (dtype, format string, itemsize) with dtype from 17 scalar and 9 struct dtypes (packed, nested, two-float, array fields), "
                "format strings = every spelling of the matching layout (native/=/</^ modes, explicit or implied padding, pooled counts, T{} wrapper, names, "
                "white space), a list of ~170 hand-picked corner strings, seeded single/double character mutations, random strings over the struct/PEP 3118 "
                "alphabet, formats of other dtypes; contiguity leg: 16 axis declarations x shapes with extents 0..4 x C/F/negative/doubled/zero/perturbed "
                "strides x suboffsets None/-1/0/mixed x strides NULL, plus wrong ndim; real exporters: numpy (all scalar dtypes, byte orders, structured aligned/"
                "unaligned), array.array, bytearray, memoryview.cast. non-trivial = the format string is inside the grammar (NumPy's PEP 3118 parser or struct accept it) / the buffer is not empty")
    ctx.explanation = ("No theorem covers: T{} nesting, (shape) array fields and s/p strings in the FORMAT (the checker model handles them and is tied differentially; the "
                       "Lean reference semantics is defined on the flat alphabet only), dtypes whose leaf list contains array fields or two-float structs in the "
                       "format theorems, zero repeat counts (explicit hypothesis; counterexample proved), get_type_information_cname (its tables are exercised "
                       "through the compiled modules and compared with the ctypes layout only by behaviour), the PyBUF flags negotiation, element value reads "
                       "(oracle-checked only).")
    built = build_all(ctx)
    if built is None:
        return
    ds, sos = built
    csrc = open(os.path.join(os.path.dirname(sos[-1]), "c17cg.c")).read()
    conv = parse_converters(csrc)
    for tag, decl, nd in AXDECL:
        specs, flag = expected_axes(decl)
        got = conv.get(suffix_of(specs))
        if got is None or got[0] != specs or got[1] != flag or got[3] != nd:
            ctx.tie_break("G axes_specs of int[%s]" % decl, "documented meaning %s flag %d, generated code has %s" % (specs, flag, str(got)[:100]), {"decl": decl})
    ctx.notes["converters"] = {k: [v[0], v[1], v[2]] for k, v in sorted(conv.items())}
    guard = detect_variant(ctx, ds)
    rc = getattr(ctx, "replay_case", None)
    if rc and "fmt" in rc.get("case", rc):
        c = rc.get("case", rc)
        k = [i for i, d in enumerate(ds) if d['name'] == c["dtype"]][0]
        run_formats(ctx, ds, guard, [(k, c["fmt"], c["itemsize"])] * 3)
        return
    cases = gen_format_cases(ctx, ds)
    run_formats(ctx, ds, guard, cases)
    run_real(ctx, ds, guard)
    run_contig(ctx, sos[-1], conv)

"""C19 parts 2 and 3: cascaded comparisons and membership tests on Python objects with logging operands.
Three-way: compiled module (staged compiler + gcc), Lean model (cydrv `C19 casc` / `C19 in`), CPython running the
same function source.  Typed / mixed operand chains and container-object membership: compiled vs CPython."""
import cybuild
import lib

CAP = 300


def cap(s, n=CAP):
    s = str(s)
    return s if len(s) <= n else s[:n] + "..."


# interpreted by CPython inside the compiled module (exec), so the logging machinery is not compiled code
HELPER = r'''
class Exc(Exception):
    def __init__(self, e):
        self.e = e
def _out(x):
    return isinstance(x, list)
class R(object):
    def __init__(self, W, rid):
        self.W, self.rid = W, rid
    def __bool__(self):
        self.W.log.append("T%d" % self.rid)
        t = self.W.truths.get(self.rid, True)
        if _out(t):
            raise Exc(t[1])
        return t
class V(object):
    __hash__ = None
    def __init__(self, W, vid):
        self.W, self.vid = W, vid
    def _c(self, op, o):
        oid = o.vid if isinstance(o, V) else 0
        self.W.log.append("C%d.%d.%d" % (op, self.vid, oid))
        r = self.W.cmps.get("%d.%d.%d" % (op, self.vid, oid), 1000 + 100 * op + 10 * self.vid + oid)
        if _out(r):
            raise Exc(r[1])
        return self.W.result(r)
    def __lt__(self, o): return self._c(0, o)
    def __le__(self, o): return self._c(1, o)
    def __eq__(self, o): return self._c(2, o)
    def __ne__(self, o): return self._c(3, o)
    def __gt__(self, o): return self._c(4, o)
    def __ge__(self, o): return self._c(5, o)
class World(object):
    def __init__(self, spec):
        self.evs, self.cmps, self.truths = spec.get("ev", {}), spec.get("cmp", {}), spec.get("truth", {})
        self.log, self.objs, self.res = [], {}, {}
    def result(self, rid):
        if rid not in self.res:
            self.res[rid] = R(self, rid)
        return self.res[rid]
    def ev(self, leaf):
        self.log.append("E%d" % leaf)
        r = self.evs.get(leaf, leaf)
        if _out(r):
            raise Exc(r[1])
        if r not in self.objs:
            self.objs[r] = V(self, r)
        return self.objs[r]
def drive(fn, spec):
    W = World(spec)
    try:
        r = fn(W.ev)
    except Exc as e:
        fin = "raise:%d" % e.e
    except BaseException as e:
        fin = "raise:" + type(e).__name__
    else:
        if isinstance(r, R):
            fin = "val:%d" % r.rid
        elif isinstance(r, bool):
            fin = "bool:%d" % r
        else:
            fin = "other:" + type(r).__name__
        del r
    import sys
    for rid in sorted(W.res):
        o = W.res[rid]
        if sys.getrefcount(o) != 3:           # the cache, the variable `o`, the argument
            fin = fin.replace("raise:", "raiseDD:") if fin.startswith("raise:") else fin + "/rc:%d" % (sys.getrefcount(o) - 3)
            break
    return (",".join(W.log) or "-") + "/" + fin

class Weird(object):
    """comparison methods with configurable outcome: a value, NotImplemented or an exception class"""
    def __init__(self, name, res):
        self.name, self.res = name, res
    def _r(self):
        if isinstance(self.res, type) and issubclass(self.res, BaseException):
            raise self.res()
        return self.res
    def __lt__(self, o): return self._r()
    def __le__(self, o): return self._r()
    def __gt__(self, o): return self._r()
    def __ge__(self, o): return self._r()
    def __eq__(self, o): return self._r()
    def __ne__(self, o): return self._r()
    def __contains__(self, o): return self._r()
    def __hash__(self): return 7
    def __repr__(self): return "W(%s)" % self.name
class BadBool(object):
    def __bool__(self): raise ValueError()
    def __repr__(self): return "BadBool"
class Sub(str):
    def __eq__(self, o): return "subeq"
    def __ne__(self, o): return "subne"
    __hash__ = str.__hash__
NAN = float("nan")
def call(fn, *args):
    """canonical outcome of a call with arbitrary result objects"""
    try:
        r = fn(*args)
    except BaseException as e:
        return "raise:" + type(e).__name__
    def canon(v):
        if isinstance(v, tuple):
            return "(" + ",".join(canon(x) for x in v) + ")"
        if isinstance(v, float):
            return "float:" + (v.hex() if v == v else "nan")
        return type(v).__name__ + ":" + repr(v)
    return canon(r)
'''

OPS = {0: "<", 1: "<=", 2: "==", 3: "!=", 4: ">", 5: ">="}


def chain_src(name, first, links, bool_ctx):
    expr = "ev(%d)" % first + "".join(" %s ev(%d)" % (OPS[op], leaf) for op, leaf in links)
    if bool_ctx:
        return "def %s(ev):\n    if %s:\n        return True\n    return False\n" % (name, expr)
    return "def %s(ev):\n    return %s\n" % (name, expr)


def in_src(name, x, items, not_in, br):
    its = ", ".join("ev(%d)" % i for i in items) + ("," if br == "()" and len(items) == 1 else "")
    return "def %s(ev):\n    return ev(%d) %s %s%s%s\n" % (name, x, "not in" if not_in else "in", br[0], its, br[1])


def out_tok(v):
    return "!%d" % v[1] if isinstance(v, list) else ("%d" % v if not isinstance(v, bool) else ("1" if v else "0"))


def world_toks(spec):
    ev = ";".join("%d=%s" % (k, out_tok(v)) for k, v in sorted(spec.get("ev", {}).items())) or "-"
    cm = ";".join("%s=%s" % (k, out_tok(v)) for k, v in sorted(spec.get("cmp", {}).items())) or "-"
    tr = ";".join("%d=%s" % (k, out_tok(v)) for k, v in sorted(spec.get("truth", {}).items())) or "-"
    return ev, cm, tr


def gen_world(rng, first, links, p_raise):
    """random world for a chain: result ids 50+k per link, truth mostly true so that long chains are walked"""
    spec = {"ev": {}, "cmp": {}, "truth": {}}
    leaves = [first] + [l for _, l in links]
    for l in leaves:
        if rng.random() < p_raise:
            spec["ev"][l] = ["!", rng.randrange(1, 5)]
    a = first
    for k, (op, leaf) in enumerate(links):
        key = "%d.%d.%d" % (op, a, leaf)
        r = rng.random()
        if r < p_raise:
            spec["cmp"][key] = ["!", 10 + k]
        else:
            rid = 50 + k if rng.random() < 0.8 else 50     # sometimes the same result object twice
            spec["cmp"][key] = rid
            t = rng.random()
            spec["truth"][rid] = ["!", 20 + k] if t < p_raise * 1.5 else (t < 0.75)
        a = leaf
    return spec


def gen_in_world(rng, x, items, p_raise, p_same):
    spec = {"ev": {}, "cmp": {}, "truth": {}}
    for l in [x] + items:
        if rng.random() < p_raise / 2:
            spec["ev"][l] = ["!", rng.randrange(1, 5)]
    xv = x
    vals = []
    for l in items:
        v = l
        if rng.random() < p_same:
            v = xv                       # this item IS the object x
            spec["ev"][l] = v
        vals.append(v)
    rid = 60
    for v in vals:
        for op in (2, 3):
            for (a, b) in ((v, xv), (xv, v)):
                key = "%d.%d.%d" % (op, a, b)
                if key in spec["cmp"]:
                    continue
                if rng.random() < p_raise:
                    spec["cmp"][key] = ["!", 30 + op]
                else:
                    rid += 1
                    spec["cmp"][key] = rid
                    t = rng.random()
                    spec["truth"][rid] = ["!", 40] if t < p_raise else (t < 0.35 if op == 2 else t < 0.65)
    return spec


# ---------------------------------------------------------------- typed / mixed chains and container membership (two-way)
TYPED = '''
def t_iii(int a, int b, int c): return a < b < c
def t_iii2(int a, int b, int c): return a <= b == c
def t_ioi(int a, b, int c): return a < b <= c
def t_oio(a, int b, c): return a < b != c
def t_dio(double a, int b, c): return a <= b < c
def t_ooo(a, b, c): return a < b < c
def t_ooo2(a, b, c): return a == b != c
def t_oooo(a, b, c, d): return a <= b < c >= d
def t_is(a, b, c): return a is b is not c
def t_in(a, b, c): return a in b in c
def t_nin(a, b, c): return a not in b == c
def t_if_ooo(a, b, c):
    if a < b < c:
        return 1
    return 0
def t_if_ioi(int a, b, int c):
    if a < b <= c:
        return 1
    return 0
def t_u_i(unsigned int a, int b, long c): return a > b > c
def t_lit_tuple(x): return x in (1, 'a', None, 2.5), x not in [1, 1.0, True]
def t_lit_set(x): return x in {1, 'a'}
def t_lit_ident(x): return x in (x, 0), x not in [0, x]
def t_l2_in(x, y): return x in (y, 3)
def t_l2_nin(x, y): return x not in (y,)
def t_dict(k, dict d): return k in d, k not in d
def t_set(k, set s): return k in s, k not in s
def t_fset(k, frozenset s): return k in s
def t_list(k, list l): return k in l, k not in l
def t_tuple(k, tuple t): return k in t
def t_str(k, str s): return k in s, k not in s
def t_obj(k, c): return k in c, k not in c
def t_bytes(k, bytes b): return k in b
def t_casc_in(a, dict d, c): return a in d == c
def t_empty(x): return x in (), x not in [], x not in ()
def t_star(x, a): return x in (*a, 1), x not in [0, *a]
def t_nest(x): return x in ((1, 2), (3, 4)), (1, 2) in ((1, 2), x), [1] in ([1], x)
def t_setseq(x): return x in {(1, 2), frozenset([3])}
def t_cd(int a, int b, dict d): return a <= b in d
def t_cs(int a, int b, set s, c): return a != b in s != c
def t_cl(int a, int b, list l): return a < b not in l
cdef int _cnt = 0
cdef int bump(int v):
    global _cnt
    _cnt += 1
    return v
cdef class Box:
    cdef public int hits
    cdef int v
    def __init__(self, v): self.v = v; self.hits = 0
    @property
    def val(self):
        self.hits += 1
        return self.v
def t_cmid(int a, int b, int c):
    global _cnt
    _cnt = 0
    r = a < bump(b) <= c
    return r, _cnt
def t_cmid2(int a, int b, int c, int d):
    global _cnt
    _cnt = 0
    r = a <= bump(b) < bump(c) != d
    return r, _cnt
def t_pmid(a, b, c):
    x = Box(b)
    r = a < x.val < c
    return r, x.hits
'''


PY_EXTRA = '''
_cnt = 0
def bump(v):
    global _cnt
    _cnt += 1
    return v
class Box(object):
    def __init__(self, v): self.v = v; self.hits = 0
    @property
    def val(self):
        self.hits += 1
        return self.v
def t_cmid(a, b, c):
    global _cnt
    _cnt = 0
    r = a < bump(b) <= c
    return r, _cnt
def t_cmid2(a, b, c, d):
    global _cnt
    _cnt = 0
    r = a <= bump(b) < bump(c) != d
    return r, _cnt
def t_pmid(a, b, c):
    x = Box(b)
    r = a < x.val < c
    return r, x.hits
'''


def typed_py_source():
    import re
    src = TYPED[:TYPED.index("cdef int _cnt")] + PY_EXTRA
    return re.sub(r"\b(unsigned int|double|int|long|dict|set|frozenset|list|tuple|str|bytes) (\w+)([,)])", r"\2\3", src)


def typed_cases(rng, n):
    objs = ["1", "2", "3", "0", "-1", "2.5", "NAN", "None", "'a'", "'ab'", "Weird('t', True)", "Weird('f', False)",
            "Weird('n', NotImplemented)", "Weird('s', 'str')", "Weird('e', '')", "Weird('z', 0)", "Weird('x', KeyError)",
            "Weird('b', BadBool())", "[1]", "(1, 2)", "Sub('a')", "True", "2**70"]
    ints = ["0", "1", "2", "3", "-1", "-5", "7", "2147483647", "-2147483648"]
    cases = []
    for _ in range(n):
        pick = lambda pool: rng.choice(pool)      # noqa: E731
        cases += [("t_iii", (pick(ints), pick(ints), pick(ints))), ("t_iii2", (pick(ints), pick(ints), pick(ints))),
                  ("t_ioi", (pick(ints), pick(objs), pick(ints))), ("t_oio", (pick(objs), pick(ints), pick(objs))),
                  ("t_dio", (pick(["1.0", "2.5", "NAN", "float('inf')", "-0.0"]), pick(ints), pick(objs))),
                  ("t_ooo", (pick(objs), pick(objs), pick(objs))), ("t_ooo2", (pick(objs), pick(objs), pick(objs))),
                  ("t_oooo", (pick(objs), pick(objs), pick(objs), pick(objs))), ("t_is", (pick(objs[:8]), pick(objs[:8]), pick(objs[:8]))),
                  ("t_in", (pick(objs), pick(["[1]", "(1, 2)", "[[1]]", "'ab'", "Weird('t', True)", "Weird('x', KeyError)", "5"]),
                            pick(["[[1]]", "[(1, 2)]", "['ab']", "Weird('f', False)", "Weird('s', 'str')", "None"]))),
                  ("t_nin", (pick(objs), pick(["[1]", "(1, 2)", "'ab'", "Weird('z', 0)"]), pick(objs))),
                  ("t_if_ooo", (pick(objs), pick(objs), pick(objs))), ("t_if_ioi", (pick(ints), pick(objs), pick(ints))),
                  ("t_u_i", (pick(["0", "1", "5", "4294967295"]), pick(ints), pick(ints))),
                  ("t_lit_tuple", (pick(objs + ["[]", "{}"]),)), ("t_lit_set", (pick(objs + ["[]", "{}"]),)),
                  ("t_lit_ident", (pick(objs),)), ("t_l2_in", (pick(objs), pick(objs))), ("t_l2_nin", (pick(objs), pick(objs))),
                  ("t_dict", (pick(objs + ["[]"]), pick(["{1: 2}", "{}", "{'a': 1, None: 2}", "None", "{NAN: 1}"]))),
                  ("t_set", (pick(objs + ["[]"]), pick(["{1, 'a'}", "set()", "None", "{2.5, None}"]))),
                  ("t_fset", (pick(objs + ["[]"]), pick(["frozenset([1, 'a'])", "frozenset()", "None"]))),
                  ("t_list", (pick(objs), pick(["[1, 'a']", "[]", "None", "[NAN]", "[Weird('t', True)]", "[Weird('x', KeyError), 1]", "[Weird('b', BadBool())]"]))),
                  ("t_tuple", (pick(objs), pick(["(1, 'a')", "()", "None", "(NAN,)", "(Weird('s', 'str'),)"]))),
                  ("t_str", (pick(["'a'", "''", "'ab'", "'b'", "1", "None", "Sub('a')"]), pick(["'abc'", "''", "None", "'\\u20acab'"]))),
                  ("t_obj", (pick(objs), pick(["Weird('t', True)", "Weird('s', 'str')", "Weird('e', '')", "Weird('x', KeyError)",
                                               "Weird('b', BadBool())", "[1, NAN]", "'ab'", "5", "{1: 1}", "range(3)"]))),
                  ("t_bytes", (pick(["97", "b'a'", "b''", "256", "-1", "'a'", "None", "2.5"]), pick(["b'abc'", "b''", "None"]))),
                  ("t_casc_in", (pick(objs), pick(["{1: 2}", "{}", "None"]), pick(["True", "False", "1", "Weird('s', 'str')"]))),
                  ("t_empty", (pick(objs),)), ("t_star", (pick(objs[:9]), pick(["[1, 2]", "()", "'ab'", "[None, 2.5]"]))),
                  ("t_nest", (pick(objs + ["(1, 2)", "(3, 4)"]),)), ("t_setseq", (pick(["(1, 2)", "frozenset([3])", "1", "None", "'a'"]),)),
                  ("t_cd", (pick(ints), pick(ints), pick(["{1: 2}", "{}", "{-1: 0, 7: 1, 3: 3}", "None"]))),
                  ("t_cs", (pick(ints), pick(ints), pick(["{1, 2}", "set()", "{-1, 7, 3}"]), pick(["True", "False", "1"]))),
                  ("t_cl", (pick(ints), pick(ints), pick(["[1, 2]", "[]", "[-1, 7, 3]"]))),
                  ("t_cmid", (pick(ints), pick(ints), pick(ints))), ("t_cmid2", (pick(ints), pick(ints), pick(ints), pick(ints))),
                  ("t_pmid", (pick(ints), pick(ints), pick(ints)))]
    return cases


def typed_key(fn, args, impl, oracle):
    same = len(args) == 2 and args[0] == args[1]
    if fn == "t_lit_set":
        return "in-set-unhashable" if oracle == "raise:TypeError" else "in-set-no-hashing"
    if fn == "t_lit_ident":
        return "in-identity"
    if fn == "t_l2_in":
        return "in-identity" if same else "in-eq-order"
    if fn == "t_l2_nin":
        return "in-identity" if same else "notin-ne"
    if fn == "t_lit_tuple":
        a, b = impl.strip("()").split(","), oracle.strip("()").split(",")
        return "in-eq-order" if a[:1] != b[:1] else "notin-ne"
    if "BadBool" in " ".join(args) and oracle == "raise:ValueError" and fn in (
            "t_ioi", "t_oio", "t_dio", "t_ooo", "t_ooo2", "t_oooo", "t_nin", "t_casc_in", "t_in"):
        return "cascade-truth-error"
    if fn == "t_u_i":
        return "c-compare-conversion"          # unsigned/signed C operands: usual arithmetic conversions
    return "typed-" + fn


# ---------------------------------------------------------------- the run


WIT_CHAIN = ("chw", 0, [(0, 1), (0, 2)], False)


def prepare(ctx):
    """generate the functions; returns what run() needs (so that the modules can be built in the background)"""
    rng = ctx.rng
    rp = ctx.replay_case["case"] if ctx.replay_case and ctx.replay_case.get("case", {}).get("part") == "obj" else None
    if rp and "world" in rp:      # JSON turned the integer keys into strings
        w = rp["world"]
        rp["world"] = {"ev": {int(k): v for k, v in w.get("ev", {}).items()}, "cmp": dict(w.get("cmp", {})),
                       "truth": {int(k): v for k, v in w.get("truth", {}).items()}}
    chains, ins = [], []
    shapes = [(1, False), (1, True), (2, False), (2, True), (3, False), (3, True), (4, False), (4, True)]
    for n, bc in shapes:
        for rep in range(2 if ctx.quick else 5):
            links = [(rng.randrange(6), k + 1) for k in range(n)]
            chains.append(("ch%d" % len(chains), 0, links, bc))
    for n in (1, 2, 3, 4):
        for ni in (False, True):
            for br in ("()", "[]"):
                ins.append(("in%d" % len(ins), 9, list(range(1, n + 1)), ni, br))
    if rp and rp.get("kind") == "chain":
        chains = [tuple(rp["chain"][:1]) + (rp["chain"][1], [tuple(l) for l in rp["chain"][2]], rp["chain"][3])]
        ins = []
    if rp and rp.get("kind") == "in":
        ins, chains = [(rp["in"][0], rp["in"][1], list(rp["in"][2]), rp["in"][3], rp["in"][4])], []
    body = "".join(chain_src(*c) for c in chains) + "".join(in_src(*i) for i in ins)
    src = ("_HELPER = %r\n_H = {}\nexec(_HELPER, _H)\ndrive = _H['drive']\ncall = _H['call']\n"
           "def _verif_env():\n    return _H\n" % HELPER) + body + TYPED
    probe_src = ("_HELPER = %r\n_H = {}\nexec(_HELPER, _H)\ndrive = _H['drive']\n" % HELPER) + chain_src(*WIT_CHAIN) + \
        in_src("inw", 9, [1, 2], False, "()")
    return {"rp": rp, "chains": chains, "ins": ins, "body": body, "builds": [("c19obj", src), ("c19objp", probe_src)]}


def run(ctx, info, st):
    rng = ctx.rng
    rp, chains, ins, body = st["rp"], st["chains"], st["ins"], st["body"]
    src, probe_src = st["builds"][0][1], st["builds"][1][1]
    try:
        so = cybuild.build_module(ctx, "c19obj", src)
    except cybuild.BuildError as e:
        ctx.tie_break("D-c build of the comparison module", e.stage + ": " + cap(e.log[-500:], 300), {"source": cap(body, 2000)})
        return
    pyns = {}
    exec(HELPER, pyns)
    exec(compile(body + typed_py_source(), "c19obj_oracle.py", "exec"), pyns)
    # ---- variant detection by witnesses (theorems chain_truth_error_lost, in_order_as_found, in_eq_order_as_found)
    wit_chain = WIT_CHAIN
    try:
        pso = cybuild.build_module(ctx, "c19objp", probe_src)
    except cybuild.BuildError as e:
        raise lib.Infra("probe module does not build: " + cap(e.log[-300:]))
    wspec = {"cmp": {"0.0.1": 50}, "truth": {50: ["!", 7]}}
    dspec = {"ev": {2: ["!", 2]}, "cmp": {"0.0.1": 50}, "truth": {}}
    ispec = {"cmp": {"2.9.1": 60, "2.1.9": 61, "2.9.2": 62, "2.2.9": 63}, "truth": {60: False, 61: False, 62: False, 63: False}}
    pr = cybuild.run_cases(ctx, pso, [("drive", "(mod.chw, %r)" % wspec), ("drive", "(mod.inw, %r)" % ispec)])
    pr2 = cybuild.run_cases(ctx, pso, [("drive", "(mod.chw, %r)" % dspec)])
    checked = unrepr(pr[0]).endswith("raise:7")
    clears = unrepr(pr2[0]).endswith("/raise:2")
    info["cascade_result_cleared_after_decref"] = clears
    exp2 = drive_py(pyns, "chw", chain_src(*WIT_CHAIN), dspec)
    if unrepr(pr2[0]) != exp2:
        ctx.violation("cascade-operand-error-double-decref", "a < b < c with c raising: compiled %s, CPython %s (raiseDD = a result object lost a reference)"
                      % (cap(unrepr(pr2[0]), 80), cap(exp2, 80)),
                      {"part": "obj", "kind": "chain", "chain": ["chw", 0, [[0, 1], [0, 2]], False], "world": dspec})
    lhs_first = "E9,E1,E2" in pr[1]
    item_first = "C2.1.9" in pr[1]
    info["cascade_truth_checked"] = checked
    info["in_variant(lhsFirst,itemFirst)"] = "%d%d" % (lhs_first, item_first)
    exp = drive_py(pyns, "chw", chain_src(*wit_chain), wspec)
    got = unrepr(pr[0])
    if got != exp:
        ctx.violation("cascade-truth-error", "a < b < c with bool(a < b) raising: compiled %s, CPython %s" % (cap(got, 80), cap(exp, 80)),
                      {"part": "obj", "kind": "chain", "chain": ["chw", 0, [[0, 1], [0, 2]], False], "world": wspec})
    # ---- part 2: chains
    cases, meta, lines = [], [], []
    for name, first, links, bc in chains:
        for _ in range(ctx.n(12, 80)):
            spec = rp["world"] if rp and "world" in rp else gen_world(rng, first, links, rng.choice([0.0, 0.08, 0.2]))
            ev, cm, tr = world_toks(spec)
            lines.append("C19 casc %d %d %d %d %s %s %s %s" % (checked, clears, bc, first, ",".join("%d.%d" % l for l in links), ev, cm, tr))
            cases.append(("drive", "(mod.%s, %r)" % (name, spec)))
            meta.append(("chain", (name, first, links, bc), spec))
    for name, x, items, ni, br in ins:
        for _ in range(ctx.n(12, 80)):
            spec = rp["world"] if rp and "world" in rp else gen_in_world(rng, x, items, rng.choice([0.0, 0.1]), rng.choice([0.0, 0.0, 0.3]))
            ev, cm, tr = world_toks(spec)
            lines.append("C19 in %d %d %d %d %s %s %s %s -" % (lhs_first, item_first, ni, x, ",".join(str(i) for i in items), ev, cm, tr))
            cases.append(("drive", "(mod.%s, %r)" % (name, spec)))
            meta.append(("in", (name, x, items, ni, br), spec))
    mouts = ctx.drv.batch(lines)
    # cases that leave an exception pending (model outcome `ub`) run in a process of their own: they can corrupt
    # the interpreter state for later cases
    is_wild = lambda m: m.endswith("/ub") or "/raiseDD:" in m.split(" cy=")[-1]      # noqa: E731
    calm = [i for i, m in enumerate(mouts) if not is_wild(m)]
    wild = [i for i, m in enumerate(mouts) if is_wild(m)]
    outs = [None] * len(cases)
    for idx in (calm, wild):
        if idx:
            for i, o in zip(idx, cybuild.run_cases(ctx, so, [cases[i] for i in idx])):
                outs[i] = o
    for (kind, fdesc, spec), out, mline in zip(meta, outs, mouts):
        impl = unrepr(out)
        name = fdesc[0]
        oracle = drive_py(pyns, name, None, spec)
        if not mline.startswith("ok py="):
            raise lib.Infra("model line rejected: " + cap(mline, 200))
        mpy, mcy = mline[len("ok py="):].split(" cy=")
        raised = "raise" in oracle
        ctx.count("%s/%s/%s" % (kind, "n=%d" % len(fdesc[2]), "raise" if raised else oracle.split("/")[1].split(":")[0]))
        ctx.seen((kind, repr(fdesc), repr(sorted(spec["cmp"].items())), repr(sorted(spec["truth"].items())), repr(sorted(spec["ev"].items()))))
        rj = {"part": "obj", "kind": kind, kind: list(fdesc), "world": spec, "compiled": cap(impl), "cpython": cap(oracle)}
        ok = (impl == mcy) or (mcy.endswith("/ub") and impl.startswith(mcy[:-3].rstrip("-"))) or \
            (impl.startswith("crash") and (mcy.endswith("/ub") or "/raiseDD:" in mcy))      # memory already corrupted
        if impl != oracle:
            ctx.violation(obj_key(kind, fdesc, spec, impl, oracle, mcy) + ("" if ok else "-unexplained"),
                          "%s %s: compiled %s, CPython %s" % (kind, cap(fdesc, 80), cap(impl, 120), cap(oracle, 120)), rj)
        if mpy != oracle:
            ctx.tie_break("reference model CyVerif.C19.py%s vs CPython" % ("Chain" if kind == "chain" else "In"),
                          "%s: CPython %s, model %s" % (cap(fdesc, 80), cap(oracle, 110), cap(mpy, 110)), rj)
        if not ok:
            ctx.tie_break("D-c compiled %s vs CyVerif.C19.cy%s" % (kind, "Chain" if kind == "chain" else "In"),
                          "%s: compiled %s, model %s" % (cap(fdesc, 80), cap(impl, 110), cap(mcy, 110)), rj)
    ctx.sample({"chain": cap(chain_src(*chains[-1]) if chains else "", 200), "world": cap(meta[0][2] if meta else "", 200),
                "outcome": cap(outs[0] if outs else "", 200)})
    # ---- typed / mixed chains, container objects: compiled vs CPython
    if rp:
        return
    tcases = typed_cases(rng, ctx.n(12, 120))
    # arguments whose truth test raises can leave an exception pending in the source as found: own process
    tcases.sort(key=lambda c: "BadBool" in " ".join(c[1]))
    ncalm = sum(1 for c in tcases if "BadBool" not in " ".join(c[1]))
    mk = lambda cs: [("call", "(mod.%s, %s)" % (fn, ", ".join(args))) for fn, args in cs]      # noqa: E731
    routs = cybuild.run_cases(ctx, so, mk(tcases[:ncalm])) + (cybuild.run_cases(ctx, so, mk(tcases[ncalm:])) if ncalm < len(tcases) else [])
    for (fn, args), out in zip(tcases, routs):
        impl = unrepr(out)
        try:
            # one expression, as in the runner: equal constants are then the same object in both processes
            oracle = pyns["call"](pyns[fn], *eval("(%s,)" % ", ".join(args), pyns))
        except Exception as e:      # noqa: B902
            oracle = "oracle-failed:" + type(e).__name__
        ctx.count("typed/" + fn)
        ctx.seen(("typed", fn, args))
        wild_case = "BadBool" in " ".join(args)
        if norm_repr(impl) != norm_repr(oracle):
            key = typed_key(fn, args, impl, oracle)
            if wild_case and not checked and (impl.startswith("crash") or "SystemError" in impl or impl.startswith("err ")):
                key = "cascade-truth-error"       # collateral damage of an exception left pending by an earlier case of this batch
            ctx.violation(key, "%s(%s): compiled %s, CPython %s" % (fn, cap(", ".join(args), 100), cap(impl, 100), cap(oracle, 100)),
                          {"part": "objtyped", "func": fn, "args": list(args), "compiled": cap(impl), "cpython": cap(oracle)})


def norm_repr(s):
    return s.replace('"', "'")


def unrepr(out):
    if out.startswith("ok str:"):
        import ast
        try:
            return ast.literal_eval(out[len("ok str:"):])
        except Exception:      # noqa: B902
            return out
    return out


def drive_py(pyns, name, src, spec):
    if src is not None and name not in pyns:
        exec(src, pyns)
    return pyns["drive"](pyns[name], spec)


def obj_key(kind, fdesc, spec, impl, oracle, mcy=""):
    if kind == "chain":
        if "raiseDD" in impl or "/rc:" in impl or (impl.startswith("crash") and "/raiseDD:" in mcy):
            return "cascade-operand-error-double-decref"
        if impl.startswith("crash") and mcy.endswith("/ub"):
            return "cascade-truth-error"
        has_truth_raise = any(isinstance(v, list) for v in spec["truth"].values())
        return "cascade-truth-error" if has_truth_raise and "raise" in oracle else "cascade-other"
    # membership
    ie = [t for t in impl.split("/")[0].split(",") if t.startswith("E")]
    oe = [t for t in oracle.split("/")[0].split(",") if t.startswith("E")]
    if ie[:1] != oe[:1]:
        return "in-eval-order"
    same = any(not isinstance(v, list) and v == fdesc[1] for k, v in spec["ev"].items() if k != fdesc[1])
    if same:
        return "in-identity"
    if fdesc[3]:
        return "notin-ne"
    return "in-eq-order"

"""C34 — fused functions dispatch to the matching specialisation.

impl   = generated modules with fused def/cpdef functions, compiled by the STAGED compiler + gcc; every
         function returns cython.typeof() of its fused parameters, so the selected specialisation is observable
model  = CyVerif.C34.dispatch / mapType / sortedMembers / getitem (driver ops disp, map, sort, getitem)
oracle = the DOCUMENTED rule (docs/src/userguide/fusedtypes.rst), transcribed independently below (doc_choice);
         CPython's own list.sort for the compile-time member order; the declared member names for indexing
"""
import itertools
import json
import subprocess

import cybuild
import lib

# ---------------------------------------------------------------------------------------------------------------
# member types: decl text, model token, cython.typeof() tag, signature-key name (typeof_name), kind

INTS = [  # name, rank4, sg, size
    ("char", 0, 1, 1), ("signed char", 0, 2, 1), ("unsigned char", 0, 0, 1), ("short", 4, 1, 2), ("unsigned short", 4, 0, 2),
    ("int", 8, 1, 4), ("unsigned int", 8, 0, 4), ("long", 12, 1, 8), ("unsigned long", 12, 0, 8),
    ("long long", 16, 1, 8), ("unsigned long long", 16, 0, 8), ("Py_ssize_t", 14, 1, 8), ("size_t", 14, 0, 8)]
FLOATS = [("float", 20, 4), ("double", 24, 8), ("long double", 28, 16)]
CPLX = [("float complex", 22, 8), ("double complex", 26, 16)]
BUILTINS = ["str", "bytes", "list", "dict", "tuple"]
EXTS = ["Base", "Derived", "Other", "Leaf"]                 # Derived(Base), Leaf(Derived)
EXT_MRO = {0: [0], 1: [1, 0], 2: [2], 3: [3, 1, 0]}
MV_DTYPES = [("short", 0, 2), ("int", 0, 4), ("long", 0, 8), ("long long", 0, 8), ("unsigned int", 1, 4), ("unsigned long", 1, 8),
             ("float", 2, 4), ("double", 2, 8), ("long double", 2, 16), ("float complex", 3, 8), ("double complex", 3, 16)]


class T:
    def __init__(self, decl, tok, tag, key, kind, **kw):
        self.decl, self.tok, self.tag, self.key, self.kind = decl, tok, tag, key, kind
        self.__dict__.update(kw)

    def __repr__(self):
        return self.decl


def all_types():
    ts = []
    for n, r, sg, sz in INTS:
        ts.append(T(n, "i%d.%d.%d" % (r, sg, sz), n, n, "cint", rank=r, sg=sg, size=sz))
    ts.append(T("bint", "B", "bint", "bint", "bint"))
    for n, r, sz in FLOATS:
        ts.append(T(n, "f%d.%d" % (r, sz), n, n, "cfloat", rank=r, size=sz))
    for n, r, sz in CPLX:
        ts.append(T(n, "c%d.%d" % (r, sz), n, n, "ccomplex", rank=r, size=sz))
    ts.append(T("object", "O", "Python object", "object", "obj"))
    for i, n in enumerate(BUILTINS):
        ts.append(T(n, "b%d" % i, n + " object", n, "builtin", n=i))
    for i, n in enumerate(EXTS):
        ts.append(T(n, "e%d" % i, n, n, "ext", c=i))
    for n, k, sz in MV_DTYPES:
        for nd in (1, 2):
            for cc in (0, 1):
                ax = ", ".join([":"] * (nd - 1) + ["::1" if cc else ":"])
                d = "%s[%s]" % (n, ax)
                ts.append(T(d, "m%d.%d.%d.%d" % (k, sz, nd, cc), d, d, "mview", k=k, size=sz, ndim=nd, cc=cc))
    return ts


TYPES = all_types()
BYDECL = {t.decl: t for t in TYPES}


def to_mv(t, nd):
    """member seen through a `T[:]` parameter"""
    if t.kind == "cint":
        k = 1 if t.sg == 0 else 0
    elif t.kind == "cfloat":
        k = 2
    elif t.kind == "ccomplex":
        k = 3
    else:
        return None
    ax = ", ".join([":"] * nd)
    return T("%s[%s]" % (t.decl, ax), "m%d.%d.%d.0" % (k, t.size, nd), "%s[%s]" % (t.decl, ax), t.key, "mview", k=k, size=t.size, ndim=nd, cc=0)


# ---------------------------------------------------------------------------------------------------------------
# run-time values: python source (evaluated in the child), model token, description used by the oracles

class V:
    def __init__(self, src, tok, cls, **kw):
        self.src, self.tok, self.cls = src, tok, cls
        self.__dict__.update(kw)

    def __repr__(self):
        return self.src


NP_DT = {"i2": (0, 2), "i4": (0, 4), "i8": (0, 8), "u4": (1, 4), "u8": (1, 8), "u2": (1, 2), "f4": (2, 4), "f8": (2, 8), "f16": (2, 16),
         "c8": (3, 8), "c16": (3, 16), "?": (4, 1), "O": (4, 8), "S4": (4, 4), "U2": (4, 8), "i1": (0, 1)}
ARR_TC = {"h": (0, 2), "i": (0, 4), "l": (0, 8), "q": (0, 8), "I": (1, 4), "L": (1, 8), "f": (2, 4), "d": (2, 8), "H": (1, 2)}


def buf(src, nd, k, sz, ndim, native=1, cc=1, wr=1):
    return V(src, "u%d.%d.%d.%d.%d.%d.%d" % (nd, k, sz, ndim, native, cc, wr), "buf", nd=nd, k=k, size=sz, ndim=ndim, native=native, cc=cc, wr=wr)


def all_values():
    vs = []
    for n in (0, 1, -1, 7, 100, 2 ** 15, 2 ** 31, -2 ** 31 - 1, 2 ** 40, 2 ** 62, -2 ** 63, 2 ** 63, 2 ** 64 - 1, 2 ** 64, 2 ** 100):
        vs.append(V(repr(n), "I", "int", n=n))
    vs.append(V("MyInt(5)", "I", "int", n=5))
    vs += [V("True", "T", "bool", n=1), V("False", "T", "bool", n=0)]
    vs += [V(s, "F", "float") for s in ("1.5", "-0.0", "inf", "np.float64(2.5)", "MyFloat(2.0)")]
    vs += [V(s, "C", "complex") for s in ("(1+2j)", "np.complex128(1j)")]
    vs.append(V("None", "N", "none"))
    for i, s in enumerate(("'abc'", "b'ab'", "[1]", "{}", "(1,)")):
        vs.append(V(s, "b%d" % i, "builtin", bn=i, exact=True))
    vs.append(V("MyStr('x')", "s0", "builtin", bn=0, exact=False))
    vs.append(V("MyList()", "s2", "builtin", bn=2, exact=False))
    for s, c in (("Base()", 0), ("Derived()", 1), ("Other()", 2), ("Leaf()", 3), ("PyD()", 1)):
        vs.append(V(s, "x" + ".".join(map(str, EXT_MRO[c])), "inst", mro=EXT_MRO[c]))
    for s in ("np.int32(3)", "np.int64(3)", "np.float32(1)", "np.bool_(True)", "np.complex64(1)", "set()", "bytearray(8)", "Ellipsis", "len"):
        vs.append(V(s, "o", "other"))
    for dt, (k, sz) in NP_DT.items():
        vs.append(buf("np.zeros(3, %r)" % dt, 1, k, sz, 1))
        vs.append(buf("np.zeros((2, 3), %r)" % dt, 1, k, sz, 2))
        if dt in ("i4", "i8", "f8", "f4", "c16", "u4"):
            vs.append(buf("np.zeros(3, %r)" % (">" + dt), 1, k, sz, 1, native=0))
            vs.append(buf("np.zeros(6, %r)[::2]" % dt, 1, k, sz, 1, cc=0))
            vs.append(buf("_ro(np.zeros(3, %r))" % dt, 1, k, sz, 1, wr=0))
            vs.append(buf("np.zeros((2, 3), %r, order='F')" % dt, 1, k, sz, 2, cc=0))
            vs.append(buf("np.zeros((2, 2, 2), %r)" % dt, 1, k, sz, 3))
            vs.append(buf("memoryview(np.zeros(3, %r))" % dt, 0, k, sz, 1))
            vs.append(buf("memoryview(_ro(np.zeros(3, %r)))" % dt, 0, k, sz, 1, wr=0))
    vs.append(buf("mod._asmv(np.zeros(4, 'i4'))", 1, 0, 4, 1))
    vs.append(buf("mod._asmv(np.zeros(8, 'i4')[::2])", 1, 0, 4, 1, cc=0))
    vs.append(buf("mod._asmv(array.array('i', [1, 2]))", 0, 0, 4, 1))
    for tc, (k, sz) in ARR_TC.items():
        vs.append(buf("array.array(%r, [1, 2])" % tc, 0, k, sz, 1))
    return vs


VALUES = all_values()

PRELUDE = '''# cython: language_level=3
cimport cython
import numpy as np, array
cdef class Base: pass
cdef class Derived(Base): pass
cdef class Other: pass
cdef class Leaf(Derived): pass
class PyD(Derived): pass
class MyInt(int): pass
class MyFloat(float): pass
class MyStr(str): pass
class MyList(list): pass
def _ro(a):
    a.flags.writeable = False
    return a
def _asmv(int[:] a): return a
def _verif_env():
    return dict(np=np, array=array, Base=Base, Derived=Derived, Other=Other, Leaf=Leaf, PyD=PyD, MyInt=MyInt, MyFloat=MyFloat,
                MyStr=MyStr, MyList=MyList, _ro=_ro, cython=__import__('cython'))
def _call(f, args, kw):
    try:
        r = f(*args, **kw)
    except TypeError as e:
        m = str(e)
        if 'No matching signature found' in m: return 'E nomatch'
        if 'ambiguous argument types' in m: return 'E ambiguous'
        if 'Expected at least' in m: return 'E argcount'
        return 'X TypeError'
    except (OverflowError, ValueError, BufferError, KeyError) as e:
        return 'X ' + type(e).__name__
    return 'R ' + str(r)
def _index(f, idx, args):
    try:
        g = f[idx]
    except KeyError:
        return 'K'
    return _call(g, args, {})
'''


# ---------------------------------------------------------------------------------------------------------------
# declarations

def pool(kind):
    if kind == "numeric":
        return [t for t in TYPES if t.kind in ("cint", "cfloat", "ccomplex", "bint", "obj")]
    if kind == "signedints":
        return [t for t in TYPES if (t.kind == "cint" and t.sg == 1) or t.kind in ("cfloat", "bint", "obj")]
    if kind == "dtype":
        return [t for t in TYPES if t.kind in ("cint", "cfloat", "ccomplex") and t.size > 1]
    if kind == "pyobj":
        return [t for t in TYPES if t.kind in ("builtin", "ext", "obj")]
    if kind == "buffer":
        return [t for t in TYPES if t.kind == "mview"] + [BYDECL["object"], BYDECL["long"], BYDECL["double"], BYDECL["list"]]
    return TYPES


class Fn:
    """one fused function: fvars = member lists (declared order); params = dicts"""

    def __init__(self, name, kind, fvars, params):
        self.name, self.kind, self.fvars, self.params = name, kind, fvars, params

    def tested(self, p):
        ms = self.fvars[p["fv"]]
        return ms if p["ndim"] == 0 else [to_mv(t, p["ndim"]) for t in ms]

    def first_params(self):
        seen, out = set(), []
        for i, p in enumerate(self.params):
            if p["fv"] is not None and p["fv"] not in seen:
                seen.add(p["fv"])
                out.append((i, p))
        return out

    def nspec(self):
        n = 1
        for _, p in self.first_params():
            n *= len(self.fvars[p["fv"]])
        return n

    def source(self):
        out = []
        for j, ms in enumerate(self.fvars):
            out.append("ctypedef fused %s_T%d:\n%s" % (self.name, j, "".join("    %s\n" % t.decl for t in ms)))
        ps, tags = [], []
        for p in self.params:
            nm = "p%d" % p["name"]
            if p["fv"] is None:
                s = "object " + nm
            else:
                ty = "%s_T%d" % (self.name, p["fv"])
                if p["ndim"]:
                    ty += "[%s]" % ", ".join([":"] * p["ndim"])
                s = ty + " " + nm
                if not p["an"]:
                    s += " not None"
                tags.append("cython.typeof(%s)" % nm)
            if p["dflt"] is not None:
                s += " = " + p["dflt"].src
            ps.append(s)
        out.append("%s %s(%s):\n    return %s\n" % (self.kind, self.name, ", ".join(ps), ' + "|" + '.join(tags)))
        return "\n".join(out)

    def decl_tokens(self):
        toks = [str(len(self.fvars))]
        for ms in self.fvars:
            toks.append(str(len(ms)))
            toks += [t.tok for t in ms]
        toks.append(str(len(self.params)))
        for p in self.params:
            toks += [str(p["name"]), "-" if p["fv"] is None else str(p["fv"]), str(p["ndim"]),
                     "-" if p["dflt"] is None else p["dflt"].tok, "1" if p["an"] else "0"]
        return toks

    def describe(self):
        return {"kind": self.kind, "fvars": [[t.decl for t in ms] for ms in self.fvars],
                "params": [{"fv": p["fv"], "ndim": p["ndim"], "dflt": p["dflt"].src if p["dflt"] else None, "an": p["an"]} for p in self.params]}


VAL = {v.src: v for v in VALUES}


def default_for(rng, ms, ndim):
    kinds = set(t.kind for t in ms)
    if ndim or kinds <= {"obj", "ext", "builtin", "mview"}:
        return VAL["None"]
    if kinds <= {"cfloat", "ccomplex", "obj"}:
        return VAL[rng.choice(["1.5", "1"])]
    if kinds <= {"cint", "cfloat", "ccomplex", "bint", "obj"}:
        return VAL[rng.choice(["1", "True"])]
    return None


def gen_fvar(rng, flavour, maxn):
    n = rng.randint(1, maxn)
    ms = rng.sample(pool(flavour), min(n, len(pool(flavour))))
    return ms


def gen_fn(rng, name, shape=None):
    """shape: forced layout for the boundary functions"""
    kind = rng.choice(["def", "def", "cpdef"])
    nfv = rng.choice([1, 1, 2])
    fvars, compound = [], []
    budget = 12
    for j in range(nfv):
        flavour = rng.choice(["numeric", "numeric", "signedints", "dtype", "pyobj", "buffer", "any"])
        maxn = max(1, min(5, budget // (2 if j + 1 < nfv else 1)))
        ms = gen_fvar(rng, flavour, maxn)
        budget = max(1, budget // len(ms))
        fvars.append(ms)
        compound.append(rng.choice([0, 1, 2]) if flavour == "dtype" and rng.random() < 0.6 else 0)
    params, order = [], []
    slots = list(range(nfv))
    if rng.random() < 0.4:
        slots.append(rng.randrange(nfv))        # a fused type used by two parameters
    if rng.random() < 0.3:
        slots.insert(rng.randrange(len(slots) + 1), None)
    slots = slots[:3] if len(set(s for s in slots[:3] if s is not None)) == nfv else slots
    # number fused types in order of first use
    ren = {}
    for s in slots:
        if s is not None and s not in ren:
            ren[s] = len(ren)
    fvars2 = [None] * len(ren)
    comp2 = [0] * len(ren)
    for s, j in ren.items():
        fvars2[j], comp2[j] = fvars[s], compound[s]
    can_default = True
    for i, s in reversed(list(enumerate(slots))):
        p = {"name": i, "fv": None if s is None else ren[s], "ndim": 0, "dflt": None, "an": True}
        if s is not None:
            p["ndim"] = comp2[ren[s]]
            ms = fvars2[ren[s]]
            if rng.random() < 0.3 and p["ndim"]:
                p["an"] = False          # `not None` is only accepted on `T[:]` parameters
            if can_default and rng.random() < 0.45 and p["an"]:
                p["dflt"] = default_for(rng, ms, p["ndim"])
            if p["dflt"] is None:
                can_default = False
        else:
            if can_default and rng.random() < 0.5:
                p["dflt"] = VAL["0"]
            else:
                can_default = False
        params.append(p)
    params.reverse()
    return Fn(name, kind, fvars2, params)


def fixed_fns():
    """boundary declarations: the documented examples and the known deviation points"""
    D = BYDECL

    def P(i, fv, ndim=0, dflt=None, an=True):
        return {"name": i, "fv": fv, "ndim": ndim, "dflt": dflt, "an": an}
    fns = [
        Fn("x0", "def", [[D["short"], D["int"], D["long"], D["float"], D["double"], D["double complex"], D["bint"], D["object"]]], [P(0, 0)]),
        Fn("x1", "def", [[D["int"], D["unsigned long"]]], [P(0, 0)]),
        Fn("x2", "def", [[D["short"], D["signed char"], D["long"]]], [P(0, 0)]),
        Fn("x3", "def", [[D["Base"], D["Derived"], D["object"]]], [P(0, 0)]),
        Fn("x4", "def", [[D["Leaf"], D["Derived"], D["Base"], D["str"]]], [P(0, 0)]),
        Fn("x5", "def", [[D["int[:]"], D["int[::1]"], D["long[:]"], D["double[:, :]"], D["object"]]], [P(0, 0)]),
        Fn("x6", "cpdef", [[D["float"], D["double"]], [D["int"], D["long"], D["str"]]], [P(0, 0), P(1, 1), P(2, 0, dflt=VAL["1.5"])]),
        Fn("x7", "def", [[D["float"], D["double"], D["float complex"]]], [P(0, 0, ndim=1)]),
        Fn("x8", "def", [[D["long"]], [D["str"], D["bytes"]]], [P(0, 0), P(1, 1)]),
        Fn("x9", "def", [[D["int"], D["double"], D["float complex"]]], [P(0, 0, ndim=1, an=False)]),
        Fn("x12", "def", [[D["str"], D["list"], D["object"]]], [P(0, 0)]),
        Fn("x10", "def", [[D["bint"], D["int"], D["object"]]], [P(0, None), P(1, 0, dflt=VAL["True"])]),
        Fn("x11", "def", [[D["unsigned int"], D["int"], D["double"], D["long double"]]], [P(0, 0)]),
    ]
    return fns


# ---------------------------------------------------------------------------------------------------------------
# oracles (independent of the Lean model)

def from_py_ok(t, v):
    return bool(t.kind == "mview" and v.cls == "buf" and t.k == v.k and t.size == v.size and t.ndim == v.ndim and v.native
                and (not t.cc or v.cc) and v.wr)


def doc_choice(ms, an, v):
    """documented rule: exact match, else biggest corresponding numeric type, else object, else nothing"""
    idx = range(len(ms))
    exact = []
    if v.cls == "bool":
        exact = [i for i in idx if ms[i].kind == "bint"]
    elif v.cls == "builtin":
        exact = [i for i in idx if ms[i].kind == "builtin" and ms[i].n == v.bn and v.exact]
    elif v.cls == "inst":
        for c in v.mro:
            exact = [i for i in idx if ms[i].kind == "ext" and ms[i].c == c]
            if exact:
                break
    elif v.cls == "none":
        exact = [i for i in idx if (an and ms[i].kind == "mview") or ms[i].kind == "obj"]
    elif v.cls == "buf":
        exact = [i for i in idx if from_py_ok(ms[i], v)]
    if exact:
        return exact
    want = {"int": "cint", "bool": "cint", "float": "cfloat", "complex": "ccomplex"}.get(v.cls)
    if want:
        c = [i for i in idx if ms[i].kind == want]
        if c:
            m = max(ms[i].size for i in c)
            return [i for i in c if ms[i].size == m]
    return [i for i in idx if ms[i].kind == "obj"]


def int_range(t):
    bits = 8 * t.size
    return (0, 2 ** bits - 1) if t.sg == 0 else (-2 ** (bits - 1), 2 ** (bits - 1) - 1)


def conv_ok(t, v, an):
    """does the argument conversion of value v to member type t succeed?  None = not judged"""
    if t.kind == "obj":
        return True
    if t.kind == "cint":
        if v.cls in ("int", "bool"):
            lo, hi = int_range(t)
            return lo <= v.n <= hi
        return False if v.cls in ("none", "builtin", "inst", "buf", "complex") else None
    if t.kind == "bint":
        return True if v.cls in ("int", "bool", "float", "none", "builtin", "inst") else None
    if t.kind == "cfloat":
        return True if v.cls in ("int", "bool", "float") else (False if v.cls in ("none", "builtin", "inst", "complex") else None)
    if t.kind == "ccomplex":
        return True if v.cls in ("int", "bool", "float", "complex") else (False if v.cls in ("none", "builtin", "inst") else None)
    if t.kind == "builtin":
        return True if (v.cls == "builtin" and v.bn == t.n and v.exact) or v.cls == "none" else False
    if t.kind == "ext":
        return True if (v.cls == "inst" and t.c in v.mro) or v.cls == "none" else False
    if t.kind == "mview":
        if v.cls == "none":
            return bool(an)
        return from_py_ok(t, v) if v.cls == "buf" else False
    return None


NBITS = 15


def clsx(t):
    """index of the Python class of a member's type object in the measured address-order string (= CyVerif.C34.clsx):
    0 CIntType, 1 CBIntType, 2 CFloatType, 3 CComplexType, 4 PyObjectType, 6 PyExtensionType, 7 MemoryViewSliceType,
    8 class of Py_ssize_t, 9 class of size_t, 10+n class of builtin type n"""
    if t.kind == "cint":
        return 8 if (t.rank, t.sg) == (14, 1) else 9 if (t.rank, t.sg) == (14, 0) else 0
    if t.kind == "builtin":
        return 10 + t.n
    return {"bint": 1, "cfloat": 2, "ccomplex": 3, "obj": 4, "ext": 6, "mview": 7}[t.kind]


# evaluated INSIDE a compiler process: the address order `id(MemoryViewSliceType) < id(type(<type object>))` for the class of every
# type object the generated lists can contain (base PyrexType.__lt__ is an address comparison; it is a fact of the process)
_BITS_CODE = r"""
def class_order_bits(P, Builtin):
    plain = [P.c_char_type, P.c_schar_type, P.c_uchar_type, P.c_short_type, P.c_ushort_type, P.c_int_type, P.c_uint_type, P.c_long_type,
             P.c_ulong_type, P.c_longlong_type, P.c_ulonglong_type]
    assert len(set(type(t) for t in plain)) == 1 and len(set(type(t) for t in (P.c_float_type, P.c_double_type, P.c_longdouble_type))) == 1
    assert type(P.c_float_complex_type) is type(P.c_double_complex_type)
    reps = {0: P.c_int_type, 1: P.c_bint_type, 2: P.c_double_type, 3: P.c_double_complex_type, 4: P.py_object_type,
            6: P.PyExtensionType('X', 0, None), 8: P.c_py_ssize_t_type, 9: P.c_size_t_type}
    for n, name in enumerate(%r):
        reps[10 + n] = Builtin.builtin_scope.lookup(name).type
    m = id(P.MemoryViewSliceType)
    return ''.join('1' if k in reps and m < id(type(reps[k])) else '0' for k in range(%d))
""" % (BUILTINS, NBITS)


def py_sorted(below, ms):
    """CPython's own list.sort driven by a transcription of PyrexTypes.__lt__ (oracle for the sort model)"""
    numeric = ("cint", "bint", "cfloat", "ccomplex")

    class K:
        def __init__(self, i, t):
            self.i, self.t = i, t

        def __lt__(self, o):
            a, b = self.t, o.t
            ra = 8 if a.kind == "bint" else getattr(a, "rank", 0)
            rb = 8 if b.kind == "bint" else getattr(b, "rank", 0)
            if a.kind in ("cint", "bint", "cfloat"):
                if b.kind in numeric:
                    return ra > rb and getattr(a, "sg", 1) >= getattr(b, "sg", 1)
                return True
            if a.kind == "ccomplex":
                return b.kind == "ccomplex" and ra > rb
            if a.kind == "mview":
                return below[clsx(b)] == "1"
            return False
    ks = [K(i, t) for i, t in enumerate(ms)]
    ks.sort()
    return [k.i for k in ks]


_BELOW_SNIPPET = r"""
from Cython.Compiler.Main import compile as cy_compile, CompilationOptions
from Cython.Compiler import Options
import Cython.Compiler.Code as Code
from Cython.Compiler import PyrexTypes as P
assert Code.__file__.endswith('.py')
from Cython.Compiler import Builtin
print(class_order_bits(P, Builtin))
"""


def read_below(ctx):
    """`id(MemoryViewSliceType) < id(<class>)` in a compiler process of the staged tree (base PyrexType.__lt__)"""
    outs = set()
    for _ in range(2):
        p = subprocess.run([lib.PYTHON, "-c", _BITS_CODE + _BELOW_SNIPPET], env=lib._clean_env({"PYTHONPATH": ctx.stage}),
                           stdout=subprocess.PIPE, stderr=subprocess.PIPE, text=True, timeout=120)
        if p.returncode != 0:
            raise lib.Infra("id probe failed: " + p.stderr[-400:])
        outs.add([l for l in p.stdout.split("\n") if len(l) == NBITS and set(l) <= set("01")][-1])
    # an address order is never a verdict: if the two probes differ the first is only the starting guess for pick_below
    return sorted(outs)[0], (None if len(outs) == 1 else "class address order differs between two compiler processes: %r" % sorted(outs))


# ---------------------------------------------------------------------------------------------------------------
# cases

CY_NAME = {"int": "cython.int", "long": "cython.long", "short": "cython.short", "char": "cython.char", "float": "cython.float",
           "double": "cython.double", "long long": "cython.longlong", "unsigned int": "cython.uint", "unsigned long": "cython.ulong",
           "unsigned char": "cython.uchar", "signed char": "cython.schar", "unsigned short": "cython.ushort",
           "unsigned long long": "cython.ulonglong", "long double": "cython.longdouble", "float complex": "cython.floatcomplex",
           "double complex": "cython.doublecomplex", "bint": "cython.bint", "Py_ssize_t": "cython.Py_ssize_t", "size_t": "cython.size_t",
           "object": "object", "str": "str", "bytes": "bytes", "list": "list", "dict": "dict", "tuple": "tuple",
           "Base": "Base", "Derived": "Derived", "Other": "Other", "Leaf": "Leaf"}
NP_OF = {(0, 2): "i2", (0, 4): "i4", (0, 8): "i8", (1, 4): "u4", (1, 8): "u8", (2, 4): "f4", (2, 8): "f8", (2, 16): "f16",
         (3, 8): "c8", (3, 16): "c16", (1, 2): "u2", (0, 1): "i1", (1, 1): "u1"}


def good_value(t):
    """source of a value that converts to member type t"""
    if t.kind == "cint":
        return "1"
    if t.kind == "bint":
        return "True"
    if t.kind == "cfloat":
        return "1.5"
    if t.kind == "ccomplex":
        return "(1+2j)"
    if t.kind == "obj":
        return "None"
    if t.kind == "builtin":
        return ("'abc'", "b'ab'", "[1]", "{}", "(1,)")[t.n]
    if t.kind == "ext":
        return EXTS[t.c] + "()"
    shape = "3" if t.ndim == 1 else "(2, 3)"
    return "np.zeros(%s, %r)" % (shape, NP_OF[(t.k, t.size)])


def cy_type_src(t, ndim_of_param):
    """a type object spelling for indexing, or None"""
    if t.kind == "mview":
        base, _, ax = t.decl.partition("[")
        b = CY_NAME.get(base)
        return None if b is None else "%s[%s" % (b, ax)
    return CY_NAME.get(t.key)


def call_cases(ctx, fn, n):
    rng = ctx.rng
    firsts = fn.first_params()
    cases = []
    single = len(fn.params) == 1
    if single:
        combos = [[v] for v in VALUES]
    else:
        combos = []
        for _ in range(n):
            chosen = {}
            row = []
            for p in fn.params:
                if p["fv"] is None:
                    row.append(VAL["0"])
                    continue
                if p["fv"] in chosen and rng.random() < 0.9:
                    row.append(chosen[p["fv"]])
                    continue
                ms = fn.tested(p)
                kinds = set(t.kind for t in ms)
                if rng.random() < 0.75:
                    rel = [v for v in VALUES if (v.cls in ("int", "bool") and kinds & {"cint", "bint"}) or (v.cls == "float" and "cfloat" in kinds)
                           or (v.cls == "complex" and "ccomplex" in kinds) or (v.cls == "buf" and "mview" in kinds and any(t.size == v.size for t in ms if t.kind == "mview"))
                           or (v.cls == "builtin" and "builtin" in kinds) or (v.cls == "inst" and "ext" in kinds) or v.cls == "none"]
                    v = rng.choice(rel or VALUES)
                else:
                    v = rng.choice(VALUES)
                chosen.setdefault(p["fv"], v)
                row.append(v)
            combos.append(row)
    for row in combos:
        form = rng.random()
        npos = len(row)
        kw = []
        if not single or rng.random() < 0.3:
            if form < 0.3:
                npos = rng.randrange(len(row) + 1)
            # trailing defaults may be omitted
            drop = set()
            for i in range(len(row) - 1, -1, -1):
                if fn.params[i]["dflt"] is not None and rng.random() < 0.5:
                    drop.add(i)
                else:
                    break
            if rng.random() < 0.06 and len(row) > 0:
                drop.add(rng.randrange(len(row)))          # a required argument is missing
            keep = [i for i in range(len(row)) if i not in drop]
            pos_idx = [i for i in keep if i < npos and all(j in keep for j in range(i))]
            kw = [(i, row[i]) for i in keep if i not in pos_idx]
            rng.shuffle(kw)
            pos = [row[i] for i in pos_idx]
        else:
            pos = row
        cases.append((fn, pos, kw))
    return cases


def case_src(fn, pos, kw):
    return "(mod.%s, (%s), {%s})" % (fn.name, "".join(v.src + ", " for v in pos), ", ".join("'p%d': %s" % (i, v.src) for i, v in kw))


def case_line(below, fn, pos, kw):
    toks = ["C34", "disp", below] + fn.decl_tokens() + [str(len(pos))] + [v.tok for v in pos] + [str(len(kw))]
    for i, v in kw:
        toks += [str(i), v.tok]
    return " ".join(toks)


def bound_values(fn, pos, kw):
    """value seen by every parameter (None = missing)"""
    out = []
    kwd = dict(kw)
    for i, p in enumerate(fn.params):
        if i < len(pos):
            out.append(pos[i])
        elif i in kwd:
            out.append(kwd[i])
        else:
            out.append(p["dflt"])
    return out


def parse_result(fn, res):
    """'R tagA|tagB' -> member index per fused type (order of first use)"""
    tags = res[2:].split("|")
    fused = [p for p in fn.params if p["fv"] is not None]
    if len(tags) != len(fused):
        return None
    sig = {}
    for p, tag in zip(fused, tags):
        idx = [i for i, t in enumerate(fn.tested(p)) if t.tag == tag]
        if len(idx) != 1:
            return None
        if sig.setdefault(p["fv"], idx[0]) != idx[0]:
            return None
    return [sig[j] for j in range(len(fn.fvars))]


def dev_key(ms, v):
    if v.cls == "bool" and any(t.kind == "bint" for t in ms):
        # known cause: a C integer member that sorts before bint (higher rank, or rank of int and declared earlier)
        bi = next(i for i, t in enumerate(ms) if t.kind == "bint")
        known = any(t.kind == "cint" and (t.rank > 8 or (t.rank == 8 and i < bi)) for i, t in enumerate(ms))
        return "bool-arg-int-member-tested-before-bint" if known else "bool-arg-bint-member-not-selected"
    if v.cls in ("int", "bool"):
        # the known cause is the partial order of __lt__ across signedness; among plain signed types it would be new
        mixed = any(t.kind == "cint" and t.sg != 1 for t in ms)
        return "int-arg-not-biggest-int-member" if mixed else "int-arg-not-biggest-among-plain-signed-members"
    if v.cls in ("float", "complex"):
        return v.cls + "-arg-not-biggest-member"
    if v.cls == "inst":
        return "ext-arg-ancestor-member-tested-before-nearer-class"
    if v.cls == "builtin" and not v.exact:
        return "builtin-subclass-arg-selects-exact-type-member"
    if v.cls == "buf" and not v.nd and not v.wr:
        return "readonly-buffer-passes-trial-coercion"
    if v.cls == "buf" and v.nd:
        if not v.native:
            return "ndarray-byteorder-not-checked"
        if not v.wr:
            return "ndarray-readonly-not-checked"
        if not v.cc:
            return "ndarray-contiguity-not-checked"
    return "dispatch-" + v.cls


def cap(s, n=300):
    s = str(s)
    return s if len(s) <= n else s[:n] + "..."


def build_all(ctx, fns, per_module):
    """-> list of (so, [fns]); functions the compiler rejects are dropped (counted), never silently"""
    groups = [fns[i:i + per_module] for i in range(0, len(fns), per_module)]
    specs = [{"name": "c34m%d" % gi, "source": PRELUDE + "\n".join(f.source() for f in g)} for gi, g in enumerate(groups)]
    built = cybuild.build_many(ctx, specs)
    out, rejected = [], []
    for gi, (g, b) in enumerate(zip(groups, built)):
        if not isinstance(b, cybuild.BuildError):
            out.append((b, g))
            continue
        singles = cybuild.build_many(ctx, [{"name": "c34m%d_%d" % (gi, k), "source": PRELUDE + f.source()} for k, f in enumerate(g)])
        for f, s in zip(g, singles):
            if isinstance(s, cybuild.BuildError):
                rejected.append((f, s))
            else:
                out.append((s, [f]))
    return out, rejected


def case_agrees(fn, pos, kw, got, mo):
    """does the model line `mo` explain the observed outcome `got` (same rule as in check_calls)"""
    impl = eval(got[len("ok str:"):]) if got.startswith("ok str:") else got
    msig = [int(x) for x in mo[3:].split("_")] if mo.startswith("ok ") and mo != "ok " else ([] if mo == "ok " else None)
    if impl.startswith("R "):
        isig = parse_result(fn, impl)
        return isig is not None and isig == msig
    if impl.startswith("E "):
        return mo == "err TypeError " + impl[2:]
    if impl.startswith("X ") and msig is not None:
        vals = bound_values(fn, pos, kw)
        verdicts = [conv_ok(fn.tested(p)[msig[p["fv"]]], v, p["an"]) for p, v in zip(fn.params, vals) if p["fv"] is not None and v is not None]
        return (impl == "X TypeError" and any(v is None for v in vals)) or any(x is not True for x in verdicts)
    return False


def pick_below(ctx, below, cases, outs):
    """The class address order of the process that COMPILED this module cannot be read from outside.  The probe value is tried first;
    if the model does not explain the module under it, every order of the classes that occur in the module is tried (the theorems
    hold for every order); the one compile process had ONE order, so a single order must explain all cases of the module."""
    def bad(b):
        mo = ctx.drv.batch([case_line(b, *c) for c in cases])
        return sum(1 for c, g, m in zip(cases, outs, mo) if not case_agrees(c[0], c[1], c[2], g, m))
    if not cases or bad(below) == 0:
        return below
    fns = {id(c[0]): c[0] for c in cases}.values()
    present = sorted(set(clsx(t) for f in fns for ms in f.fvars for t in ms if t.kind != "mview"))[:10]
    for mask in range(1 << len(present)):
        b = ["0"] * NBITS
        for j, k in enumerate(present):
            if mask >> j & 1:
                b[k] = "1"
        b = "".join(b)
        if bad(b) == 0:
            ctx.notes.setdefault("classOrder_inferred_for_modules", []).append(b)
            return b
    return below


def check_calls(ctx, below, cases, outs):
    mouts = ctx.drv.batch([case_line(below, *c) for c in cases])
    docq, docw = [], []
    for fn, pos, kw in cases:
        vals = bound_values(fn, pos, kw)
        for i, p in fn.first_params():
            if vals[i] is not None:
                docq.append("C34 doc %d %d %s %s" % (p["an"], p["ndim"], vals[i].tok, " ".join(t.tok for t in fn.fvars[p["fv"]])))
                docw.append(doc_choice(fn.tested(p), p["an"], vals[i]))
    for q, got, want in zip(docq, ctx.drv.batch(docq), docw):
        if got != "ok [%s]" % ",".join(map(str, want)):
            ctx.tie_break("documented-rule spec (Lean docChoice vs python transcription)", cap("%s: lean %s python %s" % (q, got, want)), {"line": q})
    for (fn, pos, kw), got, mo in zip(cases, outs, mouts):
        impl = eval(got[len("ok str:"):]) if got.startswith("ok str:") else got
        vals = bound_values(fn, pos, kw)
        firsts = fn.first_params()
        rep = {"fn": fn.describe(), "source": fn.source(), "call": case_src(fn, pos, kw), "impl": impl, "model": mo}
        what = cap("%s%s -> %s" % (fn.name, case_src(fn, pos, kw)[len(fn.name) + 6:], impl), 240)
        isig = parse_result(fn, impl) if impl.startswith("R ") else None
        msig = [int(x) for x in mo[3:].split("_")] if mo.startswith("ok ") and mo != "ok " else None
        if mo == "ok ":
            msig = []
        vcls = "+".join(v.cls if v is not None else "missing" for (i, p), v in zip(firsts, [vals[i] for i, _ in firsts]))
        ctx.count("%d-fused/%s/%s" % (len(firsts), "kw" if kw else "pos", impl.split(" ")[0] + ("" if impl[0] == "R" else impl[1:])))
        ctx.seen((fn.name, case_src(fn, pos, kw)), nontrivial=impl[0] != "R" or len(firsts) > 1 or any(v is not None and v.cls in ("buf", "inst", "bool", "none") for v in vals))
        # ---- model vs implementation
        agree = True
        if impl.startswith("R "):
            agree = isig is not None and isig == msig
        elif impl.startswith("E "):
            agree = mo == "err TypeError " + impl[2:]
        elif impl.startswith("X "):
            if msig is None:
                agree = False
            else:
                verdicts = [conv_ok(fn.tested(p)[msig[p["fv"]]], v, p["an"]) for p, v in zip(fn.params, vals) if p["fv"] is not None and v is not None]
                binding = impl == "X TypeError" and any(v is None for v in vals)      # a required non-fused argument is missing
                agree = binding or any(x is False for x in verdicts) or any(x is None for x in verdicts)
                if not binding and not any(x is False for x in verdicts):
                    ctx.count("conversion-failure-not-judged")
        else:
            agree = False
        if not agree:
            ctx.tie_break("D-c dispatch vs CyVerif.C34.dispatch", cap("%s; model %s" % (what, mo)), rep)
        # ---- implementation vs documented rule
        if any(v is None for v in vals):
            if impl[0] == "R":
                ctx.violation("missing-argument-accepted", what, rep)
            continue
        D = [doc_choice(fn.tested(p), p["an"], vals[i]) for i, p in firsts]
        empty = [k for k, d in enumerate(D) if not d]
        if empty:
            if impl[0] == "R":
                i, p = firsts[empty[0]]
                key = "no-match-wildcard-selects-single-member" if len(fn.fvars[p["fv"]]) == 1 and len(firsts) > 1 else "no-match-but-dispatched-" + vals[i].cls
                ctx.violation(key, cap(what + "; documented rule finds no specialisation for argument %d (TypeError required)" % i), rep)
            continue
        bad = None
        if impl[:2] not in ("R ", "E ", "X "):
            ctx.violation("unexpected-outcome-" + impl.split(" ")[-1][:30], cap(what + "; documented rule selects a specialisation"), rep)
        elif impl[0] == "R":
            if isig is None:
                ctx.tie_break("D-c result tags", what, rep)
                continue
            for k, (i, p) in enumerate(firsts):
                if isig[k] not in D[k]:
                    bad = (i, p, "selected member %r, documented rule allows %r" % (fn.tested(p)[isig[k]].decl, [fn.tested(p)[j].decl for j in D[k]]))
                    break
        else:
            # a TypeError / conversion failure although the documented rule names a specialisation: only a deviation if one of the
            # documented choices would have accepted every argument
            # (if the selected specialisation -- the model's, tied above -- is itself a documented choice, the failure is a
            # value that is not representable in the selected types: outside the property)
            selected_ok = agree and msig is not None and all(msig[k] in D[k] for k in range(len(firsts)))
            for sig in ([] if selected_ok else itertools.product(*D)):
                oks = [conv_ok(fn.tested(p)[sig[p["fv"]]], v, p["an"]) for p, v in zip(fn.params, vals) if p["fv"] is not None and v is not None]
                if all(x is True for x in oks):
                    k = 0
                    if msig is not None:
                        k = next((k for k in range(len(firsts)) if msig[k] not in D[k]), 0)
                    i, p = firsts[k]
                    bad = (i, p, "call fails, documented rule selects %r which accepts the arguments" % [fn.tested(q)[sig[q["fv"]]].decl for _, q in firsts])
                    break
        if bad:
            i, p, why = bad
            ctx.violation(dev_key(fn.tested(p), vals[i]), cap(what + "; " + why, 400), rep)
    return outs, mouts


def index_cases(ctx, fn, nsig):
    """(index source, item strings as obj_to_string yields them, spelling name)"""
    rng = ctx.rng
    nf = len(fn.fvars)
    sigs = list(itertools.product(*[range(len(ms)) for ms in fn.fvars]))
    if len(sigs) > nsig:
        sigs = [sigs[0], sigs[-1]] + rng.sample(sigs[1:-1], nsig - 2)
    out = []
    for sig in sigs:
        names = [fn.fvars[j][sig[j]].key for j in range(nf)]
        q = [repr(n) for n in names]
        tup = (lambda xs: xs[0] if len(xs) == 1 else "(%s)" % ", ".join(xs))
        out.append((tup(q), names, "names"))
        out.append((repr("|".join(names)), ["|".join(names)], "joined"))
        tys = [cy_type_src(fn.fvars[j][sig[j]], 0) for j in range(nf)]
        if all(tys):
            out.append((tup(tys), names, "types"))
        if nf == 1 and rng.random() < 0.5:
            out.append(("(%s,)" % q[0], names, "1-tuple"))
        # not a spelling of any specialisation (unless it happens to name one: the oracle decides)
        wrong = [(repr(", ".join(names)), [", ".join(names)], "comma-joined"), (repr(" " + names[0]), [" " + names[0]], "leading-space"),
                 (repr(names[0].replace(" ", "")), [names[0].replace(" ", "")], "no-spaces"), ("'nosuchtype'", ["nosuchtype"], "unknown")]
        if nf > 1:
            wrong += [(q[0], [names[0]], "partial"), (tup(q[::-1]), names[::-1], "reversed"), (tup(q + q[:1]), names + names[:1], "too-long")]
        out.append(rng.choice(wrong))
    return out


def prep_index(ctx, fn, nsig):
    keys = ["|".join(fn.fvars[j][s[j]].key for j in range(len(fn.fvars))) for s in itertools.product(*[range(len(ms)) for ms in fn.fvars])]
    sigs = list(itertools.product(*[range(len(ms)) for ms in fn.fvars]))
    cases = index_cases(ctx, fn, nsig)
    srcs, lines, wants = [], [], []
    for idx_src, items, spelling in cases:
        # oracle: the specialisation NAMED by the items (one member name per fused type, or a listed signature string)
        named = [s for s in sigs if [fn.fvars[j][s[j]].key for j in range(len(fn.fvars))] == items]
        if not named and len(items) == 1:
            named = [s for s, k in zip(sigs, keys) if k == items[0]]
        want = named[0] if named else None
        wants.append(want)
        sig = want or sigs[0]
        args = ", ".join("0" if p["fv"] is None else good_value(fn.tested(p)[sig[p["fv"]]]) for p in fn.params)
        srcs.append(("_index", "(mod.%s, %s, (%s,))" % (fn.name, idx_src, args)))
        lines.append("C34 getitem %d %s %s" % (len(keys), " ".join(k.replace(" ", "~") for k in keys), " ".join(i.replace(" ", "~") for i in items)))
    return {"fn": fn, "sigs": sigs, "cases": cases, "srcs": srcs, "lines": lines, "wants": wants}


def check_index(ctx, prep, outs):
    fn, sigs, cases, wants = prep["fn"], prep["sigs"], prep["cases"], prep["wants"]
    mouts = ctx.drv.batch(prep["lines"])
    for (idx_src, items, spelling), got, mo, want in zip(cases, outs, mouts, wants):
        impl = eval(got[len("ok str:"):]) if got.startswith("ok str:") else got
        isig = parse_result(fn, impl) if impl.startswith("R ") else None
        rep = {"fn": fn.describe(), "source": fn.source(), "index": idx_src, "impl": impl, "model": mo}
        what = cap("%s[%s] -> %s" % (fn.name, idx_src, impl), 240)
        ctx.count("index/%s/%s" % (spelling, "hit" if impl[0] == "R" else "miss"))
        ctx.seen((fn.name, "index", idx_src), nontrivial=True)
        msig = list(sigs[int(mo[3:])]) if mo.startswith("ok ") else None
        if (isig if impl[0] == "R" else None) != msig or (impl[0] != "R" and impl != "K"):
            ctx.tie_break("D-c __pyx_FusedFunction_getitem vs CyVerif.C34.getitem", cap(what + "; model " + mo), rep)
        if (list(want) if want else None) != (isig if impl[0] == "R" else None) or (impl[0] == "R" and isig is None):
            ctx.violation("index-%s" % spelling, cap(what + "; named specialisation: %r" % (want,)), rep)


def check_sort(ctx, below, n):
    """model of `specialized_types.sort()` vs CPython's list.sort on a transcription of `__lt__`, and vs the real type objects"""
    rng = ctx.rng
    lists = [f.fvars[0] for f in fixed_fns()]
    for _ in range(n):
        lists.append(rng.sample(TYPES, rng.randint(1, 9)))
    # the class-id order is a fact of the process (it depends on the import sequence): the real sort is compared under
    # the order measured in the SAME process; both orders seen (compile-like process, probe process) go through the model
    below_s, real = real_sorted(ctx, lists)
    ctx.notes["classOrder_sort_process"] = below_s
    if below_s is None:
        return
    below = below_s        # ONLY the order measured in the process that ran the real sorts is used for this leg
    mouts = ctx.drv.batch(["C34 sort %s %s" % (below, " ".join(t.tok for t in ms)) for ms in lists])
    for ms, mo, rl in zip(lists, mouts, real):
        want = "ok " + "_".join(map(str, py_sorted(below, ms)))
        ctx.count("sort/len%d" % len(ms))
        if mo != want:
            ctx.tie_break("pySort vs CPython list.sort", cap("%r: model %s cpython %s" % (ms, mo, want)), {"members": [t.decl for t in ms]})
        if rl is not None and "ok " + "_".join(map(str, rl)) != mo:
            ctx.tie_break("D-py PyrexTypes.__lt__ + list.sort vs CyVerif.C34.sortedMembers", cap("%r: model %s real %s" % (ms, mo, rl)), {"members": [t.decl for t in ms]})


_SORT_SNIPPET = r"""
import sys, json
from Cython.Compiler.Main import compile as cy_compile, CompilationOptions
from Cython.Compiler import Options
import Cython.Compiler.Code as Code
from Cython.Compiler import PyrexTypes as P, Builtin
assert Code.__file__.endswith('.py')
lists = json.loads(sys.stdin.read())
def mk(d):
    if d['kind'] == 'mview':
        base = basic(d['base'])
        axes = [('direct', 'strided')] * (d['ndim'] - 1) + [('direct', 'contig' if d['cc'] else 'strided')]
        if d['cc']:
            axes = [('direct', 'follow')] * (d['ndim'] - 1) + [('direct', 'contig')]
        return P.MemoryViewSliceType(base, axes)
    if d['kind'] == 'obj':
        return P.py_object_type
    if d['kind'] == 'builtin':
        return Builtin.builtin_scope.lookup(d['decl']).type
    if d['kind'] == 'ext':
        return P.PyExtensionType(d['decl'], 0, None)
    if d['decl'] == 'bint':
        return P.c_bint_type
    return basic(d['decl'])
def basic(name):
    tab = {'char': P.c_char_type, 'signed char': P.c_schar_type, 'unsigned char': P.c_uchar_type, 'short': P.c_short_type,
           'unsigned short': P.c_ushort_type, 'int': P.c_int_type, 'unsigned int': P.c_uint_type, 'long': P.c_long_type,
           'unsigned long': P.c_ulong_type, 'long long': P.c_longlong_type, 'unsigned long long': P.c_ulonglong_type,
           'Py_ssize_t': P.c_py_ssize_t_type, 'size_t': P.c_size_t_type, 'float': P.c_float_type, 'double': P.c_double_type,
           'long double': P.c_longdouble_type, 'float complex': P.c_float_complex_type, 'double complex': P.c_double_complex_type}
    return tab[name]
out = []
for ms in lists:
    tys = [(mk(d)) for d in ms]
    order = list(range(len(tys)))
    pairs = [[t, i] for i, t in enumerate(tys)]
    class W:
        def __init__(s, t, i): s.t, s.i = t, i
        def __lt__(s, o): return s.t < o.t
    ws = [W(t, i) for i, t in enumerate(tys)]
    ws.sort()
    out.append([w.i for w in ws])
print(json.dumps([class_order_bits(P, Builtin), out]))
"""


def real_sorted(ctx, lists):
    data = [[{"kind": t.kind, "decl": t.decl, "base": t.decl.partition("[")[0], "ndim": getattr(t, "ndim", 0), "cc": getattr(t, "cc", 0)} for t in ms] for ms in lists]
    p = subprocess.run([lib.PYTHON, "-c", _BITS_CODE + _SORT_SNIPPET], input=json.dumps(data), env=lib._clean_env({"PYTHONPATH": ctx.stage}),
                       stdout=subprocess.PIPE, stderr=subprocess.PIPE, text=True, timeout=300)
    if p.returncode != 0:
        ctx.tie_break("D-py sort probe", cap(p.stderr[-400:]), {})
        return None, [None] * len(lists)
    return json.loads(p.stdout.strip().split("\n")[-1])


_ADDR_SRC = """# cython: language_level=3
cimport cython
ctypedef fused T:
    int[:]
    long
    double[:]
def f(T a):
    return cython.typeof(a)
"""
_ADDR_PROBE = r"""
import sys, re
exec(sys.argv[1])
from Cython.Compiler.Main import compile as cy_compile, CompilationOptions
import Cython.Compiler.Code as C
assert C.__file__.endswith('.py')
cy_compile('w.pyx', CompilationOptions(language_level=3))
m = re.search(r"if arg is None:\n \*\s+return '([^']+)'", open('w.c').read())
print('NONE->' + (m.group(1) if m else '?'))
"""


def check_address_dependence(ctx):
    """the same source compiled by two compiler processes that differ only in what was imported before: the generated
    dispatcher must select the same member for f(None).  (Address dependent: reported only when it actually differs.)"""
    import os
    got = {}
    for k, pre in enumerate(("pass", "import json", "from Cython.Build import cythonize")):
        d = os.path.join(ctx.scratch, "addr%d" % k)
        os.makedirs(d, exist_ok=True)
        with open(os.path.join(d, "w.pyx"), "w") as f:
            f.write(_ADDR_SRC)
        with open(os.path.join(d, "probe.py"), "w") as f:
            f.write(_ADDR_PROBE)
        p = subprocess.run([lib.PYTHON, "probe.py", pre], cwd=d, env=lib._clean_env({"PYTHONPATH": ctx.stage}),
                           stdout=subprocess.PIPE, stderr=subprocess.PIPE, text=True, timeout=900)
        out = [l for l in p.stdout.split("\n") if l.startswith("NONE->")]
        if p.returncode == 0 and out:
            got[pre] = out[-1][6:]
    ctx.notes["address_dependence_probe"] = got
    ctx.count("address-dependence/%d-distinct" % len(set(got.values())))
    if len(set(got.values())) > 1:
        ctx.violation("member-order-depends-on-type-class-addresses",
                      cap("fused {int[:], long, double[:]}: f(None) is dispatched to %r depending only on what the compiler process imported before "
                          "compiling (PyrexType.__lt__ compares id(type(self)) for memoryview types)" % got),
                      {"source": _ADDR_SRC, "selected_for_None_by_preamble": got})


def run(ctx):
    ctx.rule = ("generated fused def/cpdef functions (1-2 fused types of 1-5 members drawn from 13 C integer types, bint, 3 floating, 2 complex, object, "
                "5 builtin types, 4 extension classes, 44 typed memoryviews; 1-3 parameters, `T[:]` parameters, defaults, `not None`) x "
                "run-time values (ints up to 2**100, bools, floats, complex, None, builtin instances and subclasses, extension instances and "
                "subclasses, numpy scalars, ndarrays of 16 dtypes x ndim 1-3 x byte-swapped / strided / read-only / Fortran order, array.array, "
                "memoryview objects, Cython memoryviews) x positional / keyword / defaulted / missing arguments; explicit indexing in 4 accepted "
                "and 7 unaccepted spellings; non-trivial = error outcome, 2 fused types, or a buffer/extension/bool/None argument")
    ctx.explanation = ("Theorems cover the decision procedure of the generated dispatcher (type tests in sorted order, wildcard candidate search, "
                       "indexing) against the documented rule for every declaration and argument classification of the modelled grammar. "
                       "No theorem covers: that FusedNode.py emits exactly this procedure (differential tie only), the classification of concrete "
                       "Python objects into the model's value classes (isinstance / numpy dtype / buffer format facts of CPython and numpy), the "
                       "argument conversion after dispatch (C05, C17, C24 territory), typedef'd / struct / pointer / enum members, pythran types, "
                       "methods, and the equality of specialisation bodies with the generic source (checked only by typeof tags).")
    ctx.assumptions = ["LP64 sizes of the C types", "numpy importable at call time", "CPython 3.12 list.sort (count_run + binarysort) for < 64 members"]
    below, why = read_below(ctx)
    ctx.notes["classOrder_compile_like_probe"] = below
    if why:
        ctx.notes["classOrder_unstable"] = why
    if ctx.replay_case and "source" in ctx.replay_case:
        return replay(ctx, below, ctx.replay_case)
    check_sort(ctx, below, ctx.n(300, 5000))
    check_address_dependence(ctx)
    rng = ctx.rng
    import os
    nrand = int(os.environ.get("VERIF_C34_RANDOM_FNS", ctx.n(11, 59)))       # knob for the self-test on a loaded machine
    fns = fixed_fns() + [gen_fn(rng, "g%d" % i) for i in range(nrand)]
    built, rejected = build_all(ctx, fns, 4 if ctx.quick else 6)
    ctx.notes["functions"] = len(fns)
    ctx.notes["rejected_by_compiler"] = len(rejected)
    for f, e in rejected:
        if f.name.startswith("x") or len(rejected) > len(fns) // 4:
            ctx.tie_break("D-c build", cap(f.name + " " + e.stage + ": " + e.log[-300:], 500), {"source": f.source()})
    nspec = 0
    for so, g in built:
        cases = []
        for f in g:
            nspec += f.nspec()
            cases += call_cases(ctx, f, ctx.n(40, 150))
        preps = [prep_index(ctx, f, ctx.n(4, 12)) for f in g]
        srcs = [("_call", case_src(*c)) for c in cases]
        for pr in preps:
            srcs += pr["srcs"]
        allouts = cybuild.run_cases(ctx, so, srcs)
        mbelow = pick_below(ctx, below, cases, allouts[:len(cases)])
        outs, mouts = check_calls(ctx, mbelow, cases, allouts[:len(cases)])
        if cases:
            k = rng.randrange(len(cases))
            ctx.sample({"fn": cases[k][0].describe(), "call": cap(case_src(*cases[k]), 200), "impl": cap(outs[k], 120), "model": mouts[k]})
        at = len(cases)
        for pr in preps:
            check_index(ctx, pr, allouts[at:at + len(pr["srcs"])])
            at += len(pr["srcs"])
    ctx.notes["specialisations"] = nspec


def replay(ctx, below, rc):
    """re-run one recorded call / index on a freshly built module of the recorded source"""
    so = cybuild.build_module(ctx, "c34replay", PRELUDE + rc["source"])
    name = rc["source"].split("(")[0].split()[-1]
    if "call" in rc:
        out = cybuild.run_cases(ctx, so, [("_call", rc["call"])])
    else:
        out = cybuild.run_cases(ctx, so, [("_index", "(mod.%s, %s, ())" % (name, rc["index"]))])
    ctx.notes["replay"] = cap(out)
    if out and rc.get("impl") and not out[0].endswith(repr(rc["impl"])):
        ctx.notes["replay_differs"] = True
    else:
        ctx.violation(rc.get("key", "replayed"), cap("replayed: %s -> %s" % (rc.get("call", rc.get("index")), out)), rc)

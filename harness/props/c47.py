"""C47 — strip_string_literals is lossless and complete.

Three-way on every generated text:
  implementation  staged Cython.Build.Dependencies.strip_string_literals (pure Python, current source)
  model           CyVerif.C47 (Lean, compiled driver): stripped text, literal list, piece shape, reference lexer
  oracle          (a) round trip: the label substitution of Inline.py (sequential str.replace) and the single-pass
                      regex substitution of the upstream unit test must reproduce the input exactly;
                  (b) CPython's `tokenize`: no character of a STRING body, COMMENT body or f-string literal part may
                      be among the characters the stripper copies verbatim (inputs that tokenize);
                  (c) the Lean reference lexer `refLex` (the specification side of the completeness theorem) must
                      equal the tokenize mask on inputs without f-strings (ties the Lean spec to CPython).
"""
import io
import itertools
import os
import re
import signal
import sys
import tokenize
import warnings

PREFIX = "__Pyx_L"

# ----------------------------------------------------------------------------------------------
# protocol helpers


def enc(s):
    return ".".join("%x" % ord(c) for c in s) if s else "-"


def dec(t):
    return "" if t == "-" else "".join(chr(int(x, 16)) for x in t.split("."))


class _Hang(BaseException):
    pass


def _on_alarm(signum, frame):
    raise _Hang()


def run_impl(strip, code):
    """-> ('ok', stripped, [literal values in label order], prefix actually used) | ('err', ExcName | 'Hang')
    A call that does not return within the time limit is an observation ('Hang'), not an infrastructure error."""
    signal.setitimer(signal.ITIMER_REAL, 1.0 + len(code) / 20000.0)
    try:
        try:
            stripped, literals = strip(code)
        finally:
            signal.setitimer(signal.ITIMER_REAL, 0)
    except _Hang:
        return ("err", "Hang")
    except RecursionError:
        return ("err", "RecursionError")
    except Exception as e:  # an exception is an observation
        return ("err", type(e).__name__)
    keys = list(literals.keys())
    prefix = PREFIX
    if keys:
        if not keys[0].endswith("1_"):
            return ("err", "LabelOrder")
        prefix = keys[0][:-2]
    if keys != ["%s%d_" % (prefix, i + 1) for i in range(len(keys))]:
        return ("err", "LabelOrder")
    return ("ok", stripped, [literals[k] for k in keys], prefix)


def fresh_prefix(code):
    """the candidate repair: `while prefix in code: prefix += '_'`"""
    p = PREFIX
    while p in code:
        p += "_"
    return p


def parse_model(line):
    """'ok <stripped> <n> <l1|l2..> <shape>' -> ('ok', stripped, lits, shape)"""
    parts = line.split(" ")
    if parts[0] != "ok" or len(parts) != 5:
        return ("bad", line)
    lits = [] if parts[2] == "0" else [dec(x) for x in parts[3].split("|")]
    if len(lits) != int(parts[2]):
        return ("bad", line)
    shape = [] if parts[4] == "-" else [(x[0], int(x[1:])) for x in parts[4].split(",")]
    return ("ok", dec(parts[1]), lits, shape)


# ----------------------------------------------------------------------------------------------
# oracle (a): substitution


def unstrip_inline(stripped, lits, prefix=PREFIX):
    """Cython/Build/Inline.py: for key, value in literals.items(): code = code.replace(key, value)"""
    s = stripped
    for i, v in enumerate(lits):
        s = s.replace("%s%d_" % (prefix, i + 1), v)
    return s


def unstrip_regex(stripped, lits, prefix=PREFIX):
    """Cython/Build/Tests/TestStripLiterals.py: re.sub('__Pyx_L[0-9]+_', lookup, stripped)"""
    d = {"%s%d_" % (prefix, i + 1): v for i, v in enumerate(lits)}
    if not d:
        return stripped          # nothing was replaced, nothing to substitute
    try:
        return re.sub(re.escape(prefix) + "[0-9]+_", lambda m: d[m.group()], stripped)
    except KeyError:
        return None


def kept_mask_from_impl(code, stripped, lits, prefix=PREFIX):
    """Align the implementation's output with the input: which input characters were copied verbatim.
    Only meaningful when the input does not contain the label prefix (then the alignment is forced)."""
    n = len(code)
    mask = [False] * n
    i = j = 0
    k = 0
    m = len(stripped)
    while j < m:
        if k < len(lits):
            lab = "%s%d_" % (prefix, k + 1)
            if stripped.startswith(lab, j):
                v = lits[k]
                if not code.startswith(v, i):
                    return None
                i += len(v)
                j += len(lab)
                k += 1
                continue
        if i >= n or code[i] != stripped[j]:
            return None
        mask[i] = True
        i += 1
        j += 1
    if i != n or k != len(lits):
        return None
    return mask


# ----------------------------------------------------------------------------------------------
# oracle (b): tokenize


class TokInfo:
    __slots__ = ("lit", "spec", "feats")


def tok_masks(code):
    """-> TokInfo (lit mask = STRING/COMMENT bodies + f-string literal parts; spec mask = f-string format-spec
    text) or None when the text does not tokenize."""
    n = len(code)
    starts = [0]
    for idx, ch in enumerate(code):
        if ch == "\n":
            starts.append(idx + 1)

    def ab(pos):
        r, c = pos
        if r - 1 >= len(starts):
            return n
        return min(starts[r - 1] + c, n)

    lit = [False] * n
    spec = [False] * n
    feats = set()
    stack = []  # frames: ['fstr', start, raw] | ['expr', depth] | ['spec', start]

    def mark(mask, a, b):
        for x in range(a, min(b, n)):
            mask[x] = True

    try:
      with warnings.catch_warnings():
        warnings.simplefilter("ignore")
        for t in tokenize.generate_tokens(io.StringIO(code).readline):
            tt = t.type
            if tt == tokenize.COMMENT:
                a, b = ab(t.start), ab(t.end)
                mark(lit, a + 1, b)
            elif tt == tokenize.STRING:
                s = t.string
                a, b = ab(t.start), ab(t.end)
                i = 0
                while i < len(s) and s[i] not in "'\"":
                    i += 1
                q = s[i]
                ql = 3 if s[i:i + 3] == q * 3 and len(s) >= i + 6 else 1
                mark(lit, a + i + ql, b - ql)
                if i == 0 and a > 0 and code[a - 1] == "f":
                    feats.add("name-f")          # `if'...'`: a name ending in f glued to a plain literal
            elif tt == tokenize.FSTRING_START:
                s = t.string
                pre = s.rstrip("'\"")
                if not pre.endswith("f"):
                    feats.add("fprefix")         # F'..', fr'..', fR"..": `f` is not the char before the quote
                a0 = ab(t.start) + len(pre)
                if len(s) - len(pre) == 3 and code[a0:a0 + 7] == s[-1] * 7:
                    feats.add("f-quote-run")     # f"""""""…: empty triple f-string glued to another literal
                stack.append(["fstr", ab(t.end), "r" in pre.lower()])
            elif tt == tokenize.FSTRING_END:
                if not stack or stack[-1][0] != "fstr":
                    return None
                fr = stack.pop()
                a = ab(t.start)
                mark(lit, fr[1], a)
                if not fr[2] and "\\N{" in code[fr[1]:a]:
                    feats.add("named-escape")
            elif tt == tokenize.OP and stack:
                s = t.string
                top = stack[-1]
                if s == "{":
                    if top[0] == "fstr":
                        a = ab(t.start)
                        mark(lit, top[1], a)
                        if not top[2] and "\\N{" in code[top[1]:a]:
                            feats.add("named-escape")
                        stack.append(["expr", 0])
                    elif top[0] == "spec":
                        mark(spec, top[1], ab(t.start))
                        stack.append(["expr", 0])
                    else:
                        top[1] += 1
                        top.append("{")
                elif s in "([":
                    if top[0] == "expr":
                        top[1] += 1
                        top.append(s)
                elif s in ")]":
                    if top[0] == "expr" and top[1] > 0:
                        # a closer that does not match its opener: not Python (CPython's compiler rejects it,
                        # tokenize does not) -> the oracle gives no verdict
                        if len(top) > 2 and top.pop() != {")": "(", "]": "["}[s]:
                            return None
                        top[1] -= 1
                elif s == "}":
                    if top[0] == "expr":
                        if top[1] > 0:
                            if len(top) > 2 and top.pop() != "{":
                                return None
                            top[1] -= 1
                        else:
                            stack.pop()
                            if not stack:
                                return None
                            stack[-1][1] = ab(t.end)
                    elif top[0] == "spec":
                        mark(spec, top[1], ab(t.start))
                        stack.pop()
                        if not stack or stack[-1][0] != "expr":
                            return None
                        stack.pop()
                        if not stack:
                            return None
                        stack[-1][1] = ab(t.end)
                elif s == ":" and top[0] == "expr" and top[1] == 0:
                    stack.append(["spec", ab(t.end)])
                elif s == ":=" and top[0] == "expr" and top[1] == 0:
                    return None
    except (tokenize.TokenError, SyntaxError, IndentationError, ValueError):
        return None
    if stack:
        return None
    for a in range(n):
        if spec[a]:
            if code[a] == "#":
                feats.add("spec-hash")
            elif code[a] in "'\"":
                feats.add("spec-quote")
    r = TokInfo()
    r.lit, r.spec, r.feats = lit, spec, feats
    return r


KNOWN_ORDER = ("fprefix", "name-f", "f-quote-run", "named-escape", "spec-hash", "spec-quote")


def completeness_key(feats):
    for f in KNOWN_ORDER:
        if f in feats:
            return "complete-" + f
    return "complete-survivor"


def violation_keys(strip, code):
    """keys of the oracle legs (a) and (b) that fail on `code` (used for shrinking)"""
    impl = run_impl(strip, code)
    if impl[0] == "err":
        return {"hangs" if impl[1] == "Hang" else "raises-" + impl[1]}
    _, stripped, lits, pfx = impl
    keys = set()
    has_prefix = pfx in code
    r1 = unstrip_inline(stripped, lits, pfx)
    if r1 != code or unstrip_regex(stripped, lits, pfx) != code:
        keys.add("label-prefix-in-input" if has_prefix else "roundtrip")
    if has_prefix:
        return keys
    kept = kept_mask_from_impl(code, stripped, lits, pfx)
    if kept is None:
        if r1 == code:
            keys.add("alignment")
        return keys
    ti = tok_masks(code)
    if ti is not None and any(k and l for k, l in zip(kept, ti.lit)):
        keys.add(completeness_key(ti.feats))
    return keys


def shrink(strip, code, key, budget=2500):
    """greedy deletion of chunks while the same oracle leg keeps failing"""
    if key == "hangs":
        budget = 25
    cur = code
    improved = True
    while improved and budget > 0:
        improved = False
        for size in (16, 8, 4, 2, 1):
            i = 0
            while i < len(cur) and budget > 0:
                cand = cur[:i] + cur[i + size:]
                budget -= 1
                if cand != cur and key in violation_keys(strip, cand):
                    cur = cand
                    improved = True
                else:
                    i += size
    return cur


# ----------------------------------------------------------------------------------------------
# generators

ALPHA = "a\"'\\#\n{}f"


def exhaustive(alpha, maxlen):
    for n in range(maxlen + 1):
        for t in itertools.product(alpha, repeat=n):
            yield "".join(t)


IDENTS = ["x", "y", "foo", "w", "d", "a1", "self.b", "fn(1)", "df", "elif"]
OPS = [" ", " + ", " = ", ", ", "; ", "\n", "\n    ", " \\\n  ", "(", ")", "[0]", " % ", ":", ".", "{1: 2}", "{}"]
PLAIN_PREFIXES = ["", "", "", "r", "b", "u", "br", "rb", "R", "B", "U", "bR", "Rb", "BR"]
F_PREFIXES = ["f", "f", "f", "rf", "Rf"]            # recognised by the scanner: `f` directly before the quote
BODY_ATOMS = ["a", "bc", " ", "#", "# x", "\\\\", "\\n", "\\t", "\\x41", "%s", "{", "}", "{}", "{x}", "f", "if",
              "cimport z", "include", "\\\n", "__Pyx", "0", "_"]


class Gen:
    def __init__(self, rng):
        self.rng = rng

    def body(self, q, triple, fstr, depth):
        rng = self.rng
        out = []
        other = '"' if q == "'" else "'"
        for _ in range(rng.randrange(0, 5)):
            r = rng.random()
            if r < 0.45:
                a = rng.choice(BODY_ATOMS)
                if fstr:
                    a = a.replace("{", "{{").replace("}", "}}")
                out.append(a)
            elif r < 0.55:
                out.append(other * rng.choice((1, 1, 2, 3)))
            elif r < 0.65:
                out.append("\\" + q)                      # escaped quote
            elif r < 0.72:
                out.append("\\\\")                        # escaped backslash (possibly right before the end)
            elif r < 0.80 and triple:
                out.append(rng.choice(["\n", q, q + q, "\n" + other]))
                if out[-1].endswith(q):
                    out.append("z")                       # keep the run short of a terminator
            elif r < 0.97 and fstr and depth < 3:
                out.append(self.field(q, triple, depth + 1))
            else:
                out.append("f")
        s = "".join(out)
        if triple and s.endswith(q):
            s += " "
        if s.endswith("\\") and not s.endswith("\\\\"):
            s += "\\"
        return s

    def field(self, q, triple, depth):
        """a replacement field `{expr!r:spec}` of an f-string delimited by q"""
        rng = self.rng
        inner = []
        for _ in range(rng.randrange(1, 3)):
            r = rng.random()
            if r < 0.4:
                inner.append(rng.choice(["x", "y", "w", "d", "x+1", "fn(1)", "self.b"]))
            elif r < 0.7:
                # nested literal: other quote kind (valid everywhere) or the same kind (valid since 3.12)
                nq = rng.choice(["'", '"'])
                inner.append(self.literal(depth, force_quote=nq, allow_triple=triple or rng.random() < 0.3))
            elif r < 0.8:
                inner.append("d[" + self.literal(depth, allow_triple=False) + "]")
            elif r < 0.9:
                inner.append("{1: 2}[1]")
            else:
                inner.append("(x, {3})")
        expr = " + ".join(inner)
        if expr.startswith("{"):
            expr = " " + expr
        conv = rng.choice(["", "", "", "!r", "!s"])
        spec = ""
        r = rng.random()
        if r < 0.25:
            spec = ":" + rng.choice([">10", "03d", ".2f", "^8", "x", ""])
        elif r < 0.4:
            spec = ":" + rng.choice([">", "", "0"]) + "{w}" + rng.choice(["", ".{y}"])
        return "{" + expr + conv + spec + "}"

    def literal(self, depth=0, force_quote=None, allow_triple=True):
        rng = self.rng
        q = force_quote or rng.choice(["'", '"'])
        triple = allow_triple and rng.random() < 0.3
        fstr = rng.random() < 0.4 and depth < 3
        pre = rng.choice(F_PREFIXES if fstr else PLAIN_PREFIXES)
        quote = q * 3 if triple else q
        return pre + quote + self.body(q, triple, fstr, depth) + quote

    def comment(self):
        rng = self.rng
        return "#" + "".join(rng.choice(["", " c", "'", '"', "'''", " it's", "{", "}", "f'", "\\", "#", " x = 'y'"])
                             for _ in range(rng.randrange(0, 4)))

    def program(self):
        rng = self.rng
        out = []
        for _ in range(rng.randrange(1, 9)):
            r = rng.random()
            if r < 0.3:
                out.append(rng.choice(IDENTS))
            elif r < 0.55:
                out.append(rng.choice(OPS))
            elif r < 0.85:
                if out and out[-1][-1:].isalnum():
                    out.append(" ")
                out.append(self.literal())
            elif r < 0.95:
                out.append(self.comment() + "\n")
            else:
                out.append(rng.choice(["''", '""', "''''''", '""""""', "'''''''z'", "''' '''"]))
        s = "".join(out)
        r = rng.random()
        if r < 0.12:                                   # damage: unterminated / stray characters
            k = rng.randrange(0, len(s) + 1)
            s = s[:k] + rng.choice(["'", '"', "\\", "{", "}", "#", "f", "'''", "\n"]) + s[k:]
        elif r < 0.2 and s:
            k = rng.randrange(0, len(s))
            s = s[:k] + s[k + 1:]
        elif r < 0.25 and s:
            s = s[:rng.randrange(0, len(s) + 1)]
        return s


WITNESSES = [
    # (key of the known class or None, text)
    ("label-prefix-in-input", 'x = "a"; __Pyx_L1_ = 3'),
    ("label-prefix-in-input", '__Pyx_L1_ = "a"'),
    (None, "s = f'{x:#x}'\nd = {}\ny = 'include'\n"),   # '#' in a format spec, nothing opened on that line: over-stripping only
    ("complete-spec-hash", "s = f'{a:#x}' + \'\'\'\ninclude \"foo\"\n\'\'\'\n"),
    ("complete-f-quote-run", 'x = f"""""""{y}"\n'),
    ("complete-spec-quote", "f'{x:\">10}' + \"abc\"\n"),
    ("complete-named-escape", "s = f'\\N{BULLET}'\n"),
    ("complete-fprefix", "F'{d['k']}'\n"),
    ("complete-fprefix", "fr'{d['k']}'\n"),
    ("complete-name-f", "y if'{'else z\n"),
]

UNIT = [
    "", "abc", " '' ", " '''''''''''' ", '"x"', "'x'", " '\"' \"'\" ", " '''' ''' ", ' """" """ ', " '''a\n''' ",
    r"'a\'b'", r"'a\\'", r"'a\\\'b'", "u'abc'", r"r'abc\\'", r"ru'abc\\'", "abc # foo", "abc # 'x'", "'abc#'",
    "include 'a.pxi' # something here", "cdef extern from 'a.h': # comment",
    """ func('xyz') + " " + "" '' # '' | "" "123" 'xyz' "' """, " f'f' ", " f'a{123}b' ", " f'{1}{f'xyz'}' ",
    " f'{f'''xyz{f\"\"\"abc\"\"\"}'''}' ", """ f'{{{{{"abc"}}}}}{{}}{{' == '{{abc}}{}{' """,
    "f'" + ("{x} " * 250) + "{x:{width}} '", """ print("Say something: %s' % something) """,
    "f'{x!r:>{w}}'\n", "x = 1 \\\n + 'a'\n", "rb'a\\'b'\n", "f'{a[\"k\"]}'\n", "f'{x}}}'\n", "f'{", "f'{x", "'", "#",
    "#\n", "f'{x:{y:{z}}}'", "f'''a{'''b'''}c'''", "''''''''a'", "'\\", "f'\\{x}'", "f'{x}' # {'\n'",
]


# ----------------------------------------------------------------------------------------------


def modelled_lines(D):
    import inspect
    fn = D.strip_string_literals
    src, first = inspect.getsourcelines(fn)
    code_objs = []

    def walk(co):
        code_objs.append(co)
        for c in co.co_consts:
            if hasattr(c, "co_code"):
                walk(c)
    walk(fn.__code__)
    lines = set()
    for co in code_objs:
        for _, _, ln in co.co_lines():
            if ln is not None and ln > co.co_firstlineno:
                lines.add(ln)
    return code_objs, lines


def run(ctx):
    import Cython.Build.Dependencies as D
    if not D.__file__.startswith(ctx.stage):
        import lib
        raise lib.Infra("Dependencies not staged: " + D.__file__)
    strip = D.strip_string_literals

    ctx.rule = ("texts: (1) fixed witnesses and the upstream unit-test strings; (2) every string over the alphabet "
                "{a \" ' \\ # newline { } f} up to length 5 (quick) / 6 plus length 7 over {a ' \\ { } f \"} (thorough); "
                "(3) seeded token sequences: identifiers/operators/line continuations, literals with every prefix "
                "(r b u br rb f rf, upper case), one or three quotes of both kinds, escapes, foreign quotes, '#', "
                "f-strings with nested fields, nested literals of the same and the other quote kind, !r, format specs "
                "with nested fields, comments containing quotes/braces, empty literals, 12% damaged (stray quote, "
                "backslash, brace; truncated); (4) texts containing label-like names; (5) the staged Cython *.py files. "
                "non-trivial = at least one label produced; distinct by text")
    ctx.explanation = (
        "Theorems cover: losslessness for every text not containing the label prefix (both substitution procedures), "
        "the counterexample without that hypothesis, losslessness for every text under the candidate repair, piece "
        "accounting for every text, and completeness against the Lean reference lexer for every text without an "
        "f-prefixed literal. NOT covered by a theorem: completeness for f-strings (nested fields), and the agreement of "
        "the reference lexer with CPython's tokenizer — both are differential only (tokenize oracle). Format-spec text "
        "of f-strings (`{x:>10}`) is deliberately kept by the scanner (pinned by the upstream unit test) and is "
        "counted, not reported.")
    ctx.assumptions = ["nesting depth of f-string fields below the interpreter recursion limit (the Python code recurses "
                       "per nested field; the model has no such limit)",
                       "callers use the default prefix '__Pyx_L' (all three call sites do); theorems hold for every "
                       "prefix without digits, quotes, '{' and newline"]
    ctx.extra_trusted = ["CPython 3.12.1 tokenize as the meaning of 'belongs to a string literal or comment'; the "
                         "harness classification of f-string tokens into literal part / expression / format spec"]

    rng = ctx.rng
    cases = []   # (class, text)
    shrunk_keys = set()
    cur_class = [""]

    def report(key, what, replay):
        """first violation of each key: also report the shrunken text"""
        code = replay.get("code", "")
        if key not in shrunk_keys and len(code) > 10 and len(code) <= 4000 and cur_class[0] in ("tokens", "labels", "exhaustive7", "file"):
            shrunk_keys.add(key)
            small = shrink(strip, code, key)
            if small != code:
                impl = run_impl(strip, small)
                ctx.violation(key, "strip_string_literals(%r) -> %r  [shrunk from a generated text; oracle leg %s fails: %s]"
                              % (small, impl[1:3] if impl[0] == "ok" else impl, key, what[:400]),
                              {"code": small, "shrunk_from": code})
                return
        shrunk_keys.add(key)
        ctx.violation(key, what, replay)

    if ctx.replay_case and "case" in ctx.replay_case and "code" in ctx.replay_case["case"]:
        cases.append(("replay", ctx.replay_case["case"]["code"]))
    else:
        corpus_dir = os.path.join(os.path.dirname(os.path.dirname(os.path.dirname(os.path.abspath(__file__)))), "corpus", "C47")
        if os.path.isdir(corpus_dir):
            import json
            for fn in sorted(os.listdir(corpus_dir)):
                if fn.endswith(".json"):
                    obj = json.load(open(os.path.join(corpus_dir, fn)))
                    for c in obj.get("codes", []):
                        cases.append(("corpus", c))
        for _, w in WITNESSES:
            cases.append(("witness", w))
        for u in UNIT:
            for v in (u, u.strip(), u.strip() + "\n"):
                cases.append(("unit", v))
        for s in exhaustive(ALPHA, 5 if ctx.quick else 6):
            cases.append(("exhaustive", s))
        if not ctx.quick:
            for t in itertools.product("a'\\{}f\"", repeat=7):
                cases.append(("exhaustive7", "".join(t)))
        g = Gen(rng)
        for _ in range(ctx.n(25000, 300000)):
            cases.append(("tokens", g.program()))
        for _ in range(ctx.n(1500, 20000)):
            # label-like names in the text
            lab = rng.choice(["__Pyx_L%d_" % rng.randrange(0, 13), "__Pyx_L", "__Pyx_L1", "_Pyx_L1_", "__Pyx_L_1_",
                              "__Pyx_L01_", "__Pyx_L1__Pyx_L2_"])
            p = g.program()
            k = rng.randrange(0, len(p) + 1)
            cases.append(("labels", p[:k] + lab + p[k:]))
        # real files
        files = []
        for root, dirs, fns in os.walk(os.path.join(ctx.stage, "Cython")):
            dirs.sort()
            for fn in sorted(fns):
                if fn.endswith(".py"):
                    files.append(os.path.join(root, fn))
        for p in files:
            try:
                txt = open(p, encoding="utf-8").read()
            except Exception:
                continue
            if "\r" in txt:
                continue
            cases.append(("file" if len(txt) <= (20000 if ctx.quick else 60000) else "bigfile", txt))

    # ------------------------------------------------------------------ model
    tie_idx = [i for i, (cl, _) in enumerate(cases) if cl != "bigfile"]
    lines = ["C47 strip " + enc(cases[i][1]) for i in tie_idx]
    ref_lines = ["C47 reflex " + enc(cases[i][1]) for i in tie_idx]
    mout = ctx.drv.batch(lines + ref_lines)
    model = {}
    reflex = {}
    for j, i in enumerate(tie_idx):
        model[i] = mout[j]
        reflex[i] = mout[len(tie_idx) + j]

    # ------------------------------------------------------------------ coverage of the modelled function
    code_objs, all_lines = modelled_lines(D)
    hit = set()
    co_set = set(code_objs)

    def tracer(frame, event, arg):
        if frame.f_code in co_set:
            def local(fr, ev, a):
                if ev == "line":
                    hit.add(fr.f_lineno)
                return local
            return local
        return None

    cov_budget = 6000
    signal.signal(signal.SIGALRM, _on_alarm)
    repaired_seen = [0]
    hangs = [0]
    other_prefix = []
    stats = {"tokenized": 0, "spec_kept": 0, "reflex_compared": 0, "prefix_in_input": 0}
    unseq_cases = []

    for i, (cl, code) in enumerate(cases):
        traced = cov_budget > 0 and cl not in ("exhaustive", "exhaustive7", "bigfile", "file")
        if traced:
            cov_budget -= 1
            sys.settrace(tracer)
        try:
            impl = run_impl(strip, code)
        finally:
            if traced:
                sys.settrace(None)
        ctx.count(cl)
        cur_class[0] = cl
        short = code if len(code) <= 300 else code[:300] + "...(%d chars)" % len(code)

        # -------- tie: model vs implementation
        if i in model:
            m = parse_model(model[i])
            if impl[0] == "err":
                # the model has no error outcome: any exception of the implementation breaks the tie
                ctx.tie_break("D-py strip_string_literals vs CyVerif.C47.strip", "%r: impl raised %s" % (short, impl[1]),
                              {"code": code})
            elif impl[3] != PREFIX:
                # the implementation chose another prefix: only the candidate repair is modelled (stripFresh)
                if impl[3] == fresh_prefix(code):
                    other_prefix.append((i, impl))
                else:
                    ctx.tie_break("D-py strip_string_literals vs CyVerif.C47.stripFresh",
                                  "%r: impl used prefix %r, model of the repair %r" % (short, impl[3], fresh_prefix(code)), {"code": code})
            elif m[0] != "ok" or m[1] != impl[1] or m[2] != impl[2]:
                ctx.tie_break("D-py strip_string_literals vs CyVerif.C47.strip",
                              "%r: impl %r %r model %r" % (short, impl[1][:200], impl[2][:6], m[1:3] if m[0] == "ok" else m),
                              {"code": code})
        if impl[0] == "err":
            if impl[1] == "Hang":
                report("hangs", "strip_string_literals(%r) does not return" % short, {"code": code})
                hangs[0] += 1
                if hangs[0] >= 12:
                    ctx.notes["aborted"] = "stopped after 12 non-returning calls; %d of %d cases evaluated" % (i + 1, len(cases))
                    break
            else:
                report("raises-" + impl[1], "strip_string_literals(%r) raised %s" % (short, impl[1]), {"code": code})
            continue
        _, stripped, lits, pfx = impl
        if pfx != PREFIX:
            repaired_seen[0] += 1
        ctx.seen(code, nontrivial=bool(lits))
        if i < 40 or (cl == "tokens" and len(ctx.samples) < 8 and lits):
            ctx.sample({"class": cl, "code": short, "stripped": stripped[:300], "literals": lits[:8]})

        # -------- oracle (a): round trip
        if PREFIX in code:
            stats["prefix_in_input"] += 1
        has_prefix = pfx in code
        r1 = unstrip_inline(stripped, lits, pfx)
        r2 = unstrip_regex(stripped, lits, pfx)
        if r1 != code or r2 != code:
            key = "label-prefix-in-input" if has_prefix else "roundtrip"
            report(key, "strip_string_literals(%r) -> %r, %r; substituting back (Inline.py replace loop) gives %r, "
                          "(unit-test regex) gives %r" % (short, stripped[:300], lits[:6], r1[:300], (r2 or "KeyError")[:300]),
                          {"code": code, "stripped": stripped, "literals": lits})
        if pfx == PREFIX and (cl in ("labels", "witness", "unit", "corpus", "replay") or (cl == "tokens" and i % 7 == 0)):
            unseq_cases.append((code, r1))

        # -------- oracle (b): completeness against tokenize
        if has_prefix:
            continue
        kept = kept_mask_from_impl(code, stripped, lits, pfx)
        if kept is None:
            if r1 == code:
                report("alignment", "output of strip_string_literals(%r) cannot be aligned with the input" % short,
                              {"code": code})
            continue
        ti = tok_masks(code)
        if ti is None:
            continue
        stats["tokenized"] += 1
        surv = [a for a in range(len(code)) if kept[a] and ti.lit[a]]
        if surv:
            key = completeness_key(ti.feats)
            a = surv[0]
            report(key, "strip_string_literals(%r) keeps %r at offset %d, which tokenize puts inside a "
                          "string literal / comment (stripped: %r)" % (short, code[a], a, stripped[:300]),
                          {"code": code, "survivors": surv[:20]})
        if any(kept[a] and ti.spec[a] for a in range(len(code))):
            stats["spec_kept"] += 1
        # -------- oracle (c): Lean reference lexer vs tokenize (no f-string involved)
        if i in reflex and reflex[i] != "ok fstring" and "fprefix" not in ti.feats:
            want = "ok " + ("".join("1" if b else "0" for b in ti.lit) if code else "-")
            stats["reflex_compared"] += 1
            if reflex[i] != want:
                ctx.tie_break("Lean refLex vs CPython tokenize", "%r: refLex %s tokenize %s" % (short, reflex[i][:200], want[:200]),
                              {"code": code})

    # -------- implementation with the repair: compare with the model run on the same (fresh) prefix
    if other_prefix:
        out = ctx.drv.batch(["C47 stripp %s %s" % (enc(impl[3]), enc(cases[i][1])) for i, impl in other_prefix])
        for (i, impl), o in zip(other_prefix, out):
            m = parse_model(o)
            ctx.count("repaired-prefix")
            if m[0] != "ok" or m[1] != impl[1] or m[2] != impl[2]:
                ctx.tie_break("D-py strip_string_literals (repaired) vs CyVerif.C47.stripFresh",
                              "%r: impl %r model %r" % (cases[i][1][:200], impl[1][:200], m[1:3] if m[0] == "ok" else m),
                              {"code": cases[i][1]})
    ctx.notes["variant"] = ("repaired: the implementation avoids prefixes present in the text (theorem lossless_fresh applies)"
                            if repaired_seen[0] else
                            "as pinned: fixed prefix __Pyx_L (theorems *_partial and the counterexamples apply)")

    # -------- model of str.replace / Inline substitution vs Python
    if unseq_cases:
        out = ctx.drv.batch(["C47 unseq " + enc(c) for c, _ in unseq_cases] + ["C47 unone " + enc(c) for c, _ in unseq_cases])
        for j, (c, r1) in enumerate(unseq_cases):
            ctx.count("unstrip-model")
            if out[j] != "ok " + enc(r1):
                ctx.tie_break("D-py Inline.py replace loop vs CyVerif.C47.unstripSeq",
                              "%r: python %r model %r" % (c[:200], r1[:200], out[j][:200]), {"code": c})

    # -------- the candidate repair in the model restores every text (sanity of `stripFresh` against Python)
    fr_cases = [c for (cl, c) in cases if cl in ("labels", "witness")][:2000]
    if fr_cases:
        out = ctx.drv.batch(["C47 fresh " + enc(c) for c in fr_cases])
        for c, o in zip(fr_cases, out):
            ctx.count("repair-model")
            parts = o.split(" ")
            p = dec(parts[1]) if len(parts) == 4 else None
            want = PREFIX
            while want in c:
                want += "_"
            if p != want or dec(parts[3]) != c:
                ctx.tie_break("CyVerif.C47.stripFresh vs `while prefix in code: prefix += '_'`", "%r -> %s" % (c[:200], o[:200]),
                              {"code": c})

    missed = sorted(all_lines - hit)
    ctx.notes["line_coverage"] = {"function": "Cython/Build/Dependencies.py:strip_string_literals (+ nested functions)",
                                  "lines_total": len(all_lines), "lines_hit": len(all_lines & hit), "missed": missed}
    ctx.notes["stats"] = stats

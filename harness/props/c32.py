"""C32 — C function exception declarations propagate errors faithfully.

impl   = generated module: cdef/cpdef functions for every declaration kind x sentinel x return type x gil state,
         each called from a def wrapper (compiled by the staged compiler)
model  = CyVerif.C32.observe
oracle = the property's statement (`expected`): raise propagates iff the declaration allows it; noexcept ->
         unraisable + normal return; a normal return is delivered unchanged
"""
import cybuild

SENTINELS = [-1, 0, 7]
KINDS = ["ev", "evq", "star", "noexc"]
TYPES = [("int", "i"), ("long long", "q"), ("double", "d"), ("unsigned char", "B"), ("unsigned short", "H"), ("signed char", "b"),
         ("unsigned int", "I")]
WIDTH = {"B": (8, 0), "H": (16, 0), "b": (8, 1), "I": (32, 0)}


def cast_to(tc, v):
    """value of the C cast (T)v for the small integer types (sentinels such as -1 on an unsigned return type)"""
    if tc not in WIDTH:
        return v
    w, sg = WIDTH[tc]
    v &= (1 << w) - 1
    if sg and v >> (w - 1):
        v -= 1 << w
    return v


def decl_suffix(kind, s, ctype):
    sv = ("%d.0" % s) if ctype == "double" else str(s)
    return {"ev": "except %s" % sv, "evq": "except? %s" % sv, "star": "except *", "noexc": "noexcept"}[kind]


def gen_module():
    out = ["# cython: language_level=3", "import sys", "_unr = []",
           "def _hook(a):\n    _unr.append(type(a.exc_value).__name__)", "sys.unraisablehook = _hook", ""]
    table = []
    for ctype, tc in TYPES:
        for kind in KINDS:
            for s in (SENTINELS if kind in ("ev", "evq") else [0]):
                for gil in ("gil", "nogil"):
                    for defkind in (("cdef", "cpdef") if gil == "gil" and tc == "i" else ("cdef",)):
                        name = "f_%s_%s_%s_%s_%s" % (tc, kind, str(s).replace("-", "m"), gil, defkind)
                        suffix = decl_suffix(kind, s, ctype)
                        if gil == "nogil":
                            out.append("cdef %s %s(int mode, %s x) %s nogil:" % (ctype, name, ctype, suffix))
                            out.append("    if mode:\n        with gil:\n            raise ValueError('boom')\n    return x")
                            out.append("def w_%s(int mode, %s x):\n    cdef %s r\n    with nogil:\n        r = %s(mode, x)\n    return r" % (name, ctype, ctype, name))
                        else:
                            out.append("%s %s %s(int mode, %s x) %s:" % (defkind, ctype, name, ctype, suffix))
                            out.append("    if mode:\n        raise ValueError('boom')\n    return x")
                            out.append("def w_%s(int mode, %s x):\n    return %s(mode, x)" % (name, ctype, name))
                        table.append((name, kind, s, tc, gil, defkind))
    # void functions
    for kind in ("star", "noexc"):
        name = "v_%s" % kind
        out.append("cdef void %s(int mode) %s:" % (name, decl_suffix(kind, 0, "void")))
        out.append("    if mode:\n        raise ValueError('boom')")
        out.append("def w_%s(int mode, int x):\n    %s(mode)\n    return 0" % (name, name))
        table.append((name, kind, 0, "v", "gil", "cdef"))
    out.append("""
def call(name, mode, x):
    n0 = len(_unr)
    try:
        r = globals()['w_' + name](mode, x)
    except ValueError:
        return 'raised'
    except SystemError:
        return 'SystemError'
    return 'value %d %d' % (int(r), len(_unr) - n0)
""")
    return "\n".join(out) + "\n", table


def expected(kind, s, mode, x, tc):
    if not mode:
        return "value %d 0" % (0 if tc == "v" else x)
    return "raised" if kind in ("ev", "evq", "star") else "value 0 1"


def run(ctx):
    ctx.rule = ("every generated function (return type int/long long/double/void x declaration except v / except? v / except * / noexcept x "
                "sentinel -1/0/7 x gil/nogil x cdef/cpdef) x body outcome: raise, or return x for x in {sentinel-1, sentinel, sentinel+1, 0, random}; "
                "non-trivial = raise, or a return of the sentinel value")
    ctx.explanation = ("Theorems faithful_checked / faithful_except_value_partial / sentinel_legit / noexcept_unraisable decide the declaration x outcome table for "
                       "every integer sentinel and value. Not covered by a theorem: that the compiler emits exactly this callee-exit / call-site test for every call form "
                       "(function pointers, methods via vtable, C++ `except +`), and default-declaration inference; these are only in the differential tie.")
    src, table = gen_module()
    try:
        so = cybuild.build_module(ctx, "c32mod", src)
    except cybuild.BuildError as e:
        ctx.tie_break("D-c build", e.stage + ": " + e.log[-600:], {"module": src})
        return
    cases = []
    rng = ctx.rng
    for name, kind, s, tc, gil, defkind in table:
        sc = cast_to(tc, s)
        xs = [sc - 1, sc, sc + 1, 0] + [rng.randrange(-1000, 1000) for _ in range(ctx.n(2, 30))]
        if tc in WIDTH:
            w, sg = WIDTH[tc]
            lo, hi = (-(1 << (w - 1)), (1 << (w - 1)) - 1) if sg else (0, (1 << w) - 1)
            xs = sorted(set(x for x in xs + [lo, hi, hi - 1] if lo <= x <= hi))
        if tc == "v":
            xs = [0]
        for x in xs:
            cases.append((name, kind, s, tc, 0, x))
        cases.append((name, kind, s, tc, 1, 0))
    if getattr(ctx, "replay_case", None) and "name" in ctx.replay_case.get("case", {}):
        c = ctx.replay_case["case"]
        cases = [tuple(c[k] for k in ("name", "kind", "s", "tc", "mode", "x"))]
    outs = cybuild.run_cases(ctx, so, [("call", "(%r, %d, %d)" % (c[0], c[4], c[5])) for c in cases])
    mlines = []
    for name, kind, s, tc, mode, x in cases:
        ev = "none" if kind in ("star", "noexc") else str(cast_to(tc, s))
        ec = "1" if kind in ("evq", "star") else "0"
        mlines.append("C32 %s %s %s" % (ev, ec, "raise" if mode else str(0 if tc == "v" else x)))
    mouts = ctx.drv.batch(mlines)
    for (name, kind, s, tc, mode, x), got, mo in zip(cases, outs, mouts):
        impl = eval(got[len("ok str:"):]) if got.startswith("ok str:") else got
        model = mo[3:] if mo.startswith("ok ") else mo
        exp = expected(kind, s, mode, x, tc)
        s = cast_to(tc, s)      # the sentinel as a value of the return type
        ctx.count("%s/%s/%s" % (kind, tc, "raise" if mode else ("sentinel" if x == s and kind in ("ev", "evq") else "ret")))
        ctx.seen((name, mode, x), nontrivial=bool(mode) or (x == s and kind in ("ev", "evq")))
        rep = {"name": name, "kind": kind, "s": s, "tc": tc, "mode": mode, "x": x, "impl": impl, "expected": exp}
        if impl != exp:
            if kind == "ev" and not mode and x == s and impl == "SystemError":
                key = "except-value-legit-sentinel-return"
            else:
                key = "exception-spec-%s-%s-%s" % (kind, tc, "raise" if mode else "ret")
            ctx.violation(key, "%s(mode=%d, x=%d) [%s, sentinel %d]: observed %s, required %s" % (name, mode, x, kind, s, impl, exp), rep)
        if model != impl:
            ctx.tie_break("D-c %s vs CyVerif.C32.observe" % kind, "%s(mode=%d,x=%d): model %s impl %s" % (name, mode, x, model, impl), rep)
    ctx.sample({"case": cases[1], "impl": outs[1], "model": mouts[1]})
    ctx.sample({"case": cases[-1], "impl": outs[-1], "model": mouts[-1]})
    ctx.notes["functions"] = len(table)

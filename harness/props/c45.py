"""C45 — profiling and tracing events are balanced and well nested.

impl    = generated modules (random programs of the statement mini-language: sequences, loops with
          break/continue, try/finally, try/except, calls of def / cdef / noexcept functions, Python
          callbacks, generators driven by next/throw/close; plus a fixed "zoo": recursion, methods, lambdas,
          cpdef through the wrapper, nogil functions, module-level code, return inside prange / with)
          compiled by the STAGED compiler with `profile=True` and with `linetrace=True -DCYTHON_TRACE=1
          -DCYTHON_TRACE_NOGIL=1`, run in a child process under sys.setprofile / sys.settrace hooks that record
          (event, function, line)
model   = CyVerif.C45.runFn (Lean, `C45 run …`): the predicted stream for the same program and choices
oracle  = the property: an independent Python bracket checker on the RECORDED stream (every call closed by
          exactly one return of the same frame, nested; line events inside the frame and inside the line
          range of the function); the Lean checker `go` on the same recorded stream; CPython tracing the same
          source uncompiled (pure-def modules) for the call/return structure and the line ranges
"""
import json
import os
import subprocess
import sys

import cybuild
import lib

CB_SRC = '''def cb_ok():
    return 0
def cb_raise():
    raise ValueError("cb")
class CM:
    def __enter__(self):
        return self
    def __exit__(self, *a):
        return False
'''
# fid, first, last, body line
CB = {"cb_ok": (9001, 1, 2, 2), "cb_raise": (9002, 3, 4, 4), "__enter__": (9003, 6, 7, 7), "__exit__": (9004, 8, 9, 9)}

KIND_LETTER = {"def": "p", "cdef": "p", "cdefint": "p", "noexc": "w", "gen": "g", "nogil": "n", "cpdefpy": "c", "cskip": "k", "mod": "p"}


def _iter_class(tag, stop):
    return ["@cython.cclass", "class It%s:" % tag, "    n: cython.int",
            "    def __init__(self, n):          #@%s_init" % tag, "        self.n = n                  #@%s_init_s" % tag,
            "    def __iter__(self):             #@%s_iter" % tag, "        return self                 #@%s_iter_r" % tag,
            "    def __next__(self):             #@%s_next" % tag, "        if self.n <= 0:             #@%s_if" % tag,
            "            %-24s#@%s_stop" % (stop, tag), "        self.n -= 1                 #@%s_dec" % tag,
            "        return self.n               #@%s_ret" % tag]


# special-method exits: the callee returns NULL / -1 and the CALLER swallows or synthesises the exception
HEADER = (["import cython", "from c45cb import cb_ok, cb_raise"]
          + _iter_class("A", "raise StopIteration")          # bare, outside try: error exit WITHOUT an exception set
          + _iter_class("V", "raise StopIteration(5)")       # with a value: a real exception
          + _iter_class("E", 'raise ValueError("e")')        # a real error
          + ["@cython.cclass", "class ItT:", "    n: cython.int",
             "    def __init__(self, n):          #@T_init", "        self.n = n                  #@T_init_s",
             "    def __iter__(self):             #@T_iter", "        return self                 #@T_iter_r",
             "    def __next__(self):             #@T_next", "        try:                        #@T_try",
             "            if self.n <= 0:         #@T_if", "                raise StopIteration #@T_stop",
             "        finally:", "            self.n -= 1             #@T_dec", "        return self.n               #@T_ret",
             "@cython.cclass", "class Seq:",
             "    def __getitem__(self, i):       #@G_get", "        if i >= 2:                  #@G_if",
             "            raise IndexError(i)     #@G_stop", "        return i                    #@G_ret",
             "@cython.cclass", "class Attr:",
             "    def __getattr__(self, name):    #@H_get", "        raise AttributeError(name)  #@H_stop",
             "@cython.cclass", "class LenE:",
             "    def __len__(self):              #@L_get", '        raise ValueError("l")       #@L_stop',
             "@cython.cclass", "class BoolE:",
             "    def __bool__(self):             #@B_get", '        raise ValueError("b")       #@B_stop',
             "@cython.cclass", "class ContE:",
             "    def __contains__(self, x):      #@C_get", '        raise ValueError("c")       #@C_stop', ""])
HMARK = {l.split("#@")[1].strip(): i + 1 for i, l in enumerate(HEADER) if "#@" in l}
HFUZZY = {HMARK[k] for k in ("A_if", "V_if", "E_if", "T_if", "T_dec", "G_if")}
# (class, consumer) -> source of the one-line statement
IT_CONSUMERS = {"list": "list(It%s(2))", "for": "for _v in It%s(2): x = 1", "nextd": "next(It%s(0), None)",
                "unpack": "_a, _b = It%s(2)", "nextraw": "next(It%s(0))"}
IT_COMBOS = [("It" + c, k) for c in "AVET" for k in IT_CONSUMERS] + [
    ("Seq", "list"), ("Seq", "for"), ("Attr", "hasattr"), ("Attr", "getattrd"), ("LenE", "len"), ("BoolE", "bool"), ("ContE", "in")]
OTHER_SRC = {("Seq", "list"): "list(Seq())", ("Seq", "for"): "for _v in Seq(): x = 1", ("Attr", "hasattr"): 'hasattr(Attr(), "zz")',
             ("Attr", "getattrd"): 'getattr(Attr(), "zz", None)', ("LenE", "len"): "len(LenE())", ("BoolE", "bool"): "bool(BoolE())",
             ("ContE", "in"): "1 in ContE()"}


class Fn:
    def __init__(self, fid, kind):
        self.fid, self.kind, self.body = fid, kind, []
        self.name = "f%d" % fid
        self.first = self.last = 0


# ---------------------------------------------------------------------------------------------------
# random programs


class Gen:
    def __init__(self, rng, pure):
        self.rng, self.pure = rng, pure
        self.nfid = 0
        self.funcs = []
        self.hfuncs = []

    def new_fn(self, kind):
        self.nfid += 1
        f = Fn(self.nfid, kind)
        self.funcs.append(f)
        return f

    def hfn(self, name, kind, first, last, body):
        self.nfid += 1
        f = Fn(self.nfid, kind)
        f.name, f.first, f.last, f.body = name, HMARK[first], HMARK[last], body
        self.hfuncs.append(f)
        return f

    def it_stmt(self, cls, cons):
        """one-line statement that drives a special method of an extension type to its exit"""
        S = lambda k: {"t": "S", "ln": HMARK[k]}
        R = lambda k: {"t": "R", "ln": HMARK[k]}
        F = lambda k, c: {"t": "F", "ln": HMARK[k], "c": c}
        calls = []
        if cls.startswith("It"):
            t = cls[2]
            swallow = cons != "nextraw" and t != "E"
            nok = 0 if cons in ("nextd", "nextraw") else 2
            calls.append(self.hfn("__init__", "def", t + "_init", t + "_init_s", [S(t + "_init_s")]))
            if nok:
                calls.append(self.hfn("__iter__", "def", t + "_iter", t + "_iter_r", [R(t + "_iter_r")]))
            if t == "T":
                ok = [{"t": "TF", "ln": HMARK["T_try"], "body": [], "fin": [S("T_dec")]}, R("T_ret")]
                end = [{"t": "TF", "ln": HMARK["T_try"], "body": [F("T_stop", 0)], "fin": [S("T_dec")]}]
            else:
                ok = [S(t + "_dec"), R(t + "_ret")]
                end = [{"A": {"t": "Z", "ln": HMARK["A_stop"]}, "V": F("V_stop", 0), "E": F("E_stop", 1)}[t]]
            for _ in range(nok):
                calls.append(self.hfn("__next__", "def", t + "_next", t + "_ret", ok))
            calls.append(self.hfn("__next__", "noexc" if swallow else "def", t + "_next", t + "_ret", end))
            src = IT_CONSUMERS[cons] % t
        else:
            src = OTHER_SRC[(cls, cons)]
            if cls == "Seq":
                for _ in range(2):
                    calls.append(self.hfn("__getitem__", "def", "G_get", "G_ret", [R("G_ret")]))
                calls.append(self.hfn("__getitem__", "noexc", "G_get", "G_ret", [F("G_stop", 0)]))
            elif cls == "Attr":
                calls.append(self.hfn("__getattr__", "noexc", "H_get", "H_stop", [F("H_stop", 0)]))
            else:
                k = {"LenE": "L", "BoolE": "B", "ContE": "C"}[cls]
                nm = {"L": "__len__", "B": "__bool__", "C": "__contains__"}[k]
                calls.append(self.hfn(nm, "def", k + "_get", k + "_stop", [F(k + "_stop", 1)]))
        return {"t": "IT", "src": src, "calls": calls, "combo": "%s/%s" % (cls, cons)}

    def fixed_entry(self, combo):
        f = self.new_fn("def")
        f.body = [self.it_stmt(*combo)]
        return f

    def callee_kind(self):
        if self.pure:
            return "def"
        return self.rng.choice(["def", "def", "cdef", "cdefint", "noexc"])

    def body(self, fn, depth, budget, in_loop=False, in_fin=False, n=None):
        """list of statements; stops after a terminator"""
        rng = self.rng
        out = []
        n = n if n is not None else rng.randint(1, 3)
        for _ in range(n):
            st = self.stmt(fn, depth, budget, in_loop, in_fin)
            out.append(st)
            if st["t"] in "FRBC":
                break
        return out

    def stmt(self, fn, depth, budget, in_loop, in_fin):
        rng = self.rng
        opts = [("S", 3), ("F", 1.2), ("R", 1.2), ("X", 1.5), ("IT", 1.3)]
        if budget[0] > 0 and depth < 3:
            opts.append(("K", 2.5))
        if fn.kind == "gen" and not in_fin:
            opts.append(("Y", 3))
        if depth < 3:
            opts += [("TF", 2), ("TE", 1.5), ("L", 1)]
        if in_loop:
            opts += [("B", 1), ("C", 0.7)]
        r = rng.random() * sum(w for _, w in opts)
        for t, w in opts:
            r -= w
            if r <= 0:
                break
        if t == "IT":
            return self.it_stmt(*rng.choice(IT_COMBOS))
        if t == "F":
            return {"t": "F", "c": rng.choice([1, 1, 0])}
        if t == "K":
            budget[0] -= 1
            callee = self.new_fn(self.callee_kind())
            callee.body = self.body(callee, depth + 1, budget)
            return {"t": "K", "fn": callee}
        if t == "X":
            return {"t": "X", "cb": rng.choice(["cb_ok", "cb_ok", "cb_raise"])}
        if t == "Y":
            return {"t": "Y", "v": rng.choice([0, 0, 0, 1, 1, 2])}
        if t == "TF":
            return {"t": "TF", "body": self.body(fn, depth + 1, budget, in_loop, in_fin),
                    "fin": self.body(fn, depth + 1, budget, False, True, n=rng.choice([1, 1, 2]))}
        if t == "TE":
            return {"t": "TE", "body": self.body(fn, depth + 1, budget, in_loop, in_fin),
                    "h": self.body(fn, depth + 1, budget, in_loop, in_fin, n=rng.choice([1, 2]))}
        if t == "L":
            return {"t": "L", "its": [self.body(fn, depth + 1, budget, True, in_fin, n=rng.choice([1, 2]))
                                      for _ in range(rng.randint(1, 3))], "d": depth}
        return {"t": t}

    def entry(self):
        kind = self.rng.choice(["def", "def", "gen"])
        f = self.new_fn(kind)
        budget = [self.rng.randint(0, 4)]
        f.body = self.body(f, 0, budget, n=self.rng.randint(1, 4))
        if kind == "gen" and not any(has_yield(s) for s in f.body):
            f.body.insert(0, {"t": "Y", "v": 0})
        return f


def has_yield(st):
    if st["t"] == "Y":
        return True
    for k in ("body", "fin", "h"):
        if any(has_yield(s) for s in st.get(k, [])):
            return True
    return any(has_yield(s) for it in st.get("its", []) for s in it)


# ---------------------------------------------------------------------------------------------------
# printing: source text (assigns line numbers) and Lean terms


class Printer:
    def __init__(self, header):
        self.lines = list(header)
        self.fuzzy = set()

    def ln(self):
        return len(self.lines)

    def put(self, ind, text):
        self.lines.append("    " * ind + text)
        return len(self.lines)

    def fn(self, f):
        head = {"def": "def %s():", "gen": "def %s():", "cdef": "cdef object %s():", "cdefint": "cdef int %s() except -1:",
                "noexc": "cdef void %s() noexcept:"}[f.kind] % f.name
        f.first = self.put(0, head)
        self.block(f, f.body, 1)
        f.last = self.ln()
        self.put(0, "")

    def block(self, f, body, ind):
        if not body:
            self.put(ind, "pass")
        for st in body:
            self.stmt(f, st, ind)

    def stmt(self, f, st, ind):
        t = st["t"]
        if t == "S":
            st["ln"] = self.put(ind, "x = 1")
        elif t == "F":
            st["ln"] = self.put(ind, 'raise ValueError("v")' if st["c"] else 'raise KeyError("k")')
        elif t == "R":
            st["ln"] = self.put(ind, "return" if f.kind == "noexc" else "return 1")
        elif t == "B":
            st["ln"] = self.put(ind, "break")
        elif t == "C":
            st["ln"] = self.put(ind, "continue")
        elif t == "IT":
            st["ln"] = self.put(ind, st["src"])
            self.fuzzy.add(st["ln"])
        elif t == "K":
            st["ln"] = self.put(ind, "%s()" % st["fn"].name)
        elif t == "X":
            st["ln"] = self.put(ind, "%s()" % st["cb"])
        elif t == "Y":
            st["ln"] = self.put(ind, "yield %d" % st["v"])
        elif t == "TF":
            st["ln"] = self.put(ind, "try:")
            self.block(f, st["body"], ind + 1)
            self.put(ind, "finally:")
            self.fuzzy.add(self.ln() + 1)      # first statement of the finally clause (see module docstring of run)
            self.block(f, st["fin"], ind + 1)
        elif t == "TE":
            st["ln"] = self.put(ind, "try:")
            self.block(f, st["body"], ind + 1)
            st["lnx"] = self.put(ind, "except ValueError:")
            self.fuzzy.add(st["lnx"])
            self.block(f, st["h"], ind + 1)
        elif t == "L":
            v = "i%d" % st["d"]
            self.fuzzy.add(self.put(ind, "for %s in range(%d):" % (v, len(st["its"]))))
            for k, it in enumerate(st["its"]):
                self.fuzzy.add(self.put(ind + 1, "%s %s == %d:" % ("if" if k == 0 else "elif", v, k)))
                self.block(f, it, ind + 2)
        else:
            raise AssertionError(t)


def term_body(body, mode):
    if not body:
        return ["E"]
    if len(body) == 1:
        return term_stmt(body[0], mode)
    return ["Q"] + term_stmt(body[0], mode) + term_body(body[1:], mode)


def ext_word(cb, mode):
    fid, first, last, bl = CB[cb]
    w = ["s%d:%d:%d" % (fid, first, last)]
    if mode == "t":
        w.append("l%d:%d:0" % (fid, bl))
    w.append("r%d:0:0" % fid)
    return w


def fn_head(f):
    return [str(f.fid), str(f.first), str(f.last), KIND_LETTER[f.kind]]


def term_stmt(st, mode):
    t = st["t"]
    if t in "SRBC":
        return [t, str(st["ln"])]
    if t == "F":
        return ["F", str(st["ln"]), str(st["c"])]
    if t in ("P", "Z"):
        return [t, str(st["ln"])]
    if t == "IT":
        return term_body([{"t": "K", "ln": st["ln"], "fn": f} for f in st["calls"]], mode)
    if t == "Y":
        return ["Y", str(st["ln"]), str(st["v"])]
    if t == "K":
        return ["K", str(st["ln"])] + fn_head(st["fn"]) + term_body(st["fn"].body, mode)
    if t == "X":
        w = ext_word(st["cb"], mode)
        return ["X", str(st["ln"]), "1" if st["cb"] == "cb_raise" else "0", str(len(w))] + w
    if t == "XW":      # explicit foreign word (zoo)
        return ["X", str(st["ln"]), str(st["raises"]), str(len(st["w"]))] + st["w"]
    if t == "TF":
        return ["TF", str(st["ln"])] + term_body(st["body"], mode) + term_body(st["fin"], mode)
    if t == "TE":
        return ["TE", str(st["ln"])] + term_body(st["body"], mode) + [str(st["lnx"])] + term_body(st["h"], mode)
    if t == "L":
        out = ["E"]
        for it in reversed(st["its"]):
            out = ["I"] + term_body(it, mode) + out
        return out
    raise AssertionError(t)


VARIANT = {"fixCpdef": 0, "fixRet": 0}


def detect_variants(stage):
    """Which source variant is the staged tree?  (literal inspection of Nodes.py with `ast`)
    fixRet   : ReturnStatNode.generate_execution_code no longer calls put_trace_return
    fixCpdef : FuncDefNode.generate_function_definitions no longer passes is_cpdef_func to put_trace_start"""
    import ast
    tree = ast.parse(open(os.path.join(stage, "Cython", "Compiler", "Nodes.py")).read())
    found = {}
    for cls in tree.body:
        want = {"ReturnStatNode": "generate_execution_code", "FuncDefNode": "generate_function_definitions"}
        if isinstance(cls, ast.ClassDef) and cls.name in want:
            for fn in cls.body:
                if isinstance(fn, ast.FunctionDef) and fn.name == want[cls.name]:
                    calls = [n for n in ast.walk(fn) if isinstance(n, ast.Call) and isinstance(n.func, ast.Attribute)]
                    found[cls.name] = calls
    if "ReturnStatNode" not in found or "FuncDefNode" not in found:
        raise lib.Infra("cannot locate ReturnStatNode / FuncDefNode in Nodes.py")
    fix_ret = not any(c.func.attr == "put_trace_return" for c in found["ReturnStatNode"])
    starts = [c for c in found["FuncDefNode"] if c.func.attr == "put_trace_start"]
    fix_cpdef = bool(starts) and not any(k.arg == "is_cpdef_func" for c in starts for k in c.keywords)
    return {"fixCpdef": int(fix_cpdef), "fixRet": int(fix_ret)}


def run_line(f, mode, nogil_traced):
    """`C45 run` line for one call of f; mode 'p' = profile build (no line events), 't' = linetrace build"""
    return " ".join(["C45", "run", "l", "1" if mode == "t" else "0", "1" if nogil_traced else "0",
                     str(VARIANT["fixCpdef"]), str(VARIANT["fixRet"])] + fn_head(f) + term_body(f.body, mode))


# ---------------------------------------------------------------------------------------------------
# the check

from props import c45_rt as rt      # noqa: E402
from props import c45_zoo as zoo    # noqa: E402

CBNAMES = set(CB)
KEY_S2 = "return-event-before-finally"
CFLAGS_T = ["-DCYTHON_TRACE=1", "-DCYTHON_TRACE_NOGIL=1"]


def make_random_module(rng, idx, pure, ncases):
    g = Gen(rng, pure)
    entries = [g.entry() for _ in range(ncases)] + [g.fixed_entry(c) for c in IT_COMBOS]
    pr = Printer(HEADER)
    pr.fuzzy |= HFUZZY
    for f in g.funcs:
        pr.fn(f)
    names = {f.fid: f.name for f in g.funcs + g.hfuncs}
    names.update({v[0]: k for k, v in CB.items()})
    ranges = {f.name: (f.first, f.last) for f in g.funcs}
    for f in g.hfuncs:      # special methods of several classes share a name: the oracle gets the union of their ranges
        lo, hi = ranges.get(f.name, (f.first, f.last))
        ranges[f.name] = (min(lo, f.first), max(hi, f.last))
    return {"name": "c45r%d" % idx, "src": "\n".join(pr.lines) + "\n", "entries": entries, "names": names, "ranges": ranges,
            "fuzzy": pr.fuzzy, "pure": pure, "funcs": g.funcs}


def cb_ranges():
    return {k: (v[1], v[2]) for k, v in CB.items()}


def judge(ctx, tag, f, rec, model_out, names, ranges, fuzzy, hook, is_gen, expect_key=None, src=None):
    """Three-way comparison of one recorded case.  model_out = output line of `C45 run` (or None)."""
    impl = rt.recorded_to_legacy(rec["ev"])
    allr = dict(ranges)
    allr.update(cb_ranges())
    bad = rt.oracle_check(impl, allr)
    if len(_RECORDED) < 60 and len(impl) > 3:
        _RECORDED.append((impl, allr))
    replay = {"case": tag, "hook": hook, "outcome": rec["out"], "recorded": rt.brief(impl, 60), "source": (src or "")[:3000]}
    ctx.count("hook=%s %s %s" % (hook, "gen" if is_gen else "fn", "balanced" if not bad else "unbalanced"))
    for st in walk(getattr(f, "body", None) or []):
        if st["t"] == "IT":
            ctx.count("special-method exit %s hook=%s" % (st["combo"], hook))
    ctx.seen((tag, hook, tuple(impl)), nontrivial=len(impl) > 2)
    model_ok = None
    if model_out is not None:
        parts = model_out.split()
        if parts[0] != "ok":
            ctx.tie_break("model-rejects", "%s: model says %s" % (tag, model_out[:80]), replay)
            return impl, bad
        raised, model_ok, mbal = parts[1] == "1", parts[2] == "1", parts[3] == "1"
        mev = rt.model_to_legacy(parts[4:], names)
        a = [e for e in rt.drop_fuzzy(impl, fuzzy) if True]
        b = rt.drop_fuzzy(mev, fuzzy)
        if a != b:
            k = next((i for i in range(min(len(a), len(b))) if a[i] != b[i]), min(len(a), len(b)))
            ctx.tie_break("stream-differs", "%s hook=%s at %d: impl %s | model %s" % (
                tag, hook, k, rt.brief(a[max(0, k - 3):k + 4]), rt.brief(b[max(0, k - 3):k + 4])), dict(replay, model=rt.brief(mev, 60)))
        if not is_gen and raised != rec["out"].startswith("err"):
            ctx.tie_break("outcome-differs", "%s hook=%s: impl %s, model raised=%s" % (tag, hook, rec["out"], raised), replay)
        # the Lean checker and the Python oracle must agree on the model's own stream
        if mbal != (rt.oracle_check(mev, allr) is None):
            ctx.tie_break("checkers-differ-on-model-stream", tag, replay)
        if model_ok and not mbal:
            ctx.tie_break("theorem-contradicted", "%s: okFn but the model stream is unbalanced" % tag, replay)
    if bad:
        key = expect_key if (expect_key and model_ok is not True) else (KEY_S2 if model_ok is False else "unbalanced-stream")
        ctx.violation(key, "%s hook=%s: %s at event %d; stream: %s" % (tag, hook, bad[1], bad[0], rt.brief(impl, 30)), replay)
    return impl, bad


def skeleton(evs):
    return [(k, nm) for k, nm, _ in evs if k != "line"]


def run(ctx):
    rng = ctx.rng
    ctx.rule = ("random unrolled programs of the mini-language (1-4 statements per block, depth <= 3, up to 4 compiled callees of "
                "kind def/cdef object/cdef int except -1/cdef void noexcept, Python callbacks, generators whose yielded value tells "
                "the driver to next/throw/close) plus the fixed zoo; each case is observed under (profile build, setprofile), "
                "(linetrace build, settrace), (linetrace build, setprofile); non-trivial = recorded stream longer than one bracket")
    ctx.explanation = ("No theorem covers: the C macros of Profile.c themselves (frame/code-object management, GIL handling, tracer "
                       "errors), which lines get a line event (only: in range and inside the frame), events of the sys.monitoring "
                       "back end on a real 3.13 interpreter, with-statement/prange/cpdef code generation other than the modelled exits.")
    VARIANT.update(detect_variants(ctx.stage))
    ctx.notes["source variant detected (0 = as found, 1 = repaired)"] = dict(VARIANT)
    ctx.lean_obligation(
        "theorem-for-detected-variant",
        "import CyVerif.Props.C45\nopen CyVerif.C45\n" + (
            "example : FullBalancedFor true true := full_balanced_repaired\n"
            if VARIANT["fixCpdef"] and VARIANT["fixRet"] else
            "example (be : Backend) (lt ng : Bool) (c : Fn) (s : Stmt) (h : okFn ⟨be, lt, ng, %s, %s⟩ c s = true) :\n"
            "    WellBracketed (runFn ⟨be, lt, ng, %s, %s⟩ c s).1 := fn_wellbracketed_partial _ c s h\n" % (
                ("true" if VARIANT["fixCpdef"] else "false", "true" if VARIANT["fixRet"] else "false") * 2)),
        "the theorem in force for the detected source variant %r (full statement only when both repairs are present)" % VARIANT)
    cbdir = os.path.join(ctx.scratch, "cb")
    os.makedirs(cbdir, exist_ok=True)
    with open(os.path.join(cbdir, "c45cb.py"), "w") as fh:
        fh.write(CB_SRC)
    nmod = ctx.n(2, 8)
    ncases = 28
    mods = [make_random_module(rng, i, pure=(i % 2 == 0), ncases=ncases) for i in range(nmod)]
    specs = []
    for m in mods:
        specs.append(dict(name=m["name"] + "p", source=m["src"], directives={"profile": True}))
        specs.append(dict(name=m["name"] + "t", source=m["src"], directives={"linetrace": True}, cflags=CFLAGS_T))
    specs.append(dict(name="c45zoop", source=zoo.ZOO_SRC, directives={"profile": True}))
    specs.append(dict(name="c45zoot", source=zoo.ZOO_SRC, directives={"linetrace": True}, cflags=CFLAGS_T))
    if not ctx.quick:
        specs.append(dict(name=mods[1]["name"] + "t2", source=mods[1]["src"], directives={"linetrace": True, "profile": True},
                          cflags=CFLAGS_T, opt="-O2"))
    built = cybuild.build_many(ctx, specs)
    for s, b in zip(specs, built):
        if isinstance(b, cybuild.BuildError):
            raise lib.Infra("build of %s failed (%s): %s" % (s["name"], b.stage, b.log[-600:]))
    so = {s["name"]: b for s, b in zip(specs, built)}

    # ---- random modules
    configs = [("p", "p"), ("t", "t"), ("t", "p")] + ([("t2", "t")] if not ctx.quick else [])
    for mi, m in enumerate(mods):
        files = {m["name"] + "p.pyx", m["name"] + "t.pyx", m["name"] + "t2.pyx", m["name"] + "_ref.py", "c45cb.py"}
        cases = [{"name": f.name, "kind": "gen" if f.kind == "gen" else "fn"} for f in m["entries"]]
        ref = {}
        if m["pure"]:
            refp = os.path.join(ctx.scratch, m["name"] + "_ref.py")
            with open(refp, "w") as fh:
                fh.write(m["src"])
            for hook in ("p", "t"):
                r = rt.record(ctx, refp, m["name"] + "_ref", hook, cases, files, cbdir, tag="ref")
                if isinstance(r, str):
                    raise lib.Infra("reference run failed: " + r)
                ref[hook] = r
        for build, hook in configs:
            if build == "t2" and mi != 1:
                continue
            modname = m["name"] + build
            recs = rt.record(ctx, so[modname], modname, hook, cases, files, cbdir, tag=build)
            if isinstance(recs, str):
                ctx.violation("crash-under-tracing", "module %s hook=%s: %s" % (modname, hook, recs[:200]),
                              {"source": m["src"][:3000], "hook": hook})
                continue
            mode = "t" if (build != "p" and hook == "t") else "p"
            outs = ctx.drv.batch([run_line(f, mode, build != "p") for f in m["entries"]])
            for f, rec, mo in zip(m["entries"], recs, outs):
                tag = "%s.%s" % (modname, f.name)
                if rec["ev"] is None:
                    ctx.count("skipped: process dies even without a hook")
                    continue
                impl, bad = judge(ctx, tag, f, rec, mo, m["names"], m["ranges"], m["fuzzy"], hook, f.kind == "gen", src=None)
                if len(ctx.samples) < 8 and len(impl) > 8:
                    ctx.sample({"case": tag, "hook": hook, "stream": rt.brief(impl, 24)})
                if bad:
                    ctx.violations[-1]["replay"]["source"] = fn_source(m, f)
                if m["pure"] and build != "t2":
                    rrec = ref[hook][m["entries"].index(f)]
                    rimpl = rt.recorded_to_legacy(rrec["ev"])
                    ctx.count("cpython-reference")
                    if skeleton(impl) != skeleton(rimpl) and mo.split()[2] == "0":
                        # an excluded point whose stream is balanced as a word, but the finally clause's callees
                        # are reported after (outside) the bracket of their caller
                        if not bad:
                            ctx.violation(KEY_S2, "%s hook=%s: callee brackets outside the caller's: compiled %s | CPython %s" % (
                                tag, hook, rt.brief(impl, 25), rt.brief(rimpl, 25)), {"case": tag, "source": fn_source(m, f)})
                    elif skeleton(impl) != skeleton(rimpl):
                        ctx.violation("call-return-structure-differs-from-cpython",
                                      "%s hook=%s: compiled %s | CPython %s" % (tag, hook, rt.brief(impl, 25), rt.brief(rimpl, 25)),
                                      {"case": tag, "source": fn_source(m, f)})
                    # secondary oracle for the line ranges: lines CPython reports for a function bound the compiled ones
                    for nm in {e[1] for e in impl if e[0] == "line" and e[1] not in CBNAMES}:
                        lo, hi = m["ranges"][nm]
                        rl = [e[2] for e in rimpl if e[0] == "line" and e[1] == nm]
                        if rl and not (lo <= min(rl) and max(rl) <= hi):
                            ctx.tie_break("range-bookkeeping", "%s: CPython lines %d..%d outside generator range %d..%d" % (
                                nm, min(rl), max(rl), lo, hi), {"case": tag})
    run_zoo(ctx, so, cbdir)
    # the Lean checker `go` and the Python oracle on mutated recorded streams (drop / duplicate / swap one event)
    cross_check_checkers(ctx)


def fn_source(m, f):
    lines = m["src"].split("\n")
    out = []
    todo, seen = [f], set()
    while todo:
        g = todo.pop()
        if g.fid in seen:
            continue
        seen.add(g.fid)
        out.append("\n".join("%4d  %s" % (i + 1, lines[i]) for i in range(g.first - 1, g.last)))
        todo += [s["fn"] for s in walk(g.body) if s["t"] == "K"]
    return "\n".join(out)[:3500]


def walk(body):
    for st in body:
        yield st
        for k in ("body", "fin", "h"):
            yield from walk(st.get(k, []))
        for it in st.get("its", []):
            yield from walk(it)


_RECORDED = []      # (legacy stream, ranges, fids) of recorded cases, for the checker cross-check


def run_zoo(ctx, so, cbdir):
    files = {"c45zoop.pyx", "c45zoot.pyx", "c45cb.py"}
    for build, hook in (("p", "p"), ("t", "t"), ("t", "p")):
        mode = "t" if (build == "t" and hook == "t") else "p"
        cases, names, ranges, fuzzy, marks = zoo.build(Fn, CB, mode)
        names = dict(names)
        names.update({v[0]: k for k, v in CB.items()})
        modname = "c45zoo" + build
        rc = [{k: c[k] for k in ("name", "kind", "args", "first", "mode") if k in c} for c in cases]
        if hook != "t":
            rc = [c for c in rc if c.get("mode") != "n"]
            cases = [c for c in cases if c.get("mode") != "n"]
        recs = rt.record(ctx, so[modname], modname, hook, rc, files, cbdir, import_traced=True, sysmon="plain", tag="zoo" + build)
        if isinstance(recs, str):
            ctx.violation("crash-under-tracing", "zoo %s hook=%s: %s" % (modname, hook, recs[:200]), {"hook": hook})
            continue
        imp, body, sysmon = recs[0], recs[1:1 + len(cases)], recs[-1]
        # module-level code: one bracket for the module body, line events inside the file
        impl = rt.recorded_to_legacy(imp["ev"])
        modnames = {e[1] for e in impl if e[0] == "call" and e[1] not in ranges and e[1] not in CBNAMES}
        r2 = dict(ranges)
        r2.update(cb_ranges())
        for nm in modnames:
            r2[nm] = (1, marks["__last__"])
        bad = rt.oracle_check(impl, r2)
        ctx.count("zoo module-level code hook=%s" % hook)
        if bad or not modnames:
            ctx.violation("module-init-unbalanced", "import of %s hook=%s: %s; stream %s" % (
                modname, hook, bad[1] if bad else "no start event for the module body", rt.brief(impl, 30)), {"hook": hook})
        ctx.notes["sys.monitoring tool on CPython 3.12 sees PY_START of a compiled function"] = bool(sysmon["ev"])
        lines = []
        for c in cases:
            lines.append(run_line(c["fn"], mode, build == "t") if c.get("fn") is not None else None)
        outs = iter(ctx.drv.batch([l for l in lines if l]))
        for c, rec, l in zip(cases, body, lines):
            mo = next(outs) if l else None
            tag = "zoo%s.%s%s" % (build, c["name"], "/" + c.get("first", "") if c.get("first") else "")
            hk = c.get("mode", hook)
            key = c.get("key_t", c.get("key")) if hook == "t" else c.get("key")
            typeerr = rec["out"] == "err TypeError" and c.get("key", "").startswith("settrace") or \
                (hook == "t" and rec["out"] == "err TypeError" and c.get("key_t"))
            if hk == "n":
                # a tracer that returns None for the call event: CPython then delivers nothing more for that scope
                impl = rt.recorded_to_legacy(rec["ev"])
                ctx.count("zoo tracer returning None")
                if rec["out"] == "err TypeError":
                    ctx.violation(key, "%s under a sys.settrace function that returns None raises TypeError ('NoneType' object "
                                  "is not callable); stream %s" % (c["name"], rt.brief(impl, 10)), {"case": tag, "hook": hk})
                elif rec["out"] != "ok" or any(e[0] != "call" for e in impl):
                    ctx.violation("tracer-returning-none-gets-more-than-call", "%s: %s %s" % (c["name"], rec["out"], rt.brief(impl, 10)),
                                  {"case": tag})
                else:
                    ctx.notes["witness no longer reproduces: " + key] = rec["out"]
                continue
            if hk == "t" and c["name"] in ("cp_ok", "cp_bad", "call_super") and not VARIANT["fixCpdef"]:
                # known: f_trace is Py_None in a frame that never saw a call event / whose tracer returned None
                impl = rt.recorded_to_legacy(rec["ev"])
                ctx.count("zoo settrace TypeError witnesses")
                if rec["out"] == "err TypeError":
                    ctx.violation(key, "%s under sys.settrace raises TypeError ('NoneType' object is not callable) and leaves "
                                  "the stream %s" % (c["name"], rt.brief(impl, 10)), {"case": tag, "hook": hk})
                else:
                    # Profile.c no longer hands Py_None to the trampoline, but the frame of the C function still never saw a
                    # call event: nothing more is delivered for it
                    ctx.notes["witness no longer reproduces: " + key] = rec["out"]
                    if rt.oracle_check(impl, dict(ranges, **cb_ranges())):
                        ctx.violation("settrace-cpdef-from-python-no-return-event", "%s under sys.settrace: %s" % (
                            c["name"], rt.brief(impl, 12)), {"case": tag})
                continue
            impl, bad = judge(ctx, tag, c["fn"], rec, mo, names, ranges, fuzzy, hk, c["kind"] == "gen", expect_key=c.get("key"))
            if c.get("nested") and not bad:
                if skeleton(impl) != [tuple(x) for x in c["nested"]]:
                    ctx.violation(c["key"], "%s hook=%s: the exit call of the with statement is reported after the return event "
                                  "of its caller: %s" % (tag, hk, rt.brief(impl, 12)), {"case": tag})
                    continue
            if c.get("key") and not bad and not c["key"].startswith("settrace") and not c.get("no_witness"):
                ctx.notes["witness no longer reproduces: " + c["key"] + " (" + tag + ")"] = rt.brief(impl, 12)


def cross_check_checkers(ctx):
    """Lean `go` vs the Python oracle on recorded zoo streams and single-event mutations of them."""
    rng = ctx.rng
    words = []
    for impl, ranges in _RECORDED:
        if not impl:
            continue
        words.append((impl, ranges))
        for _ in range(ctx.n(6, 40)):
            w = list(impl)
            i = rng.randrange(len(w))
            op = rng.choice(["drop", "dup", "swap", "line"])
            if op == "drop":
                del w[i]
            elif op == "dup":
                w.insert(i, w[i])
            elif op == "swap" and i + 1 < len(w):
                w[i], w[i + 1] = w[i + 1], w[i]
            else:
                w[i] = ("line", w[i][1], rng.choice([0, 1, 5, 50, 500]))
            words.append((w, ranges))
    fids = {}
    lines = []
    for w, ranges in words:
        for _, nm, _ in w:
            fids.setdefault(nm, len(fids) + 1)
        lines.append("C45 check " + " ".join(rt.legacy_to_tokens(w, fids, ranges)))
    outs = ctx.drv.batch(lines) if lines else []
    for (w, ranges), o in zip(words, outs):
        ctx.count("checker cross-check")
        py = rt.oracle_check(w, ranges) is None
        if o != "ok %d" % py:
            ctx.tie_break("lean-checker-vs-python-oracle", "word %s: lean %s python %s" % (rt.brief(w, 20), o, py), {"word": rt.brief(w, 60)})
    _RECORDED.clear()

"""C20 — operands and targets are evaluated left to right, exactly once.

Programs of a logging mini-AST (leaves `E.ev(k)` append an event and return an opaque object whose
protocol methods log as well) are printed as Python source, compiled by the STAGED compiler, and run
three-way: compiled module vs CPython (oracle) vs the Lean evaluators (`C20 run ref|cy`): event trace and
final bindings.  Which variant of the two rewrites (and of the two modelled call-protocol deviations) the
source under test implements is detected by compiled probes first, and the Lean model is run with those
switches.  Object-typed programs only; C-typed variants and a D-py tree-shape leg are NOT automated.
"""
import json
import os
import subprocess
import sys
import textwrap

import cybuild
import lib

CAP = 600


def cap(s, n=CAP):
    s = str(s)
    return s if len(s) <= n else s[:n] + "...[%d more]" % (len(s) - n)


# ----------------------------------------------------------------------------------------------
# the logging environment (written to the scratch dir, imported by the child runner)
ENV_SRC = r'''
M = 1000003
def code(t):
    k = t[0]
    if k == 'atom': return t[1] + 1
    if k == 'sym': return len(t[1]) + 3
    if k == 'bool': return 1 if t[1] else 0
    if k == 'nil': return 2
    if k == 'cons': return (code(t[1]) * 31 + code(t[2]) * 17 + 5) % M
    if k == 'tup': return (code(t[1]) + 11) % M
    if k == 'lst': return (code(t[1]) + 13) % M
    if k == 'dict': return (code(t[1]) + 17) % M
    if k == 'set': return (code(t[1]) + 19) % M
    if k == 'app': return (len(t[1]) * 7 + code(t[2]) * 3 + 1) % M
    raise ValueError(k)
def spine(xs):
    r = ('nil',)
    for x in reversed(xs): r = ('cons', x, r)
    return r
def unspine(t):
    out = []
    while t[0] == 'cons':
        out.append(t[1]); t = t[2]
    return out
def show(t):
    k = t[0]
    if k == 'atom': return 'v%d' % t[1]
    if k == 'sym': return t[1]
    if k == 'bool': return 'True' if t[1] else 'False'
    if k == 'nil': return '[]'
    if k == 'cons': return '[' + ','.join(show(x) for x in unspine(t)) + ']'
    if k == 'tup': return 'T(' + ','.join(show(x) for x in unspine(t[1])) + ')'
    if k == 'lst': return 'L(' + ','.join(show(x) for x in unspine(t[1])) + ')'
    if k == 'dict': return 'D(' + ','.join(show(x) for x in unspine(t[1])) + ')'
    if k == 'set': return 'S(' + ','.join(sorted(show(x) for x in unspine(t[1]))) + ')'
    if k == 'app': return t[1] + '(' + ','.join(show(x) for x in unspine(t[2])) + ')'
    raise ValueError(k)
def term(x):
    """symbolic term of a run-time value"""
    if isinstance(x, Obj): return object.__getattribute__(x, '_t')
    if x is True or x is False: return ('bool', x)
    if isinstance(x, tuple): return ('tup', spine([term(y) for y in x]))
    if isinstance(x, list): return ('lst', spine([term(y) for y in x]))
    if isinstance(x, dict): return ('dict', spine([spine([term(k), term(v)]) for k, v in x.items()]))
    if isinstance(x, (set, frozenset)): return ('set', spine([term(y) for y in x]))
    if isinstance(x, str): return ('sym', x)
    if isinstance(x, int): return ('sym', 'int%d' % x)
    return ('sym', '<' + type(x).__name__ + '>')
def app(tag, *xs): return ('app', tag, spine([term(x) for x in xs]))
class Env:
    def __init__(self, mask):
        self.log = []; self.mask = mask
    def ev(self, k):
        self.log.append(show(('app', 'ev', spine([('atom', k)])))); return Obj(self, ('atom', k))
    def kw(self, k):
        self.log.append(show(('app', 'ev', spine([('atom', k)])))); return {'k%d' % k: Obj(self, ('atom', k))}
    def mk(self, name): return Obj(self, ('sym', name))
    def emit(self, t):
        self.log.append(show(t)); return Obj(self, t)
class Obj:
    __slots__ = ('_e', '_t')
    def __init__(self, e, t):
        object.__setattr__(self, '_e', e); object.__setattr__(self, '_t', t)
    def _E(self): return object.__getattribute__(self, '_e')
    def __getitem__(self, i): return self._E().emit(app('get', self, i))
    def __setitem__(self, i, v): self._E().emit(app('set', self, i, v))
    def __getattr__(self, a):
        if a.startswith('__') or a in ('keys', 'items', 'values'): raise AttributeError(a)
        return self._E().emit(app('getattr', self, a))
    def __setattr__(self, a, v): self._E().emit(app('setattr', self, a, v))
    def __add__(self, o): return self._E().emit(app('add', self, o))
    def __iadd__(self, o): return self._E().emit(app('iadd', self, o))
    def __lt__(self, o): return self._E().emit(app('lt', self, o))
    def __bool__(self):
        e = self._E(); e.log.append(show(app('bool', self)))
        return bool((e.mask >> (code(term(self)) % 32)) & 1)
    def __iter__(self):
        e = self._E(); e.log.append(show(app('iter', self)))
        return iter([Obj(e, app('it0', self)), Obj(e, app('it1', self))])
    def __call__(self, *a, **k):
        return self._E().emit(('app', 'call', spine([term(self), spine([term(x) for x in a]),
                                                     spine([spine([('sym', n), term(v)]) for n, v in k.items()])])))
    def __hash__(self): return hash(show(term(self)))
    def __eq__(self, o): return isinstance(o, Obj) and term(o) == term(self)
def cn(E, k, v):
    E.log.append('ev(v%d)' % k); return v
'''

RUNNER_SRC = r'''
import sys, json, importlib.util
sys.path.insert(0, sys.argv[1])
import c20env
so, modname = sys.argv[2], sys.argv[3]
if so.endswith('.py'):
    import types
    mod = types.ModuleType(modname); mod.__dict__['c20env'] = c20env
    exec(compile(open(so).read(), so, 'exec'), mod.__dict__)
else:
    spec = importlib.util.spec_from_file_location(modname, so)
    mod = importlib.util.module_from_spec(spec); sys.modules[modname] = mod
    spec.loader.exec_module(mod)
def canon(x):
    if isinstance(x, (c20env.Obj, tuple, list, dict, set, frozenset, bool, str)) and not isinstance(x, _Raw):
        return c20env.show(c20env.term(x))
    return repr(x)
class _Raw(list): pass
for line in sys.stdin:
    fn, mask, typed = json.loads(line)
    E = c20env.Env(mask)
    try:
        if typed:
            r = getattr(mod, fn)(E)
            out = {'trace': E.log, 'vals': repr(r)}
        else:
            r = getattr(mod, fn)(E, E.mk('a'), E.mk('b'), E.mk('c'), E.mk('d'))
            out = {'trace': E.log, 'vals': ';'.join('%s=%s' % (n, c20env.show(c20env.term(v))) for n, v in r)}
    except BaseException as e:
        out = {'trace': E.log, 'vals': 'EXC ' + type(e).__name__ + ': ' + str(e)[:200]}
    sys.stdout.write(json.dumps(out) + '\n'); sys.stdout.flush()
'''


# ----------------------------------------------------------------------------------------------
# mini-AST (nested tuples), printers: Python source, Lean tokens
NAMES = ["x", "y", "z", "t"]          # assignable locals (returned as final bindings)
ARGS = ["a", "b", "c", "d"]           # opaque container objects
ATTRS = ["p", "q", "m"]


def src(e):
    k = e[0]
    if k == "n": return e[1]
    if k == "e": return "E.ev(%d)" % e[1]
    if k == "w": return "E.kw(%d)" % e[1]
    if k == "i": return "%s[%s]" % (psrc(e[2]), src(e[3]))
    if k == "a": return "%s.%s" % (psrc(e[2]), e[3])
    if k == "+": return "(%s + %s)" % (src(e[1]), src(e[2]))
    if k == "<": return "(%s < %s)" % (src(e[1]), src(e[2]))
    if k == "<<": return "(%s < %s < %s)" % (src(e[1]), src(e[2]), src(e[3]))
    if k == "&": return "(%s and %s)" % (src(e[1]), src(e[2]))
    if k == "|": return "(%s or %s)" % (src(e[1]), src(e[2]))
    if k == "!": return "(not %s)" % src(e[1])
    if k == "?": return "(%s if %s else %s)" % (src(e[2]), src(e[1]), src(e[3]))
    if k == "T": return "(" + "".join(src(x) + ", " for x in e[1]) + ")"
    if k == "L": return "[" + ", ".join(src(x) for x in e[1]) + "]"
    if k == "S": return "{" + ", ".join(src(x) for x in e[1]) + "}"
    if k == "D": return "{" + ", ".join(src(x) for x in e[1]) + "}"
    if k == "*": return "*" + src(e[1])
    if k == "**": return "**" + src(e[1])
    if k == "k": return "%s=%s" % (e[1], src(e[2]))
    if k == ":": return "%s: %s" % (src(e[1]), src(e[2]))
    if k == "c": return "%s(%s)" % (psrc(e[1]), ", ".join(src(x) for x in list(e[2]) + list(e[3])))
    raise ValueError(k)


def psrc(e):
    s = src(e)
    return s if e[0] in ("n", "e", "w", "i", "a", "c") or s.startswith(("(", "[", "{")) else "(" + s + ")"


def toks(e):
    k = e[0]
    if k in ("n", "e", "w"): return [k, str(e[1])]
    if k == "i": return ["i", str(int(e[1]))] + toks(e[2]) + toks(e[3])
    if k == "a": return ["a", str(int(e[1])), e[3]] + toks(e[2])
    if k in ("+", "<", "&", "|", ":"): return [k] + toks(e[1]) + toks(e[2])
    if k in ("<<", "?"): return [k] + toks(e[1]) + toks(e[2]) + toks(e[3])
    if k in ("!", "*", "**"): return [k] + toks(e[1])
    if k in ("T", "L", "S", "D"): return [k] + ltoks(e[1])
    if k == "k": return ["k", e[1]] + toks(e[2])
    if k == "c": return ["c"] + toks(e[1]) + ltoks(e[2]) + ltoks(e[3])
    raise ValueError(k)


def ltoks(xs):
    out = []
    for x in xs:
        out += [","] + toks(x)
    return out + ["."]


# targets: ('tn', x) | ('ti', py, b, i) | ('ta', py, o, name); trees: ('lf', tgt) | ('sq', [(starred, tree), ...])
def tsrc(t):
    if t[0] == "tn": return t[1]
    if t[0] == "ti": return "%s[%s]" % (psrc(t[2]), src(t[3]))
    return "%s.%s" % (psrc(t[2]), t[3])


def ttoks(t):
    if t[0] == "tn": return ["tn", t[1]]
    if t[0] == "ti": return ["ti", str(int(t[1]))] + toks(t[2]) + toks(t[3])
    return ["ta", str(int(t[1])), t[3]] + toks(t[2])


def ltsrc(l, top=True):
    if l[0] == "lf": return tsrc(l[1])
    body = "".join(("*" if s else "") + ltsrc(x, False) + ", " for s, x in l[1])
    return body.rstrip(" ") if top and len(l[1]) > 0 else "(" + body + ")"


def lttoks(l):
    if l[0] == "lf": return ["lf"] + ttoks(l[1])
    out = ["sq"]
    for s, x in l[1]:
        out += ["sc", str(int(s))] + lttoks(x)
    return out + ["sn"]


def ssrc(s):
    if s[0] == "=": return " = ".join([ltsrc(l) for l in s[1]] + [src(s[2]) if s[2][0] != "T" or not s[2][1] else src(s[2])])
    if s[0] == "+=": return "%s += %s" % (tsrc(s[1]), src(s[2]))
    return src(s[1])


def stoks(s):
    if s[0] == "=":
        out = ["=", str(len(s[1]))]
        for l in s[1]:
            out += lttoks(l)
        return out + toks(s[2])
    if s[0] == "+=": return ["+="] + ttoks(s[1]) + toks(s[2])
    return ["x"] + toks(s[1])


def prog_src(fname, prog):
    body = "".join("    %s = E.mk(%r)\n" % (n, n) for n in NAMES)
    body += "".join("    " + ssrc(s) + "\n" for s in prog)
    body += "    return [%s]\n" % ", ".join("(%r, %s)" % (n, n) for n in NAMES)
    return "def %s(E, a, b, c, d):\n%s" % (fname, body)


def lean_line(which, mode, sw, mask, prog):
    t = []
    for s in prog:
        t += stoks(s)
    return "C20 run %s %s %d %d %d %d %d %s %d %s" % (which, mode, sw["fi"], sw["fs"], sw["vm"], sw["es"], mask, ",".join(NAMES), len(prog), " ".join(t))


# ----------------------------------------------------------------------------------------------
# generator
class Gen:
    def __init__(self, rng):
        self.rng = rng
        self.k = 0
        self.opaque = set(NAMES)      # locals currently holding an opaque object

    def leaf(self):
        self.k += 1
        return ("e", self.k)

    def obj(self, d):
        """expression whose value is an opaque logging object"""
        r = self.rng
        if d <= 0 or r.random() < 0.25:
            c = r.random()
            if c < 0.5: return self.leaf()
            names = ARGS + sorted(self.opaque)
            return ("n", r.choice(names))
        c = r.choice(["i", "i", "a", "a", "+", "<", "<<", "&", "|", "?", "c", "c", "mc"])
        if c == "i": return ("i", True, self.obj(d - 1), self.index(d - 1))
        if c == "a": return ("a", True, self.obj(d - 1), r.choice(ATTRS))
        if c == "+": return ("+", self.obj(d - 1), self.any(d - 1))
        if c == "<": return ("<", self.obj(d - 1), self.any(d - 1))
        if c == "<<": return ("<<", self.obj(d - 1), self.obj(d - 1), self.any(d - 1))
        if c in "&|": return (c, self.obj(d - 1), self.obj(d - 1))
        if c == "?": return ("?", self.any(d - 1), self.obj(d - 1), self.obj(d - 1))
        f = self.obj(d - 1) if c == "c" else ("a", True, self.obj(d - 1), "m")
        return ("c", f, self.args(d - 1), self.kwargs(d - 1))

    def index(self, d):
        e = self.any(d)
        return ("T", [e]) if e[0] == "!" else e     # a bare `not` index is passed as C bint (1 instead of True)

    def args(self, d):
        r = self.rng
        out = []
        for _ in range(r.choice([0, 1, 1, 2, 2, 3])):
            if r.random() < 0.25:
                out.append(("*", self.leaf() if r.random() < 0.5 else ("T", [self.any(d - 1) for _ in range(r.randint(0, 2))])))
            else:
                out.append(self.any(d))
        return out

    def kwargs(self, d):
        r = self.rng
        out = []
        for j in range(r.choice([0, 0, 1, 1, 2])):
            if r.random() < 0.3:
                self.k += 1
                out.append(("**", ("w", self.k)))
            else:
                out.append(("k", "n%d" % j, self.any(d)))
        return out

    def any(self, d):
        r = self.rng
        c = r.random()
        if d <= 0 or c < 0.55: return self.obj(d)
        if c < 0.62: return ("n", r.choice(NAMES))
        if c < 0.70: return ("!", self.any(d - 1))
        if c < 0.78: return ("T", [self.any(d - 1) for _ in range(r.randint(0, 3))])
        if c < 0.84: return ("L", [self.item(d - 1) for _ in range(r.randint(0, 3))])
        if c < 0.90:
            items = []
            for _ in range(r.randint(0, 3)):
                if r.random() < 0.25:
                    self.k += 1
                    items.append(("**", ("w", self.k)))
                else:
                    items.append((":", self.leaf(), self.any(d - 1)))
            return ("D", items)
        if c < 0.95:
            return ("S", [self.leaf() if r.random() < 0.7 else ("*", self.leaf()) for _ in range(r.randint(1, 3))])
        return (r.choice("&|"), self.any(d - 1), self.any(d - 1))

    def item(self, d):
        if self.rng.random() < 0.2:
            return ("*", self.leaf() if self.rng.random() < 0.5 else ("T", [self.any(d) for _ in range(self.rng.randint(0, 2))]))
        return self.any(d)

    def tgt(self, d, names=True):
        r = self.rng
        c = r.random()
        if names and c < 0.3: return ("tn", r.choice(NAMES))
        if c < 0.65: return ("ti", True, self.obj(d), self.index(d - 1))
        return ("ta", True, self.obj(d), r.choice(ATTRS))

    def note_assign(self, t, opaque):
        if t[0] == "tn":
            (self.opaque.add if opaque else self.opaque.discard)(t[1])

    def tree_pair(self, d, depth):
        """matched (target tree, rhs display): returns (tree, rhs)"""
        r = self.rng
        n = r.randint(1, 3)
        star = r.randrange(n) if r.random() < 0.35 else -1
        items, rhs = [], []
        for j in range(n):
            if j == star:
                t = self.tgt(d)
                self.note_assign(t, False)
                items.append((True, ("lf", t)))
                cnt = r.randint(0, 2)
                if j == n - 1 and cnt == 0:
                    cnt = 1       # `a, *b = (e,)` crashes the compiler (separate probe)
                rhs += [self.any(d) for _ in range(cnt)]
            elif depth > 0 and r.random() < 0.25:
                sub, sr = self.tree_pair(d, depth - 1)
                items.append((False, sub)); rhs.append(sr)
            elif r.random() < 0.12:
                # sequence target against an opaque object: unpacked at run time (2 items)
                a, b = self.tgt(d), self.tgt(d)
                self.note_assign(a, True); self.note_assign(b, True)
                items.append((False, ("sq", [(False, ("lf", a)), (False, ("lf", b))]))); rhs.append(self.obj(d))
            else:
                t = self.tgt(d)
                e = self.any(d)
                self.note_assign(t, False)
                items.append((False, ("lf", t))); rhs.append(e)
        return ("sq", items), (r.choice("TTL"), rhs)

    def stmt(self, d):
        r = self.rng
        c = r.random()
        if c < 0.22:
            t = self.tgt(d, names=True)
            if t[0] == "tn" and t[1] not in self.opaque:
                t = ("ti", True, self.obj(d), self.index(d - 1))
            return ("+=", t, self.any(d))
        if c < 0.34:     # deeper in-place chains
            o = self.obj(d + 1)
            t = ("ta", True, o, r.choice(ATTRS)) if r.random() < 0.6 else ("ti", True, o, self.index(d - 1))
            return ("+=", t, self.any(d - 1))
        if c < 0.46:
            ts = [self.tgt(d) for _ in range(r.choice([1, 1, 2, 3]))]
            e = self.obj(d) if r.random() < 0.5 else self.any(d)
            for t in ts:
                self.note_assign(t, False)
            return ("=", [("lf", t) for t in ts], e)
        if c < 0.70:
            tree, rhs = self.tree_pair(d, 1)
            return ("=", [tree], rhs)
        if c < 0.76:     # swap patterns
            o = ("n", r.choice(ARGS))
            t1, t2 = ("ti", True, o, self.index(d - 1)), ("ti", True, o, self.index(d - 1))
            return ("=", [("sq", [(False, ("lf", t1)), (False, ("lf", t2))])], ("T", [("i", True, o, self.index(d - 1)), ("i", True, o, self.index(d - 1))]))
        if c < 0.82:     # run-time unpacking of an opaque object
            a, b = self.tgt(d), self.tgt(d)
            self.note_assign(a, True); self.note_assign(b, True)
            items = [(False, ("lf", a)), (False, ("lf", b))]
            if r.random() < 0.4:
                s = self.tgt(d); self.note_assign(s, False)
                items.insert(r.randint(0, 2), (True, ("lf", s)))
            return ("=", [("sq", items)], self.obj(d))
        if c < 0.88:     # cascaded parallel assignment (several sequence targets / complete targets)
            tree, rhs = self.tree_pair(d, 0)
            others = []
            for _ in range(r.randint(1, 2)):
                if r.random() < 0.5:
                    t = self.tgt(d); self.note_assign(t, False); others.append(("lf", t))
                else:
                    sub = []
                    for s, x in tree[1]:
                        t = self.tgt(d); self.note_assign(t, False); sub.append((s, ("lf", t)))
                    others.append(("sq", sub))
            ls = [tree] + others
            r.shuffle(ls)
            return ("=", ls, rhs)
        return ("x", self.obj(d + 1))


def gen_program(rng, size, d):
    g = Gen(rng)
    return [g.stmt(d) for _ in range(size)]


# ----------------------------------------------------------------------------------------------
# running modules in a child
def write_support(ctx):
    d = os.path.join(ctx.scratch, "c20sup")
    if not os.path.isdir(d):
        os.makedirs(d)
        with open(os.path.join(d, "c20env.py"), "w") as f:
            f.write(ENV_SRC)
        with open(os.path.join(d, "c20run.py"), "w") as f:
            f.write(RUNNER_SRC)
    return d


def run_child(ctx, target, modname, jobs):
    """jobs: list of (fname, mask, typed) -> list of dicts (or {'crash': ...} for the job that killed the child)"""
    sup = write_support(ctx)
    out = []
    i = 0
    while i < len(jobs):
        data = "".join(json.dumps(list(j)) + "\n" for j in jobs[i:])
        try:
            p = subprocess.run([lib.PYTHON, os.path.join(sup, "c20run.py"), sup, target, modname], input=data,
                               stdout=subprocess.PIPE, stderr=subprocess.PIPE, text=True, timeout=600,
                               env=lib._clean_env({"PYTHONPATH": ctx.stage}))
            lines, rc, err = p.stdout.split("\n"), p.returncode, p.stderr
        except subprocess.TimeoutExpired as e:
            lines, rc, err = ((e.stdout or b"").decode() if isinstance(e.stdout, bytes) else (e.stdout or "")).split("\n"), "timeout", ""
        got = [json.loads(l) for l in lines if l.startswith("{")]
        out.extend(got[:len(jobs) - i])
        i += len(got)
        if i >= len(jobs):
            break
        if not got and rc not in ("timeout",) and isinstance(rc, int) and rc > 0:
            raise lib.Infra("c20 runner failed: " + err[-600:])
        out.append({"trace": [], "vals": "CRASH rc=%s" % rc})
        i += 1
    return out


def dedupe(tr):
    """collapse immediately repeated `bool(v)` events (nested and/or re-test the short-circuit value in CPython)"""
    out = []
    for t in tr:
        if out and t == out[-1] and t.startswith("bool("):
            continue
        out.append(t)
    return out


def fmt(o):
    return "ok " + (";".join(dedupe(o["trace"])) or "-") + " | " + (o["vals"] or "-")


KEYS = {
    "vm": ("method-call-lookup-after-arguments",
           "o.m(args) without */**: PyMethodCallNode (use_method_vectorcall) evaluates the arguments BEFORE looking up o.m (CPython: lookup first)"),
    "es": ("lone-star-argument-iterated-before-keywords",
           "f(*it, k=g()): the only positional argument `*it` is converted to a tuple BEFORE g() is evaluated (CPython 3.12 hands `it` to CALL_FUNCTION_EX unconverted: iterated after g())"),
    "fi": ("inplace-attribute-target-object-reevaluated",
           "ExpandInplaceOperators: in `o.p.q += v` / `o[i].p += v` the object expression of the attribute target (o.p / o[i]) is evaluated twice (read and write)"),
    "fs": ("starred-unpack-flattening-reorders",
           "flatten_parallel_assignments: with a starred target that is not last (`*x, y = f(), g(), h()`) the right-hand items and the stores are reordered (h() first)"),
}


NEUTRAL = {"vm": 0, "es": 0, "fi": 1, "fs": 1}
SWITCHES = ("vm", "es", "fi", "fs")


def classify_lines(sw, mask, prog):
    """model lines that tell which modelled deviations make the current model differ from the reference"""
    out = [lean_line("cy", "full", NEUTRAL, mask, prog)]
    for k in SWITCHES:
        cur = dict(NEUTRAL)
        cur[k] = sw[k]
        out.append(lean_line("cy", "full", cur, mask, prog))
    return out


def classify(outs):
    return [k for k, o in zip(SWITCHES, outs[1:]) if o != outs[0]]



# ----------------------------------------------------------------------------------------------
# object-typed three-way leg
PROBES = {
    "vm": [("x", ("c", ("a", True, ("n", "a"), "m"), [("e", 1)], []))],
    "es": [("x", ("c", ("n", "a"), [("*", ("e", 1))], [("k", "n0", ("e", 2))]))],
    "fi": [("+=", ("ta", True, ("a", True, ("n", "a"), "p"), "q"), ("e", 1))],
    "fs": [("=", [("sq", [(True, ("lf", ("tn", "x"))), (False, ("lf", ("ta", True, ("n", "a"), "p")))])],
            ("T", [("e", 1), ("e", 2), ("e", 3)]))],
}

CORPUS = [
    [("+=", ("ta", True, ("i", True, ("n", "a"), ("e", 1)), "p"), ("e", 2))],
    [("+=", ("ti", True, ("i", True, ("n", "a"), ("e", 1)), ("e", 2)), ("e", 3))],
    [("+=", ("ta", True, ("e", 1), "p"), ("e", 2))],
    [("=", [("sq", [(False, ("lf", ("ta", True, ("n", "a"), "p"))), (True, ("lf", ("ta", True, ("n", "b"), "q"))),
                    (False, ("lf", ("ta", True, ("n", "c"), "m")))])], ("T", [("e", 1), ("e", 2), ("e", 3), ("e", 4)]))],
    [("=", [("sq", [(False, ("lf", ("ti", True, ("n", "a"), ("e", 1)))), (False, ("lf", ("tn", "y")))])],
      ("T", [("e", 2), ("i", True, ("n", "a"), ("e", 3))]))],
    [("=", [("lf", ("tn", "x"))], ("D", [(":", ("e", 1), ("e", 2)), ("**", ("w", 3))]))],
    [("x", ("c", ("n", "a"), [("*", ("e", 1)), ("e", 2)], [("k", "n0", ("e", 3)), ("**", ("w", 4))]))],
    [("=", [("lf", ("tn", "x"))], ("<<", ("e", 1), ("e", 2), ("e", 3)))],
    [("=", [("lf", ("ti", True, ("n", "a"), ("e", 1))), ("lf", ("ti", True, ("n", "b"), ("e", 2)))], ("e", 3))],
    [("=", [("sq", [(False, ("lf", ("tn", "x"))), (False, ("lf", ("tn", "y")))]),
            ("sq", [(False, ("lf", ("tn", "y"))), (False, ("lf", ("tn", "x")))])], ("T", [("e", 1), ("e", 2)]))],
    [("x", ("c", ("a", True, ("a", True, ("n", "b"), "p"), "m"), [("e", 1)], [("k", "n0", ("e", 2))]))],
]


def build_obj_modules(ctx, progs, tag, chunk=40):
    """-> list of (so_or_error, py_path, [(fname, prog)])"""
    specs, groups = [], []
    for ci in range(0, len(progs), chunk):
        part = progs[ci:ci + chunk]
        funcs = [("f%d" % (ci + j), p) for j, p in enumerate(part)]
        text = "\n".join(prog_src(fn, p) for fn, p in funcs)
        name = "c20%s%d" % (tag, ci // chunk)
        specs.append({"name": name, "source": text, "ext": ".py"})
        groups.append((name, text, funcs))
    sos = cybuild.build_many(ctx, specs)
    out = []
    for so, (name, text, funcs) in zip(sos, groups):
        py = os.path.join(ctx.scratch, name + "_oracle.py")
        with open(py, "w") as f:
            f.write(text)
        out.append((so, py, name, text, funcs))
    return out


def detect_switches(ctx):
    """which variant is the current source?  probe programs, compiled and run"""
    progs = [PROBES["vm"], PROBES["fi"], PROBES["fs"], PROBES["es"]]
    (so, py, name, text, funcs), = build_obj_modules(ctx, progs, "probe")
    if isinstance(so, cybuild.BuildError):
        raise lib.Infra("probe module does not build: " + so.log[-500:])
    res = run_child(ctx, so, name, [(fn, 0, False) for fn, _ in funcs])
    sw = {}
    sw["vm"] = int(res[0]["trace"][:1] == ["ev(v1)"])
    sw["fi"] = int(res[1]["trace"].count("getattr(a,p)") == 1)
    sw["fs"] = int(res[2]["trace"][:1] == ["ev(v1)"])
    sw["es"] = int(res[3]["trace"][:2] == ["ev(v1)", "iter(v1)"])
    return sw


def object_leg(ctx, sw, progs, masks_per_prog, tag="o"):
    built = build_obj_modules(ctx, progs, tag)
    for so, py, name, text, funcs in built:
        if isinstance(so, cybuild.BuildError):
            # find the offending function(s): rebuild one by one only for small modules
            ctx.tie_break("D-c build of generated programs", cap(so.stage + ": " + so.log[-400:]), {"module": cap(text, 4000)})
            continue
        jobs, meta = [], []
        for fn, p in funcs:
            for m in masks_per_prog(p):
                jobs.append((fn, m, False)); meta.append((fn, p, m))
        impl = run_child(ctx, so, name, jobs)
        orac = run_child(ctx, py, name + "_oracle", jobs)
        lines = []
        for fn, p, m in meta:
            lines.append(lean_line("ref", "full", sw, m, p))
            lines.append(lean_line("cy", "full", sw, m, p))
            lines += classify_lines(sw, m, p)
        mo = ctx.drv.batch(lines)
        W = 2 + 1 + len(SWITCHES)
        for j, (fn, p, m) in enumerate(meta):
            i_s, o_s, mref, mcy = fmt(impl[j]), fmt(orac[j]), mo[W * j], mo[W * j + 1]
            kinds = sorted(set(s[0] for s in p))
            ctx.count("obj/" + "".join(kinds) + ("/modelled" if not mcy.startswith("err") else "/cascade-differential"))
            ctx.seen((json.dumps(p), m), nontrivial=len(impl[j]["trace"]) >= 2)
            psrc_ = "; ".join(ssrc(s) for s in p)
            rep = {"kind": "object", "prog": p, "mask": m, "source": cap(psrc_, 1500)}
            if j % 97 == 0:
                ctx.sample({"src": cap(psrc_, 300), "mask": m, "impl": cap(i_s, 300), "oracle_equal": i_s == o_s, "model_equal": mcy == i_s})
            if mref != o_s:
                ctx.tie_break("reference evaluator vs CPython", cap("%s [mask %d]: lean-ref %s / cpython %s" % (psrc_, m, mref, o_s)), rep)
            if i_s != o_s:
                if mcy.startswith("err"):
                    ctx.violation("cascaded-parallel-assignment-order",
                                  cap("%s [mask %d]: compiled %s / CPython %s" % (psrc_, m, i_s, o_s)), rep)
                else:
                    ks = classify(mo[W * j + 2:W * j + W]) if mcy == i_s else []
                    if not ks:
                        ctx.violation("unexplained-" + "".join(kinds), cap("%s [mask %d]: compiled %s / CPython %s" % (psrc_, m, i_s, o_s)), rep)
                    for k in ks:
                        ctx.violation(KEYS[k][0], cap("%s; witness: %s [mask %d]: compiled %s / CPython %s" % (KEYS[k][1], psrc_, m, i_s, o_s), 900), rep)
            if not mcy.startswith("err") and mcy != i_s:
                ctx.tie_break("D-c compiled program vs CyVerif.C20.runCy", cap("%s [mask %d]: model %s / compiled %s" % (psrc_, m, mcy, i_s)), rep)


def masks_for(rng, n):
    def f(p):
        return [0, 0xFFFFFFFF] + [rng.getrandbits(32) for _ in range(n)]
    return f


def run(ctx):
    ctx.rule = ("programs of 1-3 statements over the logging mini-AST (calls with */**/keywords, method calls, subscripts, attributes, +, "
                "< and chained <, and/or/not, conditional, tuple/list/set/dict displays with */**; assignments: single, chained, augmented on "
                "name/a[i]/a.x/deeper chains, tuple (un)packing incl. swaps, nested and starred targets, run-time unpacking, cascaded "
                "parallel assignments), each run under several truth oracles (32-bit masks); non-trivial = at least two events logged; distinct by (program, mask)")
    ctx.explanation = ("Theorems: the two modelled rewrites (in-place expansion, parallel-assignment flattening of one target tree incl. "
                       "nested/starred) preserve trace and store of the reference evaluator for ALL programs (partial: with explicit "
                       "hypotheses where the current code deviates, counterexamples proved and replayed), and every leaf runs at most once. "
                       "NOT covered by a theorem: that code generation of the general node kinds follows the reference order (call "
                       "arguments, displays, comparisons, boolean operators, temps for C-typed operands), cascaded parallel assignments with "
                       "several sequence targets (eliminate_rhs_duplicates), the buffer/memoryview path of InPlaceAssignmentNode: "
                       "these are carried by the compiled-vs-CPython differential leg only.")
    rep = ctx.replay_case["case"] if getattr(ctx, "replay_case", None) else None
    sw = detect_switches(ctx)
    ctx.notes["detected_variant"] = {"vecMethod": sw["vm"], "eagerStar": sw["es"], "inplace_fixed": sw["fi"], "starred_flatten_fixed": sw["fs"]}
    if rep and rep.get("kind") == "object":
        def tup(x):
            return tuple(tup(y) for y in x) if isinstance(x, list) else x
        rp = [tup(s_) for s_ in rep["prog"]]
        rp = [(s_[0], list(s_[1]), s_[2]) if s_[0] == "=" else s_ for s_ in rp]
        object_leg(ctx, sw, [rp], lambda p: [rep["mask"]], tag="r")
        return
    # valid Python that the flattening cannot handle: starred target at index len(rhs)
    crash_prog = [("=", [("sq", [(False, ("lf", ("ta", True, ("n", "a"), "p"))), (True, ("lf", ("ta", True, ("n", "b"), "q")))])], ("T", [("e", 1)]))]
    (cso, cpy, cname, ctext, cfuncs), = build_obj_modules(ctx, [crash_prog], "crash")
    ctx.count("probe/starred-target-at-end-of-rhs")
    if isinstance(cso, cybuild.BuildError):
        ctx.violation("starred-target-beyond-rhs-compiler-crash",
                      cap("`a.p, *b.q = E.ev(1),` (valid Python: b.q = []) does not compile: " + cso.log[-300:]),
                      {"kind": "object", "prog": crash_prog, "mask": 0, "source": ssrc(crash_prog[0])})
    else:
        object_leg(ctx, sw, [crash_prog], lambda p: [0], tag="crashrun")
    rng = ctx.rng
    progs = list(CORPUS) + [PROBES[k] for k in ("vm", "es", "fi", "fs")]
    n = ctx.n(25, 1500)
    for j in range(n):
        progs.append(gen_program(rng, rng.choice([1, 1, 2, 3]), rng.choice([1, 1, 2])))
    object_leg(ctx, sw, progs, masks_for(rng, 2 if ctx.quick else 4))

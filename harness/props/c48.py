"""C48 — compilation caches never return stale results.

model  = CyVerif.C48 (key layout, option classification)
impl   = staged Cython.Build.Cache / Cython.Compiler.Options.get_fingerprint / cythonize(cache=...) / cython.inline
oracle = a fresh, uncached compilation of the same inputs (byte comparison of the generated C file; result of the inline call)
"""
import ast
import hashlib
import json
import os
import subprocess
import textwrap

import lib

NEUTRAL = ["show_version", "errors_to_stderr", "verbose", "quiet", "output_file", "output_dir", "depfile", "timestamps", "cache",
           "include_path", "working_path", "create_extension", "build_dir"]


def extract_classification(stage):
    """Translator: read get_fingerprint() of the CURRENT source and return (excluded, included, rejected) option names."""
    src = open(os.path.join(stage, "Cython", "Compiler", "Options.py")).read()
    tree = ast.parse(src)
    fn = None
    for node in ast.walk(tree):
        if isinstance(node, ast.FunctionDef) and node.name == "get_fingerprint":
            fn = node
    if fn is None:
        return None
    loop = [n for n in fn.body if isinstance(n, ast.For)]
    if len(loop) != 1:
        return None
    excluded, included, rejected, else_includes = [], [], [], False
    node = loop[0].body[0]
    while isinstance(node, ast.If):
        t = node.test
        ok = (isinstance(t, ast.Compare) and isinstance(t.left, ast.Name) and t.left.id == "key" and len(t.ops) == 1
              and isinstance(t.ops[0], ast.In) and isinstance(t.comparators[0], (ast.List, ast.Tuple)))
        if not ok:
            return None
        names = [e.value for e in t.comparators[0].elts]
        body = node.body
        kinds = set(type(b).__name__ for b in body)
        if kinds == {"Continue"}:
            excluded += names
        elif any(isinstance(b, ast.Assign) for b in body):
            included += names
        else:
            rejected += names
        if len(node.orelse) == 1 and isinstance(node.orelse[0], ast.If):
            node = node.orelse[0]
        else:
            else_includes = any(isinstance(b, ast.Assign) for b in node.orelse)
            break
    return excluded, included, rejected, else_includes


CHILD = r'''
import sys, os, json, shutil
spec = json.loads(sys.argv[1])
os.chdir(spec["dir"])
from Cython.Build import cythonize
import Cython.Build.Dependencies as D
import Cython.Compiler.Code as C
assert C.__file__.endswith(".py")
out = []
for step in spec["steps"]:
    for fn, txt in step.get("write", {}).items():
        with open(fn, "w") as f:
            f.write(txt)
    if os.path.exists("m.c"): os.unlink("m.c")
    if os.path.exists("m.cpp"): os.unlink("m.cpp")
    D._dep_tree = None
    kw = dict(step["kwargs"])
    if spec["cache"]:
        kw["cache"] = spec["cache"]
    cythonize("m.pyx", force=True, quiet=True, **kw)
    cf = "m.cpp" if os.path.exists("m.cpp") else "m.c"
    data = open(cf, "rb").read()
    import hashlib
    out.append(hashlib.sha256(data).hexdigest())
print("RESULT " + json.dumps(out))
'''

INLINE_CHILD = r'''
import sys, os, json
import Cython.Compiler.Code as C
assert C.__file__.endswith(".py")
import cython
from Cython.Build.Inline import cython_inline
lib_dir = sys.argv[1]
res = []
for dv in json.loads(sys.argv[2]):
    res.append(cython_inline("cdef int x = a\ncdef int y = b\nreturn x // y", a=-7, b=2, lib_dir=lib_dir, quiet=True, locals={}, globals={},
                             cython_compiler_directives=dv))
print("RESULT " + json.dumps(res))
'''


def run_child(ctx, code, args, timeout=900):
    env = lib._clean_env({"PYTHONPATH": ctx.stage})
    p = subprocess.run([lib.PYTHON, "-c", code] + args, stdout=subprocess.PIPE, stderr=subprocess.PIPE, text=True, env=env, timeout=timeout)
    for line in p.stdout.split("\n"):
        if line.startswith("RESULT "):
            return json.loads(line[7:]), p.stderr
    return None, p.stderr[-1500:]


def run(ctx):
    import Cython
    from Cython.Build.Cache import Cache, FingerprintFlags, file_hash
    from Cython.Compiler.Options import CompilationOptions
    ctx.rule = ("(a) classification of every CompilationOptions attribute extracted from get_fingerprint; (b) pairs of option sets differing in one attribute: "
                "fingerprints differ iff the attribute is not excluded; (c) transitive_fingerprint vs the model's key layout on generated file sets "
                "(0-6 dependencies, .h/.c filtered, permuted order); (d) cythonize(cache=dir) histories changing one input per step, generated C compared "
                "with an uncached compilation; (e) cython.inline called with different compiler directives. non-trivial = a case where exactly one input differs")
    ctx.explanation = ("key_eq_inputs_eq / miss_on_change: equal keys imply equal source, dependencies (any number), flags and every non-excluded option, assuming SHA-256 "
                       "injective and repr injective; ExclusionOK (kernel-checked on the list extracted from the current source) says only output-neutral options are "
                       "excluded. Not covered by a theorem: that the dependency list passed in is complete (C46), the judgement which options are output-neutral "
                       "(the `neutral` list of the model), cache eviction, the gzip/zip store/load path, and the inline cache beyond its key.")
    ctx.assumptions = ["SHA-256 is injective on the inputs that occur (HashOK)", "Python repr of the fingerprint list is injective (renderOpts)"]
    # ---------------- (a) regenerated classification
    cls = extract_classification(ctx.stage)
    if cls is None:
        ctx.obligation("translator: get_fingerprint classification", False, "could not parse get_fingerprint any more")
        excluded = []
    else:
        excluded, included, rejected, else_includes = cls
        ctx.notes["excluded"] = excluded
        ctx.notes["included_explicit"] = included
        ctx.notes["rejected"] = rejected
        ctx.obligation("translator: unknown options are included", else_includes, "the final else branch puts unexpected options into the fingerprint")
        ctx.lean_obligation("ExclusionOK(current exclusion list)",
                            "import CyVerif.Model.C48\nexample : CyVerif.C48.ExclusionOK [%s] = true := by decide\n" % ", ".join(json.dumps(n) for n in excluded),
                            "every option excluded from the fingerprint by the current source is output-neutral: " + ", ".join(excluded))
        m = ctx.drv.batch(["C48 exclusion-ok " + " ".join(excluded)])[0]
        ctx.count("classification")
    # ---------------- (b) get_fingerprint differential
    base = CompilationOptions(language_level=3)
    attrs = sorted(base.__dict__)
    ctx.notes["option_universe"] = attrs
    alt = {"language_level": 2, "cplus": True, "compiler_directives": dict(base.compiler_directives, boundscheck=False),
           "compile_time_env": {"X": 1}, "annotate": True, "emit_linenums": True, "gdb_debug": True, "np_pythran": True,
           "embedded_metadata": {"a": 1}, "c_line_in_traceback": True, "use_listing_file": True, "generate_pxi": True,
           "formal_grammar": True, "evaluate_tree_assertions": True, "relative_path_in_code_position_comments": False,
           "annotate_coverage_xml": "x.xml", "include_path": ["/x"], "working_path": "/w", "output_file": "o.c", "output_dir": "/o",
           "quiet": 1, "verbose": 3, "show_version": 1, "errors_to_stderr": 0, "timestamps": True, "cache": "/c", "depfile": True,
           "build_dir": "/b", "create_extension": len}
    fp0 = base.get_fingerprint()
    for a in attrs:
        if a in ("capi_reexport_cincludes", "common_utility_include_dir"):
            continue
        o2 = CompilationOptions(language_level=3)
        newv = alt.get(a, ("changed", a))
        setattr(o2, a, newv)
        differs = o2.get_fingerprint() != fp0
        model_differs = a not in excluded
        ctx.count("fingerprint/" + ("excluded" if a in excluded else "included"))
        ctx.seen(("fp", a))
        if differs != model_differs:
            ctx.tie_break("D-py get_fingerprint vs model classification", "option %s: fingerprint %s, model says %s" % (a, differs, model_differs), {"option": a})
        if a not in NEUTRAL and not differs:
            ctx.violation("fingerprint-ignores-%s" % a, "CompilationOptions.%s changed from %r to %r but get_fingerprint() is unchanged" % (a, getattr(base, a, None), newv),
                          {"option": a, "new": repr(newv)})
    # ---------------- (c) key layout
    rng = ctx.rng
    d = os.path.join(ctx.scratch, "files")
    os.makedirs(d, exist_ok=True)
    cache = Cache(os.path.join(ctx.scratch, "cc"))
    fl = ctx.drv.batch(["C48 flags %s %d %d" % (l or "None", a, b) for l in (None, "c", "c++") for a in (0, 1) for b in (0, 1)])
    k = 0
    for l in (None, "c", "c++"):
        for a in (0, 1):
            for b in (0, 1):
                real = FingerprintFlags(l, bool(a), bool(b)).get_fingerprint()
                ctx.count("flags")
                if fl[k] != "ok " + real:
                    ctx.tie_break("D-py FingerprintFlags.get_fingerprint vs Flags.render", "%r: model %s impl %s" % ((l, a, b), fl[k], real), {"flags": [l, a, b]})
                k += 1

    def fh(path):
        path = os.path.normpath(path)
        with open(path, "rb") as f:
            return hashlib.sha256(("%d:%s" % (len(path), path)).encode() + f.read()).hexdigest()
    for it in range(ctx.n(60, 600)):
        names = ["s%d.pyx" % it] + ["d%d_%d%s" % (it, j, rng.choice([".pxd", ".pxi", ".h", ".c", ".cpp", ".pyx", ".inc", ".txt", ".PXI", ".hpp", ".py", ""])) for j in range(rng.randrange(0, 7))]
        for n in names:
            with open(os.path.join(d, n), "wb") as f:
                f.write(bytes(rng.randrange(256) for _ in range(rng.randrange(0, 40))))
        paths = [os.path.join(d, n) for n in names]
        deps = paths[1:]
        rng.shuffle(deps)
        flags = FingerprintFlags(rng.choice(["c", "c++"]), rng.random() < 0.3, rng.random() < 0.3)
        real = cache.transitive_fingerprint(paths[0], deps, base, flags)
        text = Cython.__version__ + fh(paths[0]) + "".join(fh(x) for x in sorted(deps) if os.path.splitext(x)[1] not in (".c", ".cpp", ".h")) \
            + flags.get_fingerprint() + base.get_fingerprint()
        modelkey = hashlib.sha256(text.encode()).hexdigest()
        ctx.count("layout")
        ctx.seen(("layout", it))
        if real != modelkey:
            ctx.tie_break("D-py transitive_fingerprint vs key layout", "files %r" % (names,), {"names": names})
        # changing one dependency's content must change the key
        incl = [x for x in deps if os.path.splitext(x)[1] not in (".c", ".cpp", ".h")]
        if incl:
            x = rng.choice(incl)
            with open(x, "ab") as f:
                f.write(b"!")
            file_hash.cache_clear() if hasattr(file_hash, "cache_clear") else None
            try:
                from Cython.Utils import clear_function_caches
                clear_function_caches()
            except Exception:
                pass
            real2 = cache.transitive_fingerprint(paths[0], deps, base, flags)
            if real2 == real:
                ctx.violation("dependency-change-same-key", "appending a byte to dependency %s leaves the fingerprint unchanged" % os.path.basename(x), {"names": names})
    ctx.sample({"layout_example_key": real, "flags": fl[1]})
    # ---------------- (d) cythonize cache histories vs uncached compilation
    PYX = "cimport dep\ninclude 'inc.pxi'\ninclude 'consts.inc'\ndef f(list l, int i):\n    return l[i] + dep.K + INC + CONST\n"
    steps = [
        {"write": {"m.pyx": PYX, "dep.pxd": "cdef enum:\n    K = 1\n", "inc.pxi": "INC = 10\n", "consts.inc": "CONST = 100\n"}, "kwargs": {"language_level": 3}, "what": "initial"},
        {"kwargs": {"language_level": 3}, "what": "unchanged (hit expected)"},
        {"kwargs": {"language_level": 3, "compiler_directives": {"boundscheck": False}}, "what": "compiler_directives boundscheck=False"},
        {"kwargs": {"language_level": 3, "compiler_directives": {"boundscheck": False, "wraparound": False}}, "what": "compiler_directives wraparound=False"},
        {"kwargs": {"language_level": 3}, "what": "directives back to default"},
        {"write": {"dep.pxd": "cdef enum:\n    K = 2\n"}, "kwargs": {"language_level": 3}, "what": "cimported pxd changed"},
        {"write": {"inc.pxi": "INC = 11\n"}, "kwargs": {"language_level": 3}, "what": "included file changed"},
        {"write": {"consts.inc": "CONST = 101\n"}, "kwargs": {"language_level": 3}, "what": "included file with an unusual extension changed"},
        {"kwargs": {"language_level": 2}, "what": "language_level 2"},
        {"write": {"m.pyx": PYX + "\n# c\ndef g(): return 1\n"}, "kwargs": {"language_level": 3}, "what": "source changed"},
        {"kwargs": {"language_level": 3, "language": "c++"}, "what": "language c++"},
        {"kwargs": {"language_level": 3, "compile_time_env": {"DBG": 1}}, "what": "compile_time_env"},
        {"kwargs": {"language_level": 3, "emit_linenums": True}, "what": "emit_linenums"},
    ]
    if getattr(ctx, "replay_case", None) and "steps" in ctx.replay_case.get("case", {}):
        steps = ctx.replay_case["case"]["steps"]
    import concurrent.futures as cf
    da, db = os.path.join(ctx.scratch, "A"), os.path.join(ctx.scratch, "B")
    os.makedirs(da), os.makedirs(db)
    def chain(dirname, cache):
        out, err = [], ""
        for st in steps:                      # one fresh process per cythonize run (the usual way it is used)
            r, err = run_child(ctx, CHILD, [json.dumps({"dir": dirname, "cache": cache, "steps": [st]})])
            if r is None:
                return None, err
            out += r
        return out, err
    with cf.ThreadPoolExecutor(3) as ex:
        fa = ex.submit(chain, da, os.path.join(ctx.scratch, "cythonize-cache"))
        fb = ex.submit(chain, db, None)
        # the same history inside ONE process (build scripts / notebooks calling cythonize repeatedly)
        dc = os.path.join(ctx.scratch, "C")
        os.makedirs(dc)
        fc = ex.submit(run_child, ctx, CHILD, [json.dumps({"dir": dc, "cache": os.path.join(ctx.scratch, "cythonize-cache-sp"), "steps": steps})])
        (ra, ea), (rb, eb), (rc_, ec) = fa.result(), fb.result(), fc.result()
    if rc_ is not None and rb is not None:
        for k, st in enumerate(steps):
            ctx.count("cythonize-history-same-process")
            if rc_[k] != rb[k] and (ra is None or ra[k] == rb[k]):
                ctx.violation("same-process-file-hash-memoised", "second cythonize(cache=...) call in ONE process, step %d (%s): stale C file (Cache.file_hash is memoised per file name)" % (k, st["what"]),
                              {"steps": steps[:k + 1], "same_process": True})
    if ra is None or rb is None:
        ctx.tie_break("cythonize history run", "child failed: " + (ea if ra is None else eb)[-600:], {"steps": steps})
    else:
        for k, st in enumerate(steps):
            ctx.count("cythonize-history")
            ctx.seen(("hist", k), nontrivial=k > 0)
            if ra[k] != rb[k]:
                ctx.violation("stale-cache-%s" % st["what"].split()[0], "cythonize(cache=...) step %d (%s): generated C differs from an uncached compilation (stale cache hit)" % (k, st["what"]),
                              {"steps": steps[:k + 1]})
        ctx.sample({"cythonize_history": [s["what"] for s in steps], "c_file_sha256_cached": ra[:3], "uncached": rb[:3]})
    # ---------------- (e) inline cache
    dirs = [{"cdivision": True}, {"cdivision": False}, {"cdivision": True}]
    r, err = run_child(ctx, INLINE_CHILD, [os.path.join(ctx.scratch, "inline"), json.dumps(dirs)], timeout=900)
    if r is None:
        ctx.tie_break("cython.inline run", "child failed: " + err[-600:], {"directives": dirs})
    else:
        exp = [-3, -4, -3]
        ctx.count("inline", 3)
        ctx.seen(("inline",))
        ctx.sample({"inline_results": r, "expected": exp})
        if r != exp:
            ctx.violation("inline-cache-ignores-directives", "cython.inline('x // y', a=-7, b=2) with cdivision True/False/True returned %r, fresh compilations give %r" % (r, exp),
                          {"directives": dirs, "got": r})

"""C45 run-time pieces: the recording child, the independent bracket checker (oracle), stream conversions."""
import json
import os
import subprocess

import lib

RECORDER = r'''
import sys, json, importlib.util, importlib.machinery, os
spec = json.load(open(sys.argv[1]))
sys.path.insert(0, spec["cbdir"])
ev = []
files = set(spec["files"])
def keep(frame):
    return os.path.basename(frame.f_code.co_filename) in files
def prof(frame, event, arg):
    if event[0] == 'c' and event[1] == '_':
        return
    if keep(frame):
        ev.append([event, frame.f_code.co_name, frame.f_lineno, frame.f_code.co_firstlineno])
def tr(frame, event, arg):
    if keep(frame):
        if event != 'exception':
            ev.append([event, frame.f_code.co_name, frame.f_lineno, frame.f_code.co_firstlineno])
    return tr
def tr_none(frame, event, arg):
    if keep(frame):
        ev.append([event, frame.f_code.co_name, frame.f_lineno, frame.f_code.co_firstlineno])
    return None
def load(path, name):
    if path.endswith('.py'):
        sp = importlib.util.spec_from_file_location(name, path)
    else:
        sp = importlib.util.spec_from_file_location(name, path, loader=importlib.machinery.ExtensionFileLoader(name, path))
    m = importlib.util.module_from_spec(sp)
    sys.modules[name] = m
    sp.loader.exec_module(m)
    return m
def hook(mode, on):
    if mode == 'x':
        return
    if mode == 'p':
        sys.setprofile(prof if on else None)
    else:
        sys.settrace(({'t': tr, 'n': tr_none}[mode]) if on else None)
def drive_fn(f, args):
    try:
        f(*args)
        return 'ok'
    except BaseException as e:
        return 'err ' + type(e).__name__
def drive_gen(f, first):
    g = f()
    out = 'done'
    try:
        if first == 'close':
            g.close()
        elif first == 'throw':
            g.throw(ValueError('t'))
        else:
            v = next(g)
            while True:
                if v == 0:
                    v = next(g)
                elif v == 1:
                    v = g.throw(ValueError('t'))
                else:
                    g.close()
                    break
    except StopIteration:
        out = 'stop'
    except BaseException as e:
        out = 'err ' + type(e).__name__
    del g
    return out
class Res(list):
    def append(self, x):
        with open(sys.argv[2], "a") as fh:
            fh.write(json.dumps(x) + "\n")
res = Res()
mode = spec["mode"]
if spec.get("import_traced"):
    ev.clear()
    hook(mode, True)
    try:
        try:
            mod = load(spec["path"], spec["modname"]); o = 'ok'
        except BaseException as e:
            mod = None; o = 'err ' + type(e).__name__
    finally:
        hook(mode, False)
    res.append({"case": "<import>", "out": o, "ev": list(ev)})
else:
    mod = load(spec["path"], spec["modname"])
sm = spec.get("sysmon")
for c in spec["cases"]:
    target = mod
    for part in c["name"].split('.'):
        target = getattr(target, part)
        if isinstance(target, type):
            target = target()
    ev.clear()
    hook(c.get("mode", mode), True)
    try:
        if c["kind"] == 'gen':
            o = drive_gen(target, c.get("first", "next"))
        else:
            o = drive_fn(target, tuple(c.get("args", ())))
    finally:
        hook(c.get("mode", mode), False)
    res.append({"case": c["name"], "out": o, "ev": list(ev)})
if sm:
    # what a sys.monitoring tool sees of a compiled function on this CPython
    import sys as _s
    mon = _s.monitoring; seen = []
    mon.use_tool_id(3, "c45")
    mon.register_callback(3, mon.events.PY_START, lambda code, off: seen.append(code.co_name))
    mon.set_events(3, mon.events.PY_START)
    try:
        getattr(mod, sm)()
    except BaseException:
        pass
    mon.set_events(3, 0); mon.free_tool_id(3)
    res.append({"case": "<sysmon>", "out": "ok", "ev": [n for n in seen if n == sm]})
with open(sys.argv[2], "a") as fh:
    fh.write("END\n")
'''


def _record_once(ctx, path, modname, mode, cases, files, cbdir, import_traced, sysmon, tag):
    rec = os.path.join(ctx.scratch, "c45_recorder.py")
    if not os.path.exists(rec):
        with open(rec, "w") as f:
            f.write(RECORDER)
    specp = os.path.join(ctx.scratch, "spec_%s_%s%s.json" % (modname, mode, tag))
    outp = specp + ".out"
    if os.path.exists(outp):
        os.unlink(outp)
    json.dump({"path": path, "modname": modname, "mode": mode, "cases": cases, "files": sorted(files), "cbdir": cbdir,
               "import_traced": import_traced, "sysmon": sysmon}, open(specp, "w"))
    env = lib._clean_env({"PYTHONPATH": ctx.stage})
    try:
        p = subprocess.run([lib.PYTHON, rec, specp, outp], stdout=subprocess.PIPE, stderr=subprocess.PIPE, text=True,
                           env=env, timeout=300)
        rc, err = p.returncode, p.stderr[-300:]
    except subprocess.TimeoutExpired:
        rc, err = "timeout", ""
    lines = open(outp).read().split("\n") if os.path.exists(outp) else []
    done = [json.loads(l) for l in lines if l and l != "END"]
    return done, ("END" in lines), "rc=%s %s" % (rc, err)


def record(ctx, path, modname, mode, cases, files, cbdir, import_traced=False, sysmon=None, tag=""):
    """Runs the cases in a child.  Returns list of {"case","out","ev"} (ev None: the case kills the process even
    without any hook - not a tracing matter) or a string 'crash …' (the case dies only under the hook)."""
    extra = 1 if import_traced else 0
    results, todo = [], list(cases)
    first = True
    while True:
        done, ended, why = _record_once(ctx, path, modname, mode, todo, files, cbdir, import_traced and first,
                                        sysmon if first else None, tag)
        if first and import_traced and not done:
            return "crash at import " + why
        if ended:
            return results + done
        k = len(done) - (extra if first else 0)
        if k >= len(todo):
            return results + done          # died in the sys.monitoring epilogue
        bad = todo[k]
        d2, e2, _ = _record_once(ctx, path, modname, "x", [dict(bad, mode="x")], files, cbdir, False, None, tag + "x")
        if e2:
            return "crash only under the hook: case %s %s" % (bad["name"], why)
        ctx.notes["case kills the process even WITHOUT a hook (not a tracing matter), skipped: %s.%s" % (modname, bad["name"])] = why[:80]
        results += done + [{"case": bad["name"], "out": "crash-untraced", "ev": None}]
        todo = todo[k + 1:]
        first = False
        if not todo:
            return results


# ---------------------------------------------------------------------------------------------------
# the oracle: the property as an independent checker of a recorded stream.
# Written as a recursive-descent recogniser of the grammar
#     stream := frame* ;  frame := call(f) item* return(f) ;  item := line(f, n in range(f)) | frame
# (the Lean `go` is an explicit-stack loop; the two are compared on every recorded stream).


def oracle_check(events, ranges):
    """events: list of (kind in call/return/line, name, line).  ranges: name -> (first, last).
    Returns None if the stream is well bracketed, else (position, reason)."""
    pos = 0
    n = len(events)

    def frame():
        nonlocal pos
        kind, name, _ = events[pos]
        pos += 1
        first, last = ranges.get(name, (0, 0))
        while True:
            if pos >= n:
                return (pos, "call of %s never closed" % name)
            k, nm, ln = events[pos]
            if k == "call":
                r = frame()
                if r:
                    return r
            elif k == "line":
                if nm != name:
                    return (pos, "line event of %s inside the frame of %s" % (nm, name))
                if not (first <= ln <= last):
                    return (pos, "line %d outside %s [%d..%d]" % (ln, name, first, last))
                pos += 1
            else:
                if nm != name:
                    return (pos, "return of %s closes the frame of %s" % (nm, name))
                pos += 1
                return None

    while pos < n:
        k, nm, ln = events[pos]
        if k != "call":
            return (pos, "%s event of %s outside any frame" % (k, nm))
        r = frame()
        if r:
            return r
    return None


def model_to_legacy(tokens, names):
    """Lean event tokens -> [(kind, name, line)] as the legacy hooks show them"""
    out = []
    for t in tokens:
        k = t[0]
        fid, a, _b = t[1:].split(":")
        nm = names[int(fid)]
        if k in "sm":
            out.append(("call", nm, int(a)))
        elif k == "l":
            out.append(("line", nm, int(a)))
        else:
            out.append(("return", nm, 0))
    return out


def recorded_to_legacy(ev):
    out = []
    for e, nm, ln, first in ev:
        if e == "call":
            out.append(("call", nm, first))
        elif e == "line":
            out.append(("line", nm, ln))
        elif e == "return":
            out.append(("return", nm, 0))
    return out


def legacy_to_tokens(evs, fids, ranges):
    out = []
    for k, nm, ln in evs:
        fid = fids.get(nm, 9999)
        if k == "call":
            first, last = ranges.get(nm, (ln, ln))
            out.append("s%d:%d:%d" % (fid, first, last))
        elif k == "line":
            out.append("l%d:%d:0" % (fid, ln))
        else:
            out.append("r%d:0:0" % fid)
    return out


def drop_fuzzy(evs, fuzzy):
    return [e for e in evs if not (e[0] == "line" and e[2] in fuzzy and e[1] not in ("cb_ok", "cb_raise", "__enter__", "__exit__"))]


def brief(evs, cap=40):
    s = " ".join("%s:%s:%d" % (k[0], nm, ln) for k, nm, ln in evs[:cap])
    return s + (" …" if len(evs) > cap else "")

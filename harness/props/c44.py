"""C44 — tracebacks and code positions point at the right source.

Legs (all run on every check):
  G     thresholds of LineTable.encode_single_position and the carried line are re-extracted from the staged
        source (ast), `Params.WF` is kernel-checked for them; the remaining (format) constants are compared.
  D-py  staged `LineTable.build_line_table` vs the Lean encoder model (driver) on generated (first, positions);
        oracle = CPython itself: `code.replace(co_linetable=…, co_firstlineno=…).co_positions()` / `.co_lines()`
        of the table the REAL encoder produced must give back the positions (for inputs of the documented domain).
  D-dec Lean decoder / line scanner vs CPython `co_positions()` / `co_lines()` on the encoder's tables and on
        synthetic tables using every entry form (codes 0..15, lengths 1..8, negative line deltas, 6-chunk varints).
  I-art modules compiled with the staged compiler: positions handed to `build_line_table` by `CodeObjectNode`
        are in the documented domain, `func.__code__.co_positions()` of the compiled functions equals them, and
        traceback (function, file, line) sequences equal those of CPython running the same source (differential only).
"""
import ast
import concurrent.futures as cf
import hashlib
import json
import os
import subprocess
import sys

import cybuild
import lib

INT_MAX = 2 ** 31 - 1
PINNED = (80, 16, 3, 128, 128, 0)

FORMAT_CONSTANTS = {
    # int literals in the function bodies, sorted, thresholds of encode_single_position removed
    "encode_single_position": [0, 0, 0, 1, 1, 1, 14],
    "encode_location_start": [0, 3, 128],
    "encode_location_short": [0, 3, 3, 4, 7, 128],
    "encode_location_oneline": [0, 3, 10, 128],
    "encode_varint": [0, 0, 0, 6, 63, 64, 64],
    "build_line_table": [],
}


# --------------------------------------------------------------------------
# G: translator  LineTable.py -> Params


class TranslateError(Exception):
    pass


_MODULE_CONSTS = {}


def _const(node):
    """int literal, or a module-level NAME = <int literal>"""
    if isinstance(node, ast.Constant) and isinstance(node.value, int) and not isinstance(node.value, bool):
        return node.value
    if isinstance(node, ast.Name) and node.id in _MODULE_CONSTS:
        return _MODULE_CONSTS[node.id]
    return None


def _bounds(test):
    """upper bounds `expr < CONST` (as unparse(expr) -> CONST), lower bounds `CONST <= expr`, equalities."""
    if not (isinstance(test, ast.BoolOp) and isinstance(test.op, ast.And)):
        raise TranslateError("condition is not an `and` chain: " + ast.dump(test)[:120])
    up, low, eq = {}, {}, {}
    for cmp_ in test.values:
        if not isinstance(cmp_, ast.Compare):
            raise TranslateError("non-comparison in condition")
        items = [cmp_.left] + list(cmp_.comparators)
        for a, op, b in zip(items, cmp_.ops, items[1:]):
            ka, kb = ast.unparse(a), ast.unparse(b)
            ca, cb = _const(a), _const(b)
            if isinstance(op, ast.Lt) and cb is not None:
                up[ka] = cb
            elif isinstance(op, ast.LtE) and cb is not None:
                up[ka] = cb + 1
            elif isinstance(op, ast.Gt) and ca is not None:
                up[kb] = ca
            elif isinstance(op, ast.GtE) and ca is not None:
                up[kb] = ca + 1
            elif isinstance(op, ast.LtE) and ca is not None:
                low[kb] = ca
            elif isinstance(op, ast.Lt) and ca is not None:
                low[kb] = ca + 1
            elif isinstance(op, ast.GtE) and cb is not None:
                low[ka] = cb
            elif isinstance(op, ast.Eq) and cb is not None:
                eq[ka] = cb
            elif isinstance(op, ast.Eq) and ca is not None:
                eq[kb] = ca
            else:
                raise TranslateError("unsupported comparison " + ast.unparse(cmp_))
    return up, low, eq


def _calls(node):
    return {n.func.id for n in ast.walk(node) if isinstance(n, ast.Call) and isinstance(n.func, ast.Name)}


def extract_params(path):
    tree = ast.parse(open(path).read())
    funcs = {n.name: n for n in tree.body if isinstance(n, ast.FunctionDef)}
    _MODULE_CONSTS.clear()
    for n in tree.body:
        if (isinstance(n, ast.Assign) and len(n.targets) == 1 and isinstance(n.targets[0], ast.Name)
                and isinstance(n.value, ast.Constant) and isinstance(n.value.value, int)):
            _MODULE_CONSTS[n.targets[0].id] = n.value.value
    for name in FORMAT_CONSTANTS:
        if name not in funcs:
            raise TranslateError("function %s not found" % name)
    f = funcs["encode_single_position"]
    short_if = one_if = outer_if = None
    for n in ast.walk(f):
        if isinstance(n, ast.If):
            c = set()
            for st in n.body:
                if not isinstance(st, ast.If):
                    c |= _calls(st)
            if "encode_location_short" in c and short_if is None:
                short_if = n
            elif "encode_location_oneline" in c and one_if is None:
                one_if = n
            elif ast.unparse(n.test) in ("end_lineno == start_lineno", "start_lineno == end_lineno") and outer_if is None:
                outer_if = n
    if short_if is None or one_if is None or outer_if is None:
        raise TranslateError("one-line guard / short / one-line branches not found")
    if outer_if.body != [short_if] or outer_if.orelse or short_if.orelse != [one_if] or one_if.orelse:
        raise TranslateError("branch nesting of encode_single_position changed")
    for br in (short_if, one_if):
        if not (isinstance(br.body[-1], ast.Return) and isinstance(br.body[-1].value, ast.Name)
                and br.body[-1].value.id in ("end_lineno", "start_lineno")):
            raise TranslateError("short / one-line branch does not return the entry's line")
    up, low, eq = _bounds(short_if.test)
    width = "end_column - start_column"
    if eq.get("last_lineno_delta") != 0 or low.get(width) != 0 or "start_column" not in up or width not in up:
        raise TranslateError("short-form condition has a different shape: " + ast.unparse(short_if.test))
    short_col, short_width = up["start_column"], up[width]
    up, low, eq = _bounds(one_if.test)
    if low.get("last_lineno_delta") != 0 or not all(k in up for k in ("last_lineno_delta", "start_column", "end_column")):
        raise TranslateError("one-line condition has a different shape: " + ast.unparse(one_if.test))
    one_delta, one_s, one_e = up["last_lineno_delta"], up["start_column"], up["end_column"]
    last = f.body[-1]
    if not (isinstance(last, ast.Return) and isinstance(last.value, ast.Name) and last.value.id in ("end_lineno", "start_lineno")):
        raise TranslateError("long form does not end with `return end_lineno|start_lineno`")
    ret_start = 1 if last.value.id == "start_lineno" else 0
    params = (short_col, short_width, one_delta, one_s, one_e, ret_start)
    if any(p < 0 for p in params):
        raise TranslateError("negative threshold")
    consts = {}
    for name in FORMAT_CONSTANTS:
        vals = []
        for st in funcs[name].body:
            for n in ast.walk(st):
                if isinstance(n, ast.Constant) and isinstance(n.value, int) and not isinstance(n.value, bool):
                    vals.append(n.value)
        consts[name] = sorted(vals)
    for t in params[:5]:
        if t in consts["encode_single_position"]:
            consts["encode_single_position"].remove(t)
    body_hash = hashlib.sha256("\n".join(ast.dump(funcs[n]) for n in sorted(FORMAT_CONSTANTS)).encode()).hexdigest()[:8]
    return params, consts, body_hash


# --------------------------------------------------------------------------
# reference side


_CODE = (lambda: None).__code__


def cpy_decode(table, first):
    co = _CODE.replace(co_linetable=bytes(table), co_firstlineno=first)
    return list(co.co_positions()), list(co.co_lines())


def wellformed(b):
    """Independent structural check: CPython's reader stays inside the table and inside defined C behaviour
    (every entry starts with bit 7 set, no other byte has it, varints have at most 6 chunks)."""
    i, n = 0, len(b)
    while i < n:
        x = b[i]
        if not x & 128:
            return False
        code = (x >> 3) & 15
        i += 1
        if code == 15:
            nv, nb = 0, 0
        elif code == 14:
            nv, nb = 4, 0
        elif code == 13:
            nv, nb = 1, 0
        elif code >= 10:
            nv, nb = 0, 2
        else:
            nv, nb = 0, 1
        for _ in range(nv):
            k = 0
            while True:
                if i >= n or b[i] & 128:
                    return False
                c = b[i]
                i += 1
                k += 1
                if not c & 64:
                    break
            if k > 6:
                return False
        for _ in range(nb):
            if i >= n or b[i] & 128:
                return False
            i += 1
    return True


def in_dom(first, ps):
    if first < 0:
        return False
    last = first
    for sl, el, sc, ec in ps:
        if not (last <= sl <= el <= INT_MAX and 0 <= sc < INT_MAX and 0 <= ec < INT_MAX):
            return False
        last = sl
    return True


def inner_single(ps):
    return all(p[0] == p[1] for p in ps[:-1])


def expected_lines(ps):
    out = []
    for i, p in enumerate(ps):
        if out and out[-1][2] == p[0]:
            out[-1] = (out[-1][0], 2 * i + 2, p[0])
        else:
            out.append((2 * i, 2 * i + 2, p[0]))
    return out


def predict_carried_end(first, ps):
    """What CPython must decode if the encoder measures line deltas from the END line of the previous entry."""
    last, cline, out = first, first, []
    for sl, el, sc, ec in ps:
        if sl < last:
            return "assert"
        cline += sl - last
        out.append((cline, cline + (el - sl), sc, ec))
        last = el
    return out


def fmt_ps(ps):
    return ";".join("%d,%d,%d,%d" % tuple(p) for p in ps) if ps else "-"


def parse_locs(s):
    if s == "-":
        return []
    return [tuple(None if x == "N" else int(x) for x in e.split(",")) for e in s.split(";")]


def merge_lines(entries):
    """Lean `lines` output [(line|None, len)] -> co_lines() triples."""
    out, off = [], 0
    for line, ln in entries:
        end = off + 2 * ln
        if out and out[-1][2] == line:
            out[-1] = (out[-1][0], end, line)
        else:
            out.append((off, end, line))
        off = end
    return out


# --------------------------------------------------------------------------
# generators


def form_of(params, last, p):
    sl, el, sc, ec = p
    d = sl - last
    if el == sl and d == 0 and sc < params[0] and 0 <= ec - sc < params[1]:
        return "short"
    if el == sl and 0 <= d < params[2] and sc < params[3] and ec < params[4]:
        return "oneline"
    return "long" if el == sl else "long-multiline"


def gen_cases(ctx, params):
    rng = ctx.rng
    cases = []  # (tag, first, ps)
    thr = sorted(set([0, 1, 2, 7, 8, 9, 15, 16, 17, 63, 64, 65, 127, 128, 129, 255, 256] +
                     [t + k for t in params[:5] for k in (-2, -1, 0, 1, 2) if t + k >= 0]))
    # (a) exhaustive grid around every threshold, as 2nd entry after a plain entry and as 1st entry
    cols = sorted(set(list(range(0, 140)) + [params[0] + 8 * k for k in range(-2, 8)] + [255, 256, 4095, 4096]))
    widths = sorted(set(list(range(0, 20)) + [params[1] + k for k in (-1, 0, 1)] + [47, 48, 63, 64, 127, 128]))
    step = 1 if not ctx.quick else 3
    for sc in cols[::1]:
        for w in widths[::step] if sc % 8 not in (0, 7) else widths:
            for d in (0, 1, 2, 3, 4):
                if ctx.quick and d in (1, 4) and sc % 5:
                    continue
                cases.append(("grid", 7, [(7, 7, 3, 5), (7 + d, 7 + d, sc, sc + w)]))
            cases.append(("grid1", 9, [(9, 9, sc, sc + w)]))
    # one-line form with end < start and columns around the one-line thresholds
    for sc in thr:
        for ec in thr:
            for d in (0, 1, 2, 3):
                cases.append(("grid-cols", 3, [(3 + d, 3 + d, sc, ec)]))
    # (b) varint chunk boundaries in each of the four long-form fields
    vb = sorted(set([0, 1, 31, 32, 62, 63, 64, 65, 127, 128, 4094, 4095, 4096, 4097, 2 ** 18 - 1, 2 ** 18, 2 ** 18 + 1,
                     2 ** 24 - 1, 2 ** 24, 2 ** 30 - 1, 2 ** 30, 2 ** 30 + 1, INT_MAX - 2, INT_MAX - 1, INT_MAX]))
    for v in vb:
        cases.append(("varint-delta", 1, [(1 + v, 1 + v, 200, 300)]))
        cases.append(("varint-delta", 0, [(v, v, 0, 0), (v, v, 1, 1)]))
        cases.append(("varint-span", 1, [(1, 1 + v, 2, 3)]))
        cases.append(("varint-col", 1, [(1, 1, v, v)]))
        cases.append(("varint-col", 1, [(1, 2, 5, v)]))
        cases.append(("varint-col", 1, [(4, 4, v, 5)]))
        for w in vb[:12]:
            cases.append(("varint-mix", 5, [(5 + w, 5 + w + v, v, w), (5 + w + v, 5 + w + v, w, v)]))
    # first line values
    for first in (0, 1, 2, 1000, 2 ** 20, INT_MAX - 3, INT_MAX):
        cases.append(("first", first, [(first, first, 0, 1), (min(first + 1, INT_MAX), min(first + 1, INT_MAX), 4, 9)]))
    cases.append(("empty", 5, []))
    # (c) random lists
    def rnd_col():
        k = rng.random()
        if k < 0.5:
            return rng.randrange(0, 100)
        if k < 0.8:
            return rng.choice(thr) if rng.random() < 0.5 else rng.randrange(60, 140)
        if k < 0.95:
            return rng.randrange(0, 5000)
        return min(rng.choice(vb), INT_MAX - 20)

    def rnd_list(n, inner_multi):
        first = rng.choice((0, 1, 1, 1, 5, 100, 65536, rng.randrange(1, 10 ** 6)))
        line = first + rng.choice((0, 0, 1, 3))
        ps = []
        for i in range(n):
            line += rng.choice((0, 0, 0, 0, 1, 1, 1, 2, 2, 3, 4, 5, 31, 32, 63, 64, 100, 5000))
            sc = rnd_col()
            k = rng.random()
            if k < 0.6:
                ec = sc + rng.randrange(0, 20)
            elif k < 0.8:
                ec = rnd_col()
            else:
                ec = sc + rng.choice((15, 16, 17, 1, 0))
            span = 0
            if (inner_multi or i == n - 1) and rng.random() < (0.3 if inner_multi else 0.5):
                span = rng.choice((1, 1, 2, 3, 63, 64, 500))
            ps.append((line, line + span, sc, ec))
        return first, ps

    for _ in range(ctx.n(6000, 120000)):
        n = rng.choice((1, 2, 2, 3, 3, 4, 5, 8, 13, 30))
        inner = rng.random() < 0.2
        first, ps = rnd_list(n, inner)
        cases.append(("random-multi" if inner else "random", first, ps))
    # (d) long functions
    for _ in range(ctx.n(4, 40)):
        first, ps = rnd_list(rng.choice((500, 2000, 6000)), False)
        cases.append(("long-function", first, ps))
    # (f) lists shaped like ParseTreeTransforms._build_positions output
    for _ in range(ctx.n(300, 5000)):
        first = rng.randrange(1, 400)
        pts = sorted({(first + rng.choice((0, 0, 1, 1, 2, 3, 7, 70)) * rng.randrange(0, 4) + rng.randrange(0, 3), rng.randrange(0, 160))
                      for _ in range(rng.randrange(1, 40))})
        ps = []
        for i, (ln, col) in enumerate(pts):
            nxt = pts[i + 1] if i + 1 < len(pts) else None
            ps.append((ln, ln, col, nxt[1] if nxt and nxt[0] == ln else col + 1))
        cases.append(("compiler-shaped", first, ps))
    # (e) outside the documented domain: only model == implementation is demanded
    bad = [(1, [(1, 2, -1, 0)]), (1, [(1, 1, -1, 0)]), (1, [(1, 1, -1, -1)]), (5, [(5, 5, 100, -1)]), (5, [(5, 5, 200, -1)]),
           (5, [(5, 3, 3, 2)]), (5, [(5, 6, -2, 2)]), (5, [(4, 4, 0, 1)]), (1, [(3, 3, 0, 1), (2, 2, 0, 1)]),
           (-5, [(-3, -3, 1, 2)]), (-5, [(-1, -1, 1, 2)]), (1, [(2 ** 31 + 5, 2 ** 31 + 5, 1, 2)]), (1, [(2 ** 32 + 5, 2 ** 32 + 5, 1, 2)]),
           (1, [(1, 1, 2 ** 31 - 1, 2 ** 31 - 1)]), (1, [(1, 1, 2 ** 40, 2 ** 40 + 3)]), (1, [(1, 1, 5, -3)]), (1, [(1, 1, -9, -3)]),
           (1, [(1, 1, -9, 3)]), (1, [(2, 2, 130, -1)]), (1, [(1, 4, 3, -1)]), (1, [(1, 4, 3, -2)]), (10 ** 30, [(10 ** 30, 10 ** 30, 1, 2)])]
    for first, ps in bad:
        cases.append(("outside-domain", first, ps))
    for _ in range(ctx.n(1500, 20000)):
        first, ps = rnd_list(rng.choice((1, 2, 3, 5)), True)
        i = rng.randrange(len(ps))
        p = list(ps[i])
        k = rng.randrange(6)
        if k == 0:
            p[2] = -rng.randrange(1, 4)
        elif k == 1:
            p[3] = -rng.randrange(1, 4)
        elif k == 2:
            p[1] = p[0] - rng.randrange(1, 3)
        elif k == 3:
            p[0] = p[1] = first - rng.randrange(1, 3)
        elif k == 4:
            p[rng.randrange(4)] += 2 ** rng.choice((31, 32, 36, 40))
        else:
            p[2] = -1
            p[1] = p[0] + 1
        ps[i] = tuple(p)
        cases.append(("outside-domain-random", first, ps))
    return cases


def gen_tables(ctx):
    """Well-formed synthetic tables using every entry form (for the decoder tie)."""
    rng = ctx.rng

    def varint(v):
        out = []
        while v >= 64:
            out.append(64 | (v & 63))
            v >>= 6
        out.append(v)
        return out

    def rnd_val():
        return rng.choice((0, 1, 2, 5, 63, 64, 100, 4095, 4096, 2 ** 24, 2 ** 30, INT_MAX - 1, INT_MAX, rng.randrange(0, 2 ** 31)))

    tables = []
    for _ in range(ctx.n(3000, 60000)):
        first = rng.choice((1, 10, 1000, 2 ** 20))
        t = []
        line = first
        for _ in range(rng.randrange(0, 9)):
            code = rng.choice((0, 1, 5, 9, 10, 11, 12, 13, 14, 14, 15, rng.randrange(0, 16)))
            ln = rng.choice((0, 0, 0, 1, 2, 7))
            t.append(128 | (code << 3) | ln)
            if code == 15:
                pass
            elif code in (13, 14):
                d = rng.choice((0, 1, 2, 3, 64, 5000, -1, -2, -line, rng.randrange(-line, 2 ** 20)))
                if not (0 <= line + d <= INT_MAX):
                    d = 0
                line += d
                t += varint((-d << 1) | 1 if d < 0 else d << 1)
                if code == 14:
                    a = rng.choice((0, 0, 1, 2, 64, 4096))
                    if line + a > INT_MAX:
                        a = 0
                    t += varint(a) + varint(rnd_val()) + varint(rnd_val())
            elif code >= 10:
                line += code - 10
                t += [rng.randrange(0, 128), rng.randrange(0, 128)]
            else:
                t.append(rng.randrange(0, 128))
        tables.append((first, t))
    # non-canonical but defined: padded varints with up to 6 chunks
    tables.append((1, [0xf0, 64, 64, 64, 64, 64, 0, 0, 65, 0, 2]))
    tables.append((1, [0xe8, 64 | 3, 0]))
    tables.append((7, [0xf8, 0x80, 0x11]))
    return tables


# --------------------------------------------------------------------------
# legs


def run_encoder_tie(ctx, params, cases, LT):
    ptok = ",".join(str(x) for x in params)
    lines = []
    for tag, first, ps in cases:
        lines.append("C44 enc %s %d %s" % (ptok, first, fmt_ps(ps)))
        lines.append("C44 dom %d %s" % (first, fmt_ps(ps)))
    if not lines:
        return [], []
    mout = ctx.drv.batch(lines)
    dec_lines, dec_meta = [], []
    nviol = [0]
    for k, (tag, first, ps) in enumerate(cases):
        model, mdom = mout[2 * k], mout[2 * k + 1]
        try:
            s = LT.build_line_table(list(ps), first)
            table = [ord(c) for c in s]
            impl = "ok " + (",".join(map(str, table)) if table else "-")
        except Exception as e:  # an exception is an observation
            table = None
            impl = "err " + type(e).__name__
        dom = in_dom(first, ps)
        ctx.count(tag + ("" if dom else "/outside"))
        forms = set()
        if dom:
            last = first
            for p in ps:
                forms.add(form_of(params, last, p))
                last = p[0]
            for fm in forms:
                ctx.dist["form/" + fm] = ctx.dist.get("form/" + fm, 0) + 1
        ctx.seen((first, tuple(ps)), nontrivial=dom and len(ps) > 0)
        if k % 997 == 0:
            ctx.sample({"first": first, "positions": ps[:6], "impl": impl[:80], "model": model[:80], "in_domain": dom})
        rep = {"first": first, "positions": [list(p) for p in ps], "params": list(params)}
        if mdom != "ok " + ("true" if dom else "false"):
            ctx.tie_break("Lean Dom vs harness in_dom", "first=%d ps=%s lean=%s python=%s" % (first, ps[:4], mdom, dom), rep)
        if model != impl:
            ctx.tie_break("D-py LineTable.build_line_table vs CyVerif.C44.buildLineTable",
                          "first=%d ps=%s: model %s impl %s" % (first, ps[:4], model[:120], impl[:120]), rep)
        if not dom:
            continue
        # ---- oracle leg: the property on the real code
        if table is None:
            if impl == "err AssertionError" and predict_carried_end(first, ps) == "assert":
                key = "carried-end-line-assert"
            else:
                key = "rejects-domain-input-" + impl[4:]
            ctx.violation(key, "build_line_table(%s, %d) raises %s for a start-sorted list of the documented domain"
                          % (ps[:4], first, impl[4:]), rep)
            continue
        if any(b > 255 for b in table):
            ctx.violation("non-byte-in-table", "build_line_table(%s, %d) contains code point > 255" % (ps[:4], first), rep)
            continue
        if not wellformed(table):
            ctx.violation("malformed-table", "build_line_table(%s, %d) = %s is not a well-formed location table"
                          % (ps[:4], first, table[:24]), rep)
            continue
        pos, lns = cpy_decode(table, first)
        exp = [tuple(p) for p in ps]
        if pos != exp:
            if pos == predict_carried_end(first, ps) and not inner_single(ps):
                key = "carried-end-line"
            else:
                key = "positions-mismatch"
                if nviol[0] < 3:
                    nviol[0] += 1
                    first, ps2 = shrink(LT, first, ps)
                    rep = {"first": first, "positions": [list(p) for p in ps2], "params": list(params)}
                    table2 = [ord(c) for c in LT.build_line_table(list(ps2), first)]
                    pos, exp = cpy_decode(table2, first)[0], [tuple(p) for p in ps2]
            i = next((j for j in range(min(len(pos), len(exp))) if pos[j] != exp[j]), min(len(pos), len(exp)))
            ctx.violation(key, "co_positions() of build_line_table(%s, %d): entry %d is %s, recorded %s (%d decoded / %d recorded)"
                          % (exp[max(0, i - 1):i + 1], first, i, pos[i] if i < len(pos) else None,
                             exp[i] if i < len(exp) else None, len(pos), len(exp)), rep)
        elif lns != expected_lines(ps):
            ctx.violation("co_lines-mismatch", "co_lines() of build_line_table(%s, %d) = %s, expected %s"
                          % (ps[:4], first, lns[:6], expected_lines(ps)[:6]), rep)
        # decoder tie on the real encoder's table
        if len(table) < 4000 or k % 7 == 0:
            tb = ",".join(map(str, table)) if table else "-"
            dec_lines.append("C44 dec %d %s" % (first, tb))
            dec_lines.append("C44 lines %d %s" % (first, tb))
            dec_meta.append((first, table, pos, lns))
    return dec_lines, dec_meta


def shrink(LT, first, ps):
    """Greedy removal of entries while the round trip still fails (stays inside the domain, keeps lists
    free of inner multi-line spans if the original was)."""
    def fails(ps_):
        if not in_dom(first, ps_):
            return False
        try:
            t = [ord(c) for c in LT.build_line_table(list(ps_), first)]
        except Exception:
            return True
        if any(b > 255 for b in t) or not wellformed(t):
            return True
        pos = cpy_decode(t, first)[0]
        return pos != [tuple(p) for p in ps_] and not (pos == predict_carried_end(first, ps_) and not inner_single(ps_))
    ps = list(ps)
    if not fails(ps):
        return first, ps
    i = len(ps) - 1
    budget = 400
    while i >= 0 and budget > 0:
        cand = ps[:i] + ps[i + 1:]
        budget -= 1
        if cand and fails(cand):
            ps = cand
        i -= 1
    return first, ps


def run_decoder_tie(ctx, dec_lines, dec_meta, tables):
    for first, t in tables:
        tb = ",".join(map(str, t)) if t else "-"
        dec_lines.append("C44 dec %d %s" % (first, tb))
        dec_lines.append("C44 lines %d %s" % (first, tb))
        dec_meta.append((first, t, None, None))
    if not dec_lines:
        return
    out = ctx.drv.batch(dec_lines)
    for k, (first, t, pos, lns) in enumerate(dec_meta):
        mdec, mlines = out[2 * k], out[2 * k + 1]
        synthetic = pos is None
        if synthetic:
            if not wellformed(t):
                ctx.count("decoder/synthetic-skipped-malformed")
                continue
            pos, lns = cpy_decode(t, first)
        rep = {"first": first, "table": t}
        if mdec.startswith("ub"):
            # outside the modelled C behaviour (int overflow): nothing to compare; never for encoder output in the domain
            ctx.count("decoder/outside-c-model")
            if not synthetic:
                ctx.tie_break("Lean decoder rejects a table CPython decodes to the recorded positions",
                              "first=%d table=%s" % (first, t[:30]), rep)
            continue
        ctx.count("decoder/synthetic" if synthetic else "decoder/encoder-output")
        if synthetic:
            ctx.seen(("table", first, tuple(t)), nontrivial=len(t) > 0)
        if mdec[:3] != "ok " or parse_locs(mdec[3:]) != pos:
            ctx.tie_break("D-dec CyVerif.C44.decode vs CPython co_positions()",
                          "first=%d table=%s: model %s cpython %s" % (first, t[:30], mdec[:150], pos[:6]), rep)
        if mlines[:3] == "ok ":
            ml = merge_lines([(a, b) for a, b in ((x[0], x[1]) for x in parse_locs(mlines[3:]))])
            if ml != lns:
                ctx.tie_break("D-dec CyVerif.C44.scanLines vs CPython co_lines()",
                              "first=%d table=%s: model %s cpython %s" % (first, t[:30], ml[:6], lns[:6]), rep)
        elif not synthetic:
            ctx.tie_break("Lean line scanner rejects an encoder table", "first=%d table=%s" % (first, t[:30]), rep)
        if synthetic and k % 499 == 0:
            ctx.sample({"first": first, "table": t, "co_positions": pos[:5], "model": mdec[:80]})


# --------------------------------------------------------------------------
# I-art: real compiler


_TB_HELPERS = '''
import os as _os
_REG = []
def _collect():
    out = []
    for f in _REG:
        c = f.__code__
        out.append((c.co_name, c.co_firstlineno, list(c.co_positions()), list(c.co_lines()), _os.path.basename(c.co_filename)))
    return repr(out)
def _tb(name):
    try:
        _ENTRY[name]()
    except BaseException as e:
        tb = e.__traceback__
        out = []
        while tb is not None:
            c = tb.tb_frame.f_code
            out.append((c.co_name.rsplit(".", 1)[-1].strip("<>"), tb.tb_lineno, _os.path.basename(c.co_filename)))
            tb = tb.tb_next
        return repr((type(e).__name__, out))
    return repr(None)
'''

RAISERS = [
    "raise ValueError(%d)",
    "x = 1 // (n - n)",
    "x = [][n]",
    "x = {}[n]",
    "x = None.missing",
    "x = int('q%d')",
    "assert n < 0, n",
    "x = (1, 2)[n + 5]",
    "x = globals()['undefined_%d']",
    "x = len(n)",
]


def gen_module(ctx, idx):
    """Pure-Python-syntax module: raisers at known single-line statements at varying nesting depth, plus
    functions with long lines, many statements per line, big line gaps."""
    rng = ctx.rng
    L = [_TB_HELPERS, "_ENTRY = {}"]
    entries = []
    nchains = 6 if ctx.quick else 12
    for c in range(nchains):
        depth = rng.randrange(1, 6)
        kind = rng.randrange(7)
        raiser = RAISERS[rng.randrange(len(RAISERS))]
        if "%d" in raiser:
            raiser = raiser % c
        for _ in range(rng.choice((0, 1, 3, 70, 140)) if c % 3 == 0 else rng.randrange(0, 4)):
            L.append("# pad %d" % rng.randrange(1000))
        names = ["c%d_%d" % (c, i) for i in range(depth)]
        # deepest function
        deep = names[-1]
        pad = " " * rng.choice((0, 0, 40, 90, 140))
        if kind == 0:
            L += ["def %s(n=%d):" % (deep, c + 1), "    a = n + 1", "    %s" % raiser, "    return a"]
        elif kind == 1:
            L += ["def %s(n=%d):" % (deep, c + 1), "    for i in range(3):", "        if i == 2:", "            %s" % raiser, "    return n"]
        elif kind == 2:
            L += ["def %s(n=%d):" % (deep, c + 1), "    try:", "        %s" % raiser, "    finally:", "        n += 1", "    return n"]
        elif kind == 3:
            L += ["def %s(n=%d):" % (deep, c + 1), "    def inner(n=n):", "        y = n", "        %s" % raiser, "    _REG.append(inner)", "    return inner()"]
        elif kind == 4:
            L += ["class K%d:" % c, "    def meth(self, n=%d):" % (c + 1), "        a = 1; b = 2; c = a + b", "        %s" % raiser,
                  "_REG.append(K%d.meth)" % c, "def %s(n=%d):" % (deep, c + 1), "    return K%d().meth()" % c]
        elif kind == 5:
            L += ["def %s(n=%d):" % (deep, c + 1), "    def gen():", "        yield 1", "        %s" % raiser, "    _REG.append(gen)",
                  "    return list(gen())"]
        else:
            L += ["def %s(n=%d):" % (deep, c + 1), "    a = [1, 2, 3]; b = (a, %s'long string literal to widen the line %s', n); c = b" % (pad, "x" * rng.choice((0, 60, 130))),
                  "    with open(_os.devnull) as fh:", "        %s" % raiser, "    return c"]
        L.append("_REG.append(%s)" % deep)
        for i in range(depth - 2, -1, -1):
            style = rng.randrange(4)
            if style == 0:
                L += ["def %s():" % names[i], "    return %s()" % names[i + 1]]
            elif style == 1:
                L += ["def %s():" % names[i], "    r = 0", "    r = %s() + r" % names[i + 1], "    return r"]
            elif style == 2:
                L += ["def %s():" % names[i], "    try:", "        return %s()" % names[i + 1], "    finally:", "        pass"]
            else:
                L += ["def %s():" % names[i], "    try:", "        return %s()" % names[i + 1], "    except KeyboardInterrupt:", "        return 0",
                      "    except BaseException:", "        raise"]
            L.append("_REG.append(%s)" % names[i])
        L.append("_ENTRY[%r] = %s" % (names[0], names[0]))
        entries.append(names[0])
    # position-rich functions
    L += ["def wide(a=1, b=2):",
          "    x = a + b; y = a * b; z = (x, y); w = [x, y, z]; v = {'k': w}",
          "    q = (a, b, x, y, z, w, v, 'lit', 1, 2, 3, 4, 5, 6, 7, 8, 9, 10, 11, 12, 13, 14, 15, 16, 17, 18, 19, 20, 21, 22, 23, 24, 25, 26, 27, 28, 29, a + b, a - b, a * b, x if a else y)",
          "    return q", "_REG.append(wide)",
          "lam = lambda t: (t + 1,",
          "                 t + 2)", "_REG.append(lam)",
          "def gaps(n):"]
    for g in range(6):
        L.append("    n = n + %d" % g)
        L += ["    # gap"] * rng.choice((0, 1, 2, 3, 5, 70))
    L += ["    return n", "_REG.append(gaps)",
          "def decorated_outer():",
          "    def deco(f):",
          "        return f",
          "    @deco",
          "    def target(a,",
          "               b=3):",
          "        return (a,",
          "                b)",
          "    _REG.append(target)",
          "    return target(1)",
          "_REG.append(decorated_outer)",
          "decorated_outer()"]
    return "\n".join(L) + "\n", entries


def gen_pyx_module(ctx):
    """Cython-syntax module (co_positions leg only): cdef class methods, cpdef, generated pickle functions
    (positions from code fragments), generators, coroutines, lambdas."""
    rng = ctx.rng
    pad = lambda: ["# pad"] * rng.choice((0, 1, 2, 5, 70))
    L = ["# cython: language_level=3", "import cython", _TB_HELPERS, "_ENTRY = {}"] + pad()
    L += ["cdef class A:", "    cdef public int x", "    cdef int y"] + ["    " + x for x in pad()]
    L += ["    def __init__(self, x):", "        self.x = x; self.y = x + 1",
          "    def meth(self, a, b=2):", "        return a + b + self.x",
          "    cpdef int cp(self, int k):", "        cdef int j = k * 2", "        return j + self.x"] + pad()
    L += ["cpdef double cpf(double z):", "    z = z * 2; z = z + 1", "    return z"] + pad()
    L += ["def gen(n):", "    for i in range(n):", "        yield i", "async def co(n):", "    return n",
          "lam = lambda q: q + 1"] + pad()
    L += ["def typed(int a, double b, object c=None):", "    cdef int i", "    cdef double acc = 0",
          "    for i in range(a):", "        acc += b * i", "    return (acc, c)"]
    L += ["_REG.extend([A.meth, getattr(A, 'cp'), A.__reduce_cython__, A.__setstate_cython__, globals()['cpf'], gen, co, lam, typed])"]
    return "\n".join(L) + "\n", []


def run_compiler_leg(ctx, params, LT, fixed=None):
    from Cython.Compiler import ExprNodes
    from Cython.Compiler.Main import compile as cy_compile, CompilationOptions
    if not ExprNodes.__file__.endswith(".py"):
        raise lib.Infra("ExprNodes is not the staged pure-Python module")
    captured = []
    orig_gen = ExprNodes.CodeObjectNode.generate_codeobj
    orig_blt = ExprNodes.build_line_table
    last_table = []

    def blt(positions, first):
        r = orig_blt(positions, first)
        last_table.append((list(positions), first, r))
        return r

    def gen(self, code, error_label):
        del last_table[:]
        func = self.def_node
        srcfile = getattr(func.pos[0], "filename", None)   # None for code fragments generated by the compiler
        rec = {"name": str(func.name), "first": self.pos[1], "positions": [tuple(p) for p in (func.node_positions or [])],
               "srcfile": os.path.basename(srcfile) if srcfile else None}
        try:
            return orig_gen(self, code, error_label)
        finally:
            rec["table"] = [ord(c) for c in last_table[-1][2]] if last_table else None
            captured.append(rec)

    from Cython.Compiler import ParseTreeTransforms as PTT
    from operator import itemgetter
    orig_bp = PTT.AnalyseExpressionsTransform._build_positions
    bp_records = []

    def bp(self, func_node):
        inp = sorted(self.positions[-1], key=itemgetter(1, 2), reverse=True)
        r = orig_bp(self, func_node)
        bp_records.append(([(p[1], p[2]) for p in inp], [tuple(x) for x in func_node.node_positions]))
        return r

    nmod = ctx.n(2, 6)
    mods = []
    ExprNodes.CodeObjectNode.generate_codeobj = gen
    ExprNodes.build_line_table = blt
    PTT.AnalyseExpressionsTransform._build_positions = bp
    try:
        plan = fixed if fixed is not None else [None] * (nmod + 1)
        for i, fx in enumerate(plan):
            if fx is not None:
                name, ext, src, entries = fx
            else:
                name = "c44m%d" % i
                ext = ".py" if i < nmod else ".pyx"
                src, entries = gen_module(ctx, i) if i < nmod else gen_pyx_module(ctx)
            d = os.path.join(ctx.scratch, "c44", name)
            os.makedirs(d, exist_ok=True)
            path = os.path.join(d, name + ext)
            with open(path, "w") as f:
                f.write(src)
            del captured[:]
            cwd = os.getcwd()
            os.chdir(d)
            import io
            old_err, buf = sys.stderr, io.StringIO()
            sys.stderr = buf
            try:
                res = cy_compile(path, CompilationOptions(language_level=3))
                err = None if res.num_errors == 0 else "compile errors: " + buf.getvalue()[-600:]
            except Exception as e:  # e.g. the encoder's own assert
                err = "%s: %s" % (type(e).__name__, e)
            finally:
                sys.stderr = old_err
                os.chdir(cwd)
            mods.append({"name": name, "src": src, "entries": entries, "dir": d, "captured": list(captured), "err": err, "ext": ext})
    finally:
        ExprNodes.CodeObjectNode.generate_codeobj = orig_gen
        ExprNodes.build_line_table = orig_blt
        PTT.AnalyseExpressionsTransform._build_positions = orig_bp
    # D-py: ParseTreeTransforms._build_positions vs CyVerif.C44.buildPositions on the real node-position sets
    if bp_records:
        out = ctx.drv.batch(["C44 bp %s" % (";".join("%d,%d" % x for x in desc) if desc else "-") for desc, _ in bp_records])
        for (desc, ranges), mo in zip(bp_records, out):
            ctx.count("compiler/_build_positions")
            ctx.seen(("bp", tuple(desc)), nontrivial=len(desc) > 1)
            if mo != "ok " + fmt_ps(ranges):
                ctx.tie_break("D-py AnalyseExpressionsTransform._build_positions vs CyVerif.C44.buildPositions",
                              "nodes %s: model %s impl %s" % (desc[:6], mo[:160], fmt_ps(ranges)[:160]), {"nodes": desc})

    def cc(m):
        if m["err"]:
            return None
        so = os.path.join(m["dir"], m["name"] + cybuild.EXT_SUFFIX)
        p = subprocess.run(["gcc", "-O0", "-shared", "-fPIC", "-w", "-I" + cybuild.PYINC, os.path.join(m["dir"], m["name"] + ".c"), "-o", so],
                           stdout=subprocess.PIPE, stderr=subprocess.STDOUT, text=True, timeout=900)
        if p.returncode != 0:
            m["err"] = "cc: " + p.stdout[-500:]
            return None
        return so

    with cf.ThreadPoolExecutor(max_workers=8) as ex:
        sos = list(ex.map(cc, mods))
    enc_cases = []
    for m, so in zip(mods, sos):
        rep = {"module": m["src"], "name": m["name"], "ext": m["ext"], "entries": m["entries"]}
        if m["err"]:
            if "AssertionError" in m["err"]:
                ctx.violation("compiler-positions-before-first-line", "compiling %s: %s" % (m["name"], m["err"][:200]), rep)
            else:
                ctx.tie_break("I-art build of generated module", m["err"][:400], rep)
            continue
        # what the compiler hands to the encoder lies in the documented domain; the table is the encoder's
        for rec in m["captured"]:
            ps, first = rec["positions"], rec["first"]
            ctx.count("compiler/function")
            if not ps:
                continue
            if not (in_dom(first, ps) and inner_single(ps)):
                ctx.violation("compiler-positions-outside-domain",
                              "CodeObjectNode passes positions outside the documented domain for %s (first line %d): %s"
                              % (rec["name"], first, ps[:5]), dict(rep, function=rec["name"]))
            enc_cases.append(("compiler-recorded", first, ps))
        # run time
        cases = [("_collect", "()")] + [("_tb", "(%r,)" % e) for e in m["entries"]]
        outs = cybuild.run_cases(ctx, so, cases, modname=m["name"])
        if not outs[0].startswith("ok str:"):
            ctx.tie_break("I-art import/_collect of compiled module", outs[0][:300], rep)
            continue
        runtime = ast.literal_eval(ast.literal_eval(outs[0][len("ok str:"):]))
        cap = {}
        for rec in m["captured"]:
            cap.setdefault((rec["name"], rec["first"]), rec)
        for name, first, pos, lns, fname in runtime:
            rec = cap.get((name, first)) or cap.get((name.strip("<>"), first))
            ctx.count("compiled/co_positions")
            if rec is None:
                ctx.violation("compiled-code-object-unmatched", "%s: no compiler record for code object %s at line %d (records: %s)"
                              % (m["name"], name, first, sorted(cap)[:8]), dict(rep, function=name))
                continue
            ctx.seen(("co_positions", m["name"], name, first), nontrivial=len(pos) > 1)
            if pos != rec["positions"]:
                i = next((j for j in range(min(len(pos), len(rec["positions"]))) if pos[j] != rec["positions"][j]), -1)
                ctx.violation("compiled-co_positions", "%s.%s: co_positions() differ from the positions the compiler recorded at entry %d: %s vs %s"
                              % (m["name"], name, i, pos[i:i + 2], rec["positions"][i:i + 2]), dict(rep, function=name))
            elif lns != expected_lines(rec["positions"]):
                ctx.violation("compiled-co_lines", "%s.%s: co_lines() %s differ from recorded lines" % (m["name"], name, lns[:5]),
                              dict(rep, function=name))
            if rec["srcfile"] is not None and fname != rec["srcfile"]:
                ctx.violation("compiled-co_filename", "%s.%s: co_filename %s" % (m["name"], name, fname), dict(rep, function=name))
        if m["ext"] != ".py":
            ctx.sample({"module": m["name"] + m["ext"], "functions": [(r[0], r[1], len(r[2])) for r in runtime]})
            continue
        # tracebacks vs CPython running the same source
        g = {"__name__": m["name"]}
        exec(compile(m["src"], os.path.join(m["dir"], m["name"] + ".py"), "exec"), g)
        for e, got in zip(m["entries"], outs[1:]):
            exp = g["_tb"](e)
            ctx.count("compiled/traceback")
            if not got.startswith("ok str:"):
                ctx.violation("compiled-traceback-crash", "%s._tb(%r): %s" % (m["name"], e, got), dict(rep, entry=e))
                continue
            gotv = ast.literal_eval(ast.literal_eval(got[len("ok str:"):]))
            expv = ast.literal_eval(exp)
            ctx.seen(("tb", m["name"], e), nontrivial=True)
            if gotv != expv:
                key = "compiled-traceback"
                if gotv and expv and gotv[0] == expv[0]:
                    # known shape: an additional entry of the same function at the line of an enclosing `with`
                    # statement (implicit re-raise after __exit__) or of a bare `raise`, directly before the right entry
                    srcl = m["src"].split("\n")
                    red = [x for j, x in enumerate(gotv[1])
                           if not (j + 1 < len(gotv[1]) and gotv[1][j + 1][0] == x[0] and 0 < x[1] <= len(srcl)
                                   and (srcl[x[1] - 1].lstrip().startswith("with ") or srcl[x[1] - 1].strip() == "raise"))]
                    if red == expv[1]:
                        key = "traceback-extra-entry-at-reraise"
                ctx.violation(key, "%s: traceback of %s compiled %s, CPython %s" % (m["name"], e, gotv, expv),
                              dict(rep, entry=e, compiled=repr(gotv), cpython=repr(expv)))
        ctx.sample({"module": m["name"], "functions": len(runtime), "tracebacks": len(m["entries"]),
                    "example": ast.literal_eval(ast.literal_eval(outs[1][len("ok str:"):])) if len(outs) > 1 and outs[1].startswith("ok str:") else None})
    return enc_cases


# --------------------------------------------------------------------------
# coverage closure


def line_coverage(LT, cases):
    """Executed / executable lines of the modelled functions under a sample of the differential inputs."""
    import dis
    names = list(FORMAT_CONSTANTS)
    want = set()
    for n in names:
        fn = getattr(LT, n)
        want |= {ln for _, ln in dis.findlinestarts(fn.__code__) if ln is not None and ln != fn.__code__.co_firstlineno}
    hit = set()
    fname = LT.build_line_table.__code__.co_filename

    def tracer(frame, event, arg):
        if frame.f_code.co_filename != fname:
            return None
        if event == "line":
            hit.add(frame.f_lineno)
        return tracer

    sys.settrace(tracer)
    try:
        for tag, first, ps in cases:
            try:
                LT.build_line_table(list(ps), first)
            except Exception:
                pass
    finally:
        sys.settrace(None)
    return sorted(want & hit), sorted(want - hit)


# --------------------------------------------------------------------------


def run(ctx):
    import Cython.Compiler.LineTable as LT
    src_path = LT.__file__
    if not (src_path.endswith(".py") and src_path.startswith(ctx.stage)):
        raise lib.Infra("LineTable is not the staged pure-Python module: %s" % src_path)
    ctx.rule = ("cases (first line, position list): exhaustive grid of start column x width x line delta around every threshold "
                "(as first and as second entry), varint chunk boundaries up to INT_MAX in each long-form field, seeded random "
                "start-sorted lists (1..30 entries, 20% with inner multi-line spans), long functions (500..6000 entries), lists "
                "shaped like _build_positions output, positions recorded by the real compiler, plus inputs outside the documented "
                "domain (model==implementation only); synthetic well-formed tables for the decoder. Non-trivial = inside the "
                "domain and non-empty; distinct by (first, positions) / table / compiled function.")
    ctx.explanation = ("Theorems cover the second and third sentence of the property for the table encoder against CPython 3.12's "
                       "reader (co_positions and the co_lines/Addr2Line scanner), for all inputs of the documented domain and all "
                       "thresholds satisfying WF. No theorem covers the first sentence (traceback entries name the right function, "
                       "file and line, in CPython's order: Code.py mark_pos/error_goto, Exceptions.c AddTraceback) nor the step from "
                       "parse-tree nodes to recorded positions; these are checked only differentially on generated modules "
                       "(compiled co_positions() == recorded positions, tracebacks == CPython's).")
    ctx.extra_trusted += ["CPython 3.12.1 code.replace(co_linetable=…).co_positions()/co_lines() as the meaning of the table format",
                          "ast-based translator of LineTable.py thresholds (literal extraction, echoed in notes)"]
    ctx.assumptions += ["pure-Python LineTable.py semantics (unbounded ints, asserts enabled); the compiled LineTable module uses C int/unsigned "
                        "arithmetic, identical on the documented domain (values <= INT_MAX, columns < INT_MAX)",
                        "CPython's 32-bit varint reader is modelled as exact for <= 6 chunks and values < 2^32, anything else as outside the model"]
    # ---- G
    params = None
    try:
        params, consts, body_hash = extract_params(src_path)
        ctx.notes["extracted_params"] = dict(zip(("shortCol", "shortWidth", "oneDelta", "oneColS", "oneColE", "retStart"), params))
        ctx.notes["anchor_body_hash"] = body_hash
    except (TranslateError, SyntaxError, KeyError, IndexError, AttributeError) as e:
        ctx.obligation("G: translate LineTable.encode_single_position thresholds", False, "translator cannot read the source: %s" % e)
        ctx.budget_scale = max(ctx.budget_scale, 4.0)
    if params is not None:
        ok = ctx.lean_obligation(
            "G: Params.WF for the thresholds of the current source",
            "import CyVerif.Model.C44\nopen CyVerif.C44 in\nexample : (⟨%d, %d, %d, %d, %d, %s⟩ : Params).WF := by decide\n"
            % (params[0], params[1], params[2], params[3], params[4], "true" if params[5] else "false"),
            "thresholds %s extracted from the staged LineTable.py satisfy WF (short col <= 80, width <= 16, delta <= 3, cols <= 128)" % (params,))
        fmt_ok = consts == FORMAT_CONSTANTS
        ctx.obligation("G: format constants of LineTable.py (128, <<3, &7, >>3, <<4, 10, 14, 64, 63, 6, <<1, +1)", fmt_ok,
                       "int literals per function %s" % ("unchanged" if fmt_ok else "differ: %s" % {k: v for k, v in consts.items() if v != FORMAT_CONSTANTS[k]}))
        if not (ok and fmt_ok):
            ctx.budget_scale = max(ctx.budget_scale, 4.0)
        ctx.notes["theorem_in_force"] = ("decode_encode_fixed (full statement)" if params[5] else
                                         "decode_encode_partial (pinned `return end_lineno`: full statement false, see full_statement_false_pinned)")
    mparams = params if params is not None else PINNED

    # ---- replay of one recorded case (positions | module | table), else corpus + generators
    rc = getattr(ctx, "replay_case", None)
    rcase = None
    if rc:
        rcase = rc.get("case")
        if rcase is None and rc.get("correspondence"):
            rcase = rc["correspondence"][0].get("replay")
    if isinstance(rcase, dict) and any(k in rcase for k in ("positions", "module", "table", "nodes")):
        cases, tables = [], []
        if "positions" in rcase:
            cases = [("replay", int(rcase["first"]), [tuple(p) for p in rcase["positions"]])]
        elif "module" in rcase:
            cases = run_compiler_leg(ctx, mparams, LT, fixed=[(rcase.get("name", "c44replay"), rcase.get("ext", ".pyx" if rcase["module"].startswith("# cython") else ".py"),
                                                                  rcase["module"], rcase.get("entries", []))])
        elif "table" in rcase:
            tables = [(int(rcase["first"]), list(rcase["table"]))]
        else:
            desc = [tuple(x) for x in rcase["nodes"]]
            out = ctx.drv.batch(["C44 bp %s" % (";".join("%d,%d" % x for x in desc) if desc else "-")])
            ctx.notes["replay_bp_model"] = out[0]
        dec_lines, dec_meta = run_encoder_tie(ctx, mparams, cases, LT)
        run_decoder_tie(ctx, dec_lines, dec_meta, tables)
        return

    cases = []
    cdir = os.path.join(lib.VERIF, "corpus", "C44")
    if os.path.isdir(cdir):
        for fn in sorted(os.listdir(cdir)):
            if fn.endswith(".json"):
                c = json.load(open(os.path.join(cdir, fn)))
                cases.append(("corpus", int(c["first"]), [tuple(p) for p in c["positions"]]))
                if "expect_table" in c:
                    try:
                        got = [ord(x) for x in LT.build_line_table([tuple(p) for p in c["positions"]], int(c["first"]))]
                    except Exception as e:
                        got = type(e).__name__
                    if got != c["expect_table"]:
                        ctx.notes.setdefault("witness_no_longer_reproduces", []).append({"file": fn, "now": got, "theorem": c.get("theorem")})
                        ctx.budget_scale = max(ctx.budget_scale, 2.0)
    cases += gen_cases(ctx, mparams)

    # ---- I-art (adds the compiler's real inputs to the encoder tie)
    cases += run_compiler_leg(ctx, mparams, LT)

    dec_lines, dec_meta = run_encoder_tie(ctx, mparams, cases, LT)
    run_decoder_tie(ctx, dec_lines, dec_meta, gen_tables(ctx))

    # ---- coverage closure
    sample = [c for c in cases if len(c[2]) <= 40][:: max(1, len(cases) // 4000)] + [c for c in cases if c[0] in ("corpus", "outside-domain")]
    hit, miss = line_coverage(LT, sample)
    ctx.notes["line_coverage_LineTable"] = {"executed": len(hit), "executable": len(hit) + len(miss), "not_executed": miss}

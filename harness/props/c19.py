"""C19 — comparisons and membership tests match CPython (see c19_sw.py, c19_obj.py, c19_str.py)."""
import concurrent.futures as cf
import importlib
import os

import cybuild


def run(ctx):
    info = {}
    parts = os.environ.get("C19_PARTS", "sw,obj,str,int").split(",")
    ctx.rule = ("(1) generated functions whose body is an if/elif/else chain or a boolean test over one C integer variable "
                "(16 C types incl. enums, Py_UCS4) and compile-time constants (decimal/hex, suffixes U/L/LL, bool, char, enum, extern, "
                "float; ==, !=, in/not in tuple/list/set/str/bytes literals, and/or/not), each evaluated on every constant +-1, "
                "its wrapped images and the type bounds; non-trivial = a switch is emitted or a non-default arm is taken; "
                "(2) comparison chains of 1-4 links and x [not] in (...) with 1-4 items on logging objects in random worlds "
                "(operands / comparisons / truth tests may raise, identical objects); distinct by (function, world); "
                "(3) 12 characters x strings of all PEP 393 kinds (surrogates, NUL), byte strings with equal prefixes / NULs / empty, "
                "C integers in and outside range(256) for bytes membership; (4) int pairs at every digit-count boundary (2^30k +-1, "
                "k <= 10), pairs equal in all but one 30-bit digit (every position), equal/unequal sign and size, bools and int "
                "subclasses, floats (inf, nan, 2^53, 2^62, 2^1024) x six operators x value/truth context, chains, if/elif, untyped and int-typed")
    ctx.explanation = ("Theorems cover: the switch rewriting (all chains/values; valid C labels), cascaded comparison evaluation (all worlds, "
                       "lengths), the flattened membership test on tuples/lists (partial: identity shortcut and != excluded by "
                       "hypotheses), the one-character unicode equality / membership helpers, the bytes comparison helpers and __Pyx_PyObject_CompareIntInt (all six operators, ints of any digit count). "
                       "No theorem covers: typed/mixed C-Python operand coercion in chains, membership in dict/set/str/list OBJECTS "
                       "(PyDictContains, PySetContains, PySequenceContains, PyUnicode_ContainsTF: thin wrappers of the C-API), set literals "
                       "(hashing), general str==str (delegates to PyUnicode_Compare), the float/float, int/float and float/int PyObjectCompare helpers - these are "
                       "differentially checked against CPython only. C comparisons whose constant does not fit the promoted type of the "
                       "variable follow C conversions by design (theorem c_compare_ne_python, finding c-compare-conversion).")
    ctx.assumptions = ["LP64 (int 32, long/long long 64), gcc converts out-of-range case labels modulo 2^bits",
                       "language_level=3 (every integer suffix makes a C literal)",
                       "comparison methods / truth tests of the generated worlds are stateless functions of their operands",
                       "char constants are ASCII; extern constants have the values given in the verbatim C block"]
    ctx.extra_trusted = ["independent C-literal reader (harness) used to type the emitted case labels",
                         "CPython sys.getrefcount as observer of the double DECREF"]
    if ctx.replay_case and "case" not in ctx.replay_case and ctx.replay_case.get("correspondence"):
        ctx.replay_case["case"] = ctx.replay_case["correspondence"][0]["replay"]     # a model/implementation disagreement
    rp = ctx.replay_case.get("case") if ctx.replay_case else None
    if rp:
        part = rp.get("part", "sw" if "func" in rp else None)
        parts = [{"objtyped": "obj"}.get(part, part)] if part else parts
    sw = importlib.import_module("props.c19_sw")
    obj = importlib.import_module("props.c19_obj")
    st = importlib.import_module("props.c19_str")
    it = importlib.import_module("props.c19_int")
    # the object / string modules are built in the background while the switch part runs
    builds, ost = [], None
    if "obj" in parts:
        ost = obj.prepare(ctx)
        builds += ost["builds"]
    if "str" in parts:
        builds.append(("c19str", st.module_source()))
    if "int" in parts:
        builds.append(("c19int", it.module_source(), ".py"))

    def bg(b):
        try:
            cybuild.build_module(ctx, b[0], b[1], **({"ext": b[2]} if len(b) > 2 else {}))
        except cybuild.BuildError:
            pass            # reported by the part that needs the module

    with cf.ThreadPoolExecutor(max_workers=4) as ex:
        futs = [ex.submit(bg, b) for b in builds]
        t0 = ctx.elapsed()
        if "sw" in parts:
            sw.run(ctx, info)
        t1 = ctx.elapsed()
        for f in futs:
            f.result()
    t2 = ctx.elapsed()
    if "obj" in parts:
        obj.run(ctx, info, ost)
    t3 = ctx.elapsed()
    if "str" in parts:
        st.run(ctx, info)
    if "int" in parts:
        it.run(ctx, info)
    info["seconds(switch,wait,objects,strings+ints)"] = [round(t1 - t0), round(t2 - t1), round(t3 - t2), round(ctx.elapsed() - t3)]
    ctx.notes.update(info)

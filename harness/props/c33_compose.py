"""C33 module-composition leg: helper-name injectivity.

The Lean theorems (and the per-type differential leg) speak about ONE type at a time.  The conversion helpers are
generated per element type and looked up BY NAME inside a module, so two types whose C declarations coincide but whose
Python conversions differ (int / bint / enum, char / signed char / unsigned char, long / Py_ssize_t / ctypedef long,
unsigned int / ctypedef, float / double, struct / ctypedef struct) must not share a helper.  This leg builds modules that
combine such types, in both declaration orders, as element types of every generic helper family (C arrays, <tuple>,
array struct members, ctuples, vector/list/set/map/pair, nested) and demands that every function behaves exactly as the
same function does in a module where its element type is alone (differential combined vs alone), plus the structural
obligation "different behaviour => different helper names" read off the generated C.
"""
import ast
import os
import re

import cybuild

HERE = os.path.dirname(os.path.abspath(__file__))
ENC_SRC = open(os.path.join(HERE, "c33_enc.py")).read()

PRE = ("ctypedef long mylong\nctypedef unsigned int myuint\n"
       "cdef enum Color:\n    RED\n    GREEN\n    BLUE = 5\n"
       "cdef struct Inner:\n    int a\n    double b\nctypedef Inner InnerT\n")
CPP_PRE = """# distutils: language = c++
from libcpp.vector cimport vector
from libcpp.list cimport list as cpplist
from libcpp.set cimport set as cppset
from libcpp.map cimport map as cppmap
from libcpp.pair cimport pair
"""

# atom: (function-name tag, Cython spelling, multiword, usable as set/map key, usable as C array element, kind)
GROUPS = {
    "int": [("int", "int", False, True, True, "num"), ("bint", "bint", False, True, True, "num"),
            ("enum", "Color", False, False, True, "num")],
    "char": [("char", "char", False, True, False, "num"), ("schar", "signed char", True, True, False, "num"),
             ("uchar", "unsigned char", True, True, False, "num")],
    "long": [("long", "long", False, True, True, "num"), ("ssize", "Py_ssize_t", False, True, True, "num"),
             ("mylong", "mylong", False, True, True, "num")],
    "uint": [("uint", "unsigned int", True, True, True, "num"), ("myuint", "myuint", False, True, True, "num")],
    "float": [("float", "float", False, True, True, "num"), ("double", "double", False, True, True, "num")],
    "struct": [("inner", "Inner", False, False, True, "struct"), ("innert", "InnerT", False, False, True, "struct")],
}

NUM = ["0", "1", "2", "5", "-1", "127", "128", "255", "256", "-129", "2**31", "3000000000", "2**40", "-2**40", "2**63",
       "2**64", "'a'", "b'a'", "b'ab'", "None", "1.5", "0.1", "1e40", "True", "[]"]
STRUCT = ["{'a': 1, 'b': 2.0}", "{'a': 2**40, 'b': 1}", "{'a': 1}", "None", "5", "{'a': 'x', 'b': 1}", "{'a': True, 'b': 3}"]

# family: (tag, cpp?, needs key?, needs array-element?, ok for multiword?, declaration of `v`, return expr, inputs(x, f))
FAMILIES = [
    ("arr", False, False, True, True, "{T}[3] v", "v", lambda x, f: ["[%s, %s, %s]" % (x, f, f), "(%s, %s, %s)" % (f, f, x)]),
    ("arrt", False, False, True, True, "{T}[3] v", "<tuple> v", lambda x, f: ["[%s, %s, %s]" % (f, x, f)]),
    ("sarr", False, False, True, True, "SA_{n} v", "v", lambda x, f: ["{'m': [%s, %s], 'k': 1}" % (x, f), "{'m': (%s, %s), 'k': 2}" % (f, x)]),
    ("ct", False, False, False, True, "({T}, {T}) v", "v", lambda x, f: ["(%s, %s)" % (x, f), "[%s, %s]" % (f, x)]),
    ("ctn", False, False, False, True, "({T}, double, ({T},)) v", "v", lambda x, f: ["(%s, 1.0, (%s,))" % (x, f), "(%s, 2.0, (%s,))" % (f, x)]),
    ("vec", True, False, False, True, "vector[{T}] v", "v", lambda x, f: ["[%s, %s]" % (x, f)]),
    ("lst", True, False, False, True, "cpplist[{T}] v", "v", lambda x, f: ["(%s, %s)" % (f, x)]),
    ("set", True, True, False, True, "cppset[{T}] v", "v", lambda x, f: ["[%s, %s]" % (x, f)]),
    ("mapk", True, True, False, True, "cppmap[{T}, int] v", "v", lambda x, f: ["{%s: 1}" % x]),
    ("mapv", True, False, False, False, "cppmap[int, {T}] v", "v", lambda x, f: ["{1: %s}" % x]),
    ("pair", True, False, False, False, "pair[{T}, {T}] v", "v", lambda x, f: ["(%s, %s)" % (x, f), "(%s, %s)" % (f, x)]),
    ("vvec", True, False, False, True, "vector[vector[{T}]] v", "v", lambda x, f: ["[[%s, %s], []]" % (x, f)]),
    ("vpair", True, False, False, False, "vector[pair[int, {T}]] v", "v", lambda x, f: ["[(1, %s)]" % x]),
]


def applicable(fam, atom):
    tag, cpp, needkey, needarr, mw_ok, _, _, _ = fam
    n, T, mw, key, arr, kind = atom
    return not ((needkey and not key) or (needarr and not arr) or (mw and not mw_ok))


def module_source(atoms, cpp):
    """functions for the given atoms in THIS order (type-major), C or C++ families"""
    out = [CPP_PRE if cpp else "", "import c33_enc\n", PRE]
    names = []
    for atom in atoms:
        n, T = atom[0], atom[1]
        if not cpp and atom[4]:
            out.append("cdef struct SA_%s:\n    %s[2] m\n    int k\n" % (n, T))
        for fam in FAMILIES:
            if fam[1] != cpp or not applicable(fam, atom):
                continue
            fn = "%s_%s" % (fam[0], n)
            out.append("def %s(o):\n    cdef %s = o\n    return %s\n" % (fn, fam[5].format(T=T, n=n), fam[6]))
            names.append(fn)
    out.append("_F = {%s}\n" % ", ".join("%r: %s" % (f, f) for f in names))
    out.append("def call(k, x):\n    return c33_enc.enc(_F[k](x), True)\n")
    return "\n".join(out), names


def cases_for(atom, cpp):
    elems, filler = (NUM, "1") if atom[5] == "num" else (STRUCT, STRUCT[0])
    res = []
    for fam in FAMILIES:
        if fam[1] != cpp or not applicable(fam, atom):
            continue
        for x in elems:
            for s in fam[7](x, filler):
                res.append(("%s_%s" % (fam[0], atom[0]), s))
    return res


HELPER = re.compile(r"\b(__Pyx_carray_(?:from_py|to_py|to_tuple)_\w+|__pyx_convert_\w+|__Pyx_Py(?:Long|Int)_(?:As|From)_\w+|"
                    r"__Pyx_PyObject_IsTrue|__Pyx_PyBool_FromLong|__Pyx_PyFloat_AsDouble|__Pyx_PyFloat_AsFloat|PyFloat_FromDouble)\b")


def helpers_called(csrc, fn):
    """names of conversion helpers called in the body of the generated implementation of Python function `fn`"""
    m = re.search(r"static PyObject \*__pyx_pf_\w*?\d%s\(.*?\n}\n" % re.escape(fn), csrc, re.S)
    return frozenset(HELPER.findall(m.group(0))) if m else None


def run_leg(ctx, only_group=None):
    gnames = list(GROUPS)
    if only_group:
        cpp_groups = c_groups = [only_group]
    else:
        c_groups = gnames
        cpp_groups = gnames if not ctx.quick else ["int", gnames[1 + ctx.seed % (len(gnames) - 1)]]
    plan = []      # (group, cpp, role, atoms)
    for g in c_groups:
        for cpp in (False, True):
            if cpp and g not in cpp_groups:
                continue
            atoms = GROUPS[g]
            plan.append((g, cpp, "fwd", atoms))
            plan.append((g, cpp, "rev", atoms[::-1]))
            for i, a in enumerate(atoms):
                plan.append((g, cpp, "alone%d" % i, [a]))
    specs, metas = [], []
    for g, cpp, role, atoms in plan:
        srcs, names = module_source(atoms, cpp)
        if not names:
            continue
        specs.append(dict(name="c33k_%s_%s_%s" % (g, "pp" if cpp else "c", role), source=srcs, cplus=cpp,
                          extra_files={"c33_enc.py": ENC_SRC}))
        metas.append((g, cpp, role, atoms, srcs, names))
    built = cybuild.build_many(ctx, specs)
    outcome = {}     # (g, cpp, role) -> {(fn, src): outcome}
    helpers = {}     # (g, cpp, role) -> {fn: helper set}
    for (g, cpp, role, atoms, srcs, names), so in zip(metas, built):
        if isinstance(so, cybuild.BuildError):
            ctx.tie_break("D-c build of composition module %s/%s/%s (%s)" % (g, "c++" if cpp else "c", role, so.stage),
                          so.log[-300:], {"module": srcs[:3000]})
            continue
        cs = [c for a in atoms for c in cases_for(a, cpp)]
        outs = cybuild.run_cases(ctx, so, [("call", "(%r, %s)" % (fn, s)) for fn, s in cs],
                                 env_extra={"PYTHONHASHSEED": "0", "PYTHONPATH": ctx.stage + os.pathsep + os.path.dirname(so)})
        outcome[(g, cpp, role)] = dict(zip(cs, outs))
        cfile = so[:so.rindex(os.sep)] + os.sep + specs[metas.index((g, cpp, role, atoms, srcs, names))]["name"] + (".cpp" if cpp else ".c")
        try:
            ctext = open(cfile).read()
            helpers[(g, cpp, role)] = {fn: helpers_called(ctext, fn) for fn in names}
        except OSError:
            pass
    # differential: combined (both orders) vs alone
    for (g, cpp, role), res in outcome.items():
        if not role.startswith("alone"):
            continue
        atom = GROUPS[g][int(role[5:])]
        for comb in ("fwd", "rev"):
            cres = outcome.get((g, cpp, comb))
            if cres is None:
                continue
            order = [a[1] for a in (GROUPS[g] if comb == "fwd" else GROUPS[g][::-1])]
            for (fn, s), alone in res.items():
                got = cres.get((fn, s))
                ctx.count("compose/%s/%s/%s" % (g, fn.split("_")[0], "same" if got == alone else "DIFFERENT"))
                ctx.seen(("compose", g, comb, fn, s))
                if got != alone:
                    ctx.violation("compose:%s:%s-declared-with-%s" % (fn.split("_")[0], atom[1].replace(" ", "_"), g + "-group"),
                                  "%s(%s) for element type `%s`: alone in a module -> %s, in a module declaring %s (in this "
                                  "order) -> %s" % (fn, s[:80], atom[1], str(alone)[:90], order, str(got)[:90]),
                                  {"compose_group": g, "func": fn, "input": s, "alone": alone, "combined": got,
                                   "declaration_order": order, "cpp": cpp})
    # structural obligation: different behaviour => different helper names (read off the generated C)
    for (g, cpp, role), hs in helpers.items():
        if role not in ("fwd", "rev"):
            continue
        atoms = GROUPS[g]
        bad = []
        for fam in FAMILIES:
            if fam[1] != cpp:
                continue
            for i, a in enumerate(atoms):
                for b in atoms[i + 1:]:
                    fa, fb = "%s_%s" % (fam[0], a[0]), "%s_%s" % (fam[0], b[0])
                    ra, rb = outcome.get((g, cpp, "alone%d" % atoms.index(a))), outcome.get((g, cpp, "alone%d" % atoms.index(b)))
                    if not (applicable(fam, a) and applicable(fam, b)) or ra is None or rb is None or not hs.get(fa) or not hs.get(fb):
                        continue
                    beh_a = [v for (fn, s), v in sorted(ra.items()) if fn == fa]
                    beh_b = [v for (fn, s), v in sorted(rb.items()) if fn == fb]
                    if beh_a != beh_b and hs[fa] == hs[fb]:
                        bad.append("%s/%s call the same helpers %s" % (fa, fb, sorted(hs[fa])[:4]))
        ctx.obligation("helper-name injectivity %s/%s/%s" % (g, "c++" if cpp else "c", role), not bad,
                       "element types with different conversion behaviour use different conversion helpers" +
                       ("" if not bad else " :: " + "; ".join(bad)[:500]))

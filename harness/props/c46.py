"""C46 — cythonize rebuilds exactly the modules whose inputs changed.

Three-way on every case:
  implementation = the staged `Cython.Build.Dependencies` (real `DependencyTree.transitive_merge[_helper]`,
                   real `cythonize()` decision code, real `parse_dependencies`),
  model          = `CyVerif.C46` through the compiled Lean driver,
  oracle         = the property's spec computed independently in Python (plain BFS closure over the
                   "cimports or includes" relation; "regenerate iff something in the closure is strictly newer
                   than the C file, or the C file is missing / foreign, or force").

Parts
  A  corpus + hand-made boundary graphs (interlocking cycles, self loops, duplicate edges), with line coverage
  B  exhaustive graphs: <= 3 nodes with every adjacency ORDER x every query order (quick);
     all 65536 graphs on 4 nodes x all 64 query orders (thorough; a seeded sample in quick)
  C  random graphs up to 12 nodes with planted cycles, random extract functions, repeated queries
  D  rebuild predicate alone (model vs oracle vs a transcription-free impl leg in E)
  E  real file trees (pyx/pxd/pxi, packages, cimport cycles, include chains, statements hidden in strings
     and comments) with edit/touch histories driving the real `cythonize()` (only `cythonize_one` is stubbed)
  F  witness replay: second `cythonize()` call in the same process (stale `_dep_tree`) — known finding
  G  `all_dependencies` vs the files the real compiler opens (differential only, no theorem)
"""
import dis
import itertools
import os
import shutil
import sys

import lib

# ----------------------------------------------------------------------------------------------
# encoding for the driver


def enc_table(rows):
    if not rows:
        return "-"
    return ":" + ";".join(",".join(str(x) for x in r) for r in rows)


def enc_list(xs):
    return ",".join(str(x) for x in xs) if xs else "-"


def show_set(s):
    return "[" + ",".join(str(x) for x in sorted(s)) + "]"


def show_cache(c):
    return ";".join("%d:%s" % (k, show_set(c[k])) for k in sorted(c))


# ----------------------------------------------------------------------------------------------
# oracle: plain BFS


def closure_nodes(adj, n0):
    seen = {n0}
    work = [n0]
    while work:
        a = work.pop()
        for b in adj.get(a, ()):
            if b not in seen:
                seen.add(b)
                work.append(b)
    return seen


def oracle_answer(adj, ext, q):
    out = set()
    for v in closure_nodes(adj, q):
        out |= set(ext.get(v, ()))
    return out


# ----------------------------------------------------------------------------------------------
# implementation leg for abstract graphs: the real DependencyTree with stubbed edge functions


class GraphImpl:
    def __init__(self, D, rows, erows):
        self.adj = {i: tuple(r) for i, r in enumerate(rows)}
        self.ext = {i: set(r) for i, r in enumerate(erows)}
        t = D.DependencyTree(None, quiet=True)
        # instance attributes shadow the @cached_method wrappers, so no stale per-class cache is involved;
        # `all_dependencies` / `transitive_merge` / `transitive_merge_helper` are the real ones
        t.cimported_files = lambda f: self.adj.get(f, ())
        t.immediate_dependencies = lambda f: self.ext.get(f, set())
        self.tree = t

    def run(self, qs):
        """Returns (canonical line, list of answer sets, cache dict)"""
        answers = []
        try:
            for q in qs:
                answers.append(set(self.tree.all_dependencies(q)))
        except RecursionError:
            return "err RecursionError", answers, {}
        except KeyError:
            return "err KeyError", answers, {}
        except Exception as e:  # an observation, not an infrastructure error
            return "err " + type(e).__name__, answers, {}
        caches = list(self.tree._transitive_cache.values())
        cache = caches[0] if caches else {}
        line = "ok " + " ".join(show_set(a) for a in answers) + " seen=" + show_cache(cache)
        return line, answers, dict(cache)


_ORACLE_MEMO = {}


def graph_oracle(rows, erows):
    """(closure answers per node as dict node -> frozenset, graph has a cycle) memoised on the last few graphs"""
    key = (tuple(map(tuple, rows)), tuple(map(tuple, erows)))
    r = _ORACLE_MEMO.get(key)
    if r is None:
        if len(_ORACLE_MEMO) > 64:
            _ORACLE_MEMO.clear()
        adj = {i: x for i, x in enumerate(rows)}
        ext = {i: x for i, x in enumerate(erows)}
        cyc = any(i in closure_nodes(adj, b) for i, x in enumerate(rows) for b in x)
        r = _ORACLE_MEMO[key] = ({}, cyc, adj, ext, key)
    return r


def graph_cases_check(ctx, D, cases, tag):
    """cases: list of (rows, erows, qs).  Three-way comparison; returns number of tie breaks."""
    lines = ["C46 q %s %s %s" % (enc_table(r), enc_table(e), enc_list(q)) for r, e, q in cases]
    mout = ctx.drv.batch(lines)
    ties = 0
    ctx.count(tag, len(cases))
    for (rows, erows, qs), model in zip(cases, mout):
        impl, answers, cache = GraphImpl(D, rows, erows).run(qs)
        memo, cyc, adj, ext, key = graph_oracle(rows, erows)

        def want_of(q):
            w = memo.get(q)
            if w is None:
                w = memo[q] = oracle_answer(adj, ext, q)
            return w
        if cyc:
            ctx.seen((key, tuple(qs)))
        bad = None
        for i, q in enumerate(qs):
            want = want_of(q)
            if i >= len(answers):
                bad = "all_dependencies(%d) raised (%s), closure is %s" % (q, impl, show_set(want))
                break
            if answers[i] != want:
                bad = "query #%d all_dependencies(%d) = %s, closure is %s" % (i, q, show_set(answers[i]), show_set(want))
                break
        if bad is None:
            for k, v in cache.items():
                want = want_of(k)
                if v != want:
                    bad = "cached seen[%d] = %s, closure is %s (a later query of %d returns it)" % (
                        k, show_set(v), show_set(want), k)
                    break
        if bad is not None or model != impl:
            rep = {"kind": "graph", "g": [list(r) for r in rows], "e": [list(r) for r in erows], "qs": list(qs)}
            if bad is not None:
                ctx.violation("transitive-merge-closure", "graph %s extract %s queries %s: %s" % (
                    enc_table(rows), enc_table(erows), enc_list(qs), bad), rep)
            if model != impl:
                ties += 1
                ctx.tie_break("D-py DependencyTree.transitive_merge vs CyVerif.C46.query",
                              "graph %s extract %s queries %s: model %s impl %s" % (
                                  enc_table(rows), enc_table(erows), enc_list(qs), model, impl), rep)
        if len(ctx.samples) < 4:
            ctx.sample({"graph": enc_table(rows), "extract": enc_table(erows), "queries": enc_list(qs),
                        "impl": impl, "model": model}, cap=4)
    return ties


# ----------------------------------------------------------------------------------------------
# generators

CORPUS_GRAPHS = [
    # (adjacency rows, note)
    ([[1], [2, 3], [0], [1, 4], []], "interlocking cycles 0-1-2 and 1-3, tail"),
    ([[1, 3], [2], [1, 0], []], "inner loop 1-2 closes before the outer head's later child 3"),
    ([[1], [2], [0, 1]], "two loop heads reached from one node"),
    ([[1], [2], [1, 0]], "higher head first, lower head second"),
    ([[0]], "self loop"),
    ([[0, 0, 1], [1, 0]], "self loops and duplicate edges"),
    ([[1, 2], [3], [3], [0]], "diamond closing a cycle"),
    ([[1], [2], [3], [1, 4], [0]], "nested: 1-2-3 inside 0-..-4"),
    ([[1, 2], [0], [0]], "two cycles through one head"),
    ([[1], [0, 2], [3], [2, 4], [5], [4, 0]], "chain of two-cycles closing back"),
    ([[2], [0], [1, 3], [3, 1]], "cycle with self loop at the tail"),
    ([[], [0], [1]], "acyclic chain"),
    ([[5], [], []], "edge to a file outside the table"),
]


def perms_of_subsets(n):
    return [p for L in range(1, n + 1) for p in itertools.permutations(range(n), L)]


def random_graph(rng, nmax=12):
    n = rng.randint(2, nmax)
    rows = [[] for _ in range(n)]
    for _ in range(rng.randint(1, 3)):
        k = rng.randint(1, min(n, 5))
        cyc = rng.sample(range(n), k)
        for i in range(k):
            rows[cyc[i]].append(cyc[(i + 1) % k])
    budget = 2 * n
    for _ in range(rng.randint(0, max(1, n // 2))):
        a, b = rng.randrange(n), rng.randrange(n + (1 if rng.random() < 0.1 else 0))
        rows[a].append(b)
    for r in rows:
        if r and rng.random() < 0.15:
            r.append(rng.choice(r))          # duplicate edge (two module names resolving to one .pxd)
        rng.shuffle(r)
    while sum(len(r) for r in rows) > budget:   # keep the (exponential) real algorithm fast
        r = rng.choice([r for r in rows if r])
        r.pop()
    mode = rng.choice(("self", "imm", "inc", "rand"))
    if mode == "self":
        erows = [[i] for i in range(n)]
    elif mode == "imm":
        erows = [sorted(set([i] + [b for b in rows[i]])) for i in range(n)]
    elif mode == "inc":
        erows = [sorted(set([i] + [b for b in rows[i]] + [100 + i + j for j in range(rng.randint(0, 2))])) for i in range(n)]
    else:
        erows = [sorted(set(rng.randrange(n + 3) for _ in range(rng.randint(0, 3)))) for i in range(n)]
    qs = [rng.randrange(n + (1 if rng.random() < 0.05 else 0)) for _ in range(rng.randint(1, 2 * n))]
    return rows, erows, qs


# ----------------------------------------------------------------------------------------------
# line coverage of the modelled functions


class LineCov:
    def __init__(self, funcs):
        self.codes = {f.__code__: set() for f in funcs}

    def __enter__(self):
        def tracer(frame, event, arg):
            s = self.codes.get(frame.f_code)
            if s is None:
                return None

            def local(frame, event, arg):
                if event == "line":
                    s.add(frame.f_lineno)
                return local
            s.add(frame.f_lineno)
            return local
        self._old = sys.gettrace()
        sys.settrace(tracer)
        return self

    def __exit__(self, *a):
        sys.settrace(self._old)

    def report(self):
        out = {}
        for code, hit in self.codes.items():
            lines = set(l for _, l in dis.findlinestarts(code) if l is not None and l != code.co_firstlineno)
            missed = sorted(lines - hit)
            out[code.co_name] = {"executed": len(lines & hit), "total": len(lines), "missed_lines": missed}
        return out


# ----------------------------------------------------------------------------------------------
# part E: real file trees

# statement forms whose dependency the regex scan of the pinned tree does not see (known finding
# `parse-deps-from-cimport-submodule`): `from <package> cimport <module>`
SUBMODULE_FORMS = ("from-pkg-cimport-mod", "from-dot-cimport-mod", "from-pkg-cimport-mod-as")
DOCSTRING_NOISE = "'''\ncimport %s\nfrom %s cimport t_x\ninclude \"i0.pxi\"\n'''"


class Project:
    """An abstract project: files with cimport / include statements, written to disk in several syntactic forms."""

    def __init__(self, rng, root, nmod, npxd, npxi, npkg, compilable=False):
        self.rng = rng
        self.root = root
        self.compilable = compilable
        self.mods = ["m%d.pyx" % i for i in range(nmod)]
        self.own = [("m%d.pxd" % i) for i in range(nmod) if rng.random() < 0.5]
        self.pxds = ["p%d.pxd" % i for i in range(npxd)] + ["pkg/q%d.pxd" % i for i in range(npkg)]
        self.pxis = ["i%d.pxi" % i for i in range(npxi)]
        self.files = self.mods + self.own + self.pxds + self.pxis
        self.cim = {f: [] for f in self.files}     # f -> list of pxd files
        self.inc = {f: [] for f in self.files}     # f -> list of pxi files
        self.noise = {f: [] for f in self.files}   # statements hidden in strings/comments (must be ignored)
        self.version = {f: 0 for f in self.files}
        self.texts = {}
        self.forms = {}                             # (f, target) -> syntactic form used in the current text
        for f in self.files:
            self.randomise(f)

    def cimportable(self, f):
        """pxd files `f` may cimport (module-own pxds are cimportable by their module name)"""
        return [p for p in self.pxds + self.own if p != f]

    def randomise(self, f):
        rng = self.rng
        targets = self.cimportable(f)
        base = os.path.splitext(f)[0]
        targets = [t for t in targets if os.path.splitext(t)[0] != base]   # a module does not cimport itself
        k = rng.choice((0, 1, 1, 2, 3)) if targets else 0
        self.cim[f] = rng.sample(targets, min(k, len(targets)))
        if f.endswith(".pxi"):
            later = [p for p in self.pxis if int(p[1:-4]) > int(f[1:-4])]      # include graph is acyclic
            self.inc[f] = rng.sample(later, min(len(later), rng.choice((0, 0, 1))))
        else:
            self.inc[f] = rng.sample(self.pxis, min(len(self.pxis), rng.choice((0, 0, 1, 2))))
        if self.compilable:
            # keep the generated program valid: one textual copy of each include per module
            # (otherwise its ctypedef is redeclared), and only the module itself includes
            if f.endswith(".pxi"):
                self.inc[f] = []
                self.cim[f] = []
            elif f.endswith(".pyx"):
                self.inc[f] = self.inc[f][:1]
            else:
                self.inc[f] = []
        others = [p for p in self.pxds if p not in self.cim[f] and p != f]
        self.noise[f] = rng.sample(others, min(len(others), rng.choice((0, 1, 2))))
        self.version[f] += 1
        self.texts[f] = self._text(f)

    @staticmethod
    def modname(pxd, frm):
        """dotted name of a pxd as seen from file `frm`, and whether a relative form is possible"""
        name = os.path.splitext(pxd)[0].replace("/", ".")
        return name, (pxd.startswith("pkg/") and frm.startswith("pkg/"))

    def _text(self, f):
        rng = self.rng
        L = []
        base = os.path.splitext(os.path.basename(f))[0]
        L.append("# file %s v%d" % (f, self.version[f]))
        for p in self.noise[f]:
            name, _ = self.modname(p, f)
            form = rng.randrange(4)
            if form == 0:
                L.append("# cimport %s" % name)
            elif form == 1 and f.endswith(".pyx"):
                L.append('s_%d = "cimport %s"' % (len(L), name))
            elif form == 2 and f.endswith(".pyx"):
                L.append(DOCSTRING_NOISE % (name, name))
            else:
                L.append("#from %s cimport t_x # include 'i0.pxi'" % name)
        for k in [k for k in self.forms if k[0] == f]:
            del self.forms[k]
        cims = list(self.cim[f])
        while cims:
            p = cims.pop()
            name, rel = self.modname(p, f)
            last = name.split(".")[-1]
            tname = "t_" + os.path.splitext(os.path.basename(p))[0]
            form = rng.randrange(8)
            if rel and form == 0:
                L.append("from . cimport %s" % last)
                self.forms[(f, p)] = "from-dot-cimport-mod"
            elif rel and form == 1:
                L.append("from .%s cimport %s" % (last, tname))
                self.forms[(f, p)] = "from-dotmod-cimport-name"
            elif form == 2 and "." in name:
                L.append("from %s cimport %s" % tuple(name.rsplit(".", 1)))
                self.forms[(f, p)] = "from-pkg-cimport-mod"
            elif form == 6 and "." in name:
                L.append("from %s cimport %s as al_%d" % (name.rsplit(".", 1)[0], last, len(L)))
                self.forms[(f, p)] = "from-pkg-cimport-mod-as"
            elif form == 3 and cims:
                q = cims.pop()
                L.append("cimport %s, %s" % (name, self.modname(q, f)[0]))
                self.forms[(f, p)] = self.forms[(f, q)] = "cimport-list"
            elif form == 4:
                L.append("from %s cimport (%s,\n    %s as alias_%d)" % (name, tname, tname, len(L)))
                self.forms[(f, p)] = "from-mod-cimport-paren"
            elif form == 5:
                L.append("from %s cimport %s  # trailing comment" % (name, tname))
                self.forms[(f, p)] = "from-mod-cimport-name"
            elif form == 7 and "." not in name:
                L.append("cimport %s as al_%d" % (name, len(L)))
                self.forms[(f, p)] = "cimport-as"
            else:
                L.append("cimport %s" % name)
                self.forms[(f, p)] = "cimport"
        for p in self.inc[f]:
            L.append(('include "%s"' if rng.random() < 0.5 else "include '%s'") % p)
        if f.endswith(".pxd"):
            L.append("ctypedef int t_%s" % base)
        elif f.endswith(".pxi"):
            L.append("ctypedef int t_%s_%s" % (base, "x"))
        else:
            L.append("def f_%s(): return %d" % (base, self.version[f]))
        return "\n".join(L) + "\n"

    def write(self, f, mtime):
        path = os.path.join(self.root, f)
        os.makedirs(os.path.dirname(path), exist_ok=True)
        with open(path, "w") as fh:
            fh.write(self.texts[f])
        os.utime(path, (mtime, mtime))

    # --- the property's relation, from the generator's own ground truth -------------------------
    def edges(self, f):
        out = []
        if f.endswith(".pyx"):
            own = f[:-4] + ".pxd"
            if own in self.own:
                out.append(own)
        out += self.cim[f]
        out += self.inc[f]
        return out

    def closure(self, f):
        return closure_nodes({x: self.edges(x) for x in self.files}, f)

    def missed_edge_forms(self, m, real):
        """forms of the ground-truth edges leaving the part of m's closure that the real scan did reach"""
        forms = set()
        for f in self.closure(m):
            if f in real:
                for t in self.edges(f):
                    if t not in real:
                        forms.add(self.forms.get((f, t), "include" if t.endswith(".pxi") else "own-pxd"))
        return forms


def real_graph(D, U, root, starts):
    """The immediate-dependency graph as the staged DependencyTree computes it (fresh tree), as id tables for the model."""
    D._dep_tree = None
    U.clear_function_caches()
    cwd = os.getcwd()
    os.chdir(root)
    try:
        tree = D.create_dependency_tree(quiet=True)
        ids, g, e, names = {}, [], [], []

        def nid(f):
            f = os.path.normpath(f)
            if f not in ids:
                ids[f] = len(names)
                names.append(f)
                g.append(None)
                e.append(None)
            return ids[f]
        work = [os.path.normpath(s) for s in starts]
        for s in work:
            nid(s)
        while work:
            f = work.pop()
            i = ids[f]
            if g[i] is not None:
                continue
            out = [os.path.normpath(x) for x in tree.cimported_files(f)]
            ext = [os.path.normpath(x) for x in tree.immediate_dependencies(f)]
            g[i] = [nid(x) for x in out]
            e[i] = sorted(nid(x) for x in ext)
            work.extend(x for x in out if g[ids[x]] is None)
        for i in range(len(names)):
            if g[i] is None:
                g[i], e[i] = [], []
        ts = [int(os.path.getmtime(n)) for n in names]
        alld = {s: set(os.path.normpath(x) for x in tree.all_dependencies(s)) for s in starts}
    finally:
        os.chdir(cwd)
        D._dep_tree = None
        U.clear_function_caches()
    return ids, g, e, ts, alld


class TreeRunner:
    def __init__(self, ctx, D, U):
        self.ctx, self.D, self.U = ctx, D, U
        self.compiled = []
        self.now = 0

        def fake_cythonize_one(pyx_file, c_file, *a, **k):
            self.compiled.append(os.path.normpath(pyx_file))
            with open(c_file, "w") as fh:
                fh.write(U.GENERATED_BY_MARKER + "\n/* stub */\n")
            os.utime(c_file, (self.now, self.now))
        self._orig = D.cythonize_one
        D.cythonize_one = fake_cythonize_one

    def close(self):
        self.D.cythonize_one = self._orig

    def fresh(self):
        """what a new process would start with"""
        self.D._dep_tree = None
        self.U.clear_function_caches()

    def cythonize(self, root, force=False, fresh=True, catch=False):
        if fresh:
            self.fresh()
        self.compiled = []
        cwd = os.getcwd()
        os.chdir(root)
        try:
            self.D.cythonize(["*.pyx"], quiet=True, force=force)
        except Exception as ex:
            if not catch:
                raise
            return ["raised " + type(ex).__name__]
        finally:
            os.chdir(cwd)
        return sorted(self.compiled)


def c_state(U, path):
    """(cts or None) as the property sees it: None = no usable C file"""
    if not os.path.exists(path):
        return None
    with open(path, "rb") as fh:
        head = fh.read(200)
    if not head.startswith(U.GENERATED_BY_MARKER_BYTES):
        return None
    return int(os.path.getmtime(path))


def scan_key(forms):
    if forms and all(f in SUBMODULE_FORMS for f in forms):
        return "parse-deps-from-cimport-submodule"
    return "cythonize-rebuild-decision"


def settle(ctx, pending):
    """model leg of the tree decisions, one driver call for all pending lines; returns number of tie breaks"""
    if not pending:
        return 0
    ties = 0
    mout = ctx.drv.batch([p[0] for p in pending])
    for (ln, impl, m, step, rep, smp), ml in zip(pending, mout):
        if ml != impl:
            ties += 1
            rep = dict(rep, model=ml)
            ctx.tie_break("D-py cythonize() decision vs CyVerif.C46.decideModule",
                          "module %s step %d: model %s impl %s (line %s)" % (m, step, ml, impl, ln), rep)
        if len(ctx.samples) < 8:
            ctx.sample(dict(smp, model=ml), cap=8)
    del pending[:]
    return ties


def run_history(ctx, D, U, runner, pending, plain=False):
    rng = ctx.rng
    root = os.path.join(ctx.scratch, "tree%d" % ctx.evaluations)
    shutil.rmtree(root, ignore_errors=True)
    os.makedirs(os.path.join(root, "pkg"))
    open(os.path.join(root, "pkg", "__init__.py"), "w").close()
    prj = Project(rng, root, nmod=rng.randint(1, 4), npxd=rng.randint(1, 4), npxi=rng.randint(0, 3),
                  npkg=0 if plain else rng.randint(0, 2))
    clock = 1000
    mt = {}
    for f in prj.files:
        mt[f] = clock + rng.randrange(5)
        prj.write(f, mt[f])
    clock += 10
    log = []
    steps = rng.randint(3, 7)
    for step in range(steps):
        # --- edits / touches -----------------------------------------------------------------
        ops = []
        if step > 0:
            for _ in range(rng.choice((0, 1, 1, 2, 3))):
                f = rng.choice(prj.files)
                kind = rng.random()
                cfiles = [m[:-4] + ".c" for m in prj.mods if os.path.exists(os.path.join(root, m[:-4] + ".c"))]
                if kind < 0.25 and cfiles:
                    t = int(os.path.getmtime(os.path.join(root, rng.choice(cfiles))))     # tie with a C file
                elif kind < 0.35:
                    t = clock - rng.randint(50, 500)                                        # old timestamp (checkout)
                elif kind < 0.45 and cfiles:
                    t = int(os.path.getmtime(os.path.join(root, rng.choice(cfiles)))) + 1  # just newer
                else:
                    t = clock
                if rng.random() < 0.35:
                    prj.randomise(f)                                                        # edit: structure changes
                    prj.write(f, t)
                    ops.append(["edit", f, t])
                else:
                    os.utime(os.path.join(root, f), (t, t))
                    ops.append(["touch", f, t])
                mt[f] = t
            r = rng.random()
            cs = [m[:-4] + ".c" for m in prj.mods if os.path.exists(os.path.join(root, m[:-4] + ".c"))]
            if r < 0.15 and cs:
                c = rng.choice(cs)
                os.unlink(os.path.join(root, c))
                ops.append(["rm", c])
            elif r < 0.25 and cs:
                c = rng.choice(cs)
                with open(os.path.join(root, c), "w") as fh:
                    fh.write(rng.choice(("/* Generated by Cython 0.29.1 */\n", "", "int main(){}\n")))
                os.utime(os.path.join(root, c), (clock + 5, clock + 5))
                ops.append(["foreign", c])
        force = rng.random() < 0.08
        clock += 10
        runner.now = clock
        # --- expectations (before the run changes the C files) --------------------------------
        try:
            ids, g, e, ts, alld = real_graph(D, U, root, prj.mods)
        except Exception as ex:   # the real dependency code raised: an observation, and a property failure
            ctx.count("tree/dependency-tree-raised")
            ctx.violation("dependency-tree-exception", "all_dependencies / cimported_files raised %s on a generated tree (step %d ops %s)"
                          % (type(ex).__name__, step, ops),
                          {"kind": "tree-exception", "files": dict(prj.texts), "mtimes": dict(mt), "exception": repr(ex)})
            break
        lines, want, info = [], [], []
        for m in prj.mods:
            cts = c_state(U, os.path.join(root, m[:-4] + ".c"))
            newer = sorted(f for f in prj.closure(m) if cts is not None and mt[f] > cts)
            want.append(bool(force or cts is None or newer))
            info.append((m, cts, newer))
            lines.append("C46 dec %s %s %s %d %s %d" % (enc_table(g), enc_table(e), enc_list(ts), ids[m],
                                                       "none" if cts is None else str(cts), 1 if force else 0))
        try:
            got = runner.cythonize(root, force=force)
            err = None
        except Exception as ex:   # observation
            got, err = [], type(ex).__name__
        log.append({"ops": ops, "force": force, "regenerated": got})
        for m, w, (mm, cts, newer), ln in zip(prj.mods, want, info, lines):
            impl = "err " + err if err else ("ok 1" if m in got else "ok 0")
            oracle = "ok 1" if w else "ok 0"
            ctx.count("tree/%s" % ("force" if force else "missing-c" if cts is None else "newer-dep" if newer else "up-to-date"))
            ctx.seen((ctx.evaluations, m, step), nontrivial=(cts is not None and not force))
            rep = {"kind": "tree", "files": dict(prj.texts), "mtimes": dict(mt), "module": m,
                   "c_timestamp": cts, "force": force, "history": list(log), "expected": oracle, "observed": impl,
                   "newer_files": newer, "model_line": ln}
            if impl != oracle:
                forms = prj.missed_edge_forms(m, alld[m]) if (w and not err) else set()
                extra = sorted(alld[m] - prj.closure(m))
                reason = ("closure file(s) %s newer than C file (%s)" % (newer, cts) if newer else
                          "C file missing/foreign" if cts is None else "force" if force else
                          "nothing in its closure is newer than the C file (%s)" % cts)
                ctx.violation(scan_key(forms),
                              "module %s: cythonize regenerated=%s but %s; all_dependencies misses %s (statement forms %s)%s; step %d ops %s"
                              % (m, impl, reason, sorted(prj.closure(m) - alld[m]), sorted(forms),
                                 "; extra files %s" % extra if extra else "", step, ops), rep)
            pending.append((ln, impl, m, step, rep, {"tree_step": step, "module": m, "ops": ops, "c_timestamp": cts,
                                                      "newer": newer, "impl": impl}))
        clock += 1
    shutil.rmtree(root, ignore_errors=True)


# ----------------------------------------------------------------------------------------------
# part F: witnesses


def _write(root, name, text, t):
    path = os.path.join(root, name)
    os.makedirs(os.path.dirname(path), exist_ok=True)
    with open(path, "w") as fh:
        fh.write(text)
    os.utime(path, (t, t))


def same_process_witness(ctx, D, U, runner):
    root = os.path.join(ctx.scratch, "treeF")
    shutil.rmtree(root, ignore_errors=True)
    os.makedirs(root)
    _write(root, "a.pyx", "cimport b\n", 100)
    _write(root, "b.pxd", "ctypedef int t_b\n", 100)
    _write(root, "a.c", U.GENERATED_BY_MARKER + "\n", 200)
    runner.now = 400
    first = runner.cythonize(root, fresh=True, catch=True)                 # up to date: nothing to do
    os.utime(os.path.join(root, "b.pxd"), (300, 300))          # the dependency is edited after that
    second = runner.cythonize(root, fresh=False, catch=True)               # same process: module-global _dep_tree reused
    third = runner.cythonize(root, fresh=True, catch=True)                 # what a new process decides
    ctx.count("witness/same-process")
    ctx.notes["same_process_witness"] = {"first": first, "second_same_process": second, "fresh_process": third}
    if first != [] or (second == [] and third != ["a.pyx"]):
        ctx.violation("cythonize-rebuild-decision", "two-file tree a.pyx -> b.pxd: up-to-date run regenerated %s, fresh run after "
                      "touching b.pxd regenerated %s" % (first, third), {"kind": "witness-same-process"})
    if second != ["a.pyx"]:
        ctx.violation("same-process-stale-dep-tree",
                      "a.c up to date; cythonize(); touch b.pxd (newer than a.c); cythonize() again in the SAME process: a.pyx not "
                      "regenerated (module-global _dep_tree keeps cached timestamps and parse results); a fresh process regenerates it",
                      {"kind": "witness-same-process", "files": {"a.pyx": "cimport b\n", "b.pxd": "ctypedef int t_b\n"},
                       "history": ["cythonize", "touch b.pxd", "cythonize (same process)"], "observed": second, "expected": ["a.pyx"]})
    shutil.rmtree(root, ignore_errors=True)


def submodule_witness(ctx, D, U, runner):
    """`from pkg cimport q0`: pkg/q0.pxd newer than the C file."""
    root = os.path.join(ctx.scratch, "treeS")
    shutil.rmtree(root, ignore_errors=True)
    os.makedirs(root)
    files = {"a.pyx": "from pkg cimport q0\n", "pkg/__init__.py": "", "pkg/q0.pxd": "ctypedef int t_q0\n"}
    for f, t in files.items():
        _write(root, f, t, 100)
    _write(root, "a.c", U.GENERATED_BY_MARKER + "\n", 200)
    os.utime(os.path.join(root, "pkg/q0.pxd"), (300, 300))
    runner.now = 400
    got = runner.cythonize(root, fresh=True, catch=True)
    ctx.count("witness/from-cimport-submodule")
    ctx.notes["from_cimport_submodule_witness"] = {"regenerated": got}
    if got != ["a.pyx"]:
        ctx.violation("parse-deps-from-cimport-submodule",
                      "a.pyx = 'from pkg cimport q0', pkg/q0.pxd (mtime 300) newer than a.c (200): cythonize regenerates %s; "
                      "parse_dependencies returns cimports ['pkg'] only (the look-ahead regex is anchored with ^ but searched from "
                      "mid-line)" % got,
                      {"kind": "witness-submodule", "files": files, "observed": got, "expected": ["a.pyx"]})
    shutil.rmtree(root, ignore_errors=True)


# ----------------------------------------------------------------------------------------------
# part G: dependency set vs files the compiler opens

_AUDIT = {"on": False, "files": set(), "installed": False}


def _audit_hook(event, args):
    if _AUDIT["on"] and event == "open":
        p = args[0]
        if isinstance(p, (str, bytes)):
            _AUDIT["files"].add(os.fsdecode(p))


def compiler_reads(ctx, D, U, runner):
    from Cython.Compiler.Main import compile as cy_compile, CompilationOptions
    from Cython.Compiler import Errors
    rng = ctx.rng
    if not _AUDIT["installed"]:
        sys.addaudithook(_audit_hook)
        _AUDIT["installed"] = True
    n = ctx.n(4, 24)
    done = 0
    attempts = 0
    while done < n and attempts < 3 * n:
        attempts += 1
        root = os.path.join(ctx.scratch, "treeG%d" % attempts)
        os.makedirs(os.path.join(root, "pkg"))
        open(os.path.join(root, "pkg", "__init__.py"), "w").close()
        prj = Project(rng, root, nmod=1, npxd=rng.randint(1, 4), npxi=rng.randint(0, 2), npkg=rng.randint(0, 2), compilable=True)
        for f in prj.files:
            prj.write(f, 1000)
        cwd = os.getcwd()
        os.chdir(root)
        saved_stderr = sys.stderr
        devnull = open(os.devnull, "w")
        try:
            runner.fresh()
            tree = D.create_dependency_tree(quiet=True)
            try:
                deps = set(os.path.normpath(p) for p in tree.all_dependencies("m0.pyx"))
            except Exception as ex:     # observation: the dependency code itself raised
                ctx.count("reads/dependency-tree-raised")
                ctx.violation("dependency-tree-exception", "all_dependencies(m0.pyx) raised %s on a generated valid program"
                              % type(ex).__name__, {"kind": "tree-exception", "files": dict(prj.texts), "exception": repr(ex)})
                done += 1
                continue
            _AUDIT["files"] = set()
            _AUDIT["on"] = True
            try:
                sys.stderr = devnull
                res = cy_compile("m0.pyx", CompilationOptions(language_level=3, include_path=["."]))
                nerr = res.num_errors
            except Errors.CompileError:
                nerr = 1
            finally:
                _AUDIT["on"] = False
                sys.stderr = saved_stderr
            rootr = os.path.realpath(root)
            reads = set()
            for p in _AUDIT["files"]:
                ap = os.path.realpath(os.path.abspath(p))
                if ap.startswith(rootr + os.sep):
                    if os.path.splitext(ap)[1] in (".pyx", ".pxd", ".pxi"):
                        reads.add(os.path.relpath(ap, rootr))
            deps_in = set(p for p in deps if not os.path.isabs(p) and not p.startswith(".."))
        finally:
            sys.stderr = saved_stderr
            devnull.close()
            os.chdir(cwd)
            runner.fresh()
        if nerr:
            ctx.count("reads/skipped-invalid-program")
            shutil.rmtree(root, ignore_errors=True)
            continue
        done += 1
        ctx.count("reads/compared")
        spec = prj.closure("m0.pyx")
        rep = {"kind": "reads", "files": dict(prj.texts), "all_dependencies": sorted(deps_in),
               "compiler_opened": sorted(reads), "spec_closure": sorted(spec)}
        if deps_in != reads:
            forms = prj.missed_edge_forms("m0.pyx", deps_in) if deps_in < reads else set()
            key = "parse-deps-from-cimport-submodule" if scan_key(forms) != "cythonize-rebuild-decision" else \
                "dependency-set-vs-compiler-reads"
            ctx.violation(key, "all_dependencies(m0.pyx) = %s but the compiler opened %s (missed statement forms %s)" % (
                sorted(deps_in), sorted(reads), sorted(forms)), rep)
        ctx.sample({"reads_case": sorted(deps_in), "compiler_opened": sorted(reads)}, cap=10)
        shutil.rmtree(root, ignore_errors=True)
    ctx.notes["compiler_reads_compared"] = done


# ----------------------------------------------------------------------------------------------


def replay(ctx, D, U, case):
    kind = case.get("kind")
    if kind == "graph":
        graph_cases_check(ctx, D, [(case["g"], case["e"], case["qs"])], "replay/graph")
    elif kind in ("witness-same-process", "witness-submodule"):
        r = TreeRunner(ctx, D, U)
        try:
            (same_process_witness if kind == "witness-same-process" else submodule_witness)(ctx, D, U, r)
        finally:
            r.close()
    elif kind in ("tree", "reads"):
        # re-create the files and the recorded history deterministically from the stored texts
        root = os.path.join(ctx.scratch, "replaytree")
        os.makedirs(os.path.join(root, "pkg"))
        open(os.path.join(root, "pkg", "__init__.py"), "w").close()
        for f, text in case["files"].items():
            p = os.path.join(root, f)
            with open(p, "w") as fh:
                fh.write(text)
            t = case.get("mtimes", {}).get(f, 1000)
            os.utime(p, (t, t))
        r = TreeRunner(ctx, D, U)
        try:
            if kind == "tree":
                m = case["module"]
                c = os.path.join(root, m[:-4] + ".c")
                if case["c_timestamp"] is not None:
                    with open(c, "w") as fh:
                        fh.write(U.GENERATED_BY_MARKER + "\n")
                    os.utime(c, (case["c_timestamp"], case["c_timestamp"]))
                r.now = 10 ** 6
                got = r.cythonize(root, force=case["force"])
                impl = "ok 1" if m in got else "ok 0"
                ctx.count("replay/tree")
                if impl != case["expected"]:
                    ctx.violation("cythonize-rebuild-decision", "replayed: module %s regenerated=%s expected %s (newer files %s)" % (
                        m, impl, case["expected"], case.get("newer_files")), case)
            else:
                ctx.notes["replay"] = "reads cases are regenerated by the seeded generator; rerun with the same VERIF_SEED"
        finally:
            r.close()


def run(ctx):
    import Cython.Build.Dependencies as D
    import Cython.Utils as U
    if not (D.__file__.startswith(ctx.stage) and U.__file__.startswith(ctx.stage) and U.__file__.endswith(".py")):
        raise lib.Infra("staged Dependencies/Utils not in use: %s %s" % (D.__file__, U.__file__))
    rng = ctx.rng
    ctx.rule = (
        "graphs: adjacency LISTS (order = iteration order of cimported_files, duplicates allowed) over <=12 nodes, "
        "extract functions {n} / {n}+out / with include files / random, query sequences on ONE tree (shared cache); "
        "exhaustive: all graphs on <=3 nodes x all adjacency orders x all orders of all subsets of queries, all 65536 "
        "4-node graphs x all 64 query orders in the thorough tier (seeded sample of them in quick); random graphs with "
        "1-3 planted cycles; non-trivial = the graph has a cycle.  trees: generated pyx/pxd/pxi projects (package, "
        "cimport cycles, include chains, statements hidden in comments/strings), 3-7 cythonize() steps each with "
        "touches (newer / tie with a C file / old), structure edits, removed or foreign C files, force; "
        "non-trivial = a usable C file exists and force is off")
    ctx.explanation = (
        "Theorems cover, at full strength, sentence 1 and 2 of the property for the modelled core: all_dependencies = "
        "reflexive-transitive closure for every finite graph and every query order (cache state arbitrary), and the "
        "rebuild decision = 'force or C file unusable or some closure file strictly newer'.  NOT covered by any theorem: "
        "(a) that cimported_files/included_files/parse_dependencies (regex scan, path search) produce the graph the compiler "
        "uses — sentence 3 'equals the set of files the compiler actually reads' is differential only (part G, few cases); "
        "(b) caching across cythonize() calls in one process (timestamps, parse results) — see known finding; "
        "(c) distutils_info merging (merge is not set union there).")
    ctx.assumptions = [
        "file mtimes are > -1 (the code uses -1 as 'no C file' sentinel): theorem rebuild_missing has this hypothesis",
        "each cythonize() history step runs in a fresh process (module-level caches empty), except in the same-process witness",
        "extract/outgoing do not raise (files exist and are readable)",
    ]
    ctx.extra_trusted = ["generator's own ground truth of which generated file cimports/includes which (oracle for file trees)"]

    if ctx.replay_case:
        replay(ctx, D, U, ctx.replay_case.get("case", {}))
        return

    import time
    t0 = time.time()
    timing = ctx.notes.setdefault("timing_s", {})
    # ---- E, F, G: real file trees (first: the process is still small, driver calls are cheap) ------------
    runner = TreeRunner(ctx, D, U)
    try:
        same_process_witness(ctx, D, U, runner)
        submodule_witness(ctx, D, U, runner)
        pending = []
        # line coverage of the rebuild-decision lines of cythonize() and of the dependency methods, on the first histories
        cov_funcs = [D.cythonize, D.DependencyTree.newest_dependency, D.DependencyTree.immediate_dependencies,
                     D.DependencyTree.cimported_files, D.DependencyTree.included_files, D.DependencyTree.cimports_externs_incdirs,
                     D.DependencyTree.find_pxd, D.parse_dependencies]

        def unwrap(f):
            f = getattr(f, "uncached", getattr(f, "__wrapped__", f))
            for cell in (getattr(f, "__closure__", None) or ()):     # Utils.cached_method keeps the method in a closure cell
                c = cell.cell_contents
                if hasattr(c, "__code__") and c.__code__.co_name != "wrapper":
                    return c
            return f
        cov_funcs = [unwrap(f) for f in cov_funcs]
        with LineCov([f for f in cov_funcs if hasattr(f, "__code__")]) as cov:
            for i in range(12):
                run_history(ctx, D, U, runner, pending, plain=(i % 3 == 0))
        rep = cov.report()
        try:
            import inspect
            src, first = inspect.getsourcelines(D.cythonize)
            lo = first + next(i for i, l in enumerate(src) if "file_generated_by_this_cython(c_file)" in l)
            hi = first + next(i for i, l in enumerate(src) if "to_compile.append((" in l)
            hit = cov.codes[D.cythonize.__code__]
            code_lines = set(l for _, l in dis.findlinestarts(D.cythonize.__code__) if l is not None and lo <= l <= hi)
            quiet_only = set(first + i for i, l in enumerate(src) if "print(" in l or "if not quiet and not force" in l
                             or "if source == dep" in l or "decode_filename" in l or l.strip() in ("))", "else:"))
            rep["cythonize"] = {"decision_lines": [lo, hi], "executed": len(code_lines & hit), "total": len(code_lines),
                                "missed_lines": sorted(code_lines - hit - quiet_only),
                                "not_exercised_by_design": "progress messages (quiet=True) and the cache fingerprint branch (cache off)"}
        except (StopIteration, OSError, KeyError):
            rep["cythonize"] = "decision lines not located in the current source (anchor drift)"
        ctx.notes["line_coverage_tree"] = rep
        for i in range(12, ctx.n(60, 1200)):
            run_history(ctx, D, U, runner, pending, plain=(i % 3 == 0))
        if settle(ctx, pending) and not [v for v in ctx.violations if v["key"] == "cythonize-rebuild-decision"]:
            for i in range(ctx.n(200, 2000)):
                run_history(ctx, D, U, runner, pending, plain=(i % 3 == 0))
            settle(ctx, pending)
        timing["trees"] = round(time.time() - t0, 1)
        t0 = time.time()
        compiler_reads(ctx, D, U, runner)
        timing["compiler_reads"] = round(time.time() - t0, 1)
    finally:
        runner.close()
        runner.fresh()
    t0 = time.time()

    # ---- A: corpus + boundary, with line coverage ------------------------------------------------
    cases = []
    cdir = os.path.join(lib.VERIF, "corpus", "C46")
    if os.path.isdir(cdir):
        import json
        for fn in sorted(os.listdir(cdir)):
            if fn.endswith(".json"):
                c = json.load(open(os.path.join(cdir, fn)))
                if c.get("kind") == "graph":
                    cases.append((c["g"], c["e"], c["qs"]))
    for rows, _note in CORPUS_GRAPHS:
        n = len(rows)
        for erows in ([[i] for i in range(n)], [sorted(set([i] + r)) for i, r in enumerate(rows)]):
            for qs in perms_of_subsets(n) if n <= 4 else [list(range(n)), list(range(n - 1, -1, -1)), [3, 2, 0], [2, 4, 1, 0, 3]]:
                cases.append((rows, erows, list(qs)))
    with LineCov([D.DependencyTree.transitive_merge_helper, D.DependencyTree.transitive_merge,
                  D.DependencyTree.all_dependencies]) as cov:
        ties = graph_cases_check(ctx, D, cases, "graph/corpus")
    ctx.notes["line_coverage"] = cov.report()

    # ---- B: exhaustive ---------------------------------------------------------------------------
    for n in (1, 2, 3):
        ordered = [p for k in range(n + 1) for p in itertools.permutations(range(n), k)]
        perms = perms_of_subsets(n)
        cases = []
        for adj in itertools.product(ordered, repeat=n):
            rows = [list(a) for a in adj]
            erows = [[i] for i in range(n)]
            for qs in perms:
                cases.append((rows, erows, list(qs)))
        ties += graph_cases_check(ctx, D, cases, "graph/exhaustive-%d-ordered" % n)
    subsets = [c for k in range(5) for c in itertools.combinations(range(4), k)]
    perms4 = perms_of_subsets(4)
    all4 = itertools.product(subsets, repeat=4)
    if ctx.quick:
        idx = set(rng.sample(range(65536), ctx.n(1200, 65536)))
        all4 = (a for i, a in enumerate(all4) if i in idx)
    chunk = []
    for adj in all4:
        rows = [list(a) for a in adj]
        if rng.random() < 0.5:
            rows = [r[::-1] for r in rows]
        erows = [[i] for i in range(4)]
        for qs in perms4:
            chunk.append((rows, erows, list(qs)))
        if len(chunk) >= 200000:
            ties += graph_cases_check(ctx, D, chunk, "graph/exhaustive-4")
            chunk = []
    if chunk:
        ties += graph_cases_check(ctx, D, chunk, "graph/exhaustive-4")

    timing["graphs_corpus_exhaustive"] = round(time.time() - t0, 1)
    t0 = time.time()
    # ---- C: random -------------------------------------------------------------------------------
    cases = [random_graph(rng) for _ in range(ctx.n(6000, 120000))]
    ties += graph_cases_check(ctx, D, cases, "graph/random")
    if ties and not [v for v in ctx.violations if v["key"] == "transitive-merge-closure"]:
        # broken correspondence: search harder on the real code for a property failure
        cases = [random_graph(rng) for _ in range(ctx.n(40000, 400000))]
        graph_cases_check(ctx, D, cases, "graph/search-after-tie-break")

    timing["graphs_random"] = round(time.time() - t0, 1)
    # ---- D: rebuild predicate, model vs spec (the real decision code is exercised in E) ---------------
    lines, want = [], []
    for _ in range(ctx.n(3000, 30000)):
        k = rng.randint(1, 6)
        ds = [rng.randrange(-1, 12) for _ in range(k)]
        s = rng.choice(ds)
        c = rng.choice([None, None] + list(range(-1, 13)))
        f = rng.random() < 0.1
        lines.append("C46 rb %d %s %d %s" % (f, "none" if c is None else c, s, enc_list(ds)))
        cc = -1 if c is None else c
        want.append("ok 1" if (f or any(t > cc for t in ds)) else "ok 0")
    for ln, w, m in zip(lines, want, ctx.drv.batch(lines)):
        ctx.count("rebuild-predicate/model-vs-spec")
        if m != w:
            ctx.tie_break("CyVerif.C46.rebuild vs spec", "%s: model %s spec %s" % (ln, m, w), {"kind": "rb", "line": ln})

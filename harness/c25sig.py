"""C25, signature leg: what compiled functions report about their parameter lists.

`run_sig(ctx)` generates `def`s with random signatures (default expressions of many shapes) in many
scopes, compiles them with the staged compiler under several directive combinations and compares, per
function, three parties:
  impl   - the compiled function (inspect.signature, __name__/__qualname__/__module__/__doc__,
           __defaults__/__kwdefaults__/__annotations__, code-object fields, embedded signature text)
  oracle - the same source executed by CPython (for `cdef class`/`cpdef` sources: the same functions
           rendered as plain classes/defs)
  model  - lean/CyVerif/Model/C25Sig.lean (`C25Sig enc|dec|fmt`)
impl != oracle -> ctx.violation(stable key);  model != impl -> ctx.tie_break.
"""
import ast
import inspect
import json
import os
import subprocess

import cybuild
import lib

# (source text, class tag).  Tags name the operator/shape class; they become part of violation keys.
DEFAULTS = [
    ("-1", "neg"), ("-1.5", "neg"), ("-0.0", "neg"), ("0", "int"), ("12345678901234567890123", "bigint"),
    ("-(2 ** 70)", "bigint"), ("(1,)", "tuple1"), ("()", "tuple0"), ("(1, 2)", "tuple"), ("[1, [2]]", "list"),
    ("[]", "list"), ("{'a': (1, 2)}", "dict"), ("{}", "dict"), ("{1, 2}", "set"), ("'a\\'b'", "str-esc"),
    ('"q\\""', "str-esc"), ("'\\n\\\\'", "str-esc"), ("'\\x00'", "str-esc"), ("'\\t'", "str-esc"), ("'é'", "str-nonascii"),
    ("'\\u1234'", "str-nonascii"), ("''", "str"), ("'plain'", "str"), ("b'ab\\x00\\xff'", "bytes"), ("b''", "bytes"),
    ("None", "const"), ("True", "const"), ("False", "const"), ("...", "const"), ("Ellipsis", "const"),
    ("(1 + 2) * 3", "fold"), ("-(2 ** 2)", "fold"), ("(-2) ** 2", "fold"), ("2 ** -1", "fold"),
    ("1 - (2 - 3)", "fold"), ("2 ** 3 ** 2", "fold"), ("(2 ** 3) ** 2", "fold"), ("(1 if 0 else 2) + 3", "fold"),
    ("not (1 and 0)", "fold"), ("1 < 2 < 3", "fold"), ("(1 < 2) < 3", "fold"), ("(1, 2)[0]", "subscript"),
    ("'a'.upper()", "call"), ("(1).real", "attr-num"), ("len('ab')", "call"), ("int('7')", "call"),
    ("float('inf')", "call"), ("1e100", "float"), ("1.5", "float"), ("1j", "complex"),
    ("x + 1", "binop"), ("(x + 2) * 3", "prec"), ("x + 2 * 3", "prec"), ("-(x ** 2)", "prec"), ("(-x) ** 2", "prec"),
    ("-x ** 2", "prec"), ("2 ** -x", "prec"), ("1 - (x - 3)", "assoc"), ("(1 - x) - 3", "assoc"), ("x ** 3 ** 2", "assoc"),
    ("(x ** 3) ** 2", "assoc"), ("x / (2 * 3)", "assoc"), ("(1 if x else 2) + 3", "cond"), ("1 if x else 2", "cond"),
    ("not (x and 0)", "boolop"), ("(not x) and 0", "boolop"), ("x or 1 and 2", "boolop"), ("(x or 1) and 2", "boolop"),
    ("1 < x < 30", "cmp-chain"), ("(1 < x) < 3", "cmp-paren"), ("1 < (x < 3)", "cmp-paren"), ("x in (1, 5)", "cmp"),
    ("x is not None", "cmp"), ("(1, x)[0]", "subscript"), ("[x, 2][1:]", "subscript"), ("(x).real", "attr"),
    ("(x + 1).real", "attr-paren"), ("-x", "unary"), ("~x", "unary"), ("not x", "unary"), ("(x,)", "tuple1"),
    ("[x]", "list"), ("{x: [x]}", "dict"), ("{x}", "set"), ("x << 2 | 1", "prec"), ("x & (3 | 4)", "prec"),
    ("x % 3 * 2", "prec"), ("x // (3 * 2)", "assoc"), ("lambda: 0", "lambda"), ("str(x)", "call"),
    ("max(x, 2, key=abs)", "call-kw"), ("f'{x}'", "fstring"), ("'a' 'b'", "str-concat"), ("[i for i in (1, 2)]", "comprehension"),
]
ANNOTS = ["int", "'str'", "list[int]", "None", "object"]
DOCS = [None, None, "One line.", "First line.\n\n        Indented body\n          more\n        back\n    ",
        "  leading spaces", "tab\\there \"q\" 'a'", "non-ascii é ሴ", "trailing newline\n", "multi\nline\n\n\nblank lines"]
NAMES = ["a", "b", "c", "d", "e", "k", "m", "n", "p", "q", "r", "u", "v", "w", "args", "kw", "kwargs", "rest", "opts",
         "_z", "i1", "long_parameter_name", "A", "ñ"]
PY_SCOPES = ["mod", "pymeth", "static", "classm", "nestedcls", "closure", "loccls", "lambda", "gen"]
PYX_SCOPES = ["mod", "cdefmeth", "cdefstatic", "cdefclassm", "cpdef", "pymeth", "closure", "gen"]
KINDS = {"POSITIONAL_ONLY": "po", "POSITIONAL_OR_KEYWORD": "pk", "VAR_POSITIONAL": "va", "KEYWORD_ONLY": "ko", "VAR_KEYWORD": "vk"}


# ------------------------------------------------------------------ generation

def _params(rng, n, names, want_default, dflt_idx, annots):
    out = []
    for _ in range(n):
        d = None
        if want_default():
            d = dflt_idx()
        a = rng.choice(ANNOTS) if annots and rng.random() < 0.5 else None
        out.append({"name": names.pop(), "dflt": d, "ann": a})
    return out


def gen_sig(rng, shape=None, annots=False, simple=False):
    """A signature: dict posonly/normal/kwonly (lists of {name,dflt,ann}), vararg/varkw (name|None).
    `dflt` is an index into DEFAULTS.  Python's rule (defaults trail among positional parameters) holds."""
    names = rng.sample(NAMES, len(NAMES))
    npo, nno, va, nko, vk = shape if shape else (rng.randrange(4), rng.randrange(4), rng.random() < 0.4, rng.randrange(4), rng.random() < 0.4)
    if simple:
        npo, va, nko, vk = 0, False, 0, False
    started = [False]
    p_start = rng.choice([0.0, 0.3, 0.6, 1.0])

    def pos_default():
        if not started[0] and rng.random() < p_start:
            started[0] = True
        return started[0]
    idx = lambda: rng.randrange(len(DEFAULTS))
    s = {"posonly": _params(rng, npo, names, pos_default, idx, annots),
         "normal": _params(rng, nno, names, pos_default, idx, annots),
         "vararg": names.pop() if va else None,
         "kwonly": _params(rng, nko, names, lambda: rng.random() < 0.5, idx, annots),
         "varkw": names.pop() if vk else None,
         "ret": rng.choice(ANNOTS) if annots and rng.random() < 0.5 else None}
    return s


def boundary_sigs(rng):
    shapes = [(0, 0, False, 0, False), (1, 0, False, 0, False), (0, 1, False, 0, False), (0, 0, True, 0, False),
              (0, 0, False, 1, False), (0, 0, False, 0, True), (3, 3, True, 3, True), (3, 0, False, 3, False),
              (1, 1, False, 1, True), (0, 3, True, 0, True), (2, 0, True, 0, False), (3, 3, False, 0, False)]
    return [gen_sig(rng, sh) for sh in shapes]


def sig_token(s, with_self=None):
    """Encoding of lean/CyVerif/Model/C25Sig.lean; default ids are d<DEFAULTS index>_<position>."""
    def plist(ps):
        return ",".join(p["name"] + ("=" + p["id"] if p["dflt"] is not None else "") for p in ps) or "-"
    return "|".join([plist(s["posonly"]), plist(s["normal"]), s["vararg"] or "-", plist(s["kwonly"]), s["varkw"] or "-"])


def finalize(spec):
    """Add the implicit first parameter and the default ids."""
    s = spec["sig"]
    first = {"pymeth": "self", "nestedcls": "self", "loccls": "self", "classm": "cls", "cdefmeth": "self",
             "cdefclassm": "cls", "cpdef": "self"}.get(spec["scope"])
    if first:
        (s["posonly"] if s["posonly"] else s["normal"]).insert(0, {"name": first, "dflt": None, "ann": None})
    n = 0
    for grp in ("posonly", "normal", "kwonly"):
        for p in s[grp]:
            p["id"] = "d%d" % n
            n += 1
    return spec


def render_params(s):
    def one(p):
        t = p["name"]
        if p["ann"]:
            t += ": " + p["ann"]
            if p["dflt"] is not None:
                t += " = " + DEFAULTS[p["dflt"]][0]
        elif p["dflt"] is not None:
            t += "=" + DEFAULTS[p["dflt"]][0]
        return t
    items = [one(p) for p in s["posonly"]]
    if s["posonly"]:
        items.append("/")
    items += [one(p) for p in s["normal"]]
    if s["vararg"]:
        items.append("*" + s["vararg"])
    elif s["kwonly"]:
        items.append("*")
    items += [one(p) for p in s["kwonly"]]
    if s["varkw"]:
        items.append("**" + s["varkw"])
    return ", ".join(items)


def render_module(specs, pyx):
    """Source text and the registry function `_verif_funcs` (id -> function object)."""
    L = ["x = 5", ""]
    reg = []

    def body(sp, ind, gen=False):
        out = []
        if sp["doc"] is not None:
            out.append(ind + repr(sp["doc"]))
        out.append(ind + "loc_%d = 1" % sp["i"])
        out.append(ind + ("yield loc_%d" if gen else "return loc_%d") % sp["i"])
        return out
    for sp in specs:
        i, sc = sp["i"], sp["scope"]
        ps = render_params(sp["sig"])
        ret = (" -> " + sp["sig"]["ret"]) if sp["sig"].get("ret") else ""
        if sc in ("mod", "gen"):
            L += ["def f%d(%s)%s:" % (i, ps, ret)] + body(sp, "    ", sc == "gen")
            reg.append(("f%d" % i, "f%d" % i))
        elif sc in ("pymeth", "static", "classm", "cdefmeth", "cdefstatic", "cdefclassm", "cpdef"):
            cd = pyx and sc.startswith(("cdef", "cpdef"))
            L.append(("cdef class K%d:" if cd else "class K%d:") % i)
            if sc in ("static", "cdefstatic"):
                L.append("    @staticmethod")
            if sc in ("classm", "cdefclassm"):
                L.append("    @classmethod")
            kw = "cpdef" if (pyx and sc == "cpdef") else "def"
            L += ["    %s m%d(%s)%s:" % (kw, i, ps, ret)] + body(sp, "        ")
            reg.append(("K%d.m%d" % (i, i), "K%d.__dict__['m%d']" % (i, i)))
        elif sc == "nestedcls":
            L += ["class K%d:" % i, "    class In%d:" % i, "        def g%d(%s)%s:" % (i, ps, ret)] + body(sp, "            ")
            reg.append(("K%d.In%d.g%d" % (i, i, i), "K%d.In%d.__dict__['g%d']" % (i, i, i)))
        elif sc == "closure":
            L += ["def outer%d():" % i, "    def inner%d(%s)%s:" % (i, ps, ret)] + body(sp, "        ") + ["    return inner%d" % i]
            reg.append(("outer%d.<locals>.inner%d" % (i, i), "outer%d()" % i))
        elif sc == "loccls":
            L += ["def outerc%d():" % i, "    class L%d:" % i, "        def h%d(%s)%s:" % (i, ps, ret)] + body(sp, "            ") \
                + ["    return L%d" % i]
            reg.append(("outerc%d.<locals>.L%d.h%d" % (i, i, i), "outerc%d().__dict__['h%d']" % (i, i)))
        elif sc == "lambda":
            L.append("lam%d = lambda %s: 0" % (i, ps))
            reg.append(("<lambda>", "lam%d" % i))
        else:
            raise lib.Infra("unknown scope " + sc)
        sp["qualname"] = reg[-1][0]
        L.append("")
    L.append("def _verif_funcs():")
    L.append("    return [" + ", ".join("(%d, %s)" % (sp["i"], r[1]) for sp, r in zip(specs, reg)) + "]")
    return "\n".join(L) + "\n"


# ------------------------------------------------------------------ observation (child process)

_DUMP = r'''
import sys, json, inspect, importlib.util
path, modname = sys.argv[1], sys.argv[2]
spec = importlib.util.spec_from_file_location(modname, path)
m = importlib.util.module_from_spec(spec); sys.modules[modname] = m; spec.loader.exec_module(m)
out = []
import types
def rp(v):
    # function objects print their address: keep only the fact that it is a function
    if hasattr(v, '__code__') and callable(v): return '<function>'
    return repr(v)
def g(f, a):
    try: return getattr(f, a)
    except Exception as e: return '<raises %s>' % type(e).__name__
for i, f in m._verif_funcs():
    f = getattr(f, '__func__', f)
    r = {'i': i, 'type': type(f).__name__}
    for a in ('__name__', '__qualname__', '__module__', '__doc__'):
        v = g(f, a); r[a] = v if v is None or isinstance(v, str) else repr(v)
    try:
        sg = inspect.signature(f)
        r['sig_str'] = str(sg)
        r['params'] = [[p.name, p.kind.name, '<empty>' if p.default is p.empty else rp(p.default),
                        '<empty>' if p.annotation is p.empty else repr(p.annotation)] for p in sg.parameters.values()]
        r['ret'] = '<empty>' if sg.return_annotation is sg.empty else repr(sg.return_annotation)
    except Exception as e:
        r['sig_error'] = type(e).__name__ + ': ' + str(e)[:120]
    d = g(f, '__defaults__'); r['defaults'] = None if d is None else ([rp(v) for v in d] if isinstance(d, tuple) else repr(d))
    k = g(f, '__kwdefaults__'); r['kwdefaults'] = None if k is None else ([[n, rp(v)] for n, v in k.items()] if isinstance(k, dict) else repr(k))
    a = g(f, '__annotations__'); r['annotations'] = {n: repr(v) for n, v in a.items()} if isinstance(a, dict) else repr(a)
    c = g(f, '__code__')
    if hasattr(c, 'co_argcount'):
        n = c.co_argcount + c.co_kwonlyargcount + bool(c.co_flags & 4) + bool(c.co_flags & 8)
        r['code'] = [c.co_argcount, c.co_posonlyargcount, c.co_kwonlyargcount, list(c.co_varnames[:n]), c.co_flags & 0x0C,
                     c.co_name, list(c.co_varnames[n:])]
    else:
        r['code'] = None
    out.append(r)
json.dump(out, sys.stdout)
'''


def observe(ctx, path, modname):
    sp = os.path.join(ctx.scratch, "c25sig_dump.py")
    if not os.path.exists(sp):
        with open(sp, "w") as f:
            f.write(_DUMP)
    p = subprocess.run([lib.PYTHON, sp, path, modname], stdout=subprocess.PIPE, stderr=subprocess.PIPE, text=True,
                       env=lib._clean_env({"PYTHONPATH": ctx.stage}), timeout=300)
    if p.returncode != 0:
        return None, p.stderr[-600:]
    return {r["i"]: r for r in json.loads(p.stdout)}, ""


# ------------------------------------------------------------------ embedded signature text

def split_call(doc):
    """'name(arglist) -> ret\n\nrest' -> (prefix, arglist, tail) with a bracket/quote aware scan, or None."""
    i = doc.find("(")
    if i < 0:
        return None
    depth, j, n = 0, i, len(doc)
    while j < n:
        c = doc[j]
        if c in "([{":
            depth += 1
        elif c in ")]}":
            depth -= 1
            if depth == 0:
                return doc[:i], doc[i + 1:j], doc[j + 1:]
        elif c in "'\"":
            q = doc[j:j + 3] if doc[j:j + 3] in ("'''", '"""') else c
            j += len(q)
            while j < n and not doc.startswith(q, j):
                j += 2 if doc[j] == "\\" else 1
            j += len(q) - 1
        j += 1
    return None


def split_top(arglist):
    items, depth, cur, j, n = [], 0, [], 0, len(arglist)
    while j < n:
        c = arglist[j]
        if c in "'\"":
            k = j + 1
            while k < n and arglist[k] != c:
                k += 2 if arglist[k] == "\\" else 1
            cur.append(arglist[j:k + 1])
            j = k + 1
            continue
        if c in "([{":
            depth += 1
        elif c in ")]}":
            depth -= 1
        if c == "," and depth == 0:
            items.append("".join(cur).strip())
            cur = []
        else:
            cur.append(c)
        j += 1
    if "".join(cur).strip():
        items.append("".join(cur).strip())
    return items


def item_token(item, ids):
    """embedded item text -> token of the model's item encoding"""
    if item in ("/", "*"):
        return item
    if item.startswith("**"):
        return "**" + item[2:].split(":")[0].strip()
    if item.startswith("*"):
        return "*" + item[1:].split(":")[0].strip()
    depth, name_end, has_d, k, n = 0, None, False, 0, len(item)
    while k < n:
        c = item[k]
        if c in "'\"":
            k += 1
            while k < n and item[k] != c:
                k += 2 if item[k] == "\\" else 1
        elif c in "([{":
            depth += 1
        elif c in ")]}":
            depth -= 1
        elif depth == 0 and c == ":" and name_end is None:
            name_end = k
        elif depth == 0 and c == "=" and item[k:k + 2] != "==" and item[k - 1] not in "=!<>":
            if name_end is None:
                name_end = k
            has_d = True
            break
        k += 1
    name = (item if name_end is None else item[:name_end]).strip()
    return name + ("=" + ids.get(name, "?") if has_d else "")


def ast_args(arglist):
    fn = ast.parse("def f(" + arglist + "): pass").body[0]
    a = fn.args
    out = []
    npos = len(a.posonlyargs) + len(a.args)
    dflts = [None] * (npos - len(a.defaults)) + list(a.defaults)
    for k, p in enumerate(a.posonlyargs + a.args):
        out.append((p.arg, "po" if k < len(a.posonlyargs) else "pk", dflts[k], p.annotation))
    if a.vararg:
        out.append((a.vararg.arg, "va", None, a.vararg.annotation))
    for p, d in zip(a.kwonlyargs, a.kw_defaults):
        out.append((p.arg, "ko", d, p.annotation))
    if a.kwarg:
        out.append((a.kwarg.arg, "vk", None, a.kwarg.annotation))
    return out


class _Fold(ast.NodeTransformer):
    """Evaluate constant sub-expressions with scalar results (ConstantFolding runs before EmbedSignature,
    so `x & (3 | 4)` is embedded as `x & 0x7`): both sides are normalised the same way."""
    def generic_visit(self, node):
        node = super().generic_visit(node)
        if isinstance(node, (ast.BinOp, ast.UnaryOp, ast.BoolOp, ast.Compare, ast.IfExp, ast.Subscript)):
            if not any(isinstance(n, (ast.Name, ast.Call, ast.Attribute, ast.Lambda, ast.JoinedStr, ast.ListComp, ast.Starred))
                       for n in ast.walk(node)):
                try:
                    v = eval(compile(ast.fix_missing_locations(ast.Expression(node)), "<c25>", "eval"), {"__builtins__": {}})
                except Exception:
                    return node
                if v is None or type(v) in (bool, int, float, complex, str, bytes):
                    return ast.copy_location(ast.Constant(v), node)
        return node


def dump(node):
    if node is None:
        return None
    node = _Fold().visit(ast.parse(ast.unparse(node), mode="eval").body)
    return ast.dump(node)


def culprit_class(items, s):
    """class tag of the first embedded item that does not parse on its own"""
    byname = {p["name"]: p for p, _ in flat(s)}
    for it in items:
        if it in ("/", "*") or it.startswith("*"):
            continue
        try:
            ast.parse("def f(" + it + "): pass")
        except SyntaxError:
            p = byname.get(item_token(it, {}).split("=")[0])
            return DEFAULTS[p["dflt"]][1] if p and p["dflt"] is not None else "item"
    return "arglist"


# ------------------------------------------------------------------ model access

_LEAN_MAIN = '''import CyVerif.Model.C25Sig
partial def loop (h : IO.FS.Stream) (out : IO.FS.Stream) : IO Unit := do
  let line ← h.getLine
  if line.isEmpty then return ()
  match (line.trimAsciiEnd.toString.splitOn " ").filter (· ≠ "") with
  | "C25Sig" :: rest => out.putStrLn (CyVerif.C25Sig.handle rest)
  | _ => out.putStrLn "bad-op"
  loop h out
def main : IO Unit := do loop (← IO.getStdin) (← IO.getStdout)
'''


def model_batch(ctx, lines):
    """The compiled driver; if it does not know C25Sig yet, interpret the model file with `lean --run`."""
    if not lines:
        return []
    mode = ctx.notes.get("c25sig_model_via")
    if mode is None:
        probe = ctx.drv.batch(["C25Sig wf -|-|-|-|-"])
        mode = "cydrv" if probe == ["ok 1"] else "lean --run (cydrv has no C25Sig handler)"
        ctx.notes["c25sig_model_via"] = mode
    if mode == "cydrv":
        return ctx.drv.batch(lines)
    path = os.path.join(ctx.scratch, "C25SigMain.lean")
    with open(path, "w") as f:
        f.write(_LEAN_MAIN)
    p = subprocess.run(["lake", "env", "lean", "--run", path], cwd=lib.LEAN_DIR, input="\n".join(lines) + "\n",
                       stdout=subprocess.PIPE, stderr=subprocess.PIPE, text=True, env=lib._clean_env(), timeout=900)
    out = p.stdout.split("\n")
    if out and out[-1] == "":
        out.pop()
    if p.returncode != 0 or len(out) != len(lines):
        raise lib.Infra("C25Sig model run failed rc=%s %d/%d: %s" % (p.returncode, len(out), len(lines), (p.stderr or p.stdout)[-300:]))
    return out


# ------------------------------------------------------------------ comparison

def flat(s):
    out = [(p, "po") for p in s["posonly"]] + [(p, "pk") for p in s["normal"]]
    if s["vararg"]:
        out.append(({"name": s["vararg"], "dflt": None, "ann": None}, "va"))
    out += [(p, "ko") for p in s["kwonly"]]
    if s["varkw"]:
        out.append(({"name": s["varkw"], "dflt": None, "ann": None}, "vk"))
    return out


def classes(s):
    return sorted(set(DEFAULTS[p["dflt"]][1] for p, _ in flat(s) if p["dflt"] is not None))


def expected_doc(sp, combo, sigline_ok):
    src = sp["doc"]
    if not combo["embed"]:
        return src
    if combo["fmt"] == "clinic" and combo["binding"]:
        return src
    return None  # checked structurally


def compare(ctx, sp, I, O, combo, modsrc_id, lines, pending):
    sc, s = sp["scope"], sp["sig"]
    tag = "%s/%s" % (sc, combo["tag"])
    ctx.count("sig:" + tag)
    fl = flat(s)
    nontrivial = any(p["dflt"] is not None for p, _ in fl) or bool(s["vararg"] or s["varkw"] or s["posonly"] or s["kwonly"])
    ctx.seen((sig_token(s), tuple(p["dflt"] for p, _ in fl), sc, combo["tag"]), nontrivial=nontrivial)
    src_line = "%s(%s) scope=%s" % (sp["qualname"], render_params(s), sc)
    rep = {"leg": "sig", "scope": sc, "directives": combo["directives"], "pyx": combo["pyx"], "params": render_params(s),
           "doc": sp["doc"], "qualname": sp["qualname"], "ret": s.get("ret")}
    ctx.sample({"def": src_line[:200], "combo": combo["tag"]})

    def bad(key, what):
        ctx.violation(key, ("%s [%s]: %s" % (src_line, combo["tag"], what))[:300], rep)

    # names
    for a, k in (("__name__", "name"), ("__qualname__", "qualname"), ("__module__", "module")):
        if not combo["binding"] and a != "__name__":
            if I.get(a) != O.get(a):   # outside the property (it speaks about binding=True): recorded, not judged
                nb = ctx.notes.setdefault("nobinding_differences", {})
                nb["%s-%s" % (k, sc)] = nb.get("%s-%s" % (k, sc), 0) + 1
            continue
        if I.get(a) != O.get(a):
            bad("%s-%s%s" % (k, sc, "" if combo["binding"] else "-nobinding"), "%s impl=%r oracle=%r" % (a, I.get(a), O.get(a)))
    # docstring
    doc, src = I.get("__doc__"), sp["doc"]
    sigtext = None
    if not combo["embed"] or (combo["fmt"] == "clinic" and combo["binding"]):
        if doc != O.get("__doc__"):
            key = "doc-%s" % ("clinic-binding" if combo["embed"] else "plain")
            if doc == "None" and src is None:
                key += "-none-becomes-str"
            bad(key + ("" if combo["binding"] else "-nobinding"), "__doc__ impl=%r oracle=%r" % (doc, O.get("__doc__")))
    elif combo["fmt"] == "clinic":
        pass  # binding=False + clinic: CPython strips the text signature from __doc__; not compared here
    else:
        sc3 = split_call(doc) if isinstance(doc, str) else None
        fname = I.get("__name__")
        if sc3 is None or not (sc3[0] == fname or sc3[0].endswith("." + str(fname))) or sc == "lambda":
            # no embedded signature: the source docstring must survive unchanged
            if sc != "lambda":
                ctx.notes.setdefault("embedsig_absent_scopes", {}).setdefault(sc, 0)
                ctx.notes["embedsig_absent_scopes"][sc] += 1
            if doc != src:
                bad("doc-noembed-%s" % sc, "no signature line and __doc__ impl=%r source=%r" % (doc, src))
        else:
            prefix, sigtext, tail = sc3
            ret = s.get("ret")
            want_tail = (" -> " + ret if ret else "") + ("\n\n" + inspect.cleandoc(src) if src else "")
            if tail != want_tail:
                bad("doc-embedsig-rest", "after the signature: impl=%r expected=%r" % (tail, want_tail))
    if not combo["binding"]:
        return
    # inspect.signature
    if "sig_error" in I:
        bad("sig-error-%s" % sc, "inspect.signature raises " + I["sig_error"])
    else:
        ip, op = I["params"], O["params"]
        if [p[0] for p in ip] != [p[0] for p in op]:
            bad("sig-names", "names impl=%r oracle=%r" % ([p[0] for p in ip], [p[0] for p in op]))
        elif [p[1] for p in ip] != [p[1] for p in op]:
            bad("sig-kinds", "kinds impl=%r oracle=%r" % ([p[1] for p in ip], [p[1] for p in op]))
        else:
            for (p, _), a, b in zip(fl, ip, op):
                if a[2] != b[2]:
                    cls = DEFAULTS[p["dflt"]][1] if p["dflt"] is not None else "none"
                    bad("sig-default-value:" + cls, "default of %s impl=%s oracle=%s source=%s" % (
                        a[0], a[2], b[2], DEFAULTS[p["dflt"]][0] if p["dflt"] is not None else None))
                want = "<empty>" if not p["ann"] else repr(p["ann"])
                if a[3] != want:
                    bad("sig-annotation", "annotation of %s impl=%s expected (source text as str)=%s" % (a[0], a[3], want))
        has_ann = any(p["ann"] for p, _ in fl) or s.get("ret")
        if not has_ann and "lambda" not in classes(s) and I["sig_str"] != O["sig_str"]:
            bad("sig-str", "str(signature) impl=%r oracle=%r" % (I["sig_str"], O["sig_str"]))
        want_ret = repr(s["ret"]) if s.get("ret") else "<empty>"
        if I.get("ret") != want_ret:
            bad("sig-return-annotation", "impl=%s expected=%s" % (I.get("ret"), want_ret))
    if I["defaults"] != O["defaults"]:
        bad("defaults-tuple", "__defaults__ impl=%r oracle=%r" % (I["defaults"], O["defaults"]))
    ik, ok = I["kwdefaults"], O["kwdefaults"]
    if (sorted(ik) if isinstance(ik, list) else ik) != (sorted(ok) if isinstance(ok, list) else ok):
        bad("kwdefaults", "__kwdefaults__ impl=%r oracle=%r" % (ik, ok))
    elif ik != ok:
        bad("kwdefaults-order", "__kwdefaults__ order impl=%r oracle=%r" % ([k[0] for k in ik], [k[0] for k in ok]))
    want_ann = {p["name"]: repr(p["ann"]) for p, _ in fl if p["ann"]}
    if s.get("ret"):
        want_ann["return"] = repr(s["ret"])
    if I["annotations"] != want_ann:
        bad("annotations", "__annotations__ impl=%r expected (source text as str)=%r" % (I["annotations"], want_ann))
    if I["code"] is None or O["code"] is None:
        bad("code-missing", "__code__ impl=%r" % (I["code"],))
    else:
        for k, nm in enumerate(["argcount", "posonlyargcount", "kwonlyargcount", "varnames", "flags", "name"]):
            if I["code"][k] != O["code"][k]:
                bad("code-" + nm, "co_%s impl=%r oracle=%r" % (nm, I["code"][k], O["code"][k]))
    # embedded signature text re-parsed by CPython
    ids = {p["name"]: p["id"] for p, _ in fl if p.get("id")}
    emb_items = None
    if sigtext is not None:
        emb_items = split_top(sigtext)
        if combo["fmt"] == "python" or not any(p["ann"] for p, _ in fl):
            try:
                got = ast_args(sigtext)
            except SyntaxError as e:
                got = None
                bad("embedsig-unparsable:" + culprit_class(emb_items, s), "embedded %r does not parse: %s" % (sigtext[:150], e.msg))
            if got is not None:
                if [(g[0], g[1]) for g in got] != [(p["name"], k) for p, k in fl]:
                    bad("embedsig-params", "embedded %r gives %r" % (sigtext[:120], [(g[0], g[1]) for g in got]))
                else:
                    for (p, _), g in zip(fl, got):
                        if p["dflt"] is None:
                            if g[2] is not None:
                                bad("embedsig-default-extra", "embedded default for %s in %r" % (p["name"], sigtext[:120]))
                            continue
                        text, cls = DEFAULTS[p["dflt"]]
                        want = ast.parse(text, mode="eval").body
                        if dump(g[2]) != dump(want):
                            shown = ast.unparse(g[2]) if g[2] is not None else None
                            elided = isinstance(g[2], ast.Constant) and g[2].value is Ellipsis
                            bad(("embedsig-default-elided:" if elided else "embedsig-default-text:") + cls, "source default %s embedded as %r (parses as %s)" % (
                                text, item_for(emb_items, p["name"]), shown))
                        if p["ann"] and dump(g[3]) != dump(ast.parse(p["ann"], mode="eval").body):
                            bad("embedsig-annotation-text", "annotation %s of %s embedded as %r" % (p["ann"], p["name"], item_for(emb_items, p["name"])))
    # model leg (answers compared in run_sig after one batch)
    tok = sig_token(s)
    if I["code"] is not None:
        exp_d = {p["name"]: O_default(O, p["name"]) for p, _ in fl}
        pos = [p for p, k in fl if k in ("po", "pk") and p["dflt"] is not None]
        def ident(k, val, p):
            return p["id"] if (p is not None and val == exp_d.get(p["name"])) else "X%d" % k
        dl = I["defaults"]
        dtok = "-" if dl is None else ("_" if dl == [] else ",".join(ident(k, v, pos[k] if k < len(pos) else None) for k, v in enumerate(dl))) \
            if not isinstance(dl, str) else "?"
        kwp = {p["name"]: p for p, k in fl if k == "ko"}
        kl = I["kwdefaults"]
        ktok = "-" if kl is None else ("_" if kl == [] else ",".join("%s=%s" % (n, ident(k, v, kwp.get(n))) for k, (n, v) in enumerate(
            sorted(kl, key=lambda e: [q["name"] for q in s["kwonly"]].index(e[0]) if e[0] in kwp else 99)))) if not isinstance(kl, str) else "?"
        c = I["code"]
        fields = "|".join([str(c[0]), str(c[1]), str(c[2]), ",".join(c[3]) or "-",
                           ("1" if c[4] & 4 else "0") + ("1" if c[4] & 8 else "0"), dtok, ktok])
        fields_l = "|".join([str(c[0]), str(c[1]), str(c[2]), ",".join(c[3] + c[6]) or "-",
                             ("1" if c[4] & 4 else "0") + ("1" if c[4] & 8 else "0"), dtok, ktok])
        lines.append("C25Sig enc " + tok)
        pending.append(("enc", fields, src_line, combo, rep))
        lines.append("C25Sig dec " + fields_l)
        pending.append(("dec", tok, src_line, combo, rep))
    if emb_items is not None:
        lines.append("C25Sig fmt " + tok)
        pending.append(("fmt", ",".join(item_token(it, ids) for it in emb_items) or "-", src_line, combo, rep))
        lines.append("C25Sig read " + (",".join(item_token(it, ids) for it in emb_items) or "-"))
        pending.append(("read", tok, src_line, combo, rep))


def item_for(items, name):
    for it in items or []:
        if it.split("=")[0].split(":")[0].strip() == name:
            return it
    return None


def O_default(O, name):
    for p in O.get("params", []):
        if p[0] == name:
            return p[2]
    return None


# ------------------------------------------------------------------ driver

def combos(ctx):
    B = lambda binding, embed, fmt, pyx: {
        "binding": binding, "embed": embed, "fmt": fmt, "pyx": pyx,
        "tag": "%s,binding=%d,embedsig=%s" % ("pyx" if pyx else "py", binding, fmt if embed else "off"),
        "directives": dict({"binding": binding, "embedsignature": embed, "annotation_typing": False},
                           **({"embedsignature.format": fmt} if embed else {}))}
    base = [B(True, False, None, False), B(True, True, "python", False), B(True, True, "c", False), B(True, True, "clinic", False),
            B(True, True, "python", True), B(True, False, None, True), B(False, True, "python", False), B(False, False, None, True)]
    if ctx.quick:
        return base[:5] + base[6:7]
    more = [B(True, True, "c", True), B(True, True, "clinic", True), B(False, True, "clinic", False), B(False, True, "c", True)]
    return base + more + base[:6]  # the repeats get fresh random functions


def make_specs(ctx, combo, nfun, first):
    rng = ctx.rng
    scopes = PYX_SCOPES if combo["pyx"] else PY_SCOPES
    sigs = (boundary_sigs(rng) if first else [])
    specs = []
    for i in range(nfun):
        sc = scopes[i % len(scopes)] if i < 2 * len(scopes) else rng.choice(scopes)
        annots = sc != "lambda" and rng.random() < 0.3
        if sc == "cpdef":
            s = gen_sig(rng, annots=False, simple=True)
        elif sigs and sc != "lambda" or (sigs and i % 3 == 0):
            s = sigs.pop(0)
        else:
            s = gen_sig(rng, annots=annots)
        doc = None if sc == "lambda" else rng.choice(DOCS)
        if sc == "lambda":
            s["ret"] = None
            for p, _ in flat(s):
                p["ann"] = None
        if sc.startswith(("cdef", "cpdef")):
            # `def m(self, u=1j)` in a cdef class with binding=True crashes the compiler (ImagNode.analyse_types);
            # it is reported once by the dedicated witness module in run_sig, and kept out of the big modules
            for p, _ in flat(s):
                if p["dflt"] is not None and DEFAULTS[p["dflt"]][0] == "1j":
                    p["dflt"] = [d[0] for d in DEFAULTS].index("1.5")
        specs.append(finalize({"i": i, "scope": sc, "sig": s, "doc": doc}))
    return specs


def run_sig(ctx):
    cs = combos(ctx)
    nfun = ctx.n(18, 40)
    mods = []
    for k, combo in enumerate(cs):
        specs = make_specs(ctx, combo, nfun, first=(k in (1, 4)))
        name = "c25s%d" % k
        src = render_module(specs, combo["pyx"])
        osrc = render_module(specs, False) if combo["pyx"] else src
        mods.append({"name": name, "combo": combo, "specs": specs, "src": src, "osrc": osrc})
    wsrc = "cdef class K:\n    def m(self, u=1j): pass\n"
    built = cybuild.build_many(ctx, [dict(name=m["name"], source=m["src"], ext=".pyx" if m["combo"]["pyx"] else ".py",
                                          directives=m["combo"]["directives"]) for m in mods]
                               + [dict(name="c25sw", source=wsrc, ext=".pyx", directives={"binding": True})])
    w = built.pop()
    ctx.count("witness:imag-default-cdef-method")
    if isinstance(w, Exception):
        ctx.violation("build-crash-imag-default-cdef-method", ("`cdef class K: def m(self, u=1j): pass` with binding=True does not compile: "
                      + getattr(w, "log", str(w)).strip().split("\n")[-1])[:300], {"leg": "sig", "source": wsrc, "directives": {"binding": True}, "pyx": True})
    lines, pending = [], []
    for m, so in zip(mods, built):
        combo = m["combo"]
        if isinstance(so, Exception):
            log = getattr(so, "log", str(so))
            import re
            mm = re.findall(r"^(\w+(?:Error|Exception)): (.*)$", log, re.M)
            slug = re.sub(r"[^A-Za-z0-9]+", "-", (mm[-1][0] + " " + mm[-1][1]) if mm else "cc" if getattr(so, "stage", "") == "cc" else "cython")[:60]
            ctx.violation("build-fails:" + slug, ("module with generated signatures does not build: " + log[-250:])[:300],
                          {"leg": "sig", "source": m["src"], "directives": combo["directives"], "pyx": combo["pyx"]})
            continue
        od = os.path.join(ctx.scratch, "c25sig_oracle", m["name"])
        os.makedirs(od, exist_ok=True)
        opath = os.path.join(od, m["name"] + ".py")
        with open(opath, "w") as f:
            f.write(m["osrc"])
        O, oerr = observe(ctx, opath, m["name"])
        if O is None:
            raise lib.Infra("oracle module failed under CPython: " + oerr)
        I, ierr = observe(ctx, so, m["name"])
        if I is None:
            ctx.violation("import-fails:" + combo["tag"], ("compiled module fails to import/inspect: " + ierr[-250:])[:300],
                          {"leg": "sig", "source": m["src"], "directives": combo["directives"], "pyx": combo["pyx"]})
            continue
        for sp in m["specs"]:
            compare(ctx, sp, I[sp["i"]], O[sp["i"]], combo, m["name"], lines, pending)
    outs = model_batch(ctx, lines)
    for (op, want, src_line, combo, rep), line, got in zip(pending, lines, outs):
        ctx.count("model:" + op)
        if got != "ok " + want:
            ctx.tie_break("C25Sig." + op, ("%s [%s]: model `%s` -> %s ; implementation gives %s" % (src_line, combo["tag"], line, got, want))[:300],
                          dict(rep, model_line=line))
    ctx.notes["c25sig"] = ("annotations: Cython stores __annotations__ values as strings (PEP 563 style, documented), so they are "
                           "compared with the source text of the annotation, not with CPython's evaluated objects; "
                           "cdef class / cpdef sources use the same functions rendered as plain classes as the CPython oracle; "
                           "binding=False modules: only __name__/__qualname__/__module__/__doc__ are compared")

#!/usr/bin/env python3
"""unobserved.py Cxx log [log...] : finding keys of Cxx listed in known_findings.txt that no log shows as KNOWN-FINDING"""
import re, sys
P = sys.argv[1]
seen = set()
for f in sys.argv[2:]:
    for l in open(f, errors='replace'):
        m = re.match(r'KNOWN-FINDING: property=%s key=(\S+)' % P, l)
        if m: seen.add(m.group(1))
keys = [re.match(r'finding: property=%s key=(\S+)' % P, l).group(1) for l in open('/verif/known_findings.txt') if l.startswith('finding: property=%s ' % P)]
print(P, 'listed', len(keys), 'observed', len(seen & set(keys)))
for k in keys:
    if k not in seen: print('  unobserved', k)

#!/bin/bash
# seedrecheck.sh Cxx [checks...] : re-run our check(s) on an already confirmed seeded regression and update meta.json
P=$1; shift; CHECKS=${@:-$P}; S=/verif/seeded/$P
git -C /repo apply $S/patch.diff || exit 2
RES=""
for c in $CHECKS; do
  cd /verif && timeout -k 5 2400 ./check $c > $S/check_$c.log 2>&1; rc=$?
  RES="$RES $c:rc=$rc:$(grep -c '^VIOLATION' $S/check_$c.log):$(grep -c 'no-failing-input-found' $S/check_$c.log)"
  cp /verif/evidence/replay/$c-1.json $S/replay_$c.json 2>/dev/null
done
git -C /repo checkout -- .
cd /verif && for c in $CHECKS; do timeout -k 5 2400 ./check $c > /dev/null 2>&1; done
python3 - <<PY
import json
p="$S/meta.json"; m=json.load(open(p))
m.setdefault("history",[]).append({"checks_before_strengthening": m.get("checks")})
m["checks"]="$RES".split()
json.dump(m,open(p,"w"),indent=1)
PY
echo "$P checks:$RES"

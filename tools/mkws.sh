#!/bin/sh
# mkws.sh Cxx : private copy of /verif for a builder agent
set -e
W=/var/tmp/w-$1
rm -rf $W; mkdir -p $W
rsync -a --exclude .git /verif/ $W/verif/
echo $W/verif

#!/usr/bin/env python3
"""markfixed.py Cxx commit key [key...] : turn finding: lines into fixed: lines (keeps the witness text)"""
import re, sys
P, commit, keys = sys.argv[1], sys.argv[2], set(sys.argv[3:])
out = []; n = 0
for l in open('/verif/known_findings.txt'):
    m = re.match(r'finding: property=%s key=(\S+) (.*)' % P, l)
    if m and m.group(1) in keys:
        out.append('fixed: property=%s %s [%s] %s\n' % (P, commit, m.group(1), m.group(2).strip())); n += 1
    else:
        out.append(l)
open('/verif/known_findings.txt', 'w').writelines(out)
print(P, 'converted', n, 'of', len(keys))

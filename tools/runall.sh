#!/bin/bash
# runall.sh SEED [JOBS] [TIER]: runs every claimed check once (like `vp check`) and prints a summary
SEED=${1:-1}; JOBS=${2:-6}; TIER=${3:-quick}
OUT=/var/tmp/all_$SEED; mkdir -p $OUT
cd /verif
IDS=$(python3 -c "
import json; m=json.load(open('MANIFEST.json')); print(' '.join(c['property_id'] if 'property_id' in c else c['id'] for c in m['checks']))")
echo $IDS | tr ' ' '\n' | xargs -P $JOBS -I{} sh -c "VERIF_SEED=$SEED VERIF_TIMEOUT=5000 timeout -k 5 5100 ./check {} --tier $TIER > $OUT/{}.log 2>&1; echo rc=\$? >> $OUT/{}.log"
for f in $OUT/*.log; do P=$(basename $f .log); echo "$P $(tail -n1 $f) viol=$(grep -c '^VIOLATION' $f) known=$(grep -c '^KNOWN' $f)"; done | tee $OUT/SUMMARY.txt | grep -v "rc=0 viol=0"

#!/bin/sh
# integrate.sh Cxx : copy a builder's new files from /var/tmp/w-Cxx/verif into /verif
set -e
P=$1; p=$(echo $P | tr 'A-Z' 'a-z'); W=/var/tmp/w-$P/verif
cd /verif
for d in Model Lemmas Props; do
  for f in $W/lean/CyVerif/$d/${P}*.lean; do [ -e "$f" ] && cp "$f" lean/CyVerif/$d/ && echo "  $d/$(basename $f)"; done
done
cp $W/lean/props/$P.json lean/props/
cp $W/harness/props/$p.py harness/props/
for f in $W/harness/props/${p}?*.py $W/harness/${p}*.py $W/harness/props/${p}*.c $W/harness/props/${p}*.txt; do [ -e "$f" ] && cp "$f" $(echo $f | sed "s|$W/||") && echo "  extra $(basename $f)"; done
cp $W/tools/claims/$P.json tools/claims/
[ -d $W/corpus/$P ] && mkdir -p corpus && cp -r $W/corpus/$P corpus/
grep "property=$P " $W/known_findings.txt || true
python3 tools/regen.py

#!/usr/bin/env python3
"""Regenerate MANIFEST.json from tools/claims.json (claimed properties) + properties.jsonl."""
import json, os
HERE = os.path.dirname(os.path.dirname(os.path.abspath(__file__)))
claims = json.load(open(os.path.join(HERE, "tools", "claims.json")))
claims["claimed"] = {}
for fn in sorted(os.listdir(os.path.join(HERE, "tools", "claims"))):
    if fn.endswith(".json"):
        claims["claimed"][fn[:-5]] = json.load(open(os.path.join(HERE, "tools", "claims", fn)))
props = [json.loads(l) for l in open(os.path.join(HERE, "properties.jsonl"))]
checks = []
na = []
for p in props:
    pid = p["id"]
    c = claims["claimed"].get(pid)
    if c:
        checks.append({
            "property_id": pid,
            "quick_cmd": "./check %s --tier quick" % pid,
            "thorough_cmd": "./check %s --tier thorough" % pid,
            "evidence_file": "evidence/%s.json" % pid,
            "replay_cmd_template": "./check %s --replay {path}" % pid,
            "engine": "cyverif-lean",
            "level_claimed": {"category": "proof", "text": c["text"], "design_ref": c.get("design_ref", "DESIGN.md section 4, " + pid)},
            "level_note": c["note"],
            "technique": c.get("technique", "Lean 4 theorems about a hand-written model + differential correspondence check against the working tree"),
        })
    else:
        na.append({"property_id": pid, "reason": claims["not_applicable"].get(pid, "Lean model not built yet; not claimed on differential evidence alone (DESIGN.md section 6)")})
m = {
    "version": 1,
    "setup_cmd": "cd lean && lake build CyVerif cydrv",
    "hooks": {"guard": "CYTHON_VERIF", "enable": "no source hook is needed: checks stage the working tree of /repo (pure-Python sources) and wrap functions in-process",
              "baseline_off_cmd": "cd /repo && /venv/bin/python -m pytest -ra -q -p no:cacheprovider --timeout=900 --continue-on-collection-errors",
              "source_commits": claims.get("source_commits", []), "add_only": True},
    "engines": [{"name": "cyverif-lean", "path": "check", "serves_properties": [c["property_id"] for c in checks],
                 "kind_free_text": "Lean 4 (4.33.0) library lean/CyVerif: executable models + kernel-checked theorems; Python harness: staging of /repo, build farm, line-protocol driver cydrv, three-way differential (implementation / model / oracle)"}],
    "checks": checks,
    "notes": claims.get("notes", ""),
    "not_applicable": na,
}
json.dump(m, open(os.path.join(HERE, "MANIFEST.json"), "w"), indent=1)
print("claimed", len(checks), "not_applicable", len(na))

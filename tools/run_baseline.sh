#!/bin/sh
# Runs the pinned baseline suite of /repo and compares with BASELINE.json stable_pass.
cd /repo && /venv/bin/python -m pytest -ra -q -p no:cacheprovider --timeout=900 --continue-on-collection-errors --junitxml=/var/tmp/baseline.junit.xml > /var/tmp/baseline.log 2>&1
/venv/bin/python - <<'PY'
import json, xml.etree.ElementTree as ET
b = json.load(open('/root/.vp/BASELINE.json'))
want = set(b['stable_pass'])
t = ET.parse('/var/tmp/baseline.junit.xml')
passed = set()
for tc in t.iter('testcase'):
    if not any(ch.tag in ('failure', 'error', 'skipped') for ch in tc):
        passed.add("%s::%s" % (tc.get('classname'), tc.get('name')))
missing = sorted(want - passed)
print("stable_pass", len(want), "passed-now", len(want & passed), "missing", len(missing))
for m in missing[:20]:
    print("  MISSING", m)
PY
rm -f /var/tmp/baseline.junit.xml

#!/bin/bash
# seedtest.sh Cxx [checks...] : confirm a seeded regression (from /tmp/mut/Cxx, /tmp/mut/Cxx-out) and run our check(s) on it
P=$1; shift; CHECKS=${@:-$P}
W=/tmp/mut/$P; O=/tmp/mut/$P-out; S=/verif/seeded/$P
mkdir -p $S
git -C $W diff > $S/patch.diff
[ -s $S/patch.diff ] || { echo "no change in worktree"; exit 2; }
DEMO=$O/demo.py; [ -e $DEMO ] || DEMO=$O/demo.sh
cp $DEMO $S/; cp $O/notes.md $S/ 2>/dev/null
RUN="/venv/bin/python"; case $DEMO in *.sh) RUN="bash";; esac
# demo on changed tree
(cd $O && PYTHONPATH=$W timeout -k 5 900 $RUN $DEMO $W > $S/demo_changed.log 2>&1); RC_CH=$?
# demo on clean tree
C=/tmp/mut/$P-clean; git -C /repo worktree add -f $C HEAD >/dev/null 2>&1
(cd $O && PYTHONPATH=$C timeout -k 5 900 $RUN $DEMO $C > $S/demo_clean.log 2>&1); RC_CL=$?
git -C /repo worktree remove --force $C
# existing tests with the change (pure-Python compiler of the worktree)
(cd $W && PYTHONPATH=$W timeout -k 5 2400 /venv/bin/python -m pytest -q -p no:cacheprovider --timeout=900 --continue-on-collection-errors --junitxml=/tmp/mut/$P.junit.xml > /tmp/mut/$P.pytest.log 2>&1)
TESTS=$(/venv/bin/python - <<PY
import json, xml.etree.ElementTree as ET
want=set(json.load(open('/root/.vp/BASELINE.json'))['stable_pass'])
ok=set()
for tc in ET.parse('/tmp/mut/$P.junit.xml').iter('testcase'):
    if not any(ch.tag in ('failure','error','skipped') for ch in tc): ok.add("%s::%s"%(tc.get('classname'),tc.get('name')))
print(len(want&ok), len(want))
PY
)
# our checks on a scratch worktree of the current /repo HEAD with the patch applied (VERIF_REPO), so that
# concurrently running checks of /repo never see the change
U=/tmp/mut/$P-cur; git -C /repo worktree remove --force $U >/dev/null 2>&1; git -C /repo worktree add -f $U HEAD >/dev/null 2>&1
git -C $U apply $S/patch.diff || { echo "patch does not apply to current HEAD"; git -C /repo worktree remove --force $U; exit 2; }
RES=""
for c in $CHECKS; do
  cd /verif && VERIF_REPO=$U timeout -k 5 3000 ./check $c > $S/check_$c.log 2>&1; rc=$?
  RES="$RES $c:rc=$rc:$(grep -c '^VIOLATION' $S/check_$c.log):$(grep -c 'no-failing-input-found' $S/check_$c.log)"
  cp /verif/evidence/replay/$c-1.json $S/replay_$c.json 2>/dev/null
done
git -C /repo worktree remove --force $U
cd /verif && for c in $CHECKS; do timeout -k 5 3000 ./check $c > /dev/null 2>&1; done   # restore clean evidence
echo "$P demo_changed_rc=$RC_CH demo_clean_rc=$RC_CL tests_pass=$TESTS checks:$RES"
python3 - <<PY
import json
json.dump({"property":"$P","demo_rc_changed":$RC_CH,"demo_rc_clean":$RC_CL,"baseline_tests_passing_with_change":"$TESTS",
 "checks":"$RES".split(),"ran":"tools/seedtest.sh $P $CHECKS"}, open("$S/meta.json","w"), indent=1)
PY

import CyVerif.Lemmas.C49Reset
namespace CyVerif.C49
open Forest

/-- The segment of a named node is visible in the flat document, and a change
at the node only replaces the inside of the segment. -/
theorem Forest.doc_decomp {b k : Nat} (g : List Frag → Forest → List Frag × Forest)
    {fs0 : List Frag} {kids0 : Forest} :
    ∀ F : Forest, F.find b = some (fs0, kids0) → (b, some k) ∈ F.tags → F.ids.Nodup → F.names.Nodup →
      ∃ A B, F.doc = A ++ Item.op k :: ((kids0.doc ++ fragItems fs0) ++ Item.cl k :: B) ∧
        Item.op k ∉ A ∧ Item.cl k ∉ kids0.doc ++ fragItems fs0 ∧
        (F.modify b g).doc = A ++ Item.op k ::
          (((g fs0 kids0).2.doc ++ fragItems (g fs0 kids0).1) ++ Item.cl k :: B) := by
  intro F
  induction F with
  | nil => intro h; simp [Forest.find] at h
  | cons id nm fs kd r ihk ihr =>
    intro hf ht hid hnm
    obtain ⟨i1, i2, i3, i4, i5⟩ := Forest.nodup_ids_cons hid
    obtain ⟨n1, n2, n3, n4⟩ := Forest.nodup_names_cons hnm
    simp only [Forest.tags, List.mem_cons, List.mem_append, Prod.mk.injEq] at ht
    rcases Forest.find_cons_cases hid hf with ⟨e, hp⟩ | ⟨e, hbk, hbr, hfk⟩ | ⟨e, hbk, hbr, hfr⟩
    · subst e
      simp only [Prod.mk.injEq] at hp
      obtain ⟨rfl, rfl⟩ := hp
      have hname : nm = some k := by
        rcases ht with h | h | h
        · exact h.2.symm
        · exact absurd (Forest.mem_ids_of_tag h) i1
        · exact absurd (Forest.mem_ids_of_tag h) i2
      subst hname
      have hnot : Item.cl k ∉ kids0.doc ++ fragItems fs0 := by
        simp only [List.mem_append, not_or]
        exact ⟨fun h => (n1 k rfl).1 (Forest.cl_mem_doc h), not_mem_fragItems_cl _ _⟩
      refine ⟨[], r.doc, ?_, by simp, hnot, ?_⟩
      · simp [Forest.doc, wrap]
      · simp [Forest.modify, Forest.doc, wrap]
    · have h : (b, some k) ∈ kd.tags := by
        rcases ht with h | h | h
        · exact absurd h.1.symm e
        · exact h
        · exact absurd (Forest.mem_ids_of_tag h) hbr
      obtain ⟨A, B, hd, hA, hi, hm⟩ := ihk hfk h i3 n2
      have hkk : k ∈ kd.names := Forest.mem_names_of_tag h
      simp only [Forest.modify, e, if_false, Forest.doc, Forest.modify_of_not_mem hbr, hd, hm]
      cases nm with
      | none => exact ⟨A, B ++ fragItems fs ++ r.doc, by simp [wrap], hA, hi, by simp [wrap]⟩
      | some j =>
        have hjk : j ≠ k := fun e => (n1 j rfl).1 (e ▸ hkk)
        refine ⟨Item.op j :: A, B ++ fragItems fs ++ Item.cl j :: r.doc, by simp [wrap], ?_, hi,
          by simp [wrap]⟩
        simp only [List.mem_cons, not_or]
        exact ⟨fun e => hjk (by injection e with e; exact e.symm), hA⟩
    · have h : (b, some k) ∈ r.tags := by
        rcases ht with h | h | h
        · exact absurd h.1.symm e
        · exact absurd (Forest.mem_ids_of_tag h) hbk
        · exact h
      obtain ⟨A, B, hd, hA, hi, hm⟩ := ihr hfr h i4 n3
      have hkr : k ∈ r.names := Forest.mem_names_of_tag h
      have hw : Item.op k ∉ wrap nm (kd.doc ++ fragItems fs) := by
        rw [mem_wrap_op]
        rintro (h1 | h1)
        · exact (n1 k h1).2 hkr
        · rcases List.mem_append.1 h1 with h2 | h2
          · exact n4 k (Forest.op_mem_doc h2) hkr
          · exact not_mem_fragItems_op _ _ h2
      simp only [Forest.modify, e, if_false, Forest.doc, Forest.modify_of_not_mem hbk, hd, hm]
      refine ⟨wrap nm (kd.doc ++ fragItems fs) ++ A, B, by simp, ?_, hi, by simp⟩
      simp only [List.mem_append, not_or]
      exact ⟨hw, hA⟩

theorem perm_swap_right {α} (a b c : List α) : ((a ++ b) ++ c).Perm ((a ++ c) ++ b) := by
  rw [List.append_assoc, List.append_assoc]
  exact List.Perm.append_left _ List.perm_append_comm

/-- general tag accounting of a change at one node -/
theorem Forest.tags_modify_gen {b : Nat} (g : List Frag → Forest → List Frag × Forest)
    {fs0 : List Frag} {kids0 : Forest} :
    ∀ F : Forest, F.find b = some (fs0, kids0) → F.ids.Nodup →
      ((F.modify b g).tags ++ kids0.tags).Perm (F.tags ++ (g fs0 kids0).2.tags) := by
  intro F
  induction F with
  | nil => intro h; simp [Forest.find] at h
  | cons id nm fs kd r ihk ihr =>
    intro hf hid
    obtain ⟨i1, i2, i3, i4, i5⟩ := Forest.nodup_ids_cons hid
    rcases Forest.find_cons_cases hid hf with ⟨e, hp⟩ | ⟨e, hbk, hbr, hfk⟩ | ⟨e, hbk, hbr, hfr⟩
    · simp only [Prod.mk.injEq] at hp
      obtain ⟨rfl, rfl⟩ := hp
      simp only [Forest.modify, e, if_true, Forest.tags, List.cons_append]
      refine List.Perm.cons _ ?_
      refine (perm_swap_right _ _ _).trans ?_
      refine List.Perm.trans ?_ (perm_swap_right _ _ _)
      exact List.Perm.append_right _ List.perm_append_comm
    · simp only [Forest.modify, e, if_false, Forest.tags, List.cons_append,
        Forest.modify_of_not_mem hbr]
      refine List.Perm.cons _ ?_
      refine (perm_swap_right _ _ _).trans ?_
      refine List.Perm.trans ?_ (perm_swap_right _ _ _)
      exact List.Perm.append_right _ (ihk hfk i3)
    · simp only [Forest.modify, e, if_false, Forest.tags, List.cons_append,
        Forest.modify_of_not_mem hbk]
      refine List.Perm.cons _ ?_
      rw [List.append_assoc, List.append_assoc]
      exact List.Perm.append_left _ (ihr hfr i4)

end CyVerif.C49

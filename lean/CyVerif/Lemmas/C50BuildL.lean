import CyVerif.Lemmas.C50BuildK
/-! RE → NFA, part L: `EndsAgree` (first and last code range carry the same set) for REs whose code
ranges are finite (no `AnyBut`/`AnyChar`). -/
namespace CyVerif.C50

/-- an event that does not touch the two outermost code ranges -/
def Ev.Finite : Ev → Prop
  | .range c0 c1 => -maxint < c0 ∧ c0 ≤ maxint ∧ -maxint ≤ c1 ∧ c1 < maxint
  | .sp _ => True

theorem Ev.Finite.inBounds {ev : Ev} (h : ev.Finite) : ev.InBounds := by
  cases ev with
  | range c0 c1 => exact ⟨by have := h.1; omega, h.2.1, h.2.2.1, by have := h.2.2.2; omega⟩
  | sp k => trivial

theorem addTrans_ends (n : NFA) (h : n.WF) (he : n.EndsAgree) (s : Nat) (ev : Ev) (t : Nat)
    (hs : s < n.nodes.length) (hf : ev.Finite) : (n.addTrans s ev t).EndsAgree := by
  intro s'
  unfold NFA.addTrans TMap.EndsAgree
  rw [node_modify n _ s s' hs]
  by_cases hss : s' = s
  · subst hss
    rw [if_pos rfl]
    have hw := NFA.node_wf h s'
    have hsort : ∀ a, Sorted a → Sorted (sins t a) := fun _ ha => sins_sorted ha
    cases ev with
    | range c0 c1 =>
      have hb := hf.inBounds
      obtain ⟨_, w2, _⟩ := (n.node s').trans.addWith_range hw _ hsort c0 c1 hb.1 hb.2.1 hb.2.2.1 hb.2.2.2
      show ((n.node s').trans.add (.range c0 c1) t).lookup (-maxint) = ((n.node s').trans.add (.range c0 c1) t).lookup (maxint - 1)
      unfold TMap.add
      rw [w2 (-maxint) (by unfold maxint; omega), w2 (maxint - 1) (by omega)]
      have h1 : ¬ (c0 ≤ -maxint ∧ -maxint < c1) := by have := hf.1; omega
      have h2 : ¬ (c0 ≤ maxint - 1 ∧ maxint - 1 < c1) := by have := hf.2.2.2; omega
      rw [if_neg h1, if_neg h2]
      exact he s'
    | sp k =>
      obtain ⟨_, w2, _⟩ := (n.node s').trans.addWith_sp hw _ hsort k
      show ((n.node s').trans.add (.sp k) t).lookup (-maxint) = ((n.node s').trans.add (.sp k) t).lookup (maxint - 1)
      unfold TMap.add
      rw [w2, w2]
      exact he s'
  · rw [if_neg hss]; exact he s'

theorem newState_ends (n : NFA) (he : n.EndsAgree) : (n.newState.1).EndsAgree := by
  intro s; rw [newState_node]; exact he s

theorem setAction_ends (n : NFA) (he : n.EndsAgree) (s a : Nat) (p : Int) (hs : s < n.nodes.length) :
    (n.setAction s a p).EndsAgree := by
  intro s'
  rw [setAction_node n s a p hs]
  by_cases h : s' = s
  · subst h; rw [if_pos rfl]; split <;> exact he s'
  · rw [if_neg h]; exact he s'

theorem buildOpt_ends {m : NFA} {i f : Nat} (k : Sp) (hp : Pre m i f) (he : m.EndsAgree) : (buildOpt m i k).1.EndsAgree := by
  have hw' := newState_wf m hp.wf
  have hlen' : m.newState.1.nodes.length = m.nodes.length + 1 := by simp [NFA.newState]
  have hi := hp.hi
  obtain ⟨a1, a2, _, _, _⟩ := addTrans_spec m.newState.1 hw' i (.sp .eps) m.nodes.length (by omega) trivial
  have e1 := addTrans_ends m.newState.1 hw' (newState_ends m he) i (.sp .eps) m.nodes.length (by omega) trivial
  exact addTrans_ends _ a1 e1 i (.sp k) m.nodes.length (by rw [a2]; omega) trivial

theorem optBol_ends {m : NFA} {i f : Nat} (mb : Bool) (hp : Pre m i f) (he : m.EndsAgree) : (optBol m i mb).1.EndsAgree := by
  cases mb with
  | false => exact he
  | true => exact buildOpt_ends .bol hp he

mutual
/-- all code ranges of the RE are finite -/
def RE.Finite : RE → Prop
  | .raw c0 c1 => (Ev.range c0 c1).Finite
  | .nl => True
  | .sym _ => True
  | .seq rs => rs.Finite
  | .alt rs => rs.Finite
  | .rep1 r => r.Finite
  | .sw r _ => r.Finite
def REs.Finite : REs → Prop
  | .nil => True
  | .cons r rs => r.Finite ∧ rs.Finite
end

mutual
theorem RE.finite_inBounds : (r : RE) → r.Finite → r.InBounds
  | .raw _ _, h => Ev.Finite.inBounds h
  | .nl, _ => trivial
  | .sym _, _ => trivial
  | .seq rs, h => REs.finite_inBounds rs h
  | .alt rs, h => REs.finite_inBounds rs h
  | .rep1 r, h => RE.finite_inBounds r h
  | .sw r _, h => RE.finite_inBounds r h
theorem REs.finite_inBounds : (rs : REs) → rs.Finite → rs.InBounds
  | .nil, _ => trivial
  | .cons r rs, h => ⟨RE.finite_inBounds r h.1, REs.finite_inBounds rs h.2⟩
end

theorem caseRange_finite {c0 c1 a b : Int} (h : uppercaseRange c0 c1 = some (a, b) ∨ lowercaseRange c0 c1 = some (a, b)) :
    (Ev.range a b).Finite := by
  unfold Ev.Finite maxint
  rcases h with h | h
  · unfold uppercaseRange at h
    simp only at h
    split at h
    · simp only [Option.some.injEq, Prod.mk.injEq] at h
      obtain ⟨rfl, rfl⟩ := h
      omega
    · cases h
  · unfold lowercaseRange at h
    simp only at h
    split at h
    · simp only [Option.some.injEq, Prod.mk.injEq] at h
      obtain ⟨rfl, rfl⟩ := h
      omega
    · cases h

theorem addOptRange_ends (n : NFA) (h : n.WF) (he : n.EndsAgree) (i : Nat) (r : Option (Int × Int)) (f : Nat)
    (hi : i < n.nodes.length) (hr : ∀ a b, r = some (a, b) → (Ev.range a b).Finite) :
    (addOptRange n i r f).WF ∧ (addOptRange n i r f).EndsAgree ∧ (addOptRange n i r f).nodes.length = n.nodes.length := by
  cases r with
  | none => exact ⟨h, he, rfl⟩
  | some ab =>
    obtain ⟨a, b⟩ := ab
    have hf := hr a b rfl
    obtain ⟨w, l, _, _, _⟩ := addTrans_spec n h i (.range a b) f hi hf.inBounds
    exact ⟨w, addTrans_ends n h he i (.range a b) f hi hf, l⟩

end CyVerif.C50

import CyVerif.Model.C40Clean
/-! C40: basic lemmas — the `Agree` relation, conformance of values to static types. -/
namespace CyVerif.C40

variable {F : Type}

/-- the typed run equals the reference run, or it stops at a false builtin-type claim
(a name node whose flow-inferred exact type does not hold at run time) -/
def Agree {α : Type} (x y : Out α) : Prop := x = y ∨ x = .ub "builtin-type-claim"

theorem Agree.rfl' {α : Type} (x : Out α) : Agree x x := Or.inl rfl

theorem Agree.of_eq {α : Type} {x y : Out α} (h : x = y) : Agree x y := Or.inl h

theorem Agree.bind {α β : Type} {x y : Out α} {f g : α → Out β} (h : Agree x y)
    (hf : ∀ a, x = .ok a → y = .ok a → Agree (f a) (g a)) : Agree (x.bind f) (y.bind g) := by
  rcases h with h | h
  · subst h
    cases x with
    | ok a => exact hf a rfl rfl
    | err e => exact Or.inl rfl
    | ub w => exact Or.inl rfl
    | unsup => exact Or.inl rfl
  · subst h
    exact Or.inr rfl

theorem Agree.bind_same {α β : Type} {x y : Out α} (f : α → Out β) (h : Agree x y) :
    Agree (x.bind f) (y.bind f) :=
  Agree.bind h (fun a _ _ => Agree.rfl' _)

@[simp] theorem Out.bind_ok {α β : Type} (a : α) (f : α → Out β) : (Out.ok a).bind f = f a := rfl
@[simp] theorem Out.bind_err {α β : Type} (e : Exc) (f : α → Out β) : (Out.err e : Out α).bind f = .err e := rfl
@[simp] theorem Out.bind_ub {α β : Type} (w : String) (f : α → Out β) : (Out.ub w : Out α).bind f = .ub w := rfl
@[simp] theorem Out.bind_unsup {α β : Type} (f : α → Out β) : (Out.unsup : Out α).bind f = .unsup := rfl

theorem Out.bind_eq_ok {α β : Type} {x : Out α} {f : α → Out β} {b : β} (h : x.bind f = .ok b) :
    ∃ a, x = .ok a ∧ f a = .ok b := by
  cases x with
  | ok a => exact ⟨a, rfl, h⟩
  | err e => cases h
  | ub w => cases h
  | unsup => cases h

/-- a value conforms to a static type -/
def conf (t : Ty) (v : Val F) : Prop :=
  match t with
  | .clong => ∃ n, v = .int n ∧ inRange .clong n = true
  | .cssize => ∃ n, v = .int n ∧ inRange .cssize n = true
  | .cint => ∃ n, v = .int n ∧ inRange .cint n = true
  | .bint => ∃ b, v = .bool b
  | .cdouble => ∃ x, v = .flt x
  | .ucs4 => ∃ c, v = .str [c]
  | .pyint => (∃ n, v = .int n) ∨ (∃ b, v = .bool b) ∨ v = .none
  | .pystr => (∃ cs, v = .str cs) ∨ v = .none
  | .pyfloat => (∃ x, v = .flt x) ∨ v = .none
  | .obj => True
  | .softc => True

theorem mkInt_conf {t : Ty} {n : Int} {v : Val F} (ht : t.isCIntArith = true) (h : mkInt t n = .ok v) : conf t v := by
  unfold mkInt at h
  split at h
  · rename_i hr
    cases t <;> simp [Ty.isCIntArith] at ht
    · simp at h; cases h; exact ⟨n, rfl, hr⟩
    · simp at h; cases h; exact ⟨n, rfl, hr⟩
    · simp at h; cases h; exact ⟨n, rfl, hr⟩
    · simp at h; cases h; exact ⟨_, rfl⟩
  · cases h

theorem toF_ok {fo : FOps F} {n : Num F} {x : F} (h : toF fo n = .ok x) :
    (∃ y, n = .f y ∧ x = y) ∨ (∃ k, n = .i k ∧ fo.ofInt k = some x) := by
  cases n with
  | f y => simp [toF] at h; exact Or.inl ⟨y, rfl, h.symm⟩
  | i k =>
    simp only [toF] at h
    split at h
    · rename_i y hy; simp at h; subst h; exact Or.inr ⟨k, rfl, hy⟩
    · cases h

theorem fromPy_conf {fo : FOps F} {t : Ty} {v w : Val F} (h : fromPy fo t v = .ok w) : conf t w := by
  cases t <;> simp only [fromPy] at h
  · trivial
  · -- pyint
    cases v <;> simp at h <;> subst h
    · exact Or.inl ⟨_, rfl⟩
    · exact Or.inr (Or.inl ⟨_, rfl⟩)
    · exact Or.inr (Or.inr rfl)
  · cases v <;> simp at h <;> subst h
    · exact Or.inl ⟨_, rfl⟩
    · exact Or.inr rfl
  · cases v <;> simp at h <;> subst h
    · exact Or.inl ⟨_, rfl⟩
    · exact Or.inr rfl
  · -- clong
    cases v with
    | int n =>
      simp only at h
      split at h
      · rename_i hr; cases h; exact ⟨n, rfl, hr⟩
      · cases h
    | bool b => simp at h; subst h; exact ⟨_, rfl, by cases b <;> decide⟩
    | flt _ => cases h
    | str _ => cases h
    | none => cases h
    | list _ => cases h
    | biglen _ => cases h
  · cases v with
    | int n =>
      simp only at h
      split at h
      · rename_i hr; cases h; exact ⟨n, rfl, hr⟩
      · cases h
    | bool b => simp at h; subst h; exact ⟨_, rfl, by cases b <;> decide⟩
    | flt _ => cases h
    | str _ => cases h
    | none => cases h
    | list _ => cases h
    | biglen _ => cases h
  · cases v with
    | int n =>
      simp only at h
      split at h
      · rename_i hr; cases h; exact ⟨n, rfl, hr⟩
      · cases h
    | bool b => simp at h; subst h; exact ⟨_, rfl, by cases b <;> decide⟩
    | flt _ => cases h
    | str _ => cases h
    | none => cases h
    | list _ => cases h
    | biglen _ => cases h
  · cases h; exact ⟨_, rfl⟩
  · -- cdouble
    split at h
    · obtain ⟨x, hx, hw⟩ := Out.bind_eq_ok h
      cases hw; exact ⟨_, rfl⟩
    · cases h
  · -- ucs4
    split at h
    · cases h; exact ⟨_, rfl⟩
    · cases h
    · cases h
  · cases h

theorem fromPy_of_conf {fo : FOps F} {t : Ty} {v : Val F} (h : conf t v) (ht : t ≠ .softc) :
    fromPy fo t v = .ok v := by
  cases t <;> simp only [conf] at h
  · rfl
  · rcases h with ⟨n, rfl⟩ | ⟨b, rfl⟩ | rfl <;> rfl
  · rcases h with ⟨cs, rfl⟩ | rfl <;> rfl
  · rcases h with ⟨x, rfl⟩ | rfl <;> rfl
  · obtain ⟨n, rfl, hr⟩ := h; simp [fromPy, hr]
  · obtain ⟨n, rfl, hr⟩ := h; simp [fromPy, hr]
  · obtain ⟨n, rfl, hr⟩ := h; simp [fromPy, hr]
  · obtain ⟨b, rfl⟩ := h; simp [fromPy, Val.truth]
  · obtain ⟨x, rfl⟩ := h; simp [fromPy, Val.num?, toF, Out.bind, bind, pure]
  · obtain ⟨c, rfl⟩ := h; rfl
  · exact absurd rfl ht

/-- values of the integer-like types are ints or bools (or `None` for the Python type) -/
theorem intLike_conf {t : Ty} {v : Val F} (ht : t.intLike = true) (h : conf t v) :
    (∃ n, v = .int n) ∨ (∃ b, v = .bool b) ∨ v = .none := by
  cases t <;> simp [Ty.intLike] at ht <;> simp only [conf] at h
  · exact h
  · obtain ⟨n, rfl, _⟩ := h; exact Or.inl ⟨n, rfl⟩
  · obtain ⟨n, rfl, _⟩ := h; exact Or.inl ⟨n, rfl⟩
  · obtain ⟨n, rfl, _⟩ := h; exact Or.inl ⟨n, rfl⟩
  · obtain ⟨b, rfl⟩ := h; exact Or.inr (Or.inl ⟨b, rfl⟩)

theorem pyFloatBin_flt {fo : FOps F} {op : BinOp} {x y : F} {r : Val F} (h : pyFloatBin fo op x y = .ok r) :
    ∃ z, r = .flt z := by
  cases op <;> simp only [pyFloatBin] at h
  · cases h; exact ⟨_, rfl⟩
  · cases h; exact ⟨_, rfl⟩
  · cases h; exact ⟨_, rfl⟩
  · cases hd : fo.fdiv x y <;> simp [hd, FR.out] at h; cases h; exact ⟨_, rfl⟩
  · cases hd : fo.fmod x y <;> simp [hd, FR.out] at h; cases h; exact ⟨_, rfl⟩
  · cases h
  · cases hd : fo.div x y <;> simp [hd, FR.out] at h; cases h; exact ⟨_, rfl⟩
  all_goals cases h

theorem pyIntBin_int {fo : FOps F} {op : BinOp} {a b : Int} {r : Val F} (hop : op.intClosed = true)
    (h : pyIntBin fo op a b = .ok r) : ∃ n, r = .int n := by
  cases op <;> simp [BinOp.intClosed] at hop <;> simp only [pyIntBin] at h
  · cases h; exact ⟨_, rfl⟩
  · cases h; exact ⟨_, rfl⟩
  · cases h; exact ⟨_, rfl⟩
  · split at h <;> cases h; exact ⟨_, rfl⟩
  · split at h <;> cases h; exact ⟨_, rfl⟩
  · split at h
    · cases h
    · split at h
      · cases h; exact ⟨_, rfl⟩
      · split at h <;> cases h; exact ⟨_, rfl⟩
  · split at h
    · cases h
    · split at h <;> cases h <;> exact ⟨_, rfl⟩
  · cases h; exact ⟨_, rfl⟩
  · cases h; exact ⟨_, rfl⟩
  · cases h; exact ⟨_, rfl⟩

theorem pyIntBin_div_flt {fo : FOps F} {a b : Int} {r : Val F} (h : pyIntBin fo .div a b = .ok r) :
    ∃ z, r = .flt z := by
  simp only [pyIntBin] at h
  split at h
  · cases h
  · split at h <;> cases h; exact ⟨_, rfl⟩

end CyVerif.C40

import CyVerif.Model.C23Cy
import CyVerif.Model.C23Py
/-! Simulation relation between Cython's and CPython's generator objects, and the statement that one level of
the two call graphs preserves it (`SimAll`). -/
namespace CyVerif.C23

variable {σ ι : Type}

/-- which of the recorded deviation situations are repaired in the modelled Cython source -/
def Flags.fixed (fl : Flags) : Dev → Bool
  | .sendNonNoneUnstarted => fl.fixA
  | .closeReturnsValue => fl.fixB
  | .throwStopUnstarted => fl.fixC
  | .stopIntoDelegation => false

def okDevs (fl : Flags) (ds : List Dev) : Prop := ∀ d ∈ ds, fl.fixed d = true

@[simp] theorem okDevs_nil (fl : Flags) : okDevs fl [] := by intro d h; cases h

@[simp] theorem okDevs_append (fl : Flags) (a b : List Dev) : okDevs fl (a ++ b) ↔ okDevs fl a ∧ okDevs fl b := by
  simp only [okDevs, List.mem_append]
  constructor
  · intro h; exact ⟨fun d hd => h d (Or.inl hd), fun d hd => h d (Or.inr hd)⟩
  · rintro ⟨h1, h2⟩ d (hd | hd)
    · exact h1 d hd
    · exact h2 d hd

@[simp] theorem okDevs_single (fl : Flags) (d : Dev) : okDevs fl [d] ↔ fl.fixed d = true := by
  simp [okDevs]

/-- delegates: a suspended chain ending in nothing or in an opaque iterator -/
inductive RelD : CyObj σ ι → PyObj σ ι → Prop
  | null : RelD .null .null
  | opq (o : ι) : RelD (.opq o) (.opq o)
  | gen (st : σ) {yf : CyObj σ ι} {yf' : PyObj σ ι} : RelD yf yf' → RelD (.gen .suspended false st yf) (.gen .suspended st yf')

/-- objects that are not running -/
inductive RelN : CyObj σ ι → PyObj σ ι → Prop
  | deleg {c : CyObj σ ι} {p : PyObj σ ι} : RelD c p → RelN c p
  | created (st : σ) : RelN (.gen .created false st .null) (.gen .created st .null)
  | finished (st st' : σ) : RelN (.gen .finished false st .null) (.gen .cleared st' .null)

def CyObj.isFinished : CyObj σ ι → Bool
  | .gen .finished _ _ _ => true
  | _ => false

/-- requests covered by the non-running simulation: no `cont`; `send` (the am_send slot) not on a finished object
(there Cython reports StopIteration as an error, CPython returns None: equal at the method level, see `sim_send_finished`) -/
def ReqOk (c : CyObj σ ι) : Req → Prop
  | .cont _ => False
  | .send _ => c.isFinished = false
  | _ => True

/-- two results agree (status, log, related objects) provided the CPython run passed through no unrepaired deviation -/
def RSim (fl : Flags) (Q : Res → CyObj σ ι → PyObj σ ι → Prop) (a : R (CyObj σ ι)) (b : R (PyObj σ ι)) : Prop :=
  okDevs fl b.devs → a.out = b.out ∧ a.log = b.log ∧ Q b.out a.obj b.obj

/-- result objects: not running; an object that has just yielded is a suspended chain -/
def RelO (o : Res) (c : CyObj σ ι) (p : PyObj σ ι) : Prop := RelN c p ∧ ∀ v, o = .next v → RelD c p

/-- relation for results of the body: Cython's object still carries `is_running` -/
def RelU (o : Res) (c : CyObj σ ι) (p : PyObj σ ι) : Prop := RelO o (c.setRunning false) p

theorem RSim.pure {fl : Flags} {Q : Res → CyObj σ ι → PyObj σ ι → Prop} {a : R (CyObj σ ι)} {b : R (PyObj σ ι)}
    (ho : a.out = b.out) (hl : a.log = b.log) (hq : Q b.out a.obj b.obj) : RSim fl Q a b := fun _ => ⟨ho, hl, hq⟩

theorem RSim.pre {fl : Flags} {Q : Res → CyObj σ ι → PyObj σ ι → Prop} {a : R (CyObj σ ι)} {b : R (PyObj σ ι)}
    (lg : List Ev) (dv : List Dev) (h : RSim fl Q a b) : RSim fl Q (a.pre lg []) (b.pre lg dv) := by
  intro hd
  simp only [R.pre, okDevs_append] at hd ⊢
  obtain ⟨ho, hl, hq⟩ := h hd.2
  exact ⟨ho, by rw [hl], hq⟩

theorem RSim.mapOut {fl : Flags} {Q Q' : Res → CyObj σ ι → PyObj σ ι → Prop} {a : R (CyObj σ ι)} {b : R (PyObj σ ι)}
    (f : Res → Res) (h : RSim fl Q a b) (hq : ∀ o c p, Q o c p → Q' (f o) c p) : RSim fl Q' (a.mapOut f) (b.mapOut f) := by
  intro hd
  obtain ⟨ho, hl, h3⟩ := h hd
  exact ⟨by simp [R.mapOut, ho], hl, hq _ _ _ h3⟩

theorem RSim.mono {fl : Flags} {Q Q' : Res → CyObj σ ι → PyObj σ ι → Prop} {a : R (CyObj σ ι)} {b : R (PyObj σ ι)}
    (h : RSim fl Q a b) (hq : ∀ o c p, Q o c p → Q' o c p) : RSim fl Q' a b := by
  intro hd
  obtain ⟨ho, hl, h3⟩ := h hd
  exact ⟨ho, hl, hq _ _ _ h3⟩

theorem RSim.bind {fl : Flags} {Q0 Q : Res → CyObj σ ι → PyObj σ ι → Prop} {a : R (CyObj σ ι)} {b : R (PyObj σ ι)}
    {kc : Res → CyObj σ ι → R (CyObj σ ι)} {kp : Res → PyObj σ ι → R (PyObj σ ι)}
    (h : RSim fl Q0 a b) (hnul : Q .div .null .null)
    (hk : ∀ o ca pa, o ≠ .div → Q0 o ca pa → RSim fl Q (kc o ca) (kp o pa)) :
    RSim fl Q (R.bind .null a kc) (R.bind .null b kp) := by
  intro hd
  rcases a with ⟨ao, aobj, alog, adev⟩
  rcases b with ⟨bo, bobj, blog, bdev⟩
  unfold R.bind at hd ⊢
  cases bo with
  | div =>
    simp only at hd
    obtain ⟨ho, hl, _⟩ := h hd
    simp only at ho hl
    subst ho; subst hl
    exact ⟨rfl, rfl, hnul⟩
  | next v =>
    simp only [R.pre, okDevs_append] at hd
    obtain ⟨ho, hl, hq⟩ := h hd.1
    simp only at ho hl hq
    subst ho; subst hl
    obtain ⟨h1, h2, h3⟩ := hk (.next v) aobj bobj (by simp) hq hd.2
    exact ⟨h1, by simp [R.pre, h2], h3⟩
  | ret v =>
    simp only [R.pre, okDevs_append] at hd
    obtain ⟨ho, hl, hq⟩ := h hd.1
    simp only at ho hl hq
    subst ho; subst hl
    obtain ⟨h1, h2, h3⟩ := hk (.ret v) aobj bobj (by simp) hq hd.2
    exact ⟨h1, by simp [R.pre, h2], h3⟩
  | err e =>
    simp only [R.pre, okDevs_append] at hd
    obtain ⟨ho, hl, hq⟩ := h hd.1
    simp only at ho hl hq
    subst ho; subst hl
    obtain ⟨h1, h2, h3⟩ := hk (.err e) aobj bobj (by simp) hq hd.2
    exact ⟨h1, by simp [R.pre, h2], h3⟩

structure SimAll (fl : Flags) (rc : CyRec σ ι) (rp : PyRec σ ι) : Prop where
  nonrun : ∀ c p req, RelN c p → ReqOk c req → RSim fl RelO (rc c req) (rp p req)
  cont : ∀ l st inp, l ≠ .finished → RSim fl RelU (rc (.gen l true st .null) (.cont inp)) (rp (.gen .executing st .null) (.cont inp))
  running : ∀ l st req, (∀ i, req ≠ .cont i) → req ≠ .del →
    (rc (.gen l true st .null) req).out = (rp (.gen .executing st .null) req).out ∧
    (rc (.gen l true st .null) req).log = (rp (.gen .executing st .null) req).log ∧
    (rp (.gen .executing st .null) req).devs = []

theorem RelN.null : RelN (.null : CyObj σ ι) .null := .deleg .null

end CyVerif.C23

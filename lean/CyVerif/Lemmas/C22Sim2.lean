import CyVerif.Lemmas.C22Sim
/-! C22: except-as lowering, quiet handler bodies. -/
set_option linter.unusedSimpArgs false
namespace CyVerif.C22

def simpleRet : Stmt → Bool
  | .ret none => true
  | .seq a b => simpleRet a || simpleRet b
  | _ => false

theorem simple_py (env : Env) : ∀ (s : Stmt) (ts : TS), simpleBody s = true →
    pyExec env s ts = (if simpleRet s then .ret else .norm, ts)
  | .skip, ts, _ => by simp [pyExec, simpleRet]
  | .ret none, ts, _ => by simp [pyExec, Env.fires, simpleRet]
  | .seq a b, ts, h => by
    simp only [simpleBody, Bool.and_eq_true] at h
    simp only [pyExec, simple_py env a ts h.1, simpleRet]
    by_cases ha : simpleRet a = true
    · simp [ha]
    · simp only [Bool.not_eq_true] at ha; simp [ha, simple_py env b ts h.2]
  | .ret (some _), _, h => by simp [simpleBody] at h
  | .log _, _, h => by simp [simpleBody] at h
  | .probe, _, h => by simp [simpleBody] at h
  | .raiseI _ _ _, _, h => by simp [simpleBody] at h
  | .raiseNew _ _, _, h => by simp [simpleBody] at h
  | .reraise _, _, h => by simp [simpleBody] at h
  | .brk _, _, h => by simp [simpleBody] at h
  | .cont _, _, h => by simp [simpleBody] at h
  | .tryEx _ _ _, _, h => by simp [simpleBody] at h
  | .tryFin _ _, _, h => by simp [simpleBody] at h
  | .withS _ _ _, _, h => by simp [simpleBody] at h
  | .loop _ _, _, h => by simp [simpleBody] at h
  | .delN, _, h => by simp [simpleBody] at h

theorem simple_cy2 (V : Variant) (env : Env) : ∀ (s : Stmt) (cs : CS), simpleBody s = true → cs.retCrashes = false →
    cyExec V env s cs = (if simpleRet s then .ret else .norm, cs)
  | .skip, cs, _, _ => by simp [cyExec, simpleRet]
  | .ret none, cs, _, hc => by simp [cyExec, Env.fires, simpleRet, hc]
  | .seq a b, cs, h, hc => by
    simp only [simpleBody, Bool.and_eq_true] at h
    simp only [cyExec, simple_cy2 V env a cs h.1 hc, simpleRet]
    by_cases ha : simpleRet a = true
    · simp [ha]
    · simp only [Bool.not_eq_true] at ha; simp [ha, simple_cy2 V env b cs h.2 hc]
  | .ret (some _), _, h, _ => by simp [simpleBody] at h
  | .log _, _, h, _ => by simp [simpleBody] at h
  | .probe, _, h, _ => by simp [simpleBody] at h
  | .raiseI _ _ _, _, h, _ => by simp [simpleBody] at h
  | .raiseNew _ _, _, h, _ => by simp [simpleBody] at h
  | .reraise _, _, h, _ => by simp [simpleBody] at h
  | .brk _, _, h, _ => by simp [simpleBody] at h
  | .cont _, _, h, _ => by simp [simpleBody] at h
  | .tryEx _ _ _, _, h, _ => by simp [simpleBody] at h
  | .tryFin _ _, _, h, _ => by simp [simpleBody] at h
  | .withS _ _ _, _, h, _ => by simp [simpleBody] at h
  | .loop _ _, _, h, _ => by simp [simpleBody] at h
  | .delN, _, h, _ => by simp [simpleBody] at h

/-- `except … as n`: the body wrapped in `try/finally: del n` (protocol side) against "unbind n on every way out" -/
theorem finDel_sim {V} (pf : TS → Out × TS) (cf : CS → COut × CS)
    (hf : ∀ cs, Inv V .free cs none → Post V .free cs (pf cs.ts) (cf cs))
    (cs : CS) (h : Inv V .free cs none) :
    Post V .free cs ((pf cs.ts).1, { (pf cs.ts).2 with nb := none }) (cyFin cf cyDelN cs) := by
  obtain ⟨sl, hc, hsl, hcur, hprev⟩ := hf cs h
  simp only [cyFin]
  rw [hc]
  generalize pf cs.ts = r at hsl hcur hprev ⊢
  obtain ⟨o, t⟩ := r
  cases o with
  | norm =>
    have := slot_intact (Or.inr rfl) hsl; subst this
    exact ⟨cs.slot, by simp [liftOut, excOf, cyDelN, CS.withTS, mkCS], Or.inl rfl, hcur, hprev⟩
  | exc e =>
    refine ⟨sl, ?_, hsl, hcur, hprev⟩
    simp [liftOut, excOf, cyDelN, CS.withTS, mkCS, CS.enterSlot, CS.leaveSlot, getException, excSwapNull,
      errRestore, excReset]
  | ret =>
    have := slot_intact (Or.inr rfl) hsl; subst this
    exact ⟨cs.slot, by simp [liftOut, excOf, cyDelN, CS.withTS, mkCS], Or.inl rfl, hcur, hprev⟩
  | brk =>
    have := slot_intact (Or.inr rfl) hsl; subst this
    exact ⟨cs.slot, by simp [liftOut, excOf, cyDelN, CS.withTS, mkCS], Or.inl rfl, hcur, hprev⟩
  | cont =>
    have := slot_intact (Or.inr rfl) hsl; subst this
    exact ⟨cs.slot, by simp [liftOut, excOf, cyDelN, CS.withTS, mkCS], Or.inl rfl, hcur, hprev⟩

end CyVerif.C22

import CyVerif.Lemmas.C28BinopChk
/-!
# C28 — exhaustive kernel checks, operands of the same type
-/
namespace CyVerif.C28

/-- same type, repaired template: every depth-≤3 cdef hierarchy -/
def sameFixChk (cfg : OpCfg) : Bool :=
  (allSub3.all fun a => both ⟨false⟩ (w1 a) cfg 0 0)
  && (allSub3.all fun a => allSub3.all fun b => both ⟨false⟩ (w2 .cdef a b) cfg 1 1)

def sameFixChk3 (cfg : OpCfg) (a : Sub3) : Bool :=
  allSub3.all fun b => allSub3.all fun c => both ⟨false⟩ (w3 a b c) cfg 2 2

theorem sameFixChk_all : (allOpCfg.all fun cfg => sameFixChk cfg) = true := by decide +kernel
theorem sameFixChk3_a : (allSub3.all fun a => sameFixChk3 ⟨true, true⟩ a) = true := by decide +kernel
theorem sameFixChk3_b : (allSub3.all fun a => sameFixChk3 ⟨true, false⟩ a) = true := by decide +kernel
theorem sameFixChk3_c : (allSub3.all fun a => sameFixChk3 ⟨false, false⟩ a) = true := by decide +kernel
theorem sameFixChk3_d : (allSub3.all fun a => sameFixChk3 ⟨false, true⟩ a) = true := by decide +kernel

/-- same type, instances of a Python subclass of a cdef class (repaired template); `+=` is excluded
(CPython's `sq_inplace_concat` quirk) -/
def samePyFixChk (cfg : OpCfg) : Bool :=
  allSub3.all fun a => allSub3.all fun b =>
    agree ⟨false⟩ (w2 .py a b) cfg .bin 1 1 && (cfg.isAdd || agree ⟨false⟩ (w2 .py a b) cfg .inp 1 1)

theorem samePyFixChk_all : (allOpCfg.all fun cfg => samePyFixChk cfg) = true := by decide +kernel

/-- same type, pinned template: conforms when no `__rop__` is visible in the hierarchy and `__op__` is
defined by at most one class of it -/
def sameCurChk (cfg : OpCfg) : Bool :=
  (allSub3.all fun a => a.rop || both ⟨true⟩ (w1 a) cfg 0 0)
  && (allSub3.all fun a => allSub3.all fun b => a.rop || b.rop || (a.op && b.op) || both ⟨true⟩ (w2 .cdef a b) cfg 1 1)

theorem sameCurChk_all : (allOpCfg.all fun cfg => sameCurChk cfg) = true := by decide +kernel

end CyVerif.C28

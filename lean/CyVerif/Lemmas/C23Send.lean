import CyVerif.Lemmas.C23Body
namespace CyVerif.C23
variable {σ ι : Type}

theorem RSim.unset {fl : Flags} {a : R (CyObj σ ι)} {b : R (PyObj σ ι)} (h : RSim fl RelU a b) :
    RSim fl RelO (cyUnset a) b := h

/-- `__Pyx_Coroutine_SendEx` on a suspended generator = the frame continues -/
theorem sim_sendEx_suspended (fl : Flags) (B : Body σ ι) (O : OpqSem ι) (rc : CyRec σ ι) (rp : PyRec σ ι)
    (H : SimAll fl rc rp) (st : σ) (inp : Input) (closing : Bool) :
    RSim fl RelU (cySendEx fl B rc .suspended st inp closing) (pySendEx2 fl.coro B O rp .suspended st .null inp closing) := by
  simp only [cySendEx, pySendEx2, pyEval]
  exact sim_body fl B rc rp H .suspended (by simp) st inp

theorem sim_sendEx_created (fl : Flags) (B : Body σ ι) (O : OpqSem ι) (rc : CyRec σ ι) (rp : PyRec σ ι)
    (H : SimAll fl rc rp) (st : σ) (inp : Input) (closing : Bool) :
    RSim fl RelU (cySendEx fl B rc .created st inp closing) (pySendEx2 fl.coro B O rp .created st .null inp closing) := by
  cases inp with
  | send v =>
    simp only [cySendEx, pySendEx2]
    by_cases hv : v = 0
    · simp only [hv, if_true]
      exact sim_body fl B rc rp H .created (by simp) st _
    · simp only [hv, if_false]
      intro hd
      simp only [okDevs_single, Flags.fixed] at hd
      simp only [hd, if_true]
      exact ⟨trivial, trivial, .created st, fun v h => by simp at h⟩
  | throw e =>
    simp only [cySendEx, pySendEx2]
    intro hd
    refine ⟨?_, rfl, relU_finished (by simp) st st⟩
    cases e with
    | stopIteration v =>
      simp only [Exc.isStop, Option.isSome_some, if_true, okDevs_single, Flags.fixed] at hd
      simp [hd]
    | _ => simp [pep479]
  | reent o =>
    simp only [cySendEx, pySendEx2]
    exact sim_body fl B rc rp H .created (by simp) st _

/-- a finished generator resumed with a pending exception (throw / close): the exception stays -/
theorem sim_sendEx_finished (fl : Flags) (B : Body σ ι) (O : OpqSem ι) (rc : CyRec σ ι) (rp : PyRec σ ι)
    (st st' : σ) (e : Exc) (closing : Bool) :
    RSim fl RelU (cySendEx fl B rc .finished st (.throw e) closing) (pySendEx2 fl.coro B O rp .cleared st' .null (.throw e) closing) := by
  simp only [cySendEx, pySendEx2]
  split
  · exact RSim.pure rfl rfl (relU_finished (by simp) st st')
  · exact RSim.pure rfl rfl (relU_finished (by simp) st st')

/-- undelegate + resume (Cython) = leave the `yield from` loop (CPython): value or exception decided by the caller -/
theorem sim_resume_leave (fl : Flags) (B : Body σ ι) (rc : CyRec σ ι) (rp : PyRec σ ι)
    (H : SimAll fl rc rp) (st : σ) (sub : CyObj σ ι) (sub' : PyObj σ ι) (hs : RelN sub sub') (inp : Input) (closing : Bool) :
    RSim fl RelU (cyResume fl B rc .suspended st sub inp closing) (pyLeave B rp st sub' inp) := by
  have hb : RSim fl RelU (cySendEx fl B rc .suspended st inp closing) (pyBody B rp st inp) := by
    simp only [cySendEx]
    exact sim_body fl B rc rp H .suspended (by simp) st inp
  have hk : RSim fl RelU (R.bind .null (rc sub .del) fun _ _ => cySendEx fl B rc .suspended st inp closing)
      (R.bind .null (rp sub' .del) fun _ _ => pyBody B rp st inp) := by
    apply RSim.bind (Q0 := RelO) (H.nonrun _ _ .del hs (reqOk_del _)) (relU_null _)
    intro _ _ _ _ _
    exact hb
  cases hs with
  | deleg hd =>
    cases hd with
    | null => simpa only [cyResume, pyLeave] using hb
    | opq o => simpa only [cyResume, pyLeave] using hk
    | gen s h => simpa only [cyResume, pyLeave] using hk
  | created s => simpa only [cyResume, pyLeave] using hk
  | finished s s' => simpa only [cyResume, pyLeave] using hk

/-- the frame is resumed with an exception while a (possibly finished) delegate is still on its stack -/
theorem sim_resume_throw (fl : Flags) (B : Body σ ι) (O : OpqSem ι) (rc : CyRec σ ι) (rp : PyRec σ ι)
    (H : SimAll fl rc rp) (st : σ) (sub : CyObj σ ι) (sub' : PyObj σ ι) (hs : RelN sub sub') (e : Exc) (closing : Bool) :
    RSim fl RelU (cyResume fl B rc .suspended st sub (.throw e) closing)
      (pySendEx2 fl.coro B O rp .suspended st sub' (.throw e) closing) := by
  have hl := sim_resume_leave fl B rc rp H st sub sub' hs (.throw e) closing
  have hstop : ∀ x, e.isStop = some x → RSim fl RelU (cyResume fl B rc .suspended st sub (.throw e) closing)
      (R.pre [] [.stopIntoDelegation] (pyLeave B rp st sub' (.send x))) := by
    intro x _ hd
    simp only [R.pre, okDevs_append, okDevs_single, Flags.fixed] at hd
    exact absurd hd.1 (by simp)
  cases hs with
  | deleg hd =>
    cases hd with
    | null =>
      simp only [pySendEx2, pyEval]
      simpa only [pyLeave] using hl
    | opq o =>
      simp only [pySendEx2, pyEval]
      cases hx : e.isStop with
      | some x => exact hstop x hx
      | none => exact hl
    | gen s h =>
      simp only [pySendEx2, pyEval]
      cases hx : e.isStop with
      | some x => exact hstop x hx
      | none => exact hl
  | created s =>
    simp only [pySendEx2, pyEval]
    cases hx : e.isStop with
    | some x => exact hstop x hx
    | none => exact hl
  | finished s s' =>
    simp only [pySendEx2, pyEval]
    cases hx : e.isStop with
    | some x => exact hstop x hx
    | none => exact hl

end CyVerif.C23

import CyVerif.Lemmas.C02CmpDigits
import CyVerif.Lemmas.C02Frame
/-!
C02: `PyLongCompare` on an exact int decides `value = intval`.
-/
namespace CyVerif.C02
open CyVerif.C05

def descList : Nat → List Nat
  | 0 => []
  | m + 1 => (m + 1) :: descList m

theorem pow_le_pow2 {a b : Nat} (h : a ≤ b) : 2 ^ a ≤ 2 ^ b := Nat.pow_le_pow_right (by omega) h

/-- value ≠ `u` when the digit count is not the digit count of `u` -/
theorem natVal_ne_of_len {S : Nat} {ds : List Nat} (hd : ∀ d ∈ ds, d < 2 ^ S) (hl : ds.getLast? ≠ some 0) {u k : Nat}
    (hlo : 2 ^ (k * S) ≤ u) (hhi : u < 2 ^ ((k + 1) * S)) (hlen : ds.length ≠ k + 1) : natVal S ds ≠ u := by
  by_cases h : ds.length ≤ k
  · have h1 := natVal_lt S ds hd
    have h2 : 2 ^ (ds.length * S) ≤ 2 ^ (k * S) := pow_le_pow2 (Nat.mul_le_mul_right S h)
    omega
  · have hne : ds ≠ [] := by intro h0; rw [h0] at h; simp at h
    have h1 := natVal_ge S ds hne hl
    have h2 : 2 ^ ((k + 1) * S) ≤ 2 ^ ((ds.length - 1) * S) := pow_le_pow2 (Nat.mul_le_mul_right S (by omega))
    omega

theorem shr_ne_zero_iff (u k : Nat) : u >>> k ≠ 0 ↔ 2 ^ k ≤ u := by
  rw [Nat.shiftRight_eq_div_pow]
  have hp := Nat.two_pow_pos k
  constructor
  · intro h
    by_cases hlt : u < 2 ^ k
    · exact absurd (Nat.div_eq_of_lt hlt) h
    · omega
  · intro h h0
    have := (Nat.div_eq_zero_iff.mp h0)
    omega

theorem cmpChain_spec (P : Plat) (_hS : 0 < P.shift) (ds : List Nat) (hd : ∀ d ∈ ds, d < 2 ^ P.shift)
    (hl : ds.getLast? ≠ some 0) (u : Nat) (hu1 : 1 ≤ u) (huL : u < 2 ^ (8 * P.longBytes)) :
    ∀ m, u < 2 ^ ((m + 1) * P.shift) → cmpChain P ds u (descList m) = .ok (decide (natVal P.shift ds ≠ u)) := by
  intro m
  induction m with
  | zero =>
    intro hu
    rw [Nat.zero_add, Nat.one_mul] at hu
    simp only [descList, cmpChain]
    by_cases hlen : ds.length ≠ 1
    · rw [if_pos hlen]
      have := natVal_ne_of_len (k := 0) hd hl (by simpa using hu1) (by simpa using hu) hlen
      simp [this]
    · rw [if_neg hlen]
      have hlen1 : ds.length = 1 := Decidable.not_not.mp hlen
      match ds, hlen1 with
      | [d], _ =>
        simp only [digitAt, List.length_cons, List.length_nil, Nat.zero_add, Nat.lt_one_iff, dif_pos, bind, Except.bind,
          pure, Except.pure, natVal, List.getElem_cons_zero, Nat.mul_zero, Nat.add_zero, Nat.mod_eq_of_lt hu]
        congr 2
  | succ m ih =>
    intro hu
    simp only [descList, cmpChain]
    by_cases hc : P.shift * (m + 1) < 8 * P.longBytes ∧ u >>> (P.shift * (m + 1)) ≠ 0
    · rw [if_pos hc]
      have hlo : 2 ^ ((m + 1) * P.shift) ≤ u := by
        have := (shr_ne_zero_iff u _).mp hc.2; rw [Nat.mul_comm] at this; exact this
      by_cases hlen : ds.length ≠ m + 1 + 1
      · rw [if_pos hlen]
        have := natVal_ne_of_len (k := m + 1) hd hl hlo hu hlen
        simp [this]
      · rw [if_neg hlen]
        have hlen1 : ds.length = m + 1 + 1 := Decidable.not_not.mp hlen
        obtain ⟨b, hb, hiff⟩ := digitDiffs_spec P.shift ds u (m + 1 + 1) 0 (by omega)
        rw [hb]
        congr 1
        have hval := natVal_eq_iff P.shift ds u hd
        rw [hlen1] at hval
        cases b with
        | false =>
          have := hiff.mp rfl
          have heq : natVal P.shift ds = u := hval.mpr ⟨hu, fun j hj => by simpa using this j hj⟩
          simp [heq]
        | true =>
          have hne : natVal P.shift ds ≠ u := by
            intro heq
            have := (hval.mp heq).2
            have hf := hiff.mpr (fun j hj => by simpa using this j hj)
            cases hf
          simp [hne]
    · rw [if_neg hc]
      apply ih
      by_cases h1 : P.shift * (m + 1) < 8 * P.longBytes
      · have h2 : ¬ (u >>> (P.shift * (m + 1)) ≠ 0) := fun h => hc ⟨h1, h⟩
        have : ¬ (2 ^ (P.shift * (m + 1)) ≤ u) := fun h => h2 ((shr_ne_zero_iff u _).mpr h)
        rw [Nat.mul_comm] at this; omega
      · have hle : 8 * P.longBytes ≤ (m + 1) * P.shift := by rw [Nat.mul_comm (m + 1)]; omega
        have : 2 ^ (8 * P.longBytes) ≤ 2 ^ ((m + 1) * P.shift) := pow_le_pow2 hle
        omega

theorem value_eq_iff {S : Nat} {p : PyLong} (_hwf : p.WF S) (u : Nat) (hu : 1 ≤ u) :
    (p.value S = (u : Int) ↔ (p.neg = false ∧ natVal S p.digits = u)) ∧
    (p.value S = -(u : Int) ↔ (p.neg = true ∧ natVal S p.digits = u)) := by
  unfold PyLong.value
  cases hn : p.neg
  · refine ⟨⟨fun h => ⟨rfl, by simp at h; omega⟩, fun h => by simp [h.2]⟩, ⟨fun h => ?_, fun h => by cases h.1⟩⟩
    simp at h; omega
  · refine ⟨⟨fun h => ?_, fun h => by cases h.1⟩, ⟨fun h => ⟨rfl, ?_⟩, fun h => by simp [h.2]⟩⟩
    · simp at h; omega
    · simp at h; omega

/-- `__Pyx_PyLong_{Eq,Ne}` on an exact int, with internals. -/
theorem compareLong_spec (P : Plat) (hP : PlatOK P) (op : CmpOp) (p : PyLong) (hwf : p.WF P.shift) (c : Int)
    (hc : Bnd (8 * P.longBytes - 1) c) (hc5 : c.natAbs < 2 ^ (5 * P.shift)) :
    compareLong P op p c = .bool (if op = .eq then decide (p.value P.shift = c) else decide (p.value P.shift ≠ c)) := by
  obtain ⟨hS, hi0, hiL, hL4, hLLL, hLL8, hSL, hSLL⟩ := hP
  unfold compareLong
  by_cases h0 : c = 0
  · subst h0
    simp only [if_true]
    have hiff : p.value P.shift = 0 ↔ isZero p = true := by
      rw [isZero_iff]
      constructor
      · intro h; apply Classical.byContradiction; intro hne; exact value_ne_zero hwf hne h
      · exact value_zero
    cases op <;> cases hz : isZero p <;> simp [retCompare, hiff, hz]
  · rw [if_neg h0]
    have hu1 : 1 ≤ c.natAbs := by omega
    have hv := value_eq_iff hwf c.natAbs hu1
    have hbound : (c.natAbs : Int) < two (8 * P.longBytes - 1) := by unfold Bnd at hc; omega
    have hcastU : (C05.cast P.tULong (c.natAbs : Int)).toNat = c.natAbs := by
      have : P.tULong.inRange (c.natAbs : Int) := by
        rw [inRange_unsigned rfl]
        have := two_lt_two (show 8 * P.longBytes - 1 < P.tULong.bits by show _ < 8 * P.longBytes; omega)
        omega
      rw [cast_of_inRange (by show 0 < P.longBytes; omega) this]; rfl
    have huL : c.natAbs < 2 ^ (8 * P.longBytes) := by
      have h1 : c.natAbs < 2 ^ (8 * P.longBytes - 1) := by unfold two at hbound; omega
      have := pow_le_pow2 (show 8 * P.longBytes - 1 ≤ 8 * P.longBytes by omega); omega
    have hchain := cmpChain_spec P hS p.digits hwf.1 hwf.2.1 c.natAbs hu1 huL 4 (by rw [show (4 + 1) * P.shift = 5 * P.shift from rfl]; exact hc5)
    have hdesc : descList 4 = [4, 3, 2, 1] := rfl
    rw [hdesc] at hchain
    by_cases hneg : c < 0
    · have hcabs : c = -(c.natAbs : Int) := by omega
      simp only [if_pos hneg]
      cases hn : p.neg
      · -- non-negative object, negative constant
        simp only [if_true]
        have hne : p.value P.shift ≠ c := by
          intro h; rw [hcabs] at h; have := (hv.2.mp h).1; rw [hn] at this; cases this
        cases op <;> simp [retUnequal, hne]
      · simp only [Bool.true_eq_false, if_false]
        have hnegr : P.tLong.inRange (-c) := inRange_of_bnd rfl (bnd_neg hc) (by rw [tLong_bits]; omega)
        simp only [cneg_ok rfl hnegr, bind, Except.bind, pure, Except.pure]
        rw [show -c = (c.natAbs : Int) by omega, hcastU, hchain]
        have hiff : p.value P.shift = c ↔ natVal P.shift p.digits = c.natAbs := by
          rw [hcabs, hv.2, hn]; simp
        by_cases hval : natVal P.shift p.digits = c.natAbs
        · cases op <;> simp [ofE, retCompare, hval, hiff]
        · cases op <;> simp [ofE, retCompare, hval, hiff]
    · have hcabs : c = (c.natAbs : Int) := by omega
      simp only [if_neg hneg]
      by_cases hn : p.neg = true ∧ (!p.digits.isEmpty) = true
      · rw [if_pos hn]
        have hne : p.value P.shift ≠ c := by
          intro h; rw [hcabs] at h; have := (hv.1.mp h).1; rw [hn.1] at this; cases this
        cases op <;> simp [retUnequal, hne]
      · rw [if_neg hn]
        have hnn : p.neg = false := by
          cases hpn : p.neg
          · rfl
          · exfalso; apply hn; refine ⟨hpn, ?_⟩
            have := hwf.2.2 hpn
            cases hds : p.digits with
            | nil => exact absurd hds this
            | cons _ _ => rfl
        simp only [bind, Except.bind, pure, Except.pure]
        rw [hcabs, hcastU, hchain]
        have hiff : p.value P.shift = (c.natAbs : Int) ↔ natVal P.shift p.digits = c.natAbs := by
          rw [hv.1, hnn]; simp
        by_cases hval : natVal P.shift p.digits = c.natAbs
        · cases op <;> simp [ofE, retCompare, hval, hiff]
        · cases op <;> simp [ofE, retCompare, hval, hiff]

end CyVerif.C02

import CyVerif.Lemmas.C40Range
/-! C40: soundness of the validator for statements (induction on the fuel of the evaluator). -/
namespace CyVerif.C40

variable {F : Type}

/-- what holds for the store after a statement the validator accepted -/
def Post (Γ : Nat → Ty) (S' : List Nat) (σ σ' : Store F) : Prop := Inv Γ σ' ∧ Bound S' σ' ∧ Ext σ σ'

theorem chk_pure {α : Type} {a b : α} (h : (pure a : Chk α) = .ok b) : a = b := by cases h; rfl

theorem evalO_agree {fo : FOps F} (law : Lawful fo) {Γ : Nat → Ty} {nt : Nat → Option Ty} {σ : Store F}
    (hinv : Inv Γ σ) {S : List Nat} (hb : Bound S σ) {e : Option Expr} (h : cleanO Γ nt S e = .ok ()) :
    Agree (evalO fo Γ nt σ e) (evalO fo objEnv noNt σ e) := by
  cases e with
  | none => exact Agree.rfl' _
  | some e =>
    simp only [cleanO] at h
    obtain ⟨⟨s, o⟩, he, _⟩ := chk_bind h
    simp only [evalO]
    exact Agree.bind_same _ (cleanE_sound law hinv hb he).2.2

theorem seqItems_agree {s o : Ty} {x : Val F} (hc : s = .pystr ∨ o ≠ .pystr) (c : conf s x) :
    seqItems s x = seqItems o x := by
  by_cases hs : s = .pystr
  · subst hs
    rcases c with ⟨cs, rfl⟩ | rfl <;> rfl
  · have ho : o ≠ .pystr := by
      rcases hc with h | h
      · exact absurd h hs
      · exact h
    cases x <;> simp [seqItems, hs, ho]

theorem itemTy_eq (s : Ty) : idxType (some s) (some .cssize) true = some (if s = .pystr then .ucs4 else .obj) := by
  simp only [idxType, Bool.or_true, if_true]
  by_cases h : s = .pystr
  · simp [h]
  · simp [h]

theorem seqItems_chars {s : Ty} {x : Val F} {items : List (Val F)} (h : seqItems s x = .ok items)
    (hs : s = .pystr) : ∀ y ∈ items, ∃ c, y = Val.str [c] := by
  subst hs
  cases x with
  | str cs =>
    simp only [seqItems] at h
    cases h
    intro y hy
    simp only [List.mem_map] at hy
    obtain ⟨c, _, rfl⟩ := hy
    exact ⟨c, rfl⟩
  | list xs => simp [seqItems] at h
  | int n => simp [seqItems] at h
  | flt n => simp [seqItems] at h
  | bool n => simp [seqItems] at h
  | none => simp [seqItems] at h
  | biglen n => simp [seqItems] at h

theorem evalO_some {fo : FOps F} {Γ : Nat → Ty} {nt : Nat → Option Ty} {σ : Store F} {a : Option Expr} {v : Val F}
    (h : evalO fo Γ nt σ a = .ok (some v)) : ∃ e, a = some e ∧ evalE fo Γ nt σ e = .ok v := by
  cases a with
  | none => simp only [evalO] at h; cases h
  | some e =>
    simp only [evalO] at h
    obtain ⟨w, hw, h⟩ := Out.bind_eq_ok h
    cases h
    exact ⟨e, rfl, hw⟩

/-- all items of a range loop whose bounds are C integers fit a C long -/
theorem range_items_fit {fo : FOps F} {Γ : Nat → Ty} {nt : Nat → Option Ty} {σ : Store F} (hinv : Inv Γ σ)
    {a1 : Expr} {a2 a3 : Option Expr} {x1 : Val F} {x2 : Option (Val F)} {n1 n2 : Int}
    (hty : rangeItemTy Γ nt a1 a2 a3 = some .clong)
    (e1 : evalE fo Γ nt σ a1 = .ok x1) (e2 : evalO fo Γ nt σ a2 = .ok x2)
    (r1 : rangeArg x1 = .ok n1) (r2 : rangeArgO x2 0 = .ok n2) (fuel : Nat) (st k lo hi : Int)
    (hlo : (x2 = none → lo = 0) ∧ (∀ w, x2 = some w → lo = n1))
    (hhi : (x2 = none → hi = n1) ∧ (∀ w, x2 = some w → hi = n2))
    (hk : k ∈ (rangeItems fuel lo hi st).1) :
    inRange .clong k = true := by
  obtain ⟨p1, p2⟩ := rangeItemTy_clong hty
  obtain ⟨u1, hu1, hpl1⟩ := plainOpt_iff p1
  have hn1 := (rangeArg_plain hpl1 (evalE_conf hinv e1 hu1) r1).2
  cases x2 with
  | none =>
    rw [hlo.1 rfl, hhi.1 rfl] at hk
    exact items_inRange (lo := 0) (by decide) hn1 hk
  | some v2 =>
    obtain ⟨e, rfl, ev2⟩ := evalO_some e2
    obtain ⟨u2, hu2, hpl2⟩ := plainOpt_iff (p2 e rfl)
    have hn2 := (rangeArg_plain hpl2 (evalE_conf hinv ev2 hu2) (by simpa [rangeArgO] using r2)).2
    rw [hlo.2 v2 rfl, hhi.2 v2 rfl] at hk
    exact items_inRange hn1 hn2 hk

theorem range_tail {fS fO : Store F → Val F → Out (Flow F)} (P : Store F → Prop) (Q : Val F → Prop)
    (hstep : ∀ σ x, P σ → Q x → Agree (fS σ x) (fO σ x) ∧ ∀ σ', fS σ x = .ok (.next σ') → P σ')
    (fuel : Nat) (lo hi st : Int) (σ : Store F) (hp : P σ)
    (hq : ∀ k ∈ (rangeItems fuel lo hi st).1, Q (Val.int k)) :
    Agree (if st = 0 then (.err .ValueError : Out (Flow F)) else if (rangeItems fuel lo hi st).2 then .unsup
           else iter fS ((rangeItems fuel lo hi st).1.map Val.int) σ)
          (if st = 0 then .err .ValueError else if (rangeItems fuel lo hi st).2 then .unsup
           else iter fO ((rangeItems fuel lo hi st).1.map Val.int) σ) ∧
    ∀ σ', (if st = 0 then (.err .ValueError : Out (Flow F)) else if (rangeItems fuel lo hi st).2 then .unsup
           else iter fS ((rangeItems fuel lo hi st).1.map Val.int) σ) = .ok (.next σ') → P σ' := by
  have hq' : ∀ y ∈ (rangeItems fuel lo hi st).1.map Val.int, Q y := by
    intro y hy
    simp only [List.mem_map] at hy
    obtain ⟨k, hk, rfl⟩ := hy
    exact hq k hk
  by_cases hst : st = 0
  · rw [if_pos hst, if_pos hst]; exact ⟨Agree.rfl' _, fun σ' h => by cases h⟩
  · rw [if_neg hst, if_neg hst]
    by_cases hm : (rangeItems fuel lo hi st).2 = true
    · rw [if_pos hm, if_pos hm]; exact ⟨Agree.rfl' _, fun σ' h => by cases h⟩
    · rw [if_neg hm, if_neg hm]
      exact iter_agree P Q hstep _ σ hq' hp

theorem cleanS_sound {fo : FOps F} (law : Lawful fo) {Γ : Nat → Ty} {nt : Nat → Option Ty} :
    ∀ (fuel : Nat) (s : Stmt) (S S' : List Nat) (σ : Store F),
      cleanS Γ nt s S = .ok S' → Inv Γ σ → Bound S σ →
      Agree (exec fo Γ nt fuel s σ) (exec fo objEnv noNt fuel s σ) ∧
      ∀ σ', exec fo Γ nt fuel s σ = .ok (.next σ') → Post Γ S' σ σ' := by
  intro fuel
  induction fuel with
  | zero =>
    intro s S S' σ _ _ _
    exact ⟨Agree.rfl' _, fun σ' h => by simp only [exec] at h; cases h⟩
  | succ fuel ih =>
    intro s S S' σ h hinv hb
    cases s with
    | skip =>
      simp only [cleanS] at h; cases h
      simp only [exec]
      exact ⟨Agree.rfl' _, fun σ' hx => by cases hx; exact ⟨hinv, hb, Ext.refl' _⟩⟩
    | seq a b =>
      simp only [cleanS] at h
      obtain ⟨S1, ha, hb'⟩ := chk_bind h
      obtain ⟨aga, posta⟩ := ih a S S1 σ ha hinv hb
      simp only [exec]
      constructor
      · refine Agree.bind aga (fun r er _ => ?_)
        cases r with
        | next σ1 =>
          obtain ⟨i1, b1, _⟩ := posta σ1 er
          exact (ih b S1 S' σ1 hb' i1 b1).1
        | ret v => exact Agree.rfl' _
      · intro σ' hx
        obtain ⟨r, er, hx⟩ := Out.bind_eq_ok hx
        cases r with
        | next σ1 =>
          obtain ⟨i1, b1, e1⟩ := posta σ1 er
          obtain ⟨i2, b2, e2⟩ := (ih b S1 S' σ1 hb' i1 b1).2 σ' hx
          exact ⟨i2, b2, e1.trans' e2⟩
        | ret v => cases hx
    | assign v d e =>
      simp only [cleanS] at h
      obtain ⟨⟨s, o⟩, he, h⟩ := chk_bind h
      simp only at h
      split at h
      · rename_i hok
        have := chk_pure h; subst this
        obtain ⟨hts, hto, hag⟩ := cleanE_sound law hinv hb he
        simp only [exec]
        constructor
        · refine Agree.bind hag (fun x ex _ => ?_)
          simp only [hts, hto, tyOut, Out.bind_ok, assignTo, tyOf_obj]
          have c := evalE_conf hinv ex hts
          rw [(store_ok hok c).1, storeConv_obj]
          exact Agree.rfl' _
        · intro σ' hx
          obtain ⟨x, ex, hx⟩ := Out.bind_eq_ok hx
          simp only [hts, tyOut, Out.bind_ok, assignTo] at hx
          have c := evalE_conf hinv ex hts
          rw [(store_ok hok c).1] at hx
          simp only [Out.bind_ok] at hx; cases hx
          exact ⟨Inv.set hinv v x (store_ok (fo := fo) hok c).2, Bound.cons hb v x, Ext.set σ v x⟩
      · cases h
    | aug v d id op e =>
      simp only [cleanS] at h
      obtain ⟨⟨s, o⟩, he, h⟩ := chk_bind h
      simp only at h
      split at h
      · rename_i hok
        have := chk_pure h; subst this
        obtain ⟨hts, hto, hag⟩ := cleanE_sound law hinv hb he
        simp only [exec]
        constructor
        · refine Agree.bind hag (fun x ex _ => ?_)
          simp only [hts, hto, tyOut, Out.bind_ok, assignTo, tyOf_obj]
          have c := evalE_conf hinv ex hts
          rw [(store_ok hok c).1, storeConv_obj]
          exact Agree.rfl' _
        · intro σ' hx
          obtain ⟨x, ex, hx⟩ := Out.bind_eq_ok hx
          simp only [hts, tyOut, Out.bind_ok, assignTo] at hx
          have c := evalE_conf hinv ex hts
          rw [(store_ok hok c).1] at hx
          simp only [Out.bind_ok] at hx; cases hx
          exact ⟨Inv.set hinv v x (store_ok (fo := fo) hok c).2, Bound.cons hb v x, Ext.set σ v x⟩
      · cases h
    | ret e =>
      simp only [cleanS] at h
      obtain ⟨⟨s, o⟩, he, h⟩ := chk_bind h
      simp only [exec]
      exact ⟨Agree.bind_same _ (cleanE_sound law hinv hb he).2.2,
        fun σ' hx => by obtain ⟨x, _, hx⟩ := Out.bind_eq_ok hx; cases hx⟩
    | ite c a b =>
      simp only [cleanS] at h
      obtain ⟨⟨sc, oc⟩, hc, h⟩ := chk_bind h
      simp only at h
      split at h
      · cases h
      · rename_i hcond
        have hcond' : condOK sc oc = true := by simpa using hcond
        obtain ⟨Sa, ha, h⟩ := chk_bind h
        obtain ⟨Sb, hb', h⟩ := chk_bind h
        have := chk_pure h; subst this
        obtain ⟨hts, hto, hag⟩ := cleanE_sound law hinv hb hc
        obtain ⟨aga, posta⟩ := ih a S Sa σ ha hinv hb
        obtain ⟨agb, postb⟩ := ih b S Sb σ hb' hinv hb
        simp only [exec]
        constructor
        · refine Agree.bind hag (fun x _ _ => ?_)
          simp only [hts, hto, tyOut, Out.bind_ok, condOK_sound (fo := fo) x hcond']
          split
          · exact aga
          · exact agb
        · intro σ' hx
          obtain ⟨x, _, hx⟩ := Out.bind_eq_ok hx
          simp only [hts, tyOut, Out.bind_ok] at hx
          split at hx
          · obtain ⟨i1, b1, e1⟩ := posta σ' hx
            exact ⟨i1, fun v hv => b1 v (interS_sub_l hv), e1⟩
          · obtain ⟨i1, b1, e1⟩ := postb σ' hx
            exact ⟨i1, fun v hv => b1 v (interS_sub_r hv), e1⟩
    | «while» c body =>
      have h0 := h
      simp only [cleanS] at h
      obtain ⟨⟨sc, oc⟩, hc, h⟩ := chk_bind h
      simp only at h
      split at h
      · cases h
      · rename_i hcond
        have hcond' : condOK sc oc = true := by simpa using hcond
        obtain ⟨Sb, hbody, h⟩ := chk_bind h
        have := chk_pure h; subst this
        obtain ⟨hts, hto, hag⟩ := cleanE_sound law hinv hb hc
        obtain ⟨agb, postb⟩ := ih body S Sb σ hbody hinv hb
        simp only [exec]
        constructor
        · refine Agree.bind hag (fun x _ _ => ?_)
          simp only [hts, hto, tyOut, Out.bind_ok, condOK_sound (fo := fo) x hcond']
          split
          · refine Agree.bind agb (fun r er _ => ?_)
            cases r with
            | next σ1 =>
              obtain ⟨i1, _, e1⟩ := postb σ1 er
              exact (ih (.while c body) S S σ1 h0 i1 (hb.ext e1)).1
            | ret v => exact Agree.rfl' _
          · exact Agree.rfl' _
        · intro σ' hx
          obtain ⟨x, _, hx⟩ := Out.bind_eq_ok hx
          simp only [hts, tyOut, Out.bind_ok] at hx
          split at hx
          · obtain ⟨r, er, hx⟩ := Out.bind_eq_ok hx
            cases r with
            | next σ1 =>
              obtain ⟨i1, _, e1⟩ := postb σ1 er
              obtain ⟨i2, b2, e2⟩ := (ih (.while c body) S S σ1 h0 i1 (hb.ext e1)).2 σ' hx
              exact ⟨i2, b2, e1.trans' e2⟩
            | ret v => cases hx
          · cases hx; exact ⟨hinv, hb, Ext.refl' _⟩
    | forr v d a1 a2 a3 body =>
      simp only [cleanS] at h
      obtain ⟨⟨s1, o1⟩, h1, h⟩ := chk_bind h
      obtain ⟨_, h2, h⟩ := chk_bind h
      obtain ⟨_, h3, h⟩ := chk_bind h
      split at h
      · rename_i te teo hte hteo
        split at h
        · rename_i hT
          obtain ⟨Sb, hbody, h⟩ := chk_bind h
          have := chk_pure h; subst this
          obtain ⟨_, _, hag1⟩ := cleanE_sound law hinv hb h1
          have hag2 := evalO_agree law hinv hb h2
          have hag3 := evalO_agree law hinv hb h3
          have hstep : ∀ (σ1 : Store F) (y : Val F), (Inv Γ σ1 ∧ Bound S σ1 ∧ Ext σ σ1) →
              (∃ k, y = Val.int k ∧ (te = .clong → inRange .clong k = true)) →
              Agree (assignTo fo Γ v te (exec fo Γ nt fuel body) σ1 y)
                    (assignTo fo objEnv v teo (exec fo objEnv noNt fuel body) σ1 y) ∧
              ∀ σ', assignTo fo Γ v te (exec fo Γ nt fuel body) σ1 y = .ok (.next σ') →
                (Inv Γ σ' ∧ Bound S σ' ∧ Ext σ σ') := by
            intro σ1 y ⟨i1, b1, e1⟩ ⟨k, hy, hk⟩
            subst hy
            have hte2 : te ≠ .ucs4 := by
              rcases rangeItemTy_cases hte with h | h <;> rw [h] <;> decide
            have hso : storeOK (tyOf Γ v) te = true := by
              simp only [storeOK, decide_eq_true_eq]
              rcases hT with hT | ⟨hT, rfl⟩
              · exact Or.inl ⟨hT, fun hh => hte2 hh.2⟩
              · exact Or.inr (Or.inr ⟨hT, rfl⟩)
            have hcf : (tyOf Γ v).isPyObject = false → conf te (Val.int k : Val F) := by
              intro hnp
              rcases hT with hT | ⟨_, rfl⟩
              · rw [hT] at hnp; cases hnp
              · exact ⟨k, rfl, hk rfl⟩
            have hst : storeConv fo (tyOf Γ v) te (Val.int k) = .ok (Val.int k) ∧
                ((tyOf Γ v).isPyObject = false → conf (tyOf Γ v) (Val.int k : Val F)) := by
              by_cases hp : (tyOf Γ v).isPyObject = true
              · exact ⟨storeConv_py hp (fun hh => hte2 hh.2), fun h => by rw [hp] at h; cases h⟩
              · have hp' : (tyOf Γ v).isPyObject = false := by simpa using hp
                exact store_ok hso (hcf hp')
            have hinv' : Inv Γ (σ1.set v (Val.int k)) := Inv.set i1 v _ hst.2
            obtain ⟨agb, postb⟩ := ih body (v :: S) Sb (σ1.set v (Val.int k)) hbody hinv' (Bound.cons b1 v _)
            simp only [assignTo, hst.1, Out.bind_ok, tyOf_obj, storeConv_obj]
            refine ⟨agb, fun σ' hx => ?_⟩
            obtain ⟨i2, _, e2⟩ := postb σ' hx
            have e12 : Ext σ1 σ' := (Ext.set σ1 v _).trans' e2
            exact ⟨i2, b1.ext e12, e1.trans' e12⟩
          simp only [exec]
          constructor
          · refine Agree.bind hag1 (fun x1 e1 _ => Agree.bind hag2 (fun x2 e2 _ => Agree.bind hag3 (fun x3 _ _ => ?_)))
            simp only [hte, hteo, tyOut, Out.bind_ok]
            refine Agree.bind (Agree.rfl' _) (fun n1 r1 _ => Agree.bind (Agree.rfl' _) (fun n2 r2 _ =>
              Agree.bind (Agree.rfl' _) (fun st _ _ => ?_)))
            refine (range_tail _ _ hstep fuel _ _ st σ ⟨hinv, hb, Ext.refl' _⟩ ?_).1
            intro k hk
            exact ⟨k, rfl, fun htc => range_items_fit hinv (htc ▸ hte) e1 e2 r1 r2 fuel st k _ _
              ⟨fun h => by subst h; rfl, fun w h => by subst h; rfl⟩
              ⟨fun h => by subst h; rfl, fun w h => by subst h; rfl⟩ hk⟩
          · intro σ' hx
            obtain ⟨x1, e1, hx⟩ := Out.bind_eq_ok hx
            obtain ⟨x2, e2, hx⟩ := Out.bind_eq_ok hx
            obtain ⟨x3, _, hx⟩ := Out.bind_eq_ok hx
            simp only [hte, tyOut, Out.bind_ok] at hx
            obtain ⟨n1, r1, hx⟩ := Out.bind_eq_ok hx
            obtain ⟨n2, r2, hx⟩ := Out.bind_eq_ok hx
            obtain ⟨st, _, hx⟩ := Out.bind_eq_ok hx
            refine (range_tail _ _ hstep fuel _ _ st σ ⟨hinv, hb, Ext.refl' _⟩ ?_).2 σ' hx
            intro k hk
            exact ⟨k, rfl, fun htc => range_items_fit hinv (htc ▸ hte) e1 e2 r1 r2 fuel st k _ _
              ⟨fun h => by subst h; rfl, fun w h => by subst h; rfl⟩
              ⟨fun h => by subst h; rfl, fun w h => by subst h; rfl⟩ hk⟩
        · cases h
      · cases h
    | forin v d e body =>
      simp only [cleanS] at h
      obtain ⟨⟨s, o⟩, he, h⟩ := chk_bind h
      simp only at h
      split at h
      · cases h
      · rename_i hpy
        have hpy' : s.isPyObject = true ∧ o.isPyObject = true ∧ (s = .pystr ∨ o ≠ .pystr) := by
          by_cases hq : s.isPyObject = true ∧ o.isPyObject = true ∧ (s = .pystr ∨ o ≠ .pystr)
          · exact hq
          · exact absurd (by simpa using hq) hpy
        obtain ⟨hps, hpo, hso⟩ := hpy'
        rw [itemTy_eq s, itemTy_eq o] at h
        simp only at h
        generalize hte : (if s = Ty.pystr then Ty.ucs4 else Ty.obj) = te at h
        split at h
        · rename_i hT
          subst hte
          obtain ⟨Sb, hbody, h⟩ := chk_bind h
          have := chk_pure h; subst this
          obtain ⟨hts, hto, hag⟩ := cleanE_sound law hinv hb he
          -- one iteration
          have hstep : ∀ (σ1 : Store F) (y : Val F), (Inv Γ σ1 ∧ Bound S σ1 ∧ Ext σ σ1) →
              (s = .pystr → ∃ c, y = Val.str [c]) →
              Agree (assignTo fo Γ v (if s = .pystr then .ucs4 else .obj) (exec fo Γ nt fuel body) σ1 y)
                    (assignTo fo objEnv v (if o = .pystr then .ucs4 else .obj) (exec fo objEnv noNt fuel body) σ1 y) ∧
              ∀ σ', assignTo fo Γ v (if s = .pystr then .ucs4 else .obj) (exec fo Γ nt fuel body) σ1 y
                  = .ok (.next σ') → (Inv Γ σ' ∧ Bound S σ' ∧ Ext σ σ') := by
            intro σ1 y ⟨i1, b1, e1⟩ hy
            have hst : storeConv fo (tyOf Γ v) (if s = .pystr then .ucs4 else .obj) y = .ok y := by
              rcases hT with ⟨hT1, hT2⟩ | hT
              · exact storeConv_py hT1 hT2
              · rw [hT]; exact storeConv_same
            have hinv' : Inv Γ (σ1.set v y) := by
              apply Inv.set i1
              intro hnp
              rcases hT with ⟨hT, _⟩ | hT
              · rw [hT] at hnp; cases hnp
              · rw [hT] at hnp ⊢
                by_cases hs : s = .pystr
                · simp only [hs, if_true]; exact hy hs
                · simp only [hs, if_false] at hnp; cases hnp
            obtain ⟨agb, postb⟩ := ih body (v :: S) Sb (σ1.set v y) hbody hinv' (Bound.cons b1 v y)
            simp only [assignTo, hst, Out.bind_ok, tyOf_obj, storeConv_obj]
            refine ⟨agb, fun σ' hx => ?_⟩
            obtain ⟨i2, _, e2⟩ := postb σ' hx
            have e12 : Ext σ1 σ' := (Ext.set σ1 v y).trans' e2
            exact ⟨i2, b1.ext e12, e1.trans' e12⟩
          simp only [exec]
          constructor
          · refine Agree.bind hag (fun x ex _ => ?_)
            simp only [hts, hto, tyOut, Out.bind_ok, hps, hpo, not_true_eq_false, if_false, itemTy_eq]
            have c := evalE_conf hinv ex hts
            rw [← seqItems_agree hso c]
            refine Agree.bind (Agree.rfl' _) (fun items hit _ => ?_)
            exact (iter_agree _ _ hstep items σ (fun y hy hs => seqItems_chars hit hs y hy)
              ⟨hinv, hb, Ext.refl' _⟩).1
          · intro σ' hx
            obtain ⟨x, ex, hx⟩ := Out.bind_eq_ok hx
            simp only [hts, tyOut, Out.bind_ok, hps, not_true_eq_false, if_false, itemTy_eq] at hx
            obtain ⟨items, hit, hx⟩ := Out.bind_eq_ok hx
            exact (iter_agree _ _ hstep items σ (fun y hy hs => seqItems_chars hit hs y hy)
              ⟨hinv, hb, Ext.refl' _⟩).2 σ' hx
        · cases h

end CyVerif.C40

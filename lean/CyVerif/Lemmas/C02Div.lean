import CyVerif.Lemmas.C02Bits
import CyVerif.Lemmas.IntDiv
/-!
C02: the C code for `%` and `//` (truncating `/`, `%` plus the sign fix-up of CMath.c) computes Python's
floor modulo / floor division and never overflows on bounded operands.
-/
namespace CyVerif.C02
open CyVerif.C05

theorem adjBit_eq {t : CTy} (hs : t.signed = true) (hb : 0 < t.bytes) {x b : Int} (hx : t.inRange x) (hbr : t.inRange b) :
    adjBit t x b = if x ≠ 0 ∧ ((x < 0 ∧ 0 ≤ b) ∨ (0 ≤ x ∧ b < 0)) then 1 else 0 := by
  unfold adjBit
  have hiff : (x ≠ 0 ∧ cbit t .xor x b < 0) ↔ (x ≠ 0 ∧ ((x < 0 ∧ 0 ≤ b) ∨ (0 ≤ x ∧ b < 0))) := by
    rw [xor_neg_iff hs hb hx hbr]
    by_cases h1 : x < 0 <;> by_cases h2 : b < 0 <;> simp [h1, h2] <;> omega
  simp only [hiff]

theorem bnd_of_natAbs_le {m : Nat} {a q : Int} (ha : Bnd m a) (h : q.natAbs ≤ a.natAbs) : Bnd m q := by
  unfold Bnd at *; omega

theorem tmod_natAbs_le (a b : Int) : (a.tmod b).natAbs ≤ a.natAbs := by
  rw [Int.natAbs_tmod]; exact Nat.mod_le _ _

theorem cRemainder_spec {t : CTy} (hs : t.signed = true) (hb : 0 < t.bytes) {a b : Int} {m : Nat}
    (ha : Bnd m a) (hbb : Bnd m b) (hm : m + 1 ≤ t.bits) (hb0 : b ≠ 0) :
    cRemainder t a b = .ok (.int (a.fmod b)) := by
  obtain ⟨h1, h2, h3, h4⟩ := tdiv_tmod_spec a hb0
  have hq : Bnd m (a.tdiv b) := bnd_of_natAbs_le ha (Int.natAbs_tdiv_le_natAbs a b)
  have hr : Bnd m (a.tmod b) := bnd_of_natAbs_le ha (tmod_natAbs_le a b)
  have rq := inRange_of_bnd hs hq hm
  have rr := inRange_of_bnd hs hr hm
  have rb := inRange_of_bnd hs hbb hm
  have r0 : t.inRange 0 := inRange_of_bnd hs (by unfold Bnd; have := two_pos m; omega) hm
  unfold cRemainder cmod
  rw [if_neg hb0, if_pos rq]
  simp only [bind, Except.bind, pure, Except.pure]
  rw [adjBit_eq hs hb rr rb]
  by_cases hadj : a.tmod b ≠ 0 ∧ ((a.tmod b < 0 ∧ 0 ≤ b) ∨ (0 ≤ a.tmod b ∧ b < 0))
  · have hsum : Bnd m (a.tmod b + b) := by unfold Bnd at *; omega
    have hmul : b * (a.tdiv b - 1) = b * a.tdiv b - b := by rw [Int.mul_sub, Int.mul_one]
    have hsum' : a.tmod b + b + b * (a.tdiv b - 1) = a := by omega
    have hf := (fdiv_fmod_unique_ne (q := a.tdiv b - 1) (r := a.tmod b + b) hb0 hsum'
      (by intro hp; omega) (by intro hn; omega)).2
    simp only [if_pos hadj, cmul_ok hs (show t.inRange (1 * b) by rw [Int.one_mul]; exact rb),
      Int.one_mul, cadd_ok (inRange_of_bnd hs hsum hm), hf]
  · have hf := (fdiv_fmod_unique_ne (q := a.tdiv b) (r := a.tmod b) hb0 h1
      (by intro hp; omega) (by intro hn; omega)).2
    simp only [if_neg hadj, cmul_ok hs (show t.inRange (0 * b) by rw [Int.zero_mul]; exact r0),
      Int.zero_mul, Int.add_zero, cadd_ok (show t.inRange (a.tmod b + 0) by rw [Int.add_zero]; exact rr), hf]

theorem cFloorDivide_spec {t : CTy} (hs : t.signed = true) (hb : 0 < t.bytes) {a b : Int} {m : Nat}
    (ha : Bnd m a) (hbb : Bnd m b) (hm : m + 1 ≤ t.bits) (hb0 : b ≠ 0) :
    cFloorDivide t a b = .ok (.int (a.fdiv b)) := by
  obtain ⟨h1, h2, h3, h4⟩ := tdiv_tmod_spec a hb0
  have hq : Bnd m (a.tdiv b) := bnd_of_natAbs_le ha (Int.natAbs_tdiv_le_natAbs a b)
  have hr : Bnd m (a.tmod b) := bnd_of_natAbs_le ha (tmod_natAbs_le a b)
  have rq := inRange_of_bnd hs hq hm
  have rr := inRange_of_bnd hs hr hm
  have rb := inRange_of_bnd hs hbb hm
  have hqb : a.tdiv b * b = a - a.tmod b := by rw [Int.mul_comm]; omega
  have hqbB : Bnd m (a.tdiv b * b) := by rw [hqb]; unfold Bnd at *; omega
  have hrr : a - a.tdiv b * b = a.tmod b := by rw [hqb]; omega
  have hrange : ∀ k : Int, (k = 0 ∨ k = 1) → t.inRange (a.tdiv b - k) := by
    intro k hk
    rw [inRange_signed_iff t hs]
    have := two_le_two (show m ≤ t.bits - 1 by omega)
    unfold Bnd at hq; omega
  unfold cFloorDivide cdiv
  rw [if_neg hb0, if_pos rq]
  simp only [bind, Except.bind, pure, Except.pure, cmul_ok hs (inRange_of_bnd hs hqbB hm),
    csub_ok hs (show t.inRange (a - a.tdiv b * b) by rw [hrr]; exact rr), hrr, adjBit_eq hs hb rr rb]
  by_cases hadj : a.tmod b ≠ 0 ∧ ((a.tmod b < 0 ∧ 0 ≤ b) ∨ (0 ≤ a.tmod b ∧ b < 0))
  · have hmul : b * (a.tdiv b - 1) = b * a.tdiv b - b := by rw [Int.mul_sub, Int.mul_one]
    have hsum' : a.tmod b + b + b * (a.tdiv b - 1) = a := by omega
    have hf := (fdiv_fmod_unique_ne (q := a.tdiv b - 1) (r := a.tmod b + b) hb0 hsum'
      (by intro hp; omega) (by intro hn; omega)).1
    simp only [if_pos hadj, csub_ok hs (hrange 1 (.inr rfl)), hf]
  · have hf := (fdiv_fmod_unique_ne (q := a.tdiv b) (r := a.tmod b) hb0 h1
      (by intro hp; omega) (by intro hn; omega)).1
    simp only [if_neg hadj, csub_ok hs (hrange 0 (.inl rfl)), Int.sub_zero, hf]

end CyVerif.C02

import CyVerif.Lemmas.C23Ops3
namespace CyVerif.C23
variable {σ ι : Type}

theorem relN_yieldfrom {c : CyObj σ ι} {p : PyObj σ ι} (h : RelN c p) : RelN c.yieldfrom p.yieldfrom := by
  cases h with
  | deleg hd =>
    cases hd with
    | null => exact RelN.null
    | opq o => exact RelN.null
    | gen s h => exact .deleg h
  | created s => exact RelN.null
  | finished s s' => exact RelN.null

@[simp] theorem R.pre_nil {O : Type} (r : R O) : R.pre [] [] r = r := by
  cases r; simp [R.pre]

theorem sim_del_tail (fl : Flags) (rc : CyRec σ ι) (rp : PyRec σ ι) (H : SimAll fl rc rp)
    (c : CyObj σ ι) (p : PyObj σ ι) (h : RelN c p) :
    RSim fl RelO (R.bind .null (rc c .del) fun _ _ => ⟨.ret 0, .null, [], []⟩)
      (R.bind .null (rp p .del) fun _ _ => ⟨.ret 0, .null, [], []⟩) := by
  apply RSim.bind (Q0 := RelO) (H.nonrun _ _ .del h (reqOk_del _)) (relO_null _)
  intro _ _ _ _ _
  exact RSim.pure rfl rfl (relO_null _)

theorem sim_del_close (fl : Flags) (rc : CyRec σ ι) (rp : PyRec σ ι) (H : SimAll fl rc rp)
    {a : R (CyObj σ ι)} {b : R (PyObj σ ι)} (h : RSim fl RelO a b) :
    RSim fl RelO
      (R.bind .null a fun o g => R.pre (match o with | .err e => [Ev.unraisable e] | _ => []) [] <|
        R.bind .null (rc g.yieldfrom .del) fun _ _ => ⟨.ret 0, .null, [], []⟩)
      (R.bind .null b fun o g => R.pre (match o with | .err e => [Ev.unraisable e] | _ => []) [] <|
        R.bind .null (rp g.yieldfrom .del) fun _ _ => ⟨.ret 0, .null, [], []⟩) := by
  apply RSim.bind h (relO_null _)
  intro o ca pa _ hq
  apply RSim.pre
  exact sim_del_tail fl rc rp H _ _ (relN_yieldfrom hq.1)

theorem sim_del (fl : Flags) (B : Body σ ι) (O : OpqSem ι) (rc : CyRec σ ι) (rp : PyRec σ ι) (H : SimAll fl rc rp)
    (c : CyObj σ ι) (p : PyObj σ ι) (h : RelN c p) :
    RSim fl RelO (cyF fl B O rc c .del) (pyF fl.coro B O rp p .del) := by
  cases h with
  | deleg hd =>
    cases hd with
    | null => exact RSim.pure rfl rfl (relO_null _)
    | opq o => exact RSim.pure rfl rfl (relO_null _)
    | gen s h =>
      simp only [cyF, pyF, cyDel, pyDel]
      exact sim_del_close fl rc rp H (sim_close_suspended fl B O rc rp H s _ _ h)
  | created s =>
    simp only [cyF, pyF, cyDel, pyDel]
    have := sim_del_tail fl rc rp H .null .null RelN.null
    simpa [pyClose, R.mapOut, closeStatus, R.bind, PyObj.yieldfrom] using this
  | finished s s' =>
    simp only [cyF, pyF, cyDel, pyDel]
    exact sim_del_tail fl rc rp H .null .null RelN.null

end CyVerif.C23

namespace CyVerif.C23
variable {σ ι : Type}

theorem sim_next_finished (fl : Flags) (B : Body σ ι) (O : OpqSem ι) (rc : CyRec σ ι) (rp : PyRec σ ι) (st st' : σ) :
    RSim fl RelO ((cyAmSend fl B O rc .finished false st .null 0).mapOut methodReturn)
      ((pySendEx2 fl.coro B O rp .cleared st' .null (.send 0) false).mapOut methodReturn) := by
  simp only [cyAmSend, Bool.false_eq_true, if_false, cySendEx, pySendEx2, Bool.not_false, Bool.and_true]
  cases fl.coro <;> simp [R.mapOut, cyUnset, methodReturn, CyObj.setRunning] <;>
    exact RSim.pure rfl rfl ⟨.finished st st', fun v hv => by simp at hv⟩

/-- one level of the two call graphs preserves the simulation -/
theorem simF (fl : Flags) (B : Body σ ι) (O : OpqSem ι) (rc : CyRec σ ι) (rp : PyRec σ ι) (H : SimAll fl rc rp) :
    SimAll fl (cyF fl B O rc) (pyF fl.coro B O rp) where
  nonrun := by
    intro c p req h hok
    cases req with
    | cont i => exact absurd hok (by simp [ReqOk])
    | del => exact sim_del fl B O rc rp H c p h
    | send v =>
      cases h with
      | deleg hd =>
        cases hd with
        | null => exact RSim.pure rfl rfl (relO_null _)
        | opq o => exact RSim.pure rfl rfl ⟨.deleg (.opq o), fun v hv => by simp [pyF] at hv⟩
        | gen s h => exact sim_amSend_suspended fl B O rc rp H s _ _ h v
      | created s => exact sim_amSend_created fl B O rc rp H s v
      | finished s s' => simp [ReqOk, CyObj.isFinished] at hok
    | next =>
      cases h with
      | deleg hd =>
        cases hd with
        | null => exact RSim.pure rfl rfl (relO_null _)
        | opq o =>
          simp only [cyF, pyF]
          exact RSim.pure rfl rfl ⟨.deleg (.opq _), fun v _ => .opq _⟩
        | gen s h => exact RSim.mapOut _ (sim_amSend_suspended fl B O rc rp H s _ _ h 0) relO_methodReturn
      | created s => exact RSim.mapOut _ (sim_amSend_created fl B O rc rp H s 0) relO_methodReturn
      | finished s s' => exact sim_next_finished fl B O rc rp s s'
    | throw e =>
      cases h with
      | deleg hd =>
        cases hd with
        | null => exact RSim.pure rfl rfl (relO_null _)
        | opq o => exact RSim.pure rfl rfl ⟨.deleg (.opq o), fun v hv => by simp [pyF] at hv⟩
        | gen s h => exact sim_throw_suspended fl B O rc rp H s _ _ h e
      | created s => exact sim_throw_created fl B O rc rp H s e
      | finished s s' => exact sim_throw_finished fl B O rc rp s s' e
    | close =>
      cases h with
      | deleg hd =>
        cases hd with
        | null => exact RSim.pure rfl rfl (relO_null _)
        | opq o => exact RSim.pure rfl rfl ⟨.deleg (.opq o), fun v hv => by simp [pyF] at hv⟩
        | gen s h => exact sim_close_suspended fl B O rc rp H s _ _ h
      | created s => exact sim_close_created fl B O rc rp s
      | finished s s' => exact sim_close_finished fl B O rc rp s s'
  cont := by
    intro l st inp hl
    exact sim_body fl B rc rp H l hl st inp
  running := by
    intro l st req hc hdl
    cases req with
    | cont i => exact absurd rfl (hc i)
    | del => exact absurd rfl hdl
    | send v => simp [cyF, pyF, cyAmSend, pySendEx2, alreadyRunning]
    | next => simp [cyF, pyF, cyAmSend, pySendEx2, alreadyRunning, R.mapOut]
    | throw e => simp [cyF, pyF, cyThrow, pyThrow, pyYf, pySendEx2, alreadyRunning, R.mapOut, methodReturn]
    | close =>
      simp [cyF, pyF, cyClose, pyClose, pyYf, pySendEx2, pyCloseResult, alreadyRunning, R.mapOut, closeStatus, Exc.isStop]

theorem sim_base (fl : Flags) (B : Body σ ι) (O : OpqSem ι) :
    SimAll fl (cyRun fl B O 0) (pyRun fl.coro B O 0) where
  nonrun := fun _ _ _ _ _ => RSim.pure rfl rfl (relO_null _)
  cont := fun _ _ _ _ => RSim.pure rfl rfl (relU_null _)
  running := fun _ _ _ _ _ => ⟨rfl, rfl, rfl⟩

/-- for every recursion budget the two implementations simulate each other -/
theorem sim_run (fl : Flags) (B : Body σ ι) (O : OpqSem ι) (n : Nat) :
    SimAll fl (cyRun fl B O n) (pyRun fl.coro B O n) := by
  induction n with
  | zero => exact sim_base fl B O
  | succ n ih => exact simF fl B O _ _ ih

end CyVerif.C23

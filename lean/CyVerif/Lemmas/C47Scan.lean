import CyVerif.Lemmas.C47Base
/-! The scanner induction (C47): accounting, fuel sufficiency, unreachable branches, label-follow structure. -/
namespace CyVerif.C47

theorem QS_of_quoteKind {run qs : List Char} {back : Nat} (hk : quoteKind run = some (qs, back))
    (ht : QRun run) : QS qs := by
  obtain ⟨hb, hqne, hqh⟩ := quoteKind_spec hk
  obtain ⟨q, hq, hrne, hall⟩ := ht
  cases run with
  | nil => exact absurd rfl hrne
  | cons r rs =>
    have : r = q := hall r (by simp)
    subst this
    cases qs with
    | nil => exact absurd rfl hqne
    | cons a t =>
      simp at hqh; subst hqh
      exact ⟨a, t, rfl, by simp [isQuote] at hq; rcases hq with h | h <;> simp [isDelim, h]⟩

theorem dropWhile_head_false {α} {p : α → Bool} {l : List α} {a : α} {t : List α}
    (h : l.dropWhile p = a :: t) : p a = false := by
  induction l with
  | nil => simp at h
  | cons x xs ih =>
    by_cases hx : p x = true
    · rw [List.dropWhile_cons_of_pos hx] at h; exact ih h
    · rw [List.dropWhile_cons_of_neg hx] at h
      simp only [List.cons.injEq] at h
      rw [← h.1]; simpa using hx

theorem scan_all : (∀ fuel qs isF pend rest, MotS fuel qs isF pend rest) ∧
    (∀ fuel inF pend rest, MotC fuel inF pend rest) := by
  apply parseString.mutual_induct
  case case1 => intro qs isF pend rest h; simp at h
  case case2 =>
    intro qs isF pend rest fuel hs _ _
    simp [Post, parseString, hs, expand, followOK, startsDelim]
  case case3 =>
    intro qs isF pend rest fuel pre post bs eq hc hs ih hl hq
    obtain ⟨e, ht⟩ := strSearch hs
    simp only [Tok.chars, Tok.isStr] at e ht
    have hb : 0 < bs.length := List.length_pos_iff.mpr ht
    have hlen : (eq :: post).length < fuel := by simp [e] at hl ⊢; omega
    obtain ⟨h1, h2, h3, h4⟩ := ih hlen hq
    simp only [Post, parseString, hs, hc, and_self, if_true]
    refine ⟨by rw [h1, e]; simp, ?_, h3, h4⟩
    simp [e] at h2 ⊢; omega
  case case4 =>
    intro qs isF pend rest fuel pre post bs eq hc hs ih hl hq
    obtain ⟨e, ht⟩ := strSearch hs
    simp only [Tok.chars, Tok.isStr] at e ht
    have hlen : post.length < fuel := by simp [e] at hl ⊢; omega
    obtain ⟨h1, h2, h3, h4⟩ := ih hlen hq
    simp only [Post, parseString, hs, hc, if_false]
    refine ⟨by rw [h1, e]; simp, ?_, h3, h4⟩
    simp [e] at h2 ⊢; omega
  case case5 =>
    intro qs pend rest fuel pre post run hc hs ih hl hq
    obtain ⟨e, ht⟩ := strSearch hs
    have hs' : search mFStr rest = some (pre, Tok.braces run, post) := hs
    simp only [Tok.chars, Tok.isStr] at e ht
    have hb : 0 < run.length := List.length_pos_iff.mpr ht.2
    have hlen : post.length < fuel := by simp [e] at hl ⊢; omega
    obtain ⟨h1, h2, h3, h4⟩ := ih hlen hq
    simp only [Post, parseString, hs', hc, if_true]
    refine ⟨by rw [h1, e]; simp, ?_, h3, h4⟩
    simp [e] at h2 ⊢; omega
  case case6 =>
    intro qs pend rest fuel pre post run hc hlast ps3 hs hpc ih hl hq
    obtain ⟨e, ht⟩ := strSearch hs
    have hs' : search mFStr rest = some (pre, Tok.braces run, post) := hs
    simp only [Tok.chars, Tok.isStr] at e ht
    have hb : 0 < run.length := List.length_pos_iff.mpr ht.2
    have hlen : post.length < fuel := by simp [e] at hl ⊢; omega
    obtain ⟨⟨h1, h2, h3, h4⟩, s, ps', h5, _⟩ := ih hlen
    rw [hpc] at h1 h2 h3 h4 h5
    simp only at h1 h2 h3 h4 h5
    have hrun : run.dropLast ++ ['{'] = run := dropLast_append_getLast hlast
    simp only [Post, parseString, hs', hc, hlast, hpc, if_true, if_false]
    refine ⟨?_, by simp, ?_, by simp⟩
    · simp only [expand_append, expand_litIf, expand, tail_none, List.append_nil] at h1 ⊢
      rw [e, ← hrun]; simp at h1; simp [h1]
    · apply followOK_append
      · apply followOK_append
        · unfold litIf; split <;> simp [followOK, startsDelim]
        · simp [followOK]
        · right; simp [startsDelim, isDelim]
      · exact h3
      · left; rw [endsOK_append_ne _ _ (by simp)]; simp [endsOK]
  case case7 =>
    intro qs pend rest fuel pre post run hc hlast ps3 rest' ps4 r4 hps hs hpc ihC ihS hl hq
    obtain ⟨e, ht⟩ := strSearch hs
    have hs' : search mFStr rest = some (pre, Tok.braces run, post) := hs
    simp only [Tok.chars, Tok.isStr] at e ht
    have hb : 0 < run.length := List.length_pos_iff.mpr ht.2
    have hlen : post.length < fuel := by simp [e] at hl ⊢; omega
    obtain ⟨⟨h1, h2, h3, h4⟩, s, ps', h5, _⟩ := ihC hlen
    rw [hpc] at h1 h2 h3 h4 h5
    simp only [tail_some, List.nil_append] at h1 h2 h3 h4 h5
    have h4' := h4 (by simp)
    have hrl : rest.length = pre.length + run.length + post.length := by simp [e]; omega
    obtain ⟨g1, g2, g3, g4⟩ := ihS (by omega) hq
    rw [hps] at g1 g2 g3 g4
    simp only [List.nil_append] at g1 g2 g3 g4
    have hrun : run.dropLast ++ ['{'] = run := dropLast_append_getLast hlast
    simp only [Post, parseString, hs', hc, hlast, hpc, hps, if_true, if_false]
    have hne : ps3 ≠ [] := by rw [h5]; simp
    refine ⟨?_, by omega, ?_, ?_⟩
    · simp only [expand_append, expand_litIf, expand, List.append_nil, List.append_assoc, g1]
      rw [e, ← h1]; conv => rhs; rw [← hrun]
      simp
    · apply followOK_append _ _ _ g3
      · left; rw [endsOK_append_ne _ _ hne]; exact h4'
      · apply followOK_append _ _ _ h3
        · left; rw [endsOK_append_ne _ _ (by simp)]; simp [endsOK]
        · apply followOK_append
          · unfold litIf; split <;> simp [followOK, startsDelim]
          · simp [followOK]
          · right; simp [startsDelim, isDelim]
    · intro hr
      have := g4 hr
      have hne4 : ps4 ≠ [] := by intro h; subst h; simp [endsOK] at this
      rw [endsOK_append_ne _ _ hne4]; exact this
  case case8 =>
    intro qs pend rest fuel pre post run hc hlast hs ih hl hq
    obtain ⟨e, ht⟩ := strSearch hs
    have hs' : search mFStr rest = some (pre, Tok.braces run, post) := hs
    simp only [Tok.chars, Tok.isStr] at e ht
    have hb : 0 < run.length := List.length_pos_iff.mpr ht.2
    have hlen : post.length < fuel := by simp [e] at hl ⊢; omega
    obtain ⟨h1, h2, h3, h4⟩ := ih hlen hq
    simp only [Post, parseString, hs', hc, hlast, if_true, if_false]
    refine ⟨by rw [h1, e]; simp, ?_, h3, h4⟩
    simp [e] at h2 ⊢; omega
  case case9 =>
    intro qs isF pend rest fuel pre post run hF hs _ _
    obtain ⟨e, ht⟩ := strSearch hs
    simp only [Tok.isStr] at ht
    exact absurd ht.1 hF
  case case10 =>
    intro qs isF pend rest fuel pre post f run hp hs hl hq
    obtain ⟨e, ht⟩ := strSearch hs
    simp only [Tok.chars, Tok.isStr] at e ht
    have hpre : qs ++ run.drop qs.length = run := List.prefix_iff_eq_append.mp (List.isPrefixOf_iff_prefix.mp hp)
    obtain ⟨q, t, rfl, hd⟩ := hq
    simp only [Post, parseString, hs, hp, if_true]
    refine ⟨?_, ?_, ?_, ?_⟩
    · simp only [expand_append, expand_litIf, expand, tail_some, List.append_nil, List.append_assoc]
      rw [e]; simp only [List.append_assoc]; rw [← List.append_assoc (q :: t), hpre]
    · simp [e]; omega
    · apply followOK_append
      · unfold litIf; split <;> simp [followOK, startsDelim]
      · simp [followOK]
      · right; simp [startsDelim, hd]
    · intro _; rw [endsOK_append_ne _ _ (by simp)]; simp [endsOK]
  case case11 =>
    intro qs isF pend rest fuel pre post f run hp hs ih hl hq
    obtain ⟨e, ht⟩ := strSearch hs
    simp only [Tok.chars, Tok.isStr] at e ht
    have hb : 0 < run.length := List.length_pos_iff.mpr ht.ne_nil
    have hlen : post.length < fuel := by simp [e] at hl ⊢; omega
    obtain ⟨h1, h2, h3, h4⟩ := ih hlen hq
    simp only [Post, parseString, hs, hp, Bool.false_eq_true, if_false]
    refine ⟨by rw [h1, e]; simp, ?_, h3, h4⟩
    simp [e] at h2 ⊢; omega
  case case12 =>
    intro qs isF pend rest fuel pre tok post hs h1 h2 h3 _ _
    obtain ⟨e, ht⟩ := strSearch hs
    cases tok with
    | comment => simp [Tok.isStr] at ht
    | brace c => simp [Tok.isStr] at ht
    | braces run => exact absurd rfl (h2 run)
    | escape bs q => exact absurd rfl (h1 bs q)
    | quote f run => exact absurd rfl (h3 f run)
  case case13 => intro inF pend rest h; simp at h
  case case14 =>
    intro inF pend rest fuel hs _
    simp [Post, parseCode, hs, expand, followOK]
    intro h; rcases h with h | h
    · exact fun h' => absurd h' h
    · exact fun _ => h
  case case15 =>
    intro inF pend rest fuel pre post f run qs back hk ps3 hs hps ih hl
    obtain ⟨e, ht⟩ := codeSearch hs
    simp only [Tok.chars, Tok.isCode] at e ht
    obtain ⟨hb, hqne, hqh⟩ := quoteKind_spec hk
    obtain ⟨q, hq, hrne, hall⟩ := ht
    have hrl : rest.length = pre.length + (fch f).length + run.length + post.length := by simp [e]; omega
    have hQS : QS qs := by
      cases run with
      | nil => exact absurd rfl hrne
      | cons r rs =>
        have : r = q := hall r (by simp)
        subst this
        cases qs with
        | nil => exact absurd rfl hqne
        | cons a t =>
          simp at hqh; subst hqh
          exact ⟨a, t, rfl, by simp [isQuote] at hq; rcases hq with h | h <;> simp [isDelim, h]⟩
    obtain ⟨h1, h2, h3, h4⟩ := ih (by simp; omega) hQS
    rw [hps] at h1 h2 h3 h4
    simp only [tail_none, List.append_nil, List.nil_append] at h1 h2 h3 h4
    simp only [Post, parseCode, hs, hk, hps]
    refine ⟨⟨?_, by simp, ?_, by simp⟩, _, _, rfl, ?_⟩
    · simp only [expand, h1, tail_none, List.append_nil, List.append_assoc]
      rw [e]; simp only [List.append_assoc]
      rw [← List.append_assoc (List.take _ run), List.take_append_drop]
    · simpa [followOK] using h3
    · intro _; simp; intro _ _ _; exact ⟨by omega, hrne⟩
  case case16 =>
    intro inF pend rest fuel pre post f run qs back hk ps3 rest' ps4 r4 hpc hs hps ihS ihC hl
    obtain ⟨e, ht⟩ := codeSearch hs
    simp only [Tok.chars, Tok.isCode] at e ht
    obtain ⟨hb, hqne, hqh⟩ := quoteKind_spec hk
    have hQS := QS_of_quoteKind hk ht
    have hrne := ht.ne_nil
    have hrl : rest.length = pre.length + (fch f).length + run.length + post.length := by simp [e]; omega
    obtain ⟨h1, h2, h3, h4⟩ := ihS (by simp; omega) hQS
    rw [hps] at h1 h2 h3 h4
    simp only [tail_some, List.nil_append] at h1 h2 h3 h4
    have h4' := h4 (by simp)
    have h2' : rest'.length < fuel := by simp at h2; omega
    obtain ⟨⟨g1, g2, g3, g4⟩, _⟩ := ihC h2'
    rw [hpc] at g1 g2 g3 g4
    simp only [List.nil_append] at g1 g2 g3 g4
    simp only [Post, parseCode, hs, hk, hps, hpc]
    refine ⟨⟨?_, by simp at h2; omega, ?_, ?_⟩, _, _, rfl, ?_⟩
    · simp only [expand, expand_append, List.append_assoc, g1, h1]
      rw [e]; simp only [List.append_assoc]
      rw [← List.append_assoc (List.take _ run), List.take_append_drop]
    · simp only [List.cons_append, followOK]
      exact followOK_append _ _ h3 g3 (Or.inl h4')
    · intro hr
      have := g4 hr
      have hne4 : ps4 ≠ [] := by intro h; subst h; simp [endsOK] at this
      rw [endsOK_append_ne _ _ hne4]; exact this
    · intro _; simp; intro _ _ _; exact ⟨by omega, hrne⟩
  case case17 =>
    intro inF pend rest fuel pre post f run hk hs ih hl
    obtain ⟨e, ht⟩ := codeSearch hs
    simp only [Tok.chars, Tok.isCode] at e ht
    have hrne := ht.ne_nil
    have hb : 0 < run.length := List.length_pos_iff.mpr hrne
    have hrl : rest.length = pre.length + (fch f).length + run.length + post.length := by simp [e]; omega
    obtain ⟨⟨h1, h2, h3, h4⟩, s, ps', h5, h6⟩ := ih (by omega)
    simp only [Post, parseCode, hs, hk]
    refine ⟨⟨by rw [h1, e]; simp, by omega, h3, h4⟩, s, ps', h5, ?_⟩
    intro _; exact h6 (Or.inl (by simp [hrne]))
  case case18 =>
    intro inF pend rest fuel pre post hdw hs hl
    obtain ⟨e, ht⟩ := codeSearch hs
    simp only [Tok.chars] at e
    have htw : post.takeWhile (· != '\n') = post := by
      have := List.takeWhile_append_dropWhile (p := (· != '\n')) (l := post)
      rw [hdw, List.append_nil] at this; exact this
    simp only [Post, parseCode, hs, hdw, htw]
    refine ⟨⟨by simp [expand, e], by simp, by simp [followOK, startsDelim], by simp⟩, _, _, rfl, by simp⟩
  case case19 =>
    intro inF pend rest fuel pre post q cs hdw ps3 r3 hpc hs ih hl
    obtain ⟨e, ht⟩ := codeSearch hs
    simp only [Tok.chars] at e
    have hq : q = '\n' := by simpa using dropWhile_head_false hdw
    have htw : post.takeWhile (· != '\n') ++ q :: cs = post := by
      have := List.takeWhile_append_dropWhile (p := (· != '\n')) (l := post)
      rw [hdw] at this; exact this
    have hpl : post.length = (post.takeWhile (· != '\n')).length + (cs.length + 1) := by
      conv => lhs; rw [← htw]
      simp
    have hrl : rest.length = pre.length + 1 + post.length := by simp [e]; omega
    obtain ⟨⟨h1, h2, h3, h4⟩, s, ps', h5, h6⟩ := ih (by simp; omega)
    rw [hpc] at h1 h2 h3 h4 h5
    simp only [List.nil_append] at h1 h2 h3 h4 h5
    have hs0 := h6 (Or.inr (by simp))
    have hsd : startsDelim ps3 = true := by
      rw [h5] at h1 ⊢
      cases s with
      | nil => exact absurd rfl hs0
      | cons c s' =>
        simp only [expand, List.cons_append, List.cons.injEq] at h1
        simp [startsDelim, h1.1, hq, isDelim]
    simp only [Post, parseCode, hs, hdw, hpc]
    refine ⟨⟨?_, by simp at h2; omega, by simp [followOK, hsd, h3], ?_⟩, _, _, rfl, by simp⟩
    · simp only [expand, List.append_assoc, h1]
      generalize List.takeWhile (fun x => x != '\n') post = body at htw ⊢
      rw [e, ← htw]; simp
    · intro hr
      have := h4 hr
      rw [h5] at this ⊢
      rw [endsOK_cons_cons, endsOK_cons_cons]; exact this
  case case20 =>
    intro pend rest fuel pre post hs hl
    obtain ⟨e, ht⟩ := codeSearch hs
    simp only [Tok.chars] at e
    simp only [Post, parseCode, hs]
    refine ⟨⟨by simp [expand, e], by simp [e]; omega, by simp [followOK], ?_⟩, _, _, rfl, by simp⟩
    intro _
    cases h : pend ++ pre ++ ['}'] with
    | nil => simp at h
    | cons a t => simp [endsOK]
  case case21 =>
    intro pend rest fuel pre post c hc ps3 hs hpc ih hl
    obtain ⟨e, ht⟩ := codeSearch hs
    simp only [Tok.chars] at e
    have hrl : rest.length = pre.length + 1 + post.length := by simp [e]; omega
    obtain ⟨⟨h1, h2, h3, h4⟩, _⟩ := ih (by omega)
    rw [hpc] at h1 h2 h3 h4
    simp only [List.nil_append, tail_none, List.append_nil] at h1 h2 h3 h4
    simp only [Post, parseCode, hs, hc, hpc, if_true, if_false]
    refine ⟨⟨by simp [expand, e, h1], by simp, by simpa [followOK] using h3, by simp⟩, _, _, rfl, by simp⟩
  case case22 =>
    intro pend rest fuel pre post c hc ps3 rest' ps4 r4 hpc2 hs hpc ih1 ih2 hl
    obtain ⟨e, ht⟩ := codeSearch hs
    simp only [Tok.chars] at e
    have hrl : rest.length = pre.length + 1 + post.length := by simp [e]; omega
    obtain ⟨⟨h1, h2, h3, h4⟩, _⟩ := ih1 (by omega)
    rw [hpc] at h1 h2 h3 h4
    simp only [List.nil_append, tail_some] at h1 h2 h3 h4
    have h4' := h4 (by simp)
    obtain ⟨⟨g1, g2, g3, g4⟩, _⟩ := ih2 (by omega)
    rw [hpc2] at g1 g2 g3 g4
    simp only [List.nil_append] at g1 g2 g3 g4
    simp only [Post, parseCode, hs, hc, hpc, hpc2, if_true, if_false]
    refine ⟨⟨?_, by omega, ?_, ?_⟩, _, _, rfl, by simp⟩
    · simp only [List.cons_append, expand, expand_append, List.append_assoc, g1, h1]
      rw [e]; simp
    · simp only [List.cons_append, followOK]
      exact followOK_append _ _ h3 g3 (Or.inl h4')
    · intro hr
      have := g4 hr
      have hne4 : ps4 ≠ [] := by intro h; subst h; simp [endsOK] at this
      rw [endsOK_append_ne _ _ hne4]; exact this
  case case23 =>
    intro inF pend rest fuel pre post c hF hs ih hl
    have hF' : inF = false := by simpa using hF
    subst hF'
    obtain ⟨e, ht⟩ := codeSearch hs
    simp only [Tok.chars] at e
    have hrl : rest.length = pre.length + 1 + post.length := by simp [e]; omega
    obtain ⟨⟨h1, h2, h3, h4⟩, s, ps', h5, h6⟩ := ih (by omega)
    simp only [Post, parseCode, hs, Bool.false_eq_true, if_false]
    refine ⟨⟨by rw [h1, e]; simp, by omega, h3, h4⟩, s, ps', h5, ?_⟩
    intro _; exact h6 (Or.inl (by simp))
  case case24 =>
    intro inF pend rest fuel pre tok post hs h1 h2 h3 _
    obtain ⟨e, ht⟩ := codeSearch hs
    cases tok with
    | comment => exact absurd rfl h2
    | brace c => exact absurd rfl (h3 c)
    | braces run => simp [Tok.isCode] at ht
    | escape bs q => simp [Tok.isCode] at ht
    | quote f run => exact absurd rfl (h1 f run)

theorem parseCode_false_none : ∀ fuel pend rest, (parseCode fuel false pend rest).2 = none := by
  intro fuel
  induction fuel with
  | zero => intro pend rest; simp [parseCode]
  | succ n ih =>
    intro pend rest
    simp only [parseCode]
    repeat' split
    all_goals simp_all

theorem pieces_post (code : List Char) : expand (pieces code) = code ∧ followOK (pieces code) = true := by
  have h := (scan_all.2 (code.length + 1) false [] code (by omega)).1
  have hr := parseCode_false_none (code.length + 1) [] code
  obtain ⟨h1, _, h3, _⟩ := h
  rw [hr] at h1
  exact ⟨by simpa [pieces] using h1, h3⟩

end CyVerif.C47

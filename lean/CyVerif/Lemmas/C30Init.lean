import CyVerif.Lemmas.C30Fields
/-! C30 helper lemmas: `__init__` parameters, default-order check, `__match_args__`, body sources. -/
namespace CyVerif.C30

theorem pyKw_nil_of_std (fs : List RField) (h : ∀ f ∈ fs, f.kwOnly = false) : pyKw fs = [] := by
  unfold pyKw
  rw [List.filter_eq_nil_iff]
  intro f hf
  simp [h f hf]

theorem pyStd_nil_of_kw (fs : List RField) (h : ∀ f ∈ fs, f.kwOnly = true) : pyStd fs = [] := by
  unfold pyStd
  rw [List.filter_eq_nil_iff]
  intro f hf
  simp [h f hf]

/-- class-level flag only: the parameters are the init fields in field order, all of one kind -/
theorem params_uniform (k : Bool) (fs : List RField) (h : ∀ f ∈ fs, f.kwOnly = k) :
    (pyStd fs ++ pyKw fs).map (·.toParam) = (fs.filter (·.init)).map (fun f => ⟨f.name, k, f.dflt⟩) := by
  cases k with
  | false =>
    rw [pyKw_nil_of_std fs h, List.append_nil]
    have : pyStd fs = fs.filter (·.init) := by
      unfold pyStd
      apply List.filter_congr
      intro f hf
      simp [h f hf]
    rw [this]
    apply List.map_congr_left
    intro f hf
    have := h f (List.mem_filter.mp hf).1
    simp [RField.toParam, this]
  | true =>
    rw [pyStd_nil_of_kw fs h, List.nil_append]
    have : pyKw fs = fs.filter (·.init) := by
      unfold pyKw
      apply List.filter_congr
      intro f hf
      simp [h f hf]
    rw [this]
    apply List.map_congr_left
    intro f hf
    have := h f (List.mem_filter.mp hf).1
    simp [RField.toParam, this]

theorem cyParams_eq (v : Var) (o : Opts) (fs : List RField)
    (h : v.fieldKwOnly = true ∨ ∀ f ∈ fs, f.kwOnly = o.kwOnly) :
    cyParams v o fs = (pyStd fs ++ pyKw fs).map (·.toParam) := by
  unfold cyParams
  cases hv : v.fieldKwOnly with
  | true => simp [pyStd, pyKw]
  | false =>
    cases h with
    | inl h => rw [hv] at h; cases h
    | inr h => simp only [Bool.false_eq_true, if_false]; exact (params_uniform o.kwOnly fs h).symm

theorem cyBadOrder_allkw (v : Var) (o : Opts) (seen : Bool) (fs : List RField)
    (h : ∀ f ∈ fs, cyKw v o f = true) : cyBadOrder v o seen fs = false := by
  induction fs generalizing seen with
  | nil => rfl
  | cons f t ih =>
    have iht := fun s => ih s (fun g hg => h g (by simp [hg]))
    unfold cyBadOrder
    split
    · exact iht _
    · simp [h f (by simp), iht]

theorem cyBadOrder_eq (v : Var) (o : Opts) (seen : Bool) (fs : List RField)
    (h : ∀ f ∈ fs, cyKw v o f = f.kwOnly ∧ (if v.fieldKwOnly then !f.kwOnly else true) = !f.kwOnly) :
    cyBadOrder v o seen fs = badOrder seen ((pyStd fs).map (·.hasDefault)) := by
  induction fs generalizing seen with
  | nil => rfl
  | cons f t ih =>
    have iht := fun s => ih s (fun g hg => h g (by simp [hg]))
    obtain ⟨hk, hs⟩ := h f (by simp)
    unfold cyBadOrder
    simp only [pyStd, List.filter_cons]
    rw [hk, hs]
    cases hi : f.init <;> cases hkw : f.kwOnly <;> cases hd : f.hasDefault <;> cases seen <;>
      simp [badOrder, iht, pyStd, hd]

theorem cyBadOrder_py (v : Var) (o : Opts) (fs : List RField)
    (h : v.fieldKwOnly = true ∨ ∀ f ∈ fs, f.kwOnly = o.kwOnly) :
    cyBadOrder v o false fs = badOrder false ((pyStd fs).map (·.hasDefault)) := by
  cases hv : v.fieldKwOnly with
  | true =>
    apply cyBadOrder_eq
    intro f _
    simp [cyKw, hv]
  | false =>
    cases h with
    | inl h => rw [hv] at h; cases h
    | inr h =>
      cases hk : o.kwOnly with
      | false =>
        apply cyBadOrder_eq
        intro f hf
        simp [cyKw, hv, h f hf, hk]
      | true =>
        rw [cyBadOrder_allkw v o false fs (by intro f _; simp [cyKw, hv, hk]),
          pyStd_nil_of_kw fs (by intro f hf; rw [h f hf, hk])]
        rfl

theorem cyMatchArgs_eq (v : Var) (o : Opts) (fs : List RField)
    (h : v.fieldKwOnly = true ∨ ∀ f ∈ fs, f.kwOnly = o.kwOnly)
    (h7 : v.matchArgsInit = true ∨ ∀ f ∈ fs, f.init = true ∨ f.kwOnly = true) :
    cyMatchArgs v o fs = names (pyStd fs) := by
  unfold cyMatchArgs pyStd
  congr 1
  apply List.filter_congr
  intro f hf
  have hk : cyKw v o f = f.kwOnly := by
    unfold cyKw
    cases hv : v.fieldKwOnly with
    | true => simp
    | false =>
      cases h with
      | inl h => rw [hv] at h; cases h
      | inr h => simp [h f hf]
  rw [hk]
  cases h7 with
  | inl h7 => simp [h7, Bool.and_comm]
  | inr h7 =>
    cases h7 f hf with
    | inl hi => simp [hi]
    | inr hkw => simp [hkw]

end CyVerif.C30

import CyVerif.Lemmas.C10Layout
/-! The run-time walk over a generated layout returns the strings it was generated from. -/
namespace CyVerif.C10

theorem encodeAll_ok (l : List (List Nat)) (h : ∀ t ∈ l, t.all isScalar = true) :
    encodeAll l = .ok (l.map (·.flatMap utf8Enc1)) := by
  induction l with
  | nil => rfl
  | cons t rest ih =>
    simp only [encodeAll, utf8Encode_ok t (h t (by simp)), ih (fun x hx => h x (by simp [hx])), List.map_cons]

theorem utf8Enc1_ne_nil (c : Nat) : utf8Enc1 c ≠ [] := by
  unfold utf8Enc1; split <;> (try split) <;> (try split) <;> simp

theorem flatMap_enc_length_pos (t : List Nat) (h : t ≠ []) : (t.flatMap utf8Enc1).length ≠ 0 := by
  cases t with
  | nil => exact absurd rfl h
  | cons c r =>
    have := utf8Enc1_ne_nil c
    simp only [List.flatMap_cons, List.length_append]
    have : (utf8Enc1 c).length ≠ 0 := by simpa using this
    omega

theorem loopVarOK_of_WF (p : TableP) (hp : p.WF) (n : Nat) : loopVarOK p n = true := by
  unfold loopVarOK
  have := hp.1
  split
  · simp; omega
  · rfl

/-- the constants a table in this order must produce -/
theorem texts_result (ts : List TextEntry) (h : internedSuffix ts = true) :
    ((ts.map (·.text)).zipIdx.map fun x => PyConst.text x.fst (rtInterned (firstInternedIdx ts 0) x.snd)) =
      ts.map (fun e => .text e.text e.interned) := by
  apply List.ext_getElem?
  intro j
  simp only [List.getElem?_map, List.getElem?_zipIdx]
  cases hj : ts[j]? with
  | none => simp
  | some e =>
    have := rtInterned_spec ts h 0 j e hj
    simp only [Option.map_some, Nat.zero_add] at this ⊢
    rw [this]

/-- the record `layout` writes when it succeeds -/
def layoutOf (p : TableP) (ts : List TextEntry) (bs : List BytesEntry) : Layout :=
  let enc := (ts.map (·.text)).map (·.flatMap utf8Enc1)
  { strIndex := enc.map List.length, strWidth := widthOf p (enc.map List.length),
    bytesIndex := bs.map (·.data.length), bytesWidth := widthOf p (bs.map (·.data.length)),
    blob := enc.flatten ++ (bs.map (·.data)).flatten,
    nText := ts.length, nTotal := ts.length + bs.length,
    firstInterned := firstInternedIdx ts 0,
    defines := (ts.map (·.cname) ++ bs.map (·.cname)).zipIdx }

theorem layout_eq (p : TableP) (ts : List TextEntry) (bs : List BytesEntry)
    (hsc : ∀ e ∈ ts, e.text.all isScalar = true) (hsuf : internedSuffix ts = true) :
    layout p ts bs = .ok (layoutOf p ts bs) := by
  have henc := encodeAll_ok (ts.map (·.text)) (by
    intro t ht; rw [List.mem_map] at ht; obtain ⟨e, he, rfl⟩ := ht; exact hsc e he)
  unfold layout
  rw [henc]
  simp only [hsuf, if_true, layoutOf]

/-- **Layout round trip.**  For entries already in table order: the generator succeeds and
the run-time loops, run on the blob it wrote, rebuild exactly the entries (values, kinds,
interned flags, order), reading only inside the blob. -/
theorem layout_roundtrip (p : TableP) (hp : p.WF) (ts : List TextEntry) (bs : List BytesEntry)
    (hsc : ∀ e ∈ ts, e.text.all isScalar = true) (hsuf : internedSuffix ts = true)
    (hlenT : ∀ e ∈ ts, (e.text.flatMap utf8Enc1).length < 2 ^ 32)
    (hlenB : ∀ e ∈ bs, e.data.length < 2 ^ 32)
    (hwT : ts = [] ∨ 1 ≤ p.minWidth ∨ ∃ e ∈ ts, e.text ≠ [])
    (hwB : bs = [] ∨ 1 ≤ p.minWidth ∨ ∃ e ∈ bs, e.data ≠ []) :
    ∃ L, layout p ts bs = .ok L ∧ runTable p L L.blob = .ok (expected ts bs) ∧
      L.blob = ((ts.map (·.text)).map (·.flatMap utf8Enc1)).flatten ++ (bs.map (·.data)).flatten := by
  refine ⟨layoutOf p ts bs, layout_eq p ts bs hsc hsuf, ?_, rfl⟩
  simp only [layoutOf]
  -- abbreviations
  generalize hE : (ts.map (·.text)).map (·.flatMap utf8Enc1) = enc
  have hsi : enc.map List.length = (ts.map (·.text)).map fun t => (t.flatMap utf8Enc1).length := by
    rw [← hE, List.map_map]; rfl
  unfold runTable
  simp only [loopVarOK_of_WF p hp, and_self, not_true_eq_false, if_false]
  -- text loop
  have hTw : ∀ t ∈ ts.map (·.text), bitfield (widthOf p (enc.map List.length)) (t.flatMap utf8Enc1).length =
      .ok (t.flatMap utf8Enc1).length := by
    intro t ht
    have hmem : (t.flatMap utf8Enc1).length ∈ enc.map List.length := by
      rw [hsi]; exact List.mem_map.mpr ⟨t, ht, rfl⟩
    rw [List.mem_map] at ht
    obtain ⟨e, he, rfl⟩ := ht
    apply bitfield_widthOf p _ _ hmem
    · apply widthOf_pos
      rcases hwT with h | h | ⟨e', he', hne⟩
      · subst h; simp at he
      · exact Or.inl h
      · refine Or.inr ⟨(e'.text.flatMap utf8Enc1).length, ?_, flatMap_enc_length_pos _ hne⟩
        rw [hsi]; exact List.mem_map.mpr ⟨e'.text, List.mem_map.mpr ⟨e', he', rfl⟩, rfl⟩
    · apply widthOf_le p hp
      intro v hv
      rw [hsi, List.mem_map] at hv
      obtain ⟨t', ht', rfl⟩ := hv
      rw [List.mem_map] at ht'
      obtain ⟨e', he', rfl⟩ := ht'
      exact hlenT e' he'
  have hT := runTexts_walk (widthOf p (enc.map List.length)) (firstInternedIdx ts 0) (ts.map (·.text)) []
    ((bs.map (·.data)).flatten) 0
    (by intro t ht; rw [List.mem_map] at ht; obtain ⟨e, he, rfl⟩ := ht; exact hsc e he) hTw
  rw [hE, ← hsi] at hT
  simp only [List.nil_append, List.length_nil, Nat.zero_add] at hT
  simp only [hT]
  -- bytes loop
  have hBw : ∀ d ∈ bs.map (·.data), bitfield (widthOf p (bs.map (·.data.length))) d.length = .ok d.length := by
    intro d hd
    have hmem : d.length ∈ bs.map (·.data.length) := by
      rw [List.mem_map] at hd ⊢; obtain ⟨e, he, rfl⟩ := hd; exact ⟨e, he, rfl⟩
    apply bitfield_widthOf p _ _ hmem
    · apply widthOf_pos
      rcases hwB with h | h | ⟨e', he', hne⟩
      · subst h; simp at hd
      · exact Or.inl h
      · refine Or.inr ⟨e'.data.length, List.mem_map.mpr ⟨e', he', rfl⟩, ?_⟩
        intro h0; exact hne (List.length_eq_zero_iff.mp h0)
    · apply widthOf_le p hp
      intro v hv
      rw [List.mem_map] at hv
      obtain ⟨e', he', rfl⟩ := hv
      exact hlenB e' he'
  have hB := runBytes_walk (widthOf p (bs.map (·.data.length))) (bs.map (·.data)) enc.flatten [] hBw
  simp only [List.append_nil, List.map_map] at hB
  have hidx : (bs.map ((fun d : List Nat => d.length) ∘ fun e => e.data)) = bs.map (·.data.length) := rfl
  rw [hidx] at hB
  simp only [hB]
  rw [texts_result ts hsuf]
  simp [expected, Function.comp_def]

end CyVerif.C10

import CyVerif.Model.C47
/-! Soundness of the anchored matchers and of `search` (C47). -/
namespace CyVerif.C47

theorem spanEq_append (c : Char) (l : List Char) : (spanEq c l).1 ++ (spanEq c l).2 = l := by
  simp [spanEq, List.takeWhile_append_dropWhile]

/-- a non-empty run of one quote character -/
def QRun (run : List Char) : Prop := ∃ q, isQuote q = true ∧ run ≠ [] ∧ ∀ c ∈ run, c = q

theorem QRun.ne_nil {run} (h : QRun run) : run ≠ [] := by
  obtain ⟨_, _, h, _⟩ := h; exact h

theorem mem_takeWhile_imp {α} {p : α → Bool} {l : List α} {c : α} (hc : c ∈ l.takeWhile p) : p c = true := by
  have := List.all_takeWhile (l := l) (p := p)
  rw [List.all_eq_true] at this
  exact this c hc

theorem mRun_sound {l run post} (h : mRun l = some (run, post)) : l = run ++ post ∧ QRun run := by
  cases l with
  | nil => simp [mRun] at h
  | cons q cs =>
    simp only [mRun] at h
    split at h
    · simp only [Option.some.injEq] at h
      have := spanEq_append q (q :: cs)
      rw [h] at this
      refine ⟨this.symm, ?_⟩
      have h1 : run = (spanEq q (q :: cs)).1 := by rw [h]
      rename_i hq
      refine ⟨q, hq, ?_, ?_⟩
      · rw [h1]; simp [spanEq, List.takeWhile]
      · intro c hc
        rw [h1] at hc
        simpa using mem_takeWhile_imp hc
    · simp at h

/-- shape of the tokens each regex can produce -/
def Tok.ok : Tok → Prop
  | .comment => True
  | .brace _ => True
  | .braces run => run ≠ []
  | .escape bs _ => bs ≠ []
  | .quote _ run => run ≠ []

theorem mQuote_sound {l t post} (h : mQuote l = some (t, post)) :
    l = t.chars ++ post ∧ ∃ f run, t = .quote f run ∧ QRun run := by
  cases l with
  | nil => simp [mQuote] at h
  | cons c cs =>
    simp only [mQuote] at h
    split at h
    · rename_i hc
      split at h
      · rename_i run post' hr
        simp only [Option.some.injEq, Prod.mk.injEq] at h
        obtain ⟨h1, h2⟩ := h
        subst h1 h2
        obtain ⟨e, ne⟩ := mRun_sound hr
        exact ⟨by simp [Tok.chars, fch, hc, e], true, run, rfl, ne⟩
      · simp at h
    · split at h
      · rename_i run post' hr
        simp only [Option.some.injEq, Prod.mk.injEq] at h
        obtain ⟨h1, h2⟩ := h
        subst h1 h2
        obtain ⟨e, ne⟩ := mRun_sound hr
        exact ⟨by simp [Tok.chars, fch, e], false, run, rfl, ne⟩
      · simp at h

/-- tokens of `_FIND_TOKEN` -/
def Tok.isCode : Tok → Prop
  | .comment => True
  | .brace c => c = '{' ∨ c = '}'
  | .quote _ run => QRun run
  | _ => False

/-- tokens of `_FIND_STRING_TOKEN` / `_FIND_FSTRING_TOKEN` -/
def Tok.isStr (isF : Bool) : Tok → Prop
  | .escape bs _ => bs ≠ []
  | .braces run => isF = true ∧ run ≠ []
  | .quote _ run => QRun run
  | _ => False

theorem mCode_sound {l t post} (h : mCode l = some (t, post)) : l = t.chars ++ post ∧ t.isCode := by
  cases l with
  | nil => simp [mCode] at h
  | cons c cs =>
    simp only [mCode] at h
    split at h
    · rename_i hc
      simp only [Option.some.injEq, Prod.mk.injEq] at h
      obtain ⟨h1, h2⟩ := h; subst h1 h2
      simp [Tok.chars, Tok.isCode, hc]
    · split at h
      · rename_i hc
        simp only [Option.some.injEq, Prod.mk.injEq] at h
        obtain ⟨h1, h2⟩ := h; subst h1 h2
        simp [Tok.chars, Tok.isCode, hc]
      · obtain ⟨e, f, run, rfl, ne⟩ := mQuote_sound h
        exact ⟨e, ne⟩

theorem mEscape_sound {l t post} (h : mEscape l = some (t, post)) :
    l = t.chars ++ post ∧ ∃ bs q, t = .escape bs q ∧ bs ≠ [] := by
  cases l with
  | nil => simp [mEscape] at h
  | cons c cs =>
    simp only [mEscape] at h
    split at h
    · rename_i hc
      split at h
      · rename_i bs q post' hs
        split at h
        · simp only [Option.some.injEq, Prod.mk.injEq] at h
          obtain ⟨h1, h2⟩ := h; subst h1 h2
          have := spanEq_append '\\' (c :: cs)
          rw [hs] at this
          refine ⟨by simp [Tok.chars, ← this], bs, q, rfl, ?_⟩
          have h1 : bs = (spanEq '\\' (c :: cs)).1 := by rw [hs]
          rw [h1]; simp [spanEq, List.takeWhile, hc]
        · simp at h
      · simp at h
    · simp at h

theorem mBraces_sound {l t post} (h : mBraces l = some (t, post)) :
    l = t.chars ++ post ∧ ∃ run, t = .braces run ∧ run ≠ [] := by
  cases l with
  | nil => simp [mBraces] at h
  | cons c cs =>
    simp only [mBraces] at h
    split at h
    · simp only [Option.some.injEq, Prod.mk.injEq] at h
      obtain ⟨h1, h2⟩ := h; subst h1 h2
      refine ⟨by simp [Tok.chars, spanEq, List.takeWhile_append_dropWhile], _, rfl, ?_⟩
      simp [spanEq, List.takeWhile]
    · simp at h

theorem mStr_sound {l t post} (h : mStr l = some (t, post)) : l = t.chars ++ post ∧ t.isStr false := by
  simp only [mStr] at h
  split at h
  · rename_i r hr
    simp only [Option.some.injEq] at h; subst h
    obtain ⟨e, bs, q, rfl, ne⟩ := mEscape_sound hr
    exact ⟨e, ne⟩
  · obtain ⟨e, f, run, rfl, ne⟩ := mQuote_sound h
    exact ⟨e, ne⟩

theorem Tok.isStr_mono {t : Tok} (h : t.isStr false) : t.isStr true := by
  cases t <;> simp_all [Tok.isStr]

theorem mFStr_sound {l t post} (h : mFStr l = some (t, post)) : l = t.chars ++ post ∧ t.isStr true := by
  simp only [mFStr] at h
  split at h
  · rename_i r hr
    simp only [Option.some.injEq] at h; subst h
    obtain ⟨e, run, rfl, ne⟩ := mBraces_sound hr
    exact ⟨e, rfl, ne⟩
  · obtain ⟨e, hs⟩ := mStr_sound h
    exact ⟨e, Tok.isStr_mono hs⟩

theorem mStrSel_sound {isF : Bool} {l t post} (h : (if isF then mFStr else mStr) l = some (t, post)) :
    l = t.chars ++ post ∧ t.isStr isF := by
  cases isF
  · exact mStr_sound h
  · exact mFStr_sound h

theorem search_sound {m : List Char → Option (Tok × List Char)} {P : Tok → Prop}
    (hm : ∀ l t post, m l = some (t, post) → l = t.chars ++ post ∧ P t) :
    ∀ {rest pre t post}, search m rest = some (pre, t, post) → rest = pre ++ t.chars ++ post ∧ P t := by
  intro rest
  induction rest with
  | nil => intro pre t post h; simp [search] at h
  | cons c cs ih =>
    intro pre t post h
    simp only [search] at h
    split at h
    · rename_i t' post' hm'
      simp only [Option.some.injEq, Prod.mk.injEq] at h
      obtain ⟨h1, h2, h3⟩ := h; subst h1 h2 h3
      simpa using hm _ _ _ hm'
    · split at h
      · rename_i pre' t' post' hs
        simp only [Option.some.injEq, Prod.mk.injEq] at h
        obtain ⟨h1, h2, h3⟩ := h; subst h1 h2 h3
        obtain ⟨e, p⟩ := ih hs
        exact ⟨by simp [e], p⟩
      · simp at h

theorem Tok.chars_ne_nil_of_isCode {t : Tok} (h : t.isCode) : t.chars ≠ [] := by
  cases t <;> simp_all [Tok.isCode, Tok.chars, fch]
  exact fun _ => h.ne_nil

theorem Tok.chars_ne_nil_of_isStr {t : Tok} {b} (h : t.isStr b) : t.chars ≠ [] := by
  cases t <;> simp_all [Tok.isStr, Tok.chars, fch]
  exact fun _ => h.ne_nil

end CyVerif.C47

import CyVerif.Model.C01
/-! Helper lemmas for C01: environment passing (CPython) = chain walking (Cython). -/
namespace CyVerif.C01

theorem envFind_map_append (l : List Name) (p : Path) (r : Env) (x : Name) :
    envFind (l.map (fun y => (y, p)) ++ r) x = if l.contains x then some p else envFind r x := by
  induction l with
  | nil => simp
  | cons y l ih =>
    simp only [List.map_cons, List.cons_append, envFind, ih, List.contains_cons]
    by_cases h : y = x
    · subst h; simp
    · have : (x == y) = false := by simp; exact fun e => h e.symm
      simp [h, this]

theorem envFind_filter (g : List Name) (b : Env) (x : Name) :
    envFind (b.filter (fun e => !g.contains e.1)) x = if g.contains x then none else envFind b x := by
  induction b with
  | nil => simp [envFind]
  | cons e b ih =>
    obtain ⟨y, o⟩ := e
    by_cases hg : y ∈ g
    · have : (List.filter (fun e => !g.contains e.1) ((y, o) :: b)) = List.filter (fun e => !g.contains e.1) b := by
        simp [List.filter, hg]
      rw [this, ih]
      by_cases h : y = x
      · subst h; simp [hg]
      · simp [envFind, h]
    · have : (List.filter (fun e => !g.contains e.1) ((y, o) :: b)) = (y, o) :: List.filter (fun e => !g.contains e.1) b := by
        simp [List.filter, hg]
      rw [this]
      simp only [envFind, ih]
      by_cases h : y = x
      · subst h; simp [hg]
      · simp [h]

theorem mem_ownLocals (i : Info) (x : Name) :
    (ownLocals i).contains x = (isLocal i x && !i.globals.contains x && !i.nonlocals.contains x) := by
  unfold ownLocals isLocal
  rw [Bool.eq_iff_iff]
  simp only [List.mem_filter, List.mem_append, Bool.and_eq_true, Bool.or_eq_true,
    Bool.not_eq_true', List.contains_eq_mem, decide_eq_true_eq, decide_eq_false_iff_not]
  constructor
  · rintro ⟨h, h1, h2⟩; exact ⟨⟨h, h1⟩, h2⟩
  · rintro ⟨⟨h, h1⟩, h2⟩; exact ⟨h, h1, h2⟩

/-- the invariant linking the two traversals: what CPython's `bound` set says about a name is what
    Cython's `lookup` finds from the head of the chain -/
def Rel (D : List Name) (b : Env) (ch : Chain) : Prop :=
  ∀ x, envBind b x = norm (cyLookup D ch x)

theorem norm_localBind (k : SK) (p : Path) : norm (localBind k p) = localBind k p := by
  cases k <;> rfl

theorem rel_nil (D : List Name) : Rel D [] [] := by
  intro x; simp only [envBind, envFind, cyLookup]; split <;> rfl

/-- the bindings of a scope's own names agree -/
theorem bind_agree {D : List Name} {b : Env} {ch : Chain} (h : Rel D b ch) (p : Path) (i : Info) (x : Name) :
    norm (cyLookup D ((p, i) :: ch) x) = refBind p i b x := by
  simp only [cyLookup, refBind]
  split
  · rfl
  · split
    · exact (h x).symm
    · split
      · exact norm_localBind _ _
      · exact (h x).symm

theorem rel_modl (D : List Name) (p : Path) (i : Info) (hk : i.kind = .modl) : Rel D [] [(p, i)] := by
  intro x
  simp only [envBind, envFind, cyLookup, hk, localBind]
  repeat' split
  all_goals rfl

theorem rel_funclike {D : List Name} {b : Env} {ch : Chain} (h : Rel D b ch) (p : Path) (i : Info)
    (hm : i.kind ≠ .modl) (hc : i.kind ≠ .cls) :
    Rel D ((ownLocals i).map (fun x => (x, p)) ++ b.filter (fun e => !i.globals.contains e.1)) ((p, i) :: ch) := by
  intro x
  have hl : localBind i.kind p = .var p := by
    cases hk : i.kind <;> simp_all [localBind]
  have hx := h x
  simp only [envBind] at hx
  simp only [envBind, envFind_map_append, envFind_filter, mem_ownLocals, cyLookup, hl]
  by_cases hg : x ∈ i.globals
  · simp [hg, norm]
  · by_cases hn : x ∈ i.nonlocals
    · simp only [List.contains_eq_mem, hg, hn]; simpa using hx
    · by_cases hL : isLocal i x = true
      · simp [hg, hn, hL, norm]
      · have hL' : isLocal i x = false := by simpa using hL
        simp only [List.contains_eq_mem, hg, hn, hL']; simpa using hx

theorem rel_child {D : List Name} {b : Env} {ch : Chain} (h : Rel D b ch) (v : Variant) (ck : SK) (p : Path) (i : Info)
    (hok : v.compSkipsClass = true ∨ (i.kind == .cls && ck == .comp) = false) :
    Rel D (refChildEnv p i b) (cyChildChain v ck p i ch) := by
  unfold refChildEnv cyChildChain
  cases hk : i.kind with
  | modl => exact rel_modl D p i hk
  | cls =>
    have : (decide (ck = .comp) && !v.compSkipsClass) = false := by
      rcases hok with hv | hc
      · simp [hv]
      · simp [hk] at hc; simp [hc]
    simp only [this]; exact h
  | func => exact rel_funclike h p i (by simp [hk]) (by simp [hk])
  | comp => exact rel_funclike h p i (by simp [hk]) (by simp [hk])
  | gen => exact rel_funclike h p i (by simp [hk]) (by simp [hk])

theorem map_names_agree {D : List Name} {b : Env} {ch : Chain} (h : Rel D b ch) (p : Path) (i : Info) (l : List Name) :
    (l.map (fun x => (⟨p, x, cyLookup D ((p, i) :: ch) x⟩ : Entry))).map normE
      = l.map (fun x => (⟨p, x, refBind p i b x⟩ : Entry)) := by
  rw [List.map_map]
  apply List.map_congr_left
  intro x _
  simp only [Function.comp, normE, bind_agree h p i x]

mutual
theorem scope_agree (v : Variant) (D : List Name) : (s : Scope) → ∀ (pp : Path) (b : Env) (ch : Chain), Rel D b ch →
    (v.compSkipsClass = true ∨ noCompInCls s = true) →
    (cyScope v D pp ch s).map normE = refScope pp b s
  | .mk id i ks => by
    intro pp b ch h hok
    simp only [cyScope, refScope, List.map_append, map_names_agree h]
    congr 1
    apply kids_agree v D ks (id :: pp) i b ch h
    rcases hok with hv | hc
    · exact Or.inl hv
    · exact Or.inr (by simpa [noCompInCls] using hc)
theorem kids_agree (v : Variant) (D : List Name) : (ks : Kids) → ∀ (p : Path) (i : Info) (b : Env) (ch : Chain), Rel D b ch →
    (v.compSkipsClass = true ∨ noCompInClsKids (i.kind == .cls) ks = true) →
    (cyKids v D p i ch ks).map normE = refKids p (refChildEnv p i b) ks
  | .nil => by intros; simp [cyKids, refKids]
  | .cons s ks => by
    intro p i b ch h hok
    simp only [cyKids, refKids, List.map_append]
    have hrel : Rel D (refChildEnv p i b) (cyChildChain v s.kind p i ch) := by
      apply rel_child h
      rcases hok with hv | hc
      · exact Or.inl hv
      · right
        simp only [noCompInClsKids, Bool.and_eq_true, Bool.not_eq_true'] at hc
        exact hc.1.1
    have h1 := scope_agree v D s p (refChildEnv p i b) (cyChildChain v s.kind p i ch) hrel
      (by rcases hok with hv | hc
          · exact Or.inl hv
          · right; simp only [noCompInClsKids, Bool.and_eq_true] at hc; exact hc.1.2)
    have h2 := kids_agree v D ks p i b ch h
      (by rcases hok with hv | hc
          · exact Or.inl hv
          · right; simp only [noCompInClsKids, Bool.and_eq_true] at hc; exact hc.2)
    rw [h1, h2]
end

end CyVerif.C01

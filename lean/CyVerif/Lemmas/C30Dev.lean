import CyVerif.Lemmas.C30Errs
/-! C30: the deviation list used for finding keys is empty exactly when `Hyp` holds. -/
namespace CyVerif.C30

theorem any_eq_not_all {α} (l : List α) (p q : α → Bool) (h : ∀ x, p x = !q x) :
    l.any p = !l.all q := by
  induction l with
  | nil => rfl
  | cons a t ih => simp [List.any_cons, List.all_cons, ih, h a]

theorem all_not_and_or {α} (l : List α) (a b c : α → Bool) :
    l.all (fun f => !(a f && (b f || c f))) = (!l.any (fun f => a f && b f) && !l.any (fun f => a f && c f)) := by
  induction l with
  | nil => rfl
  | cons x t ih =>
    simp only [List.all_cons, List.any_cons, ih]
    cases a x <;> cases b x <;> cases c x <;> simp <;> cases (t.any fun f => a f && b f) <;> simp

theorem deviations_nil_iff (v : Var) (s : ClassSpec) : deviations v s = [] ↔ Hyp v s = true := by
  unfold deviations Hyp
  simp only [List.append_eq_nil_iff, tagIf_nil, Bool.and_eq_true, and_assoc]
  have e1 := any_eq_not_all s.fields (·.kind == .kwSentinel) (fun f => f.kind != .kwSentinel)
    (fun f => by cases f.kind <;> rfl)
  have e2 := any_eq_not_all s.fields (fun f => f.kind != .classvar && (names s.baseFields).contains f.name)
    (fun f => f.kind == .classvar || !(names s.baseFields).contains f.name)
    (fun f => by cases f.kind <;> cases (names s.baseFields).contains f.name <;> rfl)
  have e5 := any_eq_not_all s.fields (·.kwOnly.isSome) (fun f => f.kwOnly.isNone)
    (fun f => by cases f.kwOnly <;> rfl)
  have e6 := any_eq_not_all s.baseFields (fun g => g.kwOnly != (s.opts.resolve pyOptD).kwOnly)
    (fun g => g.kwOnly == (s.opts.resolve pyOptD).kwOnly)
    (fun g => by cases g.kwOnly <;> cases (s.opts.resolve pyOptD).kwOnly <;> rfl)
  have e7 := any_eq_not_all (pyFields s (s.opts.resolve pyOptD)) (fun f => !f.init && !f.kwOnly)
    (fun f => f.init || f.kwOnly) (fun f => by cases f.init <;> cases f.kwOnly <;> rfl)
  have e13 := any_eq_not_all (pyFields s (s.opts.resolve pyOptD)) (fun f => !f.initvar && f.hash.isNone && !f.compare)
    (fun f => f.initvar || f.hash.isSome || f.compare)
    (fun f => by cases f.initvar <;> cases f.hash <;> cases f.compare <;> rfl)
  have e3 := all_not_and_or s.fields (·.kind == .initvar) (·.dflt == .factory) (·.dflt == .mutable)
  rw [e1, e2, e5, e6, e7, e13, e3]
  generalize (s.fields.all fun f => f.kind != .kwSentinel) = x1
  generalize (s.fields.all fun f => f.kind == .classvar || !(names s.baseFields).contains f.name) = x2
  generalize (s.fields.any fun f => f.kind == .initvar && f.dflt == .factory) = x3
  generalize (s.fields.any fun f => f.kind == .initvar && f.dflt == .mutable) = x4
  generalize (s.fields.all fun f => f.kwOnly.isNone) = x5
  generalize (s.baseFields.all fun g => g.kwOnly == (s.opts.resolve pyOptD).kwOnly) = x6
  generalize ((pyFields s (s.opts.resolve pyOptD)).all fun f => f.init || f.kwOnly) = x7
  generalize ((pyFields s (s.opts.resolve pyOptD)).all fun f => f.initvar || f.hash.isSome || f.compare) = x13
  generalize (badOrder false ((pyStd (pyFields s (s.opts.resolve pyOptD))).map (·.hasDefault))) = x9
  generalize hashDefOK (s.opts.resolve pyOptD) s.user = x10
  generalize (pyHashAction (s.opts.resolve pyOptD).unsafeHash (s.opts.resolve pyOptD).eq (s.opts.resolve pyOptD).frozen (pyExplicitHash s.user) == .add) = x11
  generalize s.frozenMismatch (s.opts.resolve pyOptD).frozen = x12
  generalize s.user.anyOrder = ua
  generalize (s.opts.resolve pyOptD).order = oo
  generalize (s.opts.resolve pyOptD).eq = oe
  generalize (s.opts.resolve pyOptD).frozen = ofr
  generalize (s.opts.resolve pyOptD).matchArgs = om
  generalize (s.opts.resolve pyOptD).init = oi
  generalize (s.user.setattr || s.user.delattr) = usd
  generalize s.user.matchArgs = um
  generalize s.user.init = ui
  generalize v.fieldKwOnly = v1
  generalize v.orderNeedsEq = v2
  generalize v.orderClash = v3
  generalize v.frozenInherit = v4
  generalize v.frozenSetattr = v5
  generalize v.matchArgsInit = v6
  generalize v.hashCompare = v7
  clear e1 e2 e3 e5 e6 e7 e13
  have K1 : ∀ x : Bool, (!x) = false ↔ x = true := by decide
  have K34 : ∀ a b : Bool, (a = false ∧ b = false) ↔ (!a && !b) = true := by decide
  have K56 : ∀ v a b : Bool, ((!v && !a) = false ∧ (!v && !b) = false) ↔ (v || a && b) = true := by decide
  have K7 : ∀ v a b : Bool, (!v && a && !b) = false ↔ (v || !(a && !b)) = true := by decide
  have K8 : ∀ v a b : Bool, (!v && a && b) = false ↔ (v || !(a && b)) = true := by decide
  have K9 : ∀ v a : Bool, (!v && a) = false ↔ (v || !a) = true := by decide
  have K11 : ∀ v a b c : Bool, (!v && a && !b && !c) = false ↔ (v || !(a && !b) || c) = true := by decide
  have K12 : ∀ x : Bool, x = false ↔ (!x) = true := by decide
  have K14 : ∀ v a b : Bool, (!v && a && !b) = false ↔ (v || !a || b) = true := by decide
  constructor
  · rintro ⟨h1, h2, h3, h4, h5, h6, h7, h8, h9, h10, h11, h12, h13, h14⟩
    exact ⟨(K1 _).mp h1, (K1 _).mp h2, (K34 _ _).mp ⟨h3, h4⟩, (K56 _ _ _).mp ⟨h5, h6⟩, (K7 _ _ _).mp h7,
      (K8 _ _ _).mp h8, (K9 _ _).mp h9, (K8 _ _ _).mp h10, (K11 _ _ _ _).mp h11, (K12 _).mp h12,
      (K1 _).mp h13, (K14 _ _ _).mp h14⟩
  · rintro ⟨c1, c2, c3, c4, c5, c6, c7, c8, c9, c10, c11, c12⟩
    have a34 := (K34 _ _).mpr c3
    have a56 := (K56 _ _ _).mpr c4
    exact ⟨(K1 _).mpr c1, (K1 _).mpr c2, a34.1, a34.2, a56.1, a56.2, (K7 _ _ _).mpr c5, (K8 _ _ _).mpr c6,
      (K9 _ _).mpr c7, (K8 _ _ _).mpr c8, (K11 _ _ _ _).mpr c9, (K12 _).mpr c10, (K1 _).mpr c11,
      (K14 _ _ _).mpr c12⟩

end CyVerif.C30

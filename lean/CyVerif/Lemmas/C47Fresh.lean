import CyVerif.Lemmas.C47Unstrip
/-! The candidate repair `while prefix in code: prefix += "_"` yields a well-formed prefix absent from the text (C47). -/
namespace CyVerif.C47

theorem isInfixB_iff (p : List Char) : ∀ s : List Char, isInfixB p s = true ↔ p <:+: s := by
  intro s
  induction s with
  | nil => simp [isInfixB, List.isEmpty_iff]
  | cons c cs ih =>
    simp only [isInfixB, Bool.or_eq_true, ih, List.infix_cons_iff, List.isPrefixOf_iff_prefix]

theorem WF.snoc {p : List Char} (h : WF p) : WF (p ++ ['_']) := by
  refine ⟨by simp, ?_, ?_⟩
  · intro c hc
    rcases List.mem_append.mp hc with hc | hc
    · exact h.nodigit c hc
    · simp at hc; subst hc; decide
  · intro c hc
    rcases List.mem_append.mp hc with hc | hc
    · exact h.nodelim c hc
    · simp at hc; subst hc; decide

theorem freshPrefix_spec : ∀ (fuel : Nat) (p code : List Char), WF p → code.length < p.length + fuel →
    WF (freshPrefix fuel p code) ∧ ¬ freshPrefix fuel p code <:+: code := by
  intro fuel
  induction fuel with
  | zero =>
    intro p code hp hl
    refine ⟨hp, fun h => ?_⟩
    have := h.length_le
    simp [freshPrefix] at this hl; omega
  | succ n ih =>
    intro p code hp hl
    simp only [freshPrefix]
    split
    · exact ih (p ++ ['_']) code hp.snoc (by simp; omega)
    · rename_i h
      exact ⟨hp, fun h' => h ((isInfixB_iff p code).mpr h')⟩

end CyVerif.C47

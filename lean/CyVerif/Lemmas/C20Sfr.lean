import CyVerif.Lemmas.C20Inplace
namespace CyVerif.C20

/-- with `setting = False` nothing that logs is left for re-evaluation -/
theorem sfr_false_quiet (fx : Bool) (n0 : Nat) (e : Expr) : (sfr fx false n0 e).1.quiet = true := by
  generalize hs : false = s
  fun_induction sfr fx s n0 e with
  | case1 => rfl
  | case2 setting n0 py b i h => rfl
  | case3 setting n0 py b i h b' ts hb ih =>
    subst hs
    simp at h
    simp [RExpr.quiet, h]
    have := ih rfl
    simp [hb] at this
    exact this
  | case4 setting n0 py o a h => rfl
  | case5 setting n0 py o a h o' ts ho ih =>
    subst hs
    simp at h
    simp [RExpr.quiet, h]
    have hf : (if fx = true then false && !py else false) = false := by cases fx <;> simp
    rw [hf] at ho
    have := ih (by simp)
    simp [ho] at this
    exact this
  | case6 => rfl

/-- LetRefNode indices handed out by `sfr` stay below `n0 + #temps` -/
theorem sfr_refsLt (fx s : Bool) (n0 : Nat) (e : Expr) :
    (sfr fx s n0 e).1.refsLt (n0 + (sfr fx s n0 e).2.length) = true := by
  fun_induction sfr fx s n0 e with
  | case1 => rfl
  | case2 setting n0 py b i h => simp [RExpr.refsLt]
  | case3 setting n0 py b i h b' ts hb ih =>
    simp [hb] at ih
    simp [RExpr.refsLt]
    exact below_mono b' (by omega) ih
  | case4 setting n0 py o a h => simp [RExpr.refsLt]
  | case5 setting n0 py o a h o' ts ho ih =>
    simp [ho] at ih
    simp [RExpr.refsLt]
    exact ih
  | case6 => simp [RExpr.refsLt]

end CyVerif.C20

namespace CyVerif.C20

theorem getD_append_length (ρ : List Val) (v : Val) (d : Val) (n : Nat) (h : ρ.length = n) :
    (ρ ++ [v]).getD n d = v := by
  subst h; simp [List.getD]

theorem getD_append_length' (ρ a : List Val) (v : Val) (d : Val) (n : Nat) (h : ρ.length + a.length = n) :
    (ρ ++ (a ++ [v])).getD n d = v := by
  subst h
  rw [← List.append_assoc]
  exact getD_append_length (ρ ++ a) v d _ (by simp)

/-- Decomposition: temps (once, in order) followed by the residual expression = the original expression. -/
theorem sfr_decomp (fx : Bool) (c : Cfg) (τ : Val → Bool) (σ : Store) (s : Bool) (n0 : Nat) (e : Expr)
    (ρ0 : List Val) (hρ : ρ0.length = n0) :
    eval c τ σ e =
      ((evalTemps c τ σ (sfr fx s n0 e).2).1 ++ (evalR (ρ0 ++ (evalTemps c τ σ (sfr fx s n0 e).2).2) σ (sfr fx s n0 e).1).1,
       (evalR (ρ0 ++ (evalTemps c τ σ (sfr fx s n0 e).2).2) σ (sfr fx s n0 e).1).2) := by
  fun_induction sfr fx s n0 e generalizing ρ0 with
  | case1 => simp [eval, evalTemps, evalR]
  | case2 setting n0 py b i h =>
    simp only [evalTemps_single, evalR, getD_append_length ρ0 _ _ n0 hρ]; simp
  | case3 setting n0 py b i h b' ts hb ih =>
    have hq := sfr_false_quiet fx n0 b
    have hlt := sfr_refsLt fx false n0 b
    have ihb := ih ρ0 hρ
    rw [hb] at hq hlt ihb
    simp only at hq hlt ihb
    have hlen := evalTemps_length c τ σ ts
    have hbelow : b'.refsLt (ρ0 ++ (evalTemps c τ σ ts).2).length = true := by
      simp [hlen, hρ]; exact hlt
    have hqe := evalR_quiet (ρ0 ++ (evalTemps c τ σ ts).2) σ b' hq
    simp only [evalTemps_append, evalTemps_single, evalR]
    rw [← List.append_assoc ρ0, evalR_append _ _ σ b' hbelow]
    rw [List.append_assoc ρ0, getD_append_length' ρ0 _ _ _ _ (by simp [hlen, hρ])]
    simp [eval, ihb, hqe]
  | case4 setting n0 py o a h =>
    simp only [evalTemps_single, evalR, getD_append_length ρ0 _ _ n0 hρ]; simp
  | case5 setting n0 py o a h o' ts ho ih =>
    have iho := ih ρ0 hρ
    rw [ho] at iho
    simp only at iho
    simp [eval, evalR, iho, List.append_assoc]
  | case6 => simp only [evalTemps_single, evalR, getD_append_length ρ0 _ _ _ hρ]; simp

end CyVerif.C20

import CyVerif.Model.C19
/-! Arithmetic facts about C conversions used by the C19 theorems (width-generic). -/
namespace CyVerif.C19

theorem two_pow_pos (n : Nat) : (0 : Int) < (2 : Int) ^ n := Int.pow_pos (by omega)

theorem two_pow_split {b : Nat} (h : 0 < b) : (2 : Int) ^ b = 2 * (2 : Int) ^ (b - 1) := by
  have : b = (b - 1) + 1 := by omega
  rw [this, Int.pow_succ]; simp; omega

theorem two_pow_mono {a b : Nat} (h : a ≤ b) : (2 : Int) ^ a ≤ (2 : Int) ^ b := by
  have h1 : (2 : Nat) ^ a ≤ (2 : Nat) ^ b := Nat.pow_le_pow_right (by omega) h
  have : ((2 ^ a : Nat) : Int) ≤ ((2 ^ b : Nat) : Int) := Int.ofNat_le.mpr h1
  simpa using this

theorem eq_of_emod_eq_window (a b M : Int) (hM : 0 < M) (h : a % M = b % M)
    (hd : a - b < M) (hd2 : b - a < M) : a = b := by
  have h1 : (a - b) % M = 0 := by
    rw [Int.sub_emod, h]; simp
  obtain ⟨k, hk⟩ := Int.dvd_of_emod_eq_zero h1
  have : k = 0 := by
    rcases Int.lt_trichotomy k 0 with hneg | hz | hpos
    · exfalso
      have : M * k ≤ M * (-1) := Int.mul_le_mul_of_nonneg_left (by omega) (by omega)
      omega
    · exact hz
    · exfalso
      have : M * 1 ≤ M * k := Int.mul_le_mul_of_nonneg_left (by omega) (by omega)
      omega
  subst this; omega

/-- conversion keeps the residue -/
theorem wrap_emod (t : CTy) (v : Int) : (t.wrap v) % (2 : Int) ^ t.bits = v % (2 : Int) ^ t.bits := by
  unfold CTy.wrap
  simp only []
  split
  · rw [Int.sub_emod, Int.emod_self]; simp
  · simp

/-- a value of the type converts to itself -/
theorem wrap_of_has (t : CTy) (hb : 0 < t.bits) (v : Int) (h : t.has v = true) : t.wrap v = v := by
  have hsplit := two_pow_split hb
  have hpos := two_pow_pos (t.bits - 1)
  unfold CTy.has CTy.lo CTy.hiX at h
  unfold CTy.wrap
  simp only [Bool.and_eq_true, decide_eq_true_eq] at h
  cases hs : t.sgn <;> simp only [hs] at h ⊢
  · -- unsigned
    have h0 : 0 ≤ v := by simpa using h.1
    have h1 : v < 2 ^ t.bits := by simpa using h.2
    simp [Int.emod_eq_of_lt h0 h1]
  · have h0 : -(2 : Int) ^ (t.bits - 1) ≤ v := by simpa using h.1
    have h1 : v < (2 : Int) ^ (t.bits - 1) := by simpa using h.2
    simp only [Bool.true_and, decide_eq_true_eq]
    rcases Int.lt_or_le v 0 with hneg | hnn
    · have e : v % (2 : Int) ^ t.bits = v + (2 : Int) ^ t.bits := by
        have : (v + (2 : Int) ^ t.bits) % (2 : Int) ^ t.bits = v % (2 : Int) ^ t.bits := by simp
        rw [← this]; exact Int.emod_eq_of_lt (by omega) (by omega)
      rw [e, if_pos (by omega)]; omega
    · have e : v % (2 : Int) ^ t.bits = v := Int.emod_eq_of_lt hnn (by omega)
      rw [e, if_neg (by omega)]

/-- conversion is injective on every window narrower than the modulus -/
theorem wrap_inj_window (T : CTy) (a b : Int) (h : T.wrap a = T.wrap b)
    (hd : a - b < (2 : Int) ^ T.bits) (hd2 : b - a < (2 : Int) ^ T.bits) : a = b := by
  have := congrArg (· % (2 : Int) ^ T.bits) h
  simp only [wrap_emod] at this
  exact eq_of_emod_eq_window a b _ (two_pow_pos _) this hd hd2

theorem promote_bits_pos (t : CTy) (hb : 0 < t.bits) : 0 < t.promote.bits := by
  unfold CTy.promote; split
  · simp [s32]
  · exact hb

theorem promote_bits_ge (t : CTy) : t.bits ≤ t.promote.bits := by
  unfold CTy.promote; split
  · simp [s32]; omega
  · exact Nat.le_refl _

/-- promotion preserves values -/
theorem has_promote (t : CTy) (hb : 0 < t.bits) (v : Int) (h : t.has v = true) : t.promote.has v = true := by
  unfold CTy.promote
  split
  · rename_i hlt
    have hm : (2 : Int) ^ t.bits ≤ (2 : Int) ^ 31 := two_pow_mono (by omega)
    have hm1 : (2 : Int) ^ (t.bits - 1) ≤ (2 : Int) ^ 31 := two_pow_mono (by omega)
    have hp := two_pow_pos (t.bits - 1)
    unfold CTy.has CTy.lo CTy.hiX at h ⊢
    simp only [Bool.and_eq_true, decide_eq_true_eq] at h ⊢
    simp only [s32]
    cases hs : t.sgn <;> simp only [hs] at h <;> simp at h ⊢ <;> omega
  · exact h

theorem uac_bits_ge_left (a b : CTy) : a.bits ≤ (uac a b).bits := by
  unfold uac; split
  · simp
  · split
    · omega
    · exact Nat.le_refl _

/-- width of the window that contains all values of a type -/
theorem has_window (t : CTy) (hb : 0 < t.bits) (x c : Int) (hx : t.has x = true) (hc : t.has c = true) :
    x - c < (2 : Int) ^ t.bits ∧ c - x < (2 : Int) ^ t.bits := by
  have hsplit := two_pow_split hb
  have hp := two_pow_pos (t.bits - 1)
  unfold CTy.has CTy.lo CTy.hiX at hx hc
  simp only [Bool.and_eq_true, decide_eq_true_eq] at hx hc
  cases hs : t.sgn <;> simp only [hs] at hx hc <;> simp at hx hc <;> omega

/-- **Key fact.** For a value `x` of the subject type and a constant whose value the promoted
subject type can represent, the C test `x == c` (whatever the type of `c`) and the case label
`c` of `switch (x)` both decide `x = c`. -/
theorem cEq_swEq_of_fits (ty : CTy) (hb : 0 < ty.bits) (x : Int) (hx : ty.has x = true)
    (tc : CTy) (c : Int) (hc : ty.promote.has c = true) :
    cEq ty x tc c = decide (x = c) ∧ swEq ty x c = decide (x = c) := by
  have hpb := promote_bits_pos ty hb
  have hxp := has_promote ty hb x hx
  constructor
  · unfold cEq
    simp only []
    have hge := uac_bits_ge_left ty.promote tc.promote
    have hw := has_window ty.promote hpb x c hxp hc
    have hm := two_pow_mono hge
    by_cases hxc : x = c
    · subst hxc; simp
    · simp only [hxc, decide_false]
      rw [beq_eq_false_iff_ne]
      intro hcontra
      exact hxc (wrap_inj_window _ x c hcontra (by omega) (by omega))
  · unfold swEq
    rw [wrap_of_has _ hpb c hc]
    by_cases hxc : x = c
    · subst hxc; simp
    · simp only [hxc, decide_false]
      rw [beq_eq_false_iff_ne]
      exact fun h => hxc h.symm

end CyVerif.C19

import CyVerif.Lemmas.C31Seq
/-! C31 — agreement of the two-phase Cython model with the reference matcher, by structural
    recursion over patterns (literal / value / capture / wildcard / as / or / sequence, any nesting). -/
namespace CyVerif.C31

/-- phase-1 result `r` + phase-2 assignments `f` agree with the reference result `r'`:
    same verdict, same side-effect log, same exception, the same bindings up to order -/
def Agree {α : Type} (r : R α) (f : α → Env) (r' : R Env) : Prop :=
  match r, r' with
  | .ok a l, .ok e l' => l = l' ∧ (f a).Perm e
  | .fail l, .fail l' => l = l'
  | .err x l, .err y l' => x = y ∧ l = l'
  | _, _ => False

mutual
/-- patterns inside the proved fragment on which the variant `V` has no known deviation -/
def nice (V : Variant) : Pat → Bool
  | .lit _ => true
  | .const _ => true
  | .cap _ => true
  | .wild => true
  | .as p _ => (V.asSubject || !isValueChain p) && nice V p
  | .or alts => niceAll V alts
  | .seq ps _ qs => niceSubs V ps && niceSubs V qs
  | .map _ _ _ => false
  | .cls _ _ _ _ => false
def niceAll (V : Variant) : List Pat → Bool
  | [] => true
  | a :: r => nice V a && niceAll V r
def niceSubs (V : Variant) : List Pat → Bool
  | [] => true
  | a :: r => nice V a && (V.orTested || !irrefutable a || isMA a) && niceSubs V r
end

theorem asLitOf_none (T : Tab) (p : Pat) (h : isValueChain p = false) : asLitOf T p = none := by
  fun_induction isValueChain p <;> simp_all [asLitOf]

theorem asValue_eq (V : Variant) (T : Tab) (p : Pat) (v : Val)
    (h : (V.asSubject || !isValueChain p) = true) : asValue V T p v = v := by
  unfold asValue
  cases hV : V.asSubject
  · simp [hV] at h
    simp [asLitOf_none T p h]
  · simp

theorem isMA_not_chain (p : Pat) (h : isMA p = true) : isValueChain p = false := by
  fun_induction isMA p <;> simp_all [isValueChain]

theorem isMA_irrefutable (p : Pat) (h : isMA p = true) : irrefutable p = true := by
  fun_induction isMA p <;> simp_all [irrefutable]

/-- a capture / wildcard (with `as` targets): the reference always matches without side
    effects, and phase 2 yields the same bindings whatever phase 1 left behind -/
theorem isMA_ref (V : Variant) (T : Tab) (p : Pat) (v : Val) (lg : Log)
    (h : isMA p = true) (hn : nice V p = true) :
    ∃ e, ref T p v lg = .ok e lg ∧ ∀ ch, (cyAssign V T p v ch).Perm e := by
  fun_induction isMA p with
  | case1 n => exact ⟨[(n, v)], by simp [ref], by intro ch; simp [cyAssign]⟩
  | case2 => exact ⟨[], by simp [ref], by intro ch; simp [cyAssign]⟩
  | case3 p n ih =>
    simp only [nice, Bool.and_eq_true] at hn
    obtain ⟨e, he, hp⟩ := ih h hn.2
    refine ⟨e ++ [(n, v)], by simp [ref, he], ?_⟩
    intro ch
    simp only [cyAssign, asValue_eq V T p v hn.1]
    exact ((hp ch).cons (n, v)).trans (List.perm_append_singleton (n, v) e).symm
  | case4 p h1 h2 h3 => simp_all

theorem skip_isMA (V : Variant) (p : Pat)
    (h : (V.orTested || !irrefutable p || isMA p) = true) (hs : skipTest V false p = true) :
    isMA p = true := by
  unfold skipTest at hs
  cases hV : V.orTested <;> simp [hV] at hs h
  · cases h with
    | inl h => simp [h] at hs
    | inr h => exact h
  · exact hs

/-- `cyTestAlts … k` yields an alternative number `j ≥ k`; phase 2 then runs alternative `j` -/
def AgreeAlts (V : Variant) (T : Tab) (alts : List Pat) (k : Nat) (v : Val) (r : R Ch) (r' : R Env) : Prop :=
  match r, r' with
  | .ok ch l, .ok e l' =>
    l = l' ∧ ∃ j c, ch = .alt j c ∧ k ≤ j ∧ (cyAssignNth V T alts (j + 1 - k) v c).Perm e
  | .fail l, .fail l' => l = l'
  | .err x l, .err y l' => x = y ∧ l = l'
  | _, _ => False

theorem maskHead_nil : maskHead [] = true := rfl

mutual
theorem agree (V : Variant) (T : Tab) : ∀ (p : Pat) (v : Val) (lg : Log), nice V p = true →
    Agree (cyTest V T p v lg) (cyAssign V T p v) (ref T p v lg)
  | .lit l, v, lg, _ => by
    simp only [cyTest, ref]
    split <;> simp [Agree, cyAssign]
  | .const k, v, lg, _ => by
    simp only [cyTest, ref]
    split <;> simp [Agree, cyAssign]
  | .cap n, v, lg, _ => by simp [cyTest, ref, Agree, cyAssign]
  | .wild, v, lg, _ => by simp [cyTest, ref, Agree, cyAssign]
  | .as p n, v, lg, h => by
    simp only [nice, Bool.and_eq_true] at h
    have ih := agree V T p v lg h.2
    simp only [cyTest, ref]
    generalize cyTest V T p v lg = r at ih ⊢
    generalize ref T p v lg = r' at ih ⊢
    cases r <;> cases r' <;> simp [Agree] at ih ⊢
    · refine ⟨ih.1, ?_⟩
      simp only [cyAssign, asValue_eq V T p v h.1]
      exact (ih.2.cons (n, v)).trans (List.perm_append_singleton _ _).symm
    · exact ih
    · exact ih
  | .or alts, v, lg, h => by
    simp only [nice] at h
    have ih := agreeAlts V T alts 1 v lg h
    simp only [cyTest, ref]
    generalize cyTestAlts V T alts 1 v lg = r at ih ⊢
    generalize refAlts T alts v lg = r' at ih ⊢
    cases r <;> cases r' <;> simp [Agree, AgreeAlts] at ih ⊢
    · obtain ⟨hl, j, c, hch, hk, hp⟩ := ih
      subst hch
      refine ⟨hl, ?_⟩
      simpa [cyAssign] using hp
    · exact ih
    · exact ih
  | .seq ps st qs, v, lg, h => by
    simp only [nice, Bool.and_eq_true] at h
    simp only [cyTest, ref]
    cases hs : seqItems v with
    | none => simp [Agree]
    | some items =>
      simp only []
      by_cases hlen : seqLenOk st.isSome items.length ps.length qs.length = true
      · have hle : ps.length + qs.length ≤ items.length := by
          unfold seqLenOk at hlen
          split at hlen <;> simp at hlen <;> omega
        have hb := cySeqBefore_eq items ps.length (by omega)
        have ha := cySeqAfter_eq items qs.length (by omega)
        simp only [hlen, hb, ha, Bool.not_true, Bool.and_false, Bool.false_eq_true, if_false]
        have ih1 := agreeSubs V T ps (items.take ps.length) lg h.1
        generalize cyTestList V T false ps [] (items.take ps.length) lg = r1 at ih1 ⊢
        generalize refList T ps (items.take ps.length) lg = r1' at ih1 ⊢
        cases r1 <;> cases r1' <;> simp [Agree] at ih1 ⊢
        · rename_i c1 l1 e1 l1'
          obtain ⟨hl1, hp1⟩ := ih1
          subst hl1
          have ih2 := agreeSubs V T qs (items.drop (items.length - qs.length)) l1 h.2
          generalize cyTestList V T false qs [] (items.drop (items.length - qs.length)) l1 = r2 at ih2 ⊢
          generalize refList T qs (items.drop (items.length - qs.length)) l1 = r2' at ih2 ⊢
          cases r2 <;> cases r2' <;> simp [Agree] at ih2 ⊢
          · refine ⟨ih2.1, ?_⟩
            simp only [cyAssign, hs, hb, ha, chKids2, cySeqStar_eq]
            rw [← List.append_assoc e1]
            exact (hp1.append (List.Perm.refl _)).append ih2.2
          · exact ih2
          · exact ih2
        · exact ih1
        · exact ih1
      · have hlen' : seqLenOk st.isSome items.length ps.length qs.length = false := by
          simpa using hlen
        have hneed : (!(ps.isEmpty && qs.isEmpty && st.isSome)) = true := by
          cases ps <;> cases qs <;> cases st <;> simp_all [seqLenOk]
        simp [hlen', hneed, Agree]
  | .map _ _ _, _, _, h => by simp [nice] at h
  | .cls _ _ _ _, _, _, h => by simp [nice] at h
theorem agreeSubs (V : Variant) (T : Tab) : ∀ (ps : List Pat) (vs : List Val) (lg : Log),
    niceSubs V ps = true →
    Agree (cyTestList V T false ps [] vs lg) (cyAssignList V T ps [] vs) (refList T ps vs lg)
  | [], vs, lg, _ => by simp [cyTestList, refList, Agree, cyAssignList]
  | p :: ps, [], lg, _ => by simp [cyTestList, refList, Agree]
  | p :: ps, v :: vs, lg, h => by
    simp only [niceSubs, Bool.and_eq_true] at h
    obtain ⟨⟨hn, hsk⟩, hr⟩ := h
    simp only [cyTestList, refList, maskHead_nil, List.tail_nil, Bool.true_and]
    by_cases hskip : skipTest V false p = true
    · have hma := skip_isMA V p hsk hskip
      obtain ⟨e, he, hp⟩ := isMA_ref V T p v lg hma hn
      have ih := agreeSubs V T ps vs lg hr
      simp only [hskip, he, Bool.not_true, Bool.false_eq_true, if_false]
      generalize cyTestList V T false ps [] vs lg = r at ih ⊢
      generalize refList T ps vs lg = r' at ih ⊢
      cases r <;> cases r' <;> simp [Agree] at ih ⊢
      · refine ⟨ih.1, ?_⟩
        simp only [cyAssignList, maskHead_nil, if_true, List.tail_nil]
        exact (hp .leaf).append ih.2
      · exact ih
      · exact ih
    · have hskip' : skipTest V false p = false := by simpa using hskip
      have ih1 := agree V T p v lg hn
      simp only [hskip', Bool.not_false, if_true]
      generalize cyTest V T p v lg = r1 at ih1 ⊢
      generalize ref T p v lg = r1' at ih1 ⊢
      cases r1 <;> cases r1' <;> simp [Agree] at ih1 ⊢
      · rename_i c l e l'
        obtain ⟨hl, hp1⟩ := ih1
        subst hl
        have ih := agreeSubs V T ps vs l hr
        generalize cyTestList V T false ps [] vs l = r at ih ⊢
        generalize refList T ps vs l = r' at ih ⊢
        cases r <;> cases r' <;> simp [Agree] at ih ⊢
        · refine ⟨ih.1, ?_⟩
          simp only [cyAssignList, maskHead_nil, if_true, List.tail_nil]
          exact hp1.append ih.2
        · exact ih
        · exact ih
      · exact ih1
      · exact ih1
theorem agreeAlts (V : Variant) (T : Tab) : ∀ (alts : List Pat) (k : Nat) (v : Val) (lg : Log),
    niceAll V alts = true →
    AgreeAlts V T alts k v (cyTestAlts V T alts k v lg) (refAlts T alts v lg)
  | [], k, v, lg, _ => by simp [cyTestAlts, refAlts, AgreeAlts]
  | a :: rest, k, v, lg, h => by
    simp only [niceAll, Bool.and_eq_true] at h
    have ih1 := agree V T a v lg h.1
    simp only [cyTestAlts, refAlts]
    generalize cyTest V T a v lg = r1 at ih1 ⊢
    generalize ref T a v lg = r1' at ih1 ⊢
    cases r1 <;> cases r1' <;> simp [Agree] at ih1 ⊢
    · rename_i c l e l'
      simp only [AgreeAlts]
      refine ⟨ih1.1, k, c, rfl, Nat.le_refl _, ?_⟩
      have : k + 1 - k = 1 := by omega
      simpa [cyAssignNth, this] using ih1.2
    · rename_i l l'
      subst ih1
      have ih := agreeAlts V T rest (k + 1) v l h.2
      generalize cyTestAlts V T rest (k + 1) v l = r at ih ⊢
      generalize refAlts T rest v l = r' at ih ⊢
      cases r <;> cases r' <;> simp [AgreeAlts] at ih ⊢
      · obtain ⟨hl, j, c, hch, hk, hp⟩ := ih
        refine ⟨hl, j, c, hch, by omega, ?_⟩
        have h1 : ¬ (j + 1 - k = 1) := by omega
        have h2 : j + 1 - k - 1 = j + 1 - (k + 1) := by omega
        simpa [cyAssignNth, h1, h2] using hp
      · exact ih
      · exact ih
    · simp only [AgreeAlts]
      exact ih1
end

end CyVerif.C31

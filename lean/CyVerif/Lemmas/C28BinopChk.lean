import CyVerif.Lemmas.C28Enum
/-!
# C28 — exhaustive kernel checks for the binary / in-place operators: shared definitions

Each `…Chk` (files `C28BinopChkUnrel`, `…Same`, `…Sub`) is a Boolean that runs the machinery on every
configuration of one operand relation (both for the cdef world and for the equivalent Python classes)
and compares the decision trees.  They are evaluated by the kernel (`decide +kernel`), split so that no
single evaluation is long.
-/
namespace CyVerif.C28

def both (v : Variant) (w : World) (cfg : OpCfg) (l r : Nat) : Bool :=
  agree v w cfg .bin l r && agree v w cfg .inp l r

/-- operand kinds of two unrelated root classes, at least one of them a cdef class -/
def kindPairs : List (Kind × Kind) := [(.cdef, .cdef), (.cdef, .py), (.py, .cdef), (.cdef, .int), (.int, .cdef)]

def wPair (k1 k2 : Kind) (s1 s2 : Sub3) : World := [mkCls k1 none s1, mkCls k2 none s2]

/-- cdef hierarchies of depth 1, 2, 3 (`w2`: the subclass may be a Python class) -/
def w1 (a : Sub3) : World := [mkCls .cdef none a]
def w2 (k : Kind) (a b : Sub3) : World := [mkCls .cdef none a, mkCls k (some 0) b]
def w3 (a b c : Sub3) : World := [mkCls .cdef none a, mkCls .cdef (some 0) b, mkCls .cdef (some 1) c]

def unrelChk (v : Variant) (cfg : OpCfg) : Bool :=
  kindPairs.all fun kp => allSub3.all fun s1 => allSub3.all fun s2 => both v (wPair kp.1 kp.2 s1 s2) cfg 0 1

end CyVerif.C28

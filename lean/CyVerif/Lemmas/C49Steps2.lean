import CyVerif.Lemmas.C49Steps
/-! Simulation of `write` and `commit`. -/
namespace CyVerif.C49
open Forest

theorem set_self_of_getElem? {H : Heap} {b : Nat} {n : Node} (h : H[b]? = some n) : H.set b n = H := by
  apply List.ext_getElem?
  intro j
  rw [List.getElem?_set]
  by_cases e : b = j
  · subst e; rw [if_pos rfl, if_pos (List.getElem?_eq_some_iff.1 h).1, h]
  · simp [e]

theorem textD_frag_single (s : String) (ms : List Nat) : textD [Item.frag s ms] = s := by
  simp [textD]

theorem marksD_frag_single (s : String) (ms : List Nat) : marksD [Item.frag s ms] = ms := by
  simp [marksD]

theorem fragItems_append (a b : List Frag) : fragItems (a ++ b) = fragItems a ++ fragItems b := by
  simp [fragItems]

/-- an empty write with no markers changes nothing in the heap -/
theorem writeH_empty (H : Heap) (b : Nat) : writeH H b "" [] = H := by
  unfold writeH
  cases h : H[b]? with
  | none => rfl
  | some n =>
    have : ({ n with stream := n.stream ++ "", markers := n.markers ++ [] } : Node) = n := by
      cases n; simp
    simp only [this]
    exact set_self_of_getElem? h

/-- `write` of a non-empty text: the fragment goes immediately before the buffer's cursor -/
theorem step_write {σ : St} {sp : Spec} {F : Forest} (h : Sim σ sp F) {k b : Nat}
    (hk : σ.handles[k]? = some b) {s : String} (ms : List Nat) (hs : s ≠ "") :
    Sim ⟨writeH σ.heap b s ms, σ.handles⟩
      ⟨insBefore (Item.cl k) [Item.frag s ms] sp.doc, sp.n, sp.roots⟩
      (F.modify b (fun fs kids => (fs ++ [(s, ms)], kids))) := by
  obtain ⟨htag, fs0, kids0, hfind⟩ := h.find hk
  obtain ⟨n, hn, hch, hst, hmk, hck, hbk, _⟩ := Cons_find F h.cons hfind h.ids
  have hlt : b < σ.heap.length := (List.getElem?_eq_some_iff.1 hn).1
  have hH : writeH σ.heap b s ms
      = σ.heap.set b { n with stream := n.stream ++ s, markers := n.markers ++ ms } := by
    simp [writeH, hn]
  have hfr : ∀ i, i ≠ b → ∀ nd, σ.heap[i]? = some nd → (writeH σ.heap b s ms)[i]? = some nd := by
    intro i hi nd hnd
    rw [hH, List.getElem?_set_ne (Ne.symm hi)]; exact hnd
  rw [← h.doc]
  refine Sim_modify (new := []) h.cons h.ids h.names h.ne h.roots hfind htag ?_ ?_ ?_ hfr ?_ ?_ ?_ ?_
    h.n ?_ ?_
  · simp [fragItems]
  · simp
  · intro fs kids hfs hkids
    refine ⟨?_, hkids⟩
    intro f hf
    rcases List.mem_append.1 hf with hf | hf
    · exact hfs f hf
    · simp only [List.mem_singleton] at hf; subst hf; exact hs
  · refine ⟨{ n with stream := n.stream ++ s, markers := n.markers ++ ms },
      by rw [hH]; exact List.getElem?_set_self hlt, hch, ?_, ?_⟩
    · simp [textD_append, hst, fragItems, textD]
    · simp [marksD_append, hmk, fragItems, marksD]
  · exact Cons_frame (fun i hi nd hnd => hfr i (fun e => hbk (e ▸ hi)) nd hnd) hck
  · rw [List.append_nil]; exact h.ids
  · rw [List.append_nil]; exact h.names
  · simpa using h.h2t
  · simpa using h.t2h

end CyVerif.C49

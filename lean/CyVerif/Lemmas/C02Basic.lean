import CyVerif.Model.C02
import CyVerif.Lemmas.C05Join
/-!
C02: platform predicate, magnitude bounds and "this C operation does not overflow" lemmas.
-/
namespace CyVerif.C02
open CyVerif.C05

/-- What the theorems need from the platform: C99's minimum widths (`long` ≥ 32 bit, `long long` ≥ 64 bit,
`int` ≤ `long` ≤ `long long`) and CPython's digit invariants (a digit plus sign fits `long` with a bit to spare,
a digit times a 30-bit constant fits `long long`). -/
def PlatOK (P : Plat) : Prop :=
  0 < P.shift ∧ 0 < P.intBytes ∧ P.intBytes ≤ P.longBytes ∧ 4 ≤ P.longBytes ∧ P.longBytes ≤ P.llBytes ∧
  8 ≤ P.llBytes ∧ P.shift + 2 ≤ 8 * P.longBytes ∧ P.shift + 31 ≤ 8 * P.llBytes
instance (P : Plat) : Decidable (PlatOK P) := by unfold PlatOK; infer_instance

/-- `|v| < 2^n` -/
def Bnd (n : Nat) (v : Int) : Prop := - two n < v ∧ v < two n
/-- the range of constants the compiler hands to the helpers: `|c| ≤ 2^30` -/
def CBnd (c : Int) : Prop := - two 30 ≤ c ∧ c ≤ two 30

theorem tLong_bits (P : Plat) : P.tLong.bits = 8 * P.longBytes := rfl
theorem tLL_bits (P : Plat) : P.tLL.bits = 8 * P.llBytes := rfl

theorem inRange_signed_iff (t : CTy) (hs : t.signed = true) (x : Int) :
    t.inRange x ↔ - two (t.bits - 1) ≤ x ∧ x < two (t.bits - 1) := inRange_signed hs x

/-- `|v| < 2^n`, `n + 1 ≤ bits` ⇒ representable -/
theorem inRange_of_bnd {t : CTy} (hs : t.signed = true) {n : Nat} {v : Int} (h : Bnd n v) (hn : n + 1 ≤ t.bits) :
    t.inRange v := by
  rw [inRange_signed_iff t hs]
  have := two_le_two (show n ≤ t.bits - 1 by omega)
  unfold Bnd at h; omega

theorem two_30_le {k : Nat} (h : 30 ≤ k) : two 30 ≤ two k := two_le_two h

theorem two_succ_eq {k : Nat} (h : 1 ≤ k) : two k = 2 * two (k - 1) := two_pred (by omega)

/-- sum / difference of a bounded value and a compiler constant -/
theorem inRange_addsub {t : CTy} (hs : t.signed = true) {n : Nat} {x c : Int} (hx : Bnd n x) (hc : CBnd c)
    (hn : n + 2 ≤ t.bits) (h32 : 32 ≤ t.bits) :
    t.inRange (x + c) ∧ t.inRange (c + x) ∧ t.inRange (x - c) ∧ t.inRange (c - x) := by
  simp only [inRange_signed_iff t hs]
  have h1 := two_le_two (show n ≤ t.bits - 2 by omega)
  have h2 := two_le_two (show 30 ≤ t.bits - 2 by omega)
  have h3 : two (t.bits - 1) = 2 * two (t.bits - 2) := by
    have := two_succ (t.bits - 2); rw [show t.bits - 2 + 1 = t.bits - 1 by omega] at this; exact this
  unfold Bnd at hx; unfold CBnd at hc; omega

theorem natAbs_lt_of_bnd {n : Nat} {v : Int} (h : Bnd n v) : v.natAbs < 2 ^ n := by
  unfold Bnd two at h; omega

theorem bnd_of_natAbs_lt {n : Nat} {v : Int} (h : v.natAbs < 2 ^ n) : Bnd n v := by
  unfold Bnd two; omega

theorem natAbs_le_of_cbnd {c : Int} (h : CBnd c) : c.natAbs ≤ 2 ^ 30 := by
  unfold CBnd two at h; omega

/-- product of a bounded value and a compiler constant -/
theorem bnd_mul {n : Nat} {x c : Int} (hx : Bnd n x) (hc : CBnd c) : Bnd (n + 30) (x * c) := by
  apply bnd_of_natAbs_lt
  rw [Int.natAbs_mul, Nat.pow_add]
  have h1 := natAbs_lt_of_bnd hx
  have h2 := natAbs_le_of_cbnd hc
  calc x.natAbs * c.natAbs ≤ x.natAbs * 2 ^ 30 := Nat.mul_le_mul_left _ h2
    _ < 2 ^ n * 2 ^ 30 := Nat.mul_lt_mul_of_pos_right h1 (Nat.two_pow_pos 30)

theorem cadd_ok {t : CTy} {a b : Int} (h : t.inRange (a + b)) : cadd t a b = .ok (a + b) := by
  unfold cadd; rw [if_pos h]

theorem csub_ok {t : CTy} (hs : t.signed = true) {a b : Int} (h : t.inRange (a - b)) : C05.sub t a b = .ok (a - b) := by
  unfold C05.sub; rw [if_pos hs, if_pos h]

theorem cmul_ok {t : CTy} (hs : t.signed = true) {a b : Int} (h : t.inRange (a * b)) : C05.mul t a b = .ok (a * b) := by
  unfold C05.mul; rw [if_pos hs, if_pos h]

theorem cneg_ok {t : CTy} (hs : t.signed = true) {a : Int} (h : t.inRange (-a)) : C05.neg t a = .ok (-a) := by
  unfold C05.neg; rw [if_pos hs, if_pos h]

theorem bnd_neg {n : Nat} {v : Int} (h : Bnd n v) : Bnd n (-v) := by unfold Bnd at *; omega

theorem bnd_mono {n m : Nat} {v : Int} (h : Bnd n v) (hnm : n ≤ m) : Bnd m v := by
  have := two_le_two hnm; unfold Bnd at *; omega

theorem cbnd_bnd {c : Int} (h : CBnd c) : Bnd 31 c := by
  have : two 31 = 2 * two 30 := two_succ 30
  have := two_pos 30
  unfold Bnd; unfold CBnd at h; omega

theorem signFix_ok {t : CTy} (hs : t.signed = true) {n : Nat} {v : Int} (h : Bnd n v) (hn : n + 1 ≤ t.bits)
    (isPos : Bool) : signFix t isPos v = .ok (if isPos then v else -v) := by
  unfold signFix
  cases isPos
  · simp only [Bool.false_eq_true, if_false]
    rw [cmul_ok hs (by rw [Int.mul_neg_one]; exact inRange_of_bnd hs (bnd_neg h) hn), Int.mul_neg_one]
  · simp

end CyVerif.C02

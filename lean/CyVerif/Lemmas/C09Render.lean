import CyVerif.Lemmas.C09Lit
/-! C09 part A: `str`/`hex`/base-32 renderings parse back to the value. -/
namespace CyVerif.C09

theorem digitsLE_zero (b : Nat) : digitsLE b 0 = [] := by
  rw [digitsLE]; simp

theorem digitsLE_pos (b n : Nat) (hb : 2 ≤ b) (hn : 0 < n) :
    digitsLE b n = (n % b) :: digitsLE b (n / b) := by
  rw [digitsLE]
  rw [dif_neg (by omega)]

/-- little-endian value -/
def leVal (b : Nat) (ds : List Nat) : Nat := ds.foldr (fun d acc => acc * b + d) 0

theorem digitsLE_lt (b : Nat) (hb : 2 ≤ b) : ∀ n, ∀ x ∈ digitsLE b n, x < b := by
  intro n
  induction n using Nat.strongRecOn with
  | _ n ih =>
    by_cases hn : n = 0
    · subst hn; rw [digitsLE_zero]; simp
    · rw [digitsLE_pos b n hb (by omega)]
      intro x hx
      rcases List.mem_cons.mp hx with rfl | hx
      · exact Nat.mod_lt _ (by omega)
      · exact ih (n / b) (Nat.div_lt_self (by omega) (by omega)) x hx

theorem digitsLE_val (b : Nat) (hb : 2 ≤ b) : ∀ n, leVal b (digitsLE b n) = n := by
  intro n
  induction n using Nat.strongRecOn with
  | _ n ih =>
    by_cases hn : n = 0
    · subst hn; rw [digitsLE_zero]; rfl
    · rw [digitsLE_pos b n hb (by omega)]
      simp only [leVal, List.foldr_cons]
      have := ih (n / b) (Nat.div_lt_self (by omega) (by omega))
      simp only [leVal] at this
      rw [this]
      have := Nat.div_add_mod n b
      rw [Nat.mul_comm]; omega

/-- for `n > 0` the most significant digit is non-zero -/
theorem digitsLE_msd (b : Nat) (hb : 2 ≤ b) : ∀ n, 0 < n →
    ∃ m rest, (digitsLE b n).reverse = m :: rest ∧ m ≠ 0 := by
  intro n
  induction n using Nat.strongRecOn with
  | _ n ih =>
    intro hn
    rw [digitsLE_pos b n hb hn]
    by_cases hq : n / b = 0
    · rw [hq, digitsLE_zero]
      refine ⟨n % b, [], by simp, ?_⟩
      have := Nat.div_add_mod n b
      rw [hq] at this; omega
    · obtain ⟨m, rest, hr, hm⟩ := ih (n / b) (Nat.div_lt_self (by omega) (by omega)) (Nat.pos_of_ne_zero hq)
      refine ⟨m, rest ++ [n % b], ?_, hm⟩
      simp [hr]

theorem digitsLE_length_le (b : Nat) (hb : 2 ≤ b) : ∀ k n, n < b ^ k → (digitsLE b n).length ≤ k := by
  intro k
  induction k with
  | zero => intro n hn; have : n = 0 := by simpa using hn
            subst this; rw [digitsLE_zero]; simp
  | succ k ih =>
    intro n hn
    by_cases h0 : n = 0
    · subst h0; rw [digitsLE_zero]; simp
    · rw [digitsLE_pos b n hb (by omega)]
      simp only [List.length_cons]
      have : n / b < b ^ k := by
        rw [Nat.div_lt_iff_lt_mul (by omega)]
        rw [Nat.pow_succ] at hn; exact hn
      have := ih (n / b) this
      omega

theorem digitsLE_length_gt (b : Nat) (hb : 2 ≤ b) : ∀ k n, b ^ k ≤ n → k < (digitsLE b n).length := by
  intro k
  induction k with
  | zero => intro n hn
            rw [Nat.pow_zero] at hn; rw [digitsLE_pos b n hb (by omega)]; simp
  | succ k ih =>
    intro n hn
    have hbk : 0 < b ^ (k + 1) := Nat.pow_pos (by omega)
    rw [digitsLE_pos b n hb (by omega)]
    simp only [List.length_cons]
    have : b ^ k ≤ n / b := by
      rw [Nat.le_div_iff_mul_le (by omega)]
      rw [Nat.pow_succ] at hn; exact hn
    have := ih (n / b) this
    omega

theorem digitChar_val : ∀ d, d < 32 → digitValue (digitChar d) = d := by decide
theorem digitChar_notL : ∀ d, d < 16 → digitChar d ≠ 'l' ∧ digitChar d ≠ 'L' := by decide
theorem digitChar_ne0 : ∀ d, d < 32 → d ≠ 0 → digitChar d ≠ '0' := by decide

/-- big-endian text of little-endian digits evaluates to the little-endian value -/
theorem dfold_text (b : Nat) (hb : b ≤ 32) (ds : List Nat) (h : ∀ d ∈ ds, d < b) :
    dfold b 0 (ds.reverse.map digitChar) = leVal b ds := by
  unfold dfold leVal
  rw [List.foldl_map, List.foldl_reverse]
  induction ds with
  | nil => rfl
  | cons d r ih =>
    simp only [List.foldr_cons]
    rw [ih (fun x hx => h x (by simp [hx]))]
    rw [digitChar_val d (by have := h d (by simp); omega)]

theorem natText_ne_nil (b n : Nat) (hb : 2 ≤ b) : natText b n ≠ [] := by
  unfold natText
  split
  · simp
  · rename_i hn
    obtain ⟨m, rest, hr, _⟩ := digitsLE_msd b hb n (by omega)
    rw [hr]; simp

theorem natText_digits (b n : Nat) (hb : 2 ≤ b) (hb32 : b ≤ 32) : ∀ c ∈ natText b n, digitValue c < b := by
  unfold natText
  split
  · intro c hc; simp at hc; subst hc; have : digitValue '0' = 0 := by decide
    omega
  · intro c hc
    simp only [List.mem_map, List.mem_reverse] at hc
    obtain ⟨d, hd, rfl⟩ := hc
    have := digitsLE_lt b hb n d hd
    rw [digitChar_val d (by omega)]; exact this

theorem natText_val (b n : Nat) (hb : 2 ≤ b) (hb32 : b ≤ 32) : dfold b 0 (natText b n) = n := by
  unfold natText
  split
  · rename_i h; subst h
    simp only [dfold, List.foldl_cons, List.foldl_nil, Nat.zero_mul, Nat.zero_add]; decide
  · rw [dfold_text b hb32 _ (digitsLE_lt b hb n), digitsLE_val b hb]

/-- the text of a positive number does not start with `0` -/
theorem natText_head (b n : Nat) (hb : 2 ≤ b) (hb32 : b ≤ 32) (hn : 0 < n) :
    ∃ c r, natText b n = c :: r ∧ c ≠ '0' := by
  unfold natText
  rw [if_neg (by omega)]
  obtain ⟨m, rest, hr, hm⟩ := digitsLE_msd b hb n hn
  have hmb : m < b := digitsLE_lt b hb n m (by
    have : m ∈ (digitsLE b n).reverse := by rw [hr]; simp
    simpa using this)
  refine ⟨digitChar m, rest.map digitChar, by rw [hr]; rfl, digitChar_ne0 m (by omega) hm⟩

end CyVerif.C09

import CyVerif.Model.C18Field
import CyVerif.Lemmas.C18Parse
/-! C18 lemmas: one `%` directive — what CPython's `%` parser, the repaired `_build_fstring` and CPython's
format-spec parser make of its text. -/
namespace CyVerif.C18

/-- the text of a regex-matched directive: flags, width digits, optional precision -/
structure DirShape (flagsL wd p : List Char) : Prop where
  hflags : ∀ c ∈ flagsL, c = '-' ∨ c = '0' ∨ c = ' '
  hwd : wd.all isDig = true
  hwd0 : wd.head? ≠ some '0'
  hp : p = [] ∨ ∃ ds, p = '.' :: ds ∧ ds ≠ [] ∧ ds.all isDig = true

def isFlag3 (c : Char) : Bool := c = '-' || c = '0' || c = ' '

theorem takeWhile_append_stop {α} (f : α → Bool) (l r : List α) (hl : ∀ c ∈ l, f c = true)
    (hr : ∀ c, r.head? = some c → f c = false) :
    (l ++ r).takeWhile f = l ∧ (l ++ r).dropWhile f = r ∧ (l ++ r).drop l.length = r := by
  induction l with
  | nil =>
    cases r with
    | nil => simp
    | cons c r => have := hr c rfl; simp [this]
  | cons a l ih =>
    have ha := hl a (by simp)
    obtain ⟨h1, h2, h3⟩ := ih (fun c hc => hl c (by simp [hc]))
    simp [ha, h1, h2]

/-- first character of `wd ++ p ++ tail`: a non-zero digit, a '.', or the head of the tail -/
theorem DirShape.rest_head {flagsL wd p : List Char} (h : DirShape flagsL wd p) (tl : List Char) (c : Char)
    (hc : (wd ++ p ++ tl).head? = some c) :
    (isDig c = true ∧ c ≠ '0') ∨ c = '.' ∨ (wd = [] ∧ p = [] ∧ tl.head? = some c) := by
  cases hw : wd with
  | cons d ds =>
    left
    rw [hw] at hc; simp at hc; subst hc
    have := h.hwd; rw [hw] at this; simp only [List.all_cons, Bool.and_eq_true] at this
    have h0 := h.hwd0; rw [hw] at h0; simp at h0
    exact ⟨this.1, h0⟩
  | nil =>
    rw [hw] at hc
    rcases h.hp with rfl | ⟨ds, rfl, _, _⟩
    · right; right; simp at hc; exact ⟨rfl, rfl, hc⟩
    · right; left; simp at hc; exact hc.symm

end CyVerif.C18

namespace CyVerif.C18

/-- conversion characters `_build_fstring` rewrites and the models cover -/
def isConvC (c : Char) : Bool := c = 'a' || c = 's' || c = 'r' || c = 'd' || c = 'o' || c = 'x' || c = 'X'

theorem isConvC_facts (c : Char) (h : isConvC c = true) :
    isDig c = false ∧ isPFlag c = false ∧ isFlag3 c = false ∧ c ≠ '(' ∧ c ≠ '*' ∧ c ≠ '.' ∧ c ≠ 'h' ∧ c ≠ 'l' ∧
    c ≠ 'L' ∧ c ≠ '-' := by
  simp only [isConvC, Bool.or_eq_true, decide_eq_true_eq] at h
  rcases h with (((((rfl | rfl) | rfl) | rfl) | rfl) | rfl) | rfl <;> decide

theorem isDig_facts (c : Char) (h : isDig c = true) (h0 : c ≠ '0') :
    isPFlag c = false ∧ isFlag3 c = false ∧ c ≠ '(' ∧ c ≠ '*' ∧ c ≠ '.' ∧ c ≠ '-' := by
  have e1 := isDig_ne c h '-' (by decide)
  have e2 := isDig_ne c h '+' (by decide)
  have e3 := isDig_ne c h ' ' (by decide)
  have e4 := isDig_ne c h '#' (by decide)
  have e5 := isDig_ne c h '(' (by decide)
  have e6 := isDig_ne c h '*' (by decide)
  have e7 := isDig_ne c h '.' (by decide)
  simp [isPFlag, isFlag3, e1, e2, e3, e4, e5, e6, e7, h0]

theorem flag3_isPFlag (c : Char) (h : c = '-' ∨ c = '0' ∨ c = ' ') : isPFlag c = true ∧ isFlag3 c = true := by
  rcases h with rfl | rfl | rfl <;> decide

theorem head_append_cons {α} (l : List α) (a : α) (r : List α) (c : α) (h : (l ++ a :: r).head? = some c) :
    (∃ t, l = c :: t) ∨ (l = [] ∧ a = c) := by
  cases l with
  | nil => right; simp at h; exact ⟨rfl, h⟩
  | cons x xs => left; simp at h; exact ⟨xs, by rw [h]⟩

/-- precision value of the text `.ddd` (or nothing) -/
def precOf (p : List Char) : Option Nat :=
  match p with
  | _ :: ds => some (digitsVal ds)
  | [] => none

theorem DirShape.no_plus_hash {flagsL wd p : List Char} (h : DirShape flagsL wd p) :
    flagsL.contains '+' = false ∧ flagsL.contains '#' = false := by
  constructor <;>
  · rw [Bool.eq_false_iff]
    intro hc
    have := List.contains_iff_mem.mp hc
    rcases h.hflags _ this with h | h | h <;> exact absurd h (by decide)

/-- CPython's `%` parser reads a directive of this shape as expected -/
theorem parsePercentDir_shape (flagsL wd p : List Char) (h : DirShape flagsL wd p) (ft : Char)
    (hft : isConvC ft = true) (after : List Char) (hw : digitsVal wd < 2147483648)
    (hpv : ∀ ds, p = '.' :: ds → digitsVal ds < 2147483648) :
    parsePercentDir (flagsL ++ wd ++ p ++ ft :: after) =
      .dir ⟨flagsL.contains '-', false, flagsL.contains ' ', false, flagsL.contains '0',
            if wd.isEmpty then none else some (digitsVal wd),
            precOf p, ft⟩ after := by
  obtain ⟨f1, f2, f3, f4, f5, f6, f7, f8, f9, f10⟩ := isConvC_facts ft hft
  -- the character after the flags
  have hnext : ∀ c, (wd ++ p ++ ft :: after).head? = some c → isPFlag c = false ∧ c ≠ '(' ∧ c ≠ '*' := by
    intro c hc
    rcases h.rest_head (ft :: after) c hc with ⟨hd, h0⟩ | rfl | ⟨_, _, ht⟩
    · have := isDig_facts c hd h0; exact ⟨this.1, this.2.2.1, this.2.2.2.1⟩
    · exact ⟨by decide, by decide, by decide⟩
    · simp at ht; subst ht; exact ⟨f2, f4, f5⟩
  have e0 : flagsL ++ wd ++ p ++ ft :: after = flagsL ++ (wd ++ p ++ ft :: after) := by simp
  have hsplit := takeWhile_append_stop isPFlag flagsL (wd ++ p ++ ft :: after)
    (fun c hc => (flag3_isPFlag c (h.hflags c hc)).1) (fun c hc => (hnext c hc).1)
  -- not a mapping key
  have hparen : (flagsL ++ (wd ++ p ++ ft :: after)).head? ≠ some '(' := by
    intro e
    cases hf : flagsL with
    | cons c cs =>
      rw [hf] at e; simp at e
      have := h.hflags c (by rw [hf]; simp)
      rw [e] at this; rcases this with h | h | h <;> exact absurd h (by decide)
    | nil =>
      rw [hf] at e; simp only [List.nil_append] at e
      exact (hnext '(' e).2.1 rfl
  -- width
  have hwidth : ppWidth (wd ++ p ++ ft :: after) =
      some (if wd.isEmpty then none else some (digitsVal wd), p ++ ft :: after) := by
    have hstar : (wd ++ p ++ ft :: after).head? ≠ some '*' := fun e => (hnext '*' e).2.2 rfl
    have hafter : ∀ c, (p ++ ft :: after).head? = some c → isDig c = false := by
      intro c hc
      rcases h.hp with rfl | ⟨ds, rfl, _, _⟩
      · simp at hc; subst hc; exact f1
      · simp at hc; subst hc; decide
    have e1 : wd ++ p ++ ft :: after = wd ++ (p ++ ft :: after) := by simp
    obtain ⟨t1, t2⟩ := takeWhile_digits wd (p ++ ft :: after) h.hwd hafter
    have hw' : ¬ digitsVal wd ≥ 2147483648 := by omega
    unfold ppWidth
    simp only [hstar, if_false]
    rw [e1, t1, t2]
    simp only [hw', if_false]
  -- precision
  have hprec : ppPrec (p ++ ft :: after) =
      some (precOf p, ft :: after) := by
    rcases h.hp with rfl | ⟨ds, rfl, hne, hds⟩
    · unfold ppPrec
      simp only [List.nil_append]
      split
      · rename_i r heq; simp at heq; exact absurd heq.1 f6
      · rfl
    · have hd0 : ∀ c, (ft :: after).head? = some c → isDig c = false := by
        intro c hc; simp at hc; subst hc; exact f1
      obtain ⟨u1, u2⟩ := takeWhile_digits ds (ft :: after) hds hd0
      have hpv' : ¬ digitsVal ds ≥ 2147483648 := by have := hpv ds rfl; omega
      have hstar2 : (ds ++ ft :: after).head? ≠ some '*' := by
        intro e
        rcases head_append_cons ds ft after '*' e with ⟨t, rfl⟩ | ⟨_, hft'⟩
        · simp only [List.all_cons, Bool.and_eq_true] at hds; exact absurd hds.1 (by decide)
        · exact f5 hft'
      unfold ppPrec
      simp only [List.cons_append, hstar2, if_false, u1, u2, hpv', precOf]
  unfold parsePercentDir
  rw [e0]
  simp only [hparen, if_false, hsplit.1, hsplit.2.1, hwidth, hprec]
  have np : ¬ '+' ∈ flagsL := fun hm => by
    rcases h.hflags _ hm with h | h | h <;> exact absurd h (by decide)
  have nh : ¬ '#' ∈ flagsL := fun hm => by
    rcases h.hflags _ hm with h | h | h <;> exact absurd h (by decide)
  simp [ppLenMod, f7, f8, f9, np, nh]

end CyVerif.C18

namespace CyVerif.C18

theorem getLast?_cons_append_singleton (a : Char) (l : List Char) (c : Char) :
    (a :: (l ++ [c])).getLast? = some c := by
  have : a :: (l ++ [c]) = (a :: l) ++ [c] := by simp
  rw [this, List.getLast?_concat]

theorem rest_no_minus (wd p : List Char) (hwd : wd.all isDig = true)
    (hp : p = [] ∨ ∃ ds, p = '.' :: ds ∧ ds ≠ [] ∧ ds.all isDig = true) : (wd ++ p).contains '-' = false := by
  rw [Bool.eq_false_iff]
  intro hc
  have hm := List.contains_iff_mem.mp hc
  rcases List.mem_append.mp hm with h | h
  · have := List.all_eq_true.mp hwd _ h; exact absurd this (by decide)
  · rcases hp with rfl | ⟨ds, rfl, _, hds⟩
    · simp at h
    · simp only [List.mem_cons] at h
      rcases h with h | h
      · exact absurd h (by decide)
      · have := List.all_eq_true.mp hds _ h; exact absurd this (by decide)

theorem rest_dot (wd p : List Char) (hwd : wd.all isDig = true)
    (hp : p = [] ∨ ∃ ds, p = '.' :: ds ∧ ds ≠ [] ∧ ds.all isDig = true) :
    (wd ++ p).contains '.' = !p.isEmpty := by
  rcases hp with rfl | ⟨ds, rfl, _, _⟩
  · simp only [List.append_nil, List.isEmpty_nil, Bool.not_true]
    rw [Bool.eq_false_iff]
    intro hc
    have := List.all_eq_true.mp hwd _ (List.contains_iff_mem.mp hc); exact absurd this (by decide)
  · simp

/-- what the repaired `_build_fstring` emits for a directive of this shape -/
theorem directiveField_shape (st : Bool) (flagsL wd p : List Char) (h : DirShape flagsL wd p) (ft : Char)
    (hft : isConvC ft = true) (i : Nat) :
    directiveField ⟨true, st⟩ ('%' :: (flagsL ++ wd ++ p ++ [ft])) i =
      if inStr ft ['d', 'o', 'x', 'X'] ∧ p ≠ [] then none
      else if inStr ft ['a', 'r', 's'] then
        some (.field i (some ft) ((if wd.isEmpty then [] else [if flagsL.contains '-' then '<' else '>']) ++ (wd ++ p)))
      else
        some (.field i (if ft = 'd' then some 'd' else none)
          ((if flagsL.contains '-' then ['<'] else []) ++ (if flagsL.contains ' ' then [' '] else []) ++
           (if flagsL.contains '0' && !flagsL.contains '-' then ['0'] else []) ++ (wd ++ p) ++ [ft])) := by
  obtain ⟨f1, f2, f3, f4, f5, f6, f7, f8, f9, f10⟩ := isConvC_facts ft hft
  have hnext : ∀ c, (wd ++ p).head? = some c → (fun c => decide (c = '-') || decide (c = '0') || decide (c = ' ')) c = false := by
    intro c hc
    have hc' : (wd ++ p ++ []).head? = some c := by simpa using hc
    rcases h.rest_head [] c hc' with ⟨hd, h0⟩ | rfl | ⟨_, _, ht⟩
    · exact (isDig_facts c hd h0).2.1
    · decide
    · simp at ht
  have hsplit := takeWhile_append_stop (fun c => decide (c = '-') || decide (c = '0') || decide (c = ' ')) flagsL (wd ++ p)
    (fun c hc => (flag3_isPFlag c (h.hflags c hc)).2) hnext
  have ebody : flagsL ++ wd ++ p = flagsL ++ (wd ++ p) := by simp
  have e1 : ('%' :: (flagsL ++ wd ++ p ++ [ft])).getLast?.getD '%' = ft := by
    rw [getLast?_cons_append_singleton]; rfl
  have e2 : (('%' :: (flagsL ++ wd ++ p ++ [ft])).drop 1).dropLast = flagsL ++ (wd ++ p) := by
    simp
  have hd0 : ∀ d ds, wd = d :: ds → isDig d = true := by
    intro d ds e
    have := h.hwd; rw [e] at this; simp only [List.all_cons, Bool.and_eq_true] at this
    exact this.1
  unfold directiveField
  simp only [e1, e2, hsplit.1, hsplit.2.2, rest_no_minus wd p h.hwd h.hp, Bool.false_eq_true, if_false,
    rest_dot wd p h.hwd h.hp]
  by_cases hp : p = []
  · subst hp
    simp only [List.isEmpty_nil, Bool.not_true, Bool.false_eq_true, and_false, if_false, ne_eq, not_true_eq_false]
    by_cases ha : inStr ft ['a', 'r', 's'] = true
    · simp only [ha, if_true]
      cases hwd : wd with
      | nil => simp
      | cons d ds => simp [hd0 d ds hwd]
    · simp only [ha, Bool.false_eq_true, if_false]
  · have hpe : p.isEmpty = false := by cases p <;> simp_all
    simp only [hpe, Bool.not_false, and_true, ne_eq, hp, not_false_eq_true]
    by_cases hd : inStr ft ['d', 'o', 'x', 'X'] = true
    · simp [hd]
    · simp only [hd, Bool.false_eq_true, if_false]
      by_cases ha : inStr ft ['a', 'r', 's'] = true
      · simp only [ha, if_true]
        cases hwd : wd with
        | nil =>
          rcases h.hp with rfl | ⟨ds, rfl, _, _⟩
          · exact absurd rfl hp
          · simp; decide
        | cons d ds => simp [hd0 d ds hwd]
      · simp only [ha, Bool.false_eq_true, if_false]

end CyVerif.C18

namespace CyVerif.C18

def widthOf (wd : List Char) : Option Nat := if wd.isEmpty then none else some (digitsVal wd)

/-- `[width][.precision]` with nothing after it -/
theorem pTail_width_prec (wd p : List Char) (hwd : wd.all isDig = true)
    (hp : p = [] ∨ ∃ ds, p = '.' :: ds ∧ ds ≠ [] ∧ ds.all isDig = true)
    (hw : digitsVal wd ≤ SSIZE_MAX) (hpv : ∀ ds, p = '.' :: ds → digitsVal ds ≤ SSIZE_MAX) :
    pTail (wd ++ p) = some (widthOf wd, 0, precOf p, none) := by
  have hafter : ∀ c, p.head? = some c → isDig c = false := by
    intro c hc
    rcases hp with rfl | ⟨ds, rfl, _, _⟩
    · simp at hc
    · simp at hc; subst hc; decide
  obtain ⟨t1, t2⟩ := takeWhile_digits wd p hwd hafter
  have hw' : ¬ digitsVal wd > SSIZE_MAX := by omega
  unfold pTail
  simp only [t1, t2, hw', if_false]
  rcases hp with rfl | ⟨ds, rfl, hne, hds⟩
  · simp [pFlag, widthOf, precOf]
  · have hd := takeWhile_digits ds [] hds (by simp)
    simp only [List.append_nil] at hd
    have hpv' : ¬ digitsVal ds > SSIZE_MAX := by have := hpv ds rfl; omega
    have hne' : ds.isEmpty = false := by cases ds <;> simp_all
    simp [pFlag_cons, hd.1, hd.2, hne', hpv', widthOf, precOf]

end CyVerif.C18

namespace CyVerif.C18

/-- a text starting with a non-zero digit or a '.' (or empty) passes the sign/z/#/0 phases unchanged -/
theorem phases_plain (s : List Char) (hh : ∀ c, s.head? = some c → (isDig c = true ∧ c ≠ '0') ∨ c = '.') :
    pSign s = (none, s) ∧ pFlag 'z' s = (false, s) ∧ pFlag '#' s = (false, s) ∧ pFlag '0' s = (false, s) ∧
    (∀ c, s.head? = some c → isAlign c = false) := by
  cases s with
  | nil => simp [pSign, pFlag]
  | cons c r =>
    rcases hh c rfl with ⟨hd, h0⟩ | rfl
    · have s0 := isDig_not_sign c hd
      have a0 := isDig_not_align c hd
      have z0 : c ≠ 'z' := isDig_ne c hd 'z' (by decide)
      have n0 : c ≠ '#' := isDig_ne c hd '#' (by decide)
      refine ⟨by simp [pSign_cons, s0], by simp [pFlag_cons, z0], by simp [pFlag_cons, n0], by simp [pFlag_cons, h0], ?_⟩
      intro c' hc'; simp at hc'; subst hc'; exact a0
    · refine ⟨by simp [pSign_cons, isSign], by simp [pFlag_cons], by simp [pFlag_cons], by simp [pFlag_cons], ?_⟩
      intro c' hc'; simp at hc'; subst hc'; decide

theorem wd_p_head (wd p : List Char) (hwd : wd.all isDig = true) (hwd0 : wd.head? ≠ some '0')
    (hp : p = [] ∨ ∃ ds, p = '.' :: ds ∧ ds ≠ [] ∧ ds.all isDig = true) :
    ∀ c, (wd ++ p).head? = some c → (isDig c = true ∧ c ≠ '0') ∨ c = '.' := by
  intro c hc
  cases hw : wd with
  | cons d ds =>
    rw [hw] at hc hwd hwd0; simp at hc; subst hc
    simp only [List.all_cons, Bool.and_eq_true] at hwd
    simp at hwd0
    exact Or.inl ⟨hwd.1, hwd0⟩
  | nil =>
    rw [hw] at hc
    rcases hp with rfl | ⟨ds, rfl, _, _⟩
    · simp at hc
    · simp at hc; exact Or.inr hc.symm

/-- CPython's reading of the string specs the repaired `_build_fstring` emits -/
theorem parseSpec_str (al wd p : List Char) (hal : al = [] ∨ al = ['<'] ∨ al = ['>'])
    (hwd : wd.all isDig = true) (hwd0 : wd.head? ≠ some '0')
    (hp : p = [] ∨ ∃ ds, p = '.' :: ds ∧ ds ≠ [] ∧ ds.all isDig = true)
    (hw : digitsVal wd ≤ SSIZE_MAX) (hpv : ∀ ds, p = '.' :: ds → digitsVal ds ≤ SSIZE_MAX) :
    parseSpec (al ++ (wd ++ p)) 's' '<' =
      some ⟨' ', al.head?.getD '<', none, false, false, widthOf wd, 0, precOf p, 's'⟩ := by
  have hh := wd_p_head wd p hwd hwd0 hp
  obtain ⟨q1, q2, q3, q4, q5⟩ := phases_plain (wd ++ p) hh
  have hpt := pTail_width_prec wd p hwd hp hw hpv
  rcases hal with rfl | rfl | rfl
  · simp only [List.nil_append, List.head?_nil, Option.getD_none]
    unfold parseSpec
    have hfa : pFillAlign (wd ++ p) '<' = (' ', '<', false, false, wd ++ p) := by
      cases hs : wd ++ p with
      | nil => rfl
      | cons c r =>
        have hc := q5 c (by rw [hs]; rfl)
        have hnext : ∀ c', r.head? = some c' → isAlign c' = false := by
          intro c' hc'
          -- the second character is a digit or a '.'
          cases hw' : wd with
          | cons d ds =>
            rw [hw'] at hs hwd; simp at hs
            simp only [List.all_cons, Bool.and_eq_true] at hwd
            cases hds : ds with
            | cons d2 ds2 =>
              rw [hds] at hs hwd; simp at hs; rw [← hs.2] at hc'; simp at hc'; subst hc'
              simp only [List.all_cons, Bool.and_eq_true] at hwd
              exact isDig_not_align _ hwd.2.1
            | nil =>
              rw [hds] at hs; simp at hs; rw [← hs.2] at hc'
              rcases hp with rfl | ⟨dd, rfl, _, _⟩
              · simp at hc'
              · simp at hc'; subst hc'; decide
          | nil =>
            rw [hw'] at hs
            rcases hp with rfl | ⟨dd, rfl, hne, hdd⟩
            · simp at hs
            · simp at hs; rw [← hs.2] at hc'
              cases dd with
              | nil => exact absurd rfl hne
              | cons e es =>
                simp at hc'; subst hc'
                simp only [List.all_cons, Bool.and_eq_true] at hdd
                exact isDig_not_align _ hdd.1
        rw [pFillAlign_of_next c r '<' hnext, hc]; rfl
    simp [hfa, q1, q2, q3, q4, hpt]
  · simp only [List.cons_append, List.nil_append, List.head?_cons, Option.getD_some]
    unfold parseSpec
    rw [pFillAlign_of_next '<' (wd ++ p) '<' q5]
    have : isAlign '<' = true := by decide
    simp [this, q1, q2, q3, q4, hpt]
  · simp only [List.cons_append, List.nil_append, List.head?_cons, Option.getD_some]
    unfold parseSpec
    rw [pFillAlign_of_next '>' (wd ++ p) '<' q5]
    have : isAlign '>' = true := by decide
    simp [this, q1, q2, q3, q4, hpt]

end CyVerif.C18

namespace CyVerif.C18

theorem pFillAlign_noalign (s : List Char) (dA : Char) (h : ∀ c ∈ s, isAlign c = false) :
    pFillAlign s dA = (' ', dA, false, false, s) := by
  cases s with
  | nil => rfl
  | cons a r =>
    cases r with
    | nil => simp [pFillAlign, h a (by simp)]
    | cons b r' => simp [pFillAlign, h a (by simp), h b (by simp)]

/-- CPython's reading of the integer specs the repaired `_build_fstring` emits:
`[<][ ][0]width type` -/
theorem parseSpec_pct_int (L S Z : Bool) (hLZ : L = true → Z = false) (wd : List Char)
    (hwd : wd.all isDig = true) (hwd0 : wd.head? ≠ some '0') (ft : Char) (hft : isTypeC ft = true)
    (hw : digitsVal wd ≤ SSIZE_MAX) :
    parseSpec ((if L then ['<'] else []) ++ (if S then [' '] else []) ++ (if Z then ['0'] else []) ++ wd ++ [ft]) 'd' '>' =
      some ⟨if Z then '0' else ' ', if L then '<' else if Z then '=' else '>', if S then some ' ' else none,
            false, false, widthOf wd, 0, none, ft⟩ := by
  obtain ⟨g1, g2, g3, g4, g5, g6, g7, g8, g9⟩ := isTypeC_facts ft hft
  have hpt := pTail_digits wd [ft] hwd (Or.inr ⟨ft, rfl, hft⟩) hw
  simp only [List.head?_cons] at hpt
  -- T = wd ++ [ft] starts with a non-zero digit or the type character
  have hT : ∀ c, (wd ++ [ft]).head? = some c →
      isAlign c = false ∧ isSign c = false ∧ c ≠ 'z' ∧ c ≠ '#' ∧ c ≠ '0' := by
    intro c hc
    cases hw' : wd with
    | cons d ds =>
      rw [hw'] at hc hwd hwd0; simp at hc; subst hc
      simp only [List.all_cons, Bool.and_eq_true] at hwd
      simp at hwd0
      exact ⟨isDig_not_align _ hwd.1, isDig_not_sign _ hwd.1, isDig_ne _ hwd.1 'z' (by decide),
        isDig_ne _ hwd.1 '#' (by decide), hwd0⟩
    | nil => rw [hw'] at hc; simp at hc; subst hc; exact ⟨g1, g2, g4, g5, g6⟩
  have hTne : ∃ c r, wd ++ [ft] = c :: r := by
    cases wd with
    | nil => exact ⟨ft, [], rfl⟩
    | cons d ds => exact ⟨d, ds ++ [ft], rfl⟩
  obtain ⟨c, r, hcr⟩ := hTne
  obtain ⟨t1, t2, t3, t4, t5⟩ := hT c (by rw [hcr]; rfl)
  have hTall : ∀ x ∈ wd ++ [ft], isAlign x = false := by
    intro x hx
    rcases List.mem_append.mp hx with h | h
    · exact isDig_not_align x (List.all_eq_true.mp hwd x h)
    · simp at h; subst h; exact g1
  have e : ∀ (pre : List Char), pre ++ wd ++ [ft] = pre ++ (wd ++ [ft]) := by intro pre; simp
  have hsp : isAlign ' ' = false := by decide
  have hz : isAlign '0' = false := by decide
  have hss : isSign ' ' = true := by decide
  have hzs : isSign '0' = false := by decide
  have hlt : isAlign '<' = true := by decide
  cases L <;> cases S <;> cases Z <;>
    simp only [Bool.false_eq_true, if_false, if_true, List.nil_append, List.cons_append]
  · -- plain
    unfold parseSpec
    rw [pFillAlign_noalign _ '>' hTall, hcr]
    simp only [pSign_cons, t2, Bool.false_eq_true, if_false, pFlag_cons, t3, t4, t5]
    rw [← hcr, hpt]; simp [widthOf]
  · -- 0
    unfold parseSpec
    rw [pFillAlign_noalign _ '>' (by intro x hx; simp only [List.mem_cons] at hx; rcases hx with rfl | hx; exact hz; exact hTall x hx)]
    have z1 : ('0' : Char) ≠ 'z' := by decide
    have z2 : ('0' : Char) ≠ '#' := by decide
    simp only [pSign_cons, hzs, Bool.false_eq_true, if_false, pFlag_cons, z1, z2, if_true]
    simp [hpt, widthOf]
  · -- space
    unfold parseSpec
    rw [pFillAlign_noalign _ '>' (by intro x hx; simp only [List.mem_cons] at hx; rcases hx with rfl | hx; exact hsp; exact hTall x hx)]
    simp only [pSign_cons, hss, if_true, hcr, pFlag_cons, t3, t4, t5, Bool.false_eq_true, if_false]
    rw [← hcr, hpt]; simp [widthOf]
  · -- space 0
    unfold parseSpec
    rw [pFillAlign_noalign _ '>' (by
      intro x hx; simp only [List.mem_cons] at hx
      rcases hx with rfl | rfl | hx; exact hsp; exact hz; exact hTall x hx)]
    have z1 : ('0' : Char) ≠ 'z' := by decide
    have z2 : ('0' : Char) ≠ '#' := by decide
    simp only [pSign_cons, hss, if_true, pFlag_cons, z1, z2, if_false]
    simp [hpt, widthOf]
  · -- <
    unfold parseSpec
    rw [pFillAlign_of_next '<' (wd ++ [ft]) '>' (fun x hx => (hT x hx).1)]
    simp only [hlt, if_true, hcr, pSign_cons, t2, Bool.false_eq_true, if_false, pFlag_cons, t3, t4, t5]
    rw [← hcr, hpt]; simp [widthOf]
  · exact absurd (hLZ rfl) (by decide)
  · -- < space
    unfold parseSpec
    rw [pFillAlign_of_next '<' (' ' :: (wd ++ [ft])) '>' (by intro x hx; simp at hx; subst hx; exact hsp)]
    simp only [hlt, if_true, pSign_cons, hss, hcr, pFlag_cons, t3, t4, t5, Bool.false_eq_true, if_false]
    rw [← hcr, hpt]; simp [widthOf]
  · exact absurd (hLZ rfl) (by decide)

end CyVerif.C18

import CyVerif.Lemmas.C49Roots2
/-! Simulation of `insert` under the tree-ness guard. -/
namespace CyVerif.C49
open Forest

theorem tag_unique {T : List (Nat × Option Nat)} (hnd : (T.map (·.1)).Nodup) {b : Nat}
    {x y : Option Nat} (hx : (b, x) ∈ T) (hy : (b, y) ∈ T) : x = y := by
  induction T with
  | nil => cases hx
  | cons a r ih =>
    rw [List.map_cons, List.nodup_cons] at hnd
    rcases List.mem_cons.1 hx with hx | hx <;> rcases List.mem_cons.1 hy with hy | hy
    · rw [← hx] at hy; exact (Prod.mk.inj hy).2.symm
    · exact absurd (List.mem_map.2 ⟨_, hy, by rw [← hx]⟩) hnd.1
    · exact absurd (List.mem_map.2 ⟨_, hx, by rw [← hy]⟩) hnd.1
    · exact ih hnd.2 hx hy

/-- `insert b t` where `t` is a stand-alone tree that does not contain `b` -/
theorem step_insert {σ : St} {sp : Spec} {F : Forest} (h : Sim σ sp F) {k b t it : Nat}
    (hk : σ.handles[k]? = some b) (ht : σ.handles[t]? = some it)
    (hroot : t ∈ sp.roots) (htk : t ≠ k) (hout : Item.cl k ∉ region t sp.doc) :
    ∃ F', Sim ⟨addChildH (commitH σ.heap b) b it, σ.handles⟩
      ⟨insBefore (Item.cl k) (Item.op t :: region t sp.doc ++ [Item.cl t]) (cut t sp.doc), sp.n,
        sp.roots.filter (· ≠ t)⟩ F' := by
  obtain ⟨F1, kids1, h1, hf1⟩ := step_commit h hk
  generalize commitH σ.heap b = H1 at h1 ⊢
  have hk1 : (⟨H1, σ.handles⟩ : St).handles[k]? = some b := hk
  -- the root node of `t`
  obtain ⟨id, hid⟩ := Forest.rootTag_of_rootName (h1.roots ▸ hroot)
  have : id = it := by
    have := h1.t2h t id (Forest.rootTags_sub_tags hid)
    simp only at this
    rw [ht] at this
    exact (Option.some.inj this).symm
  subst this
  have hperm := Forest.tags_split hid
  obtain ⟨hdocR, hdocT⟩ := Forest.doc_removeRoot F1 hid h1.ids h1.names
  rw [h1.doc] at hdocR hdocT
  have htagF : (b, some k) ∈ F1.tags := h1.h2t k b hk
  -- the guard keeps `b` outside the inserted tree
  have hbT : b ∉ (F1.getRoot id).ids := by
    intro hb
    obtain ⟨⟨b', nm⟩, hmem, hb'⟩ := List.mem_map.1 hb
    simp only at hb'
    subst hb'
    have hF : (b', nm) ∈ F1.tags := hperm.mem_iff.2 (List.mem_append_right _ hmem)
    have : nm = some k := tag_unique h1.ids hF htagF
    subst this
    have hcl := Forest.cl_mem_doc_of_tag hmem
    rw [hdocT] at hcl
    rcases List.mem_cons.1 hcl with e | hcl
    · cases e
    · rcases List.mem_append.1 hcl with hcl | hcl
      · exact hout hcl
      · have e := List.mem_singleton.1 hcl
        injection e with e
        exact htk e.symm
  have htagR : (b, some k) ∈ (F1.removeRoot id).tags := by
    rcases List.mem_append.1 (hperm.mem_iff.1 htagF) with hm | hm
    · exact hm
    · exact absurd (Forest.mem_ids_of_tag hm) hbT
  have hfindR : (F1.removeRoot id).find b = some ([], kids1) := by
    rw [Forest.find_removeRoot F1 hbT]; exact hf1
  have hidsRT : (((F1.removeRoot id).tags ++ (F1.getRoot id).tags).map (·.1)).Nodup :=
    ((hperm.map (·.1)).nodup_iff).1 (show (F1.tags.map (·.1)).Nodup from h1.ids)
  have hnamesRT : (((F1.removeRoot id).tags ++ (F1.getRoot id).tags).filterMap (·.2)).Nodup :=
    ((hperm.filterMap (·.2)).nodup_iff).1 (show (F1.tags.filterMap (·.2)).Nodup from h1.names)
  have hidsR : (F1.removeRoot id).ids.Nodup := by
    rw [List.map_append] at hidsRT; exact (List.nodup_append.1 hidsRT).1
  have hnamesR : (F1.removeRoot id).names.Nodup := by
    rw [List.filterMap_append] at hnamesRT; exact (List.nodup_append.1 hnamesRT).1
  obtain ⟨n, hn, hch, hst, hmk, hck, hbk, _⟩ :=
    Cons_find _ (Cons_removeRoot (t := id) h1.cons) hfindR hidsR
  have hlt : b < H1.length := (List.getElem?_eq_some_iff.1 hn).1
  have hH := addChildH_eq (c := id) hn
  have hfr : ∀ i, i ≠ b → ∀ nd, H1[i]? = some nd → (addChildH H1 b id)[i]? = some nd := by
    intro i hi nd hnd
    rw [hH, List.getElem?_set_ne (Ne.symm hi)]; exact hnd
  have frame : ∀ {G : Forest}, b ∉ G.ids → Cons H1 G → Cons (addChildH H1 b id) G := fun hb hG =>
    Cons_frame (fun i hi nd hnd => hfr i (fun e => hb (e ▸ hi)) nd hnd) hG
  refine ⟨(F1.removeRoot id).modify b (fun fs kids => (fs, kids.append (F1.getRoot id))), ?_⟩
  rw [← hdocR, List.cons_append, ← hdocT]
  refine Sim_modify (new := (F1.getRoot id).tags) (Cons_removeRoot h1.cons) hidsR hnamesR
    (Forest.NE_removeRoot h1.ne) ?_ hfindR htagR ?_ ?_ ?_ hfr ?_ ?_ hidsRT hnamesRT h1.n ?_ ?_
  · rw [Forest.rootNames_removeRoot F1 hid h1.ids h1.names, h1.roots]
  · simp [Forest.doc_append, fragItems]
  · simp [Forest.tags_append]
  · intro fs kids hfs hkids
    exact ⟨hfs, Forest.NE_append hkids (Forest.NE_getRoot h1.ne)⟩
  · refine ⟨{ n with children := n.children ++ [id] }, ?_, ?_, hst, hmk⟩
    · rw [hH]; exact List.getElem?_set_self hlt
    · simp [Forest.rootIds_append, Forest.rootIds_getRoot hid, hch]
  · exact Cons_append (frame hbk hck) (frame hbT (Cons_getRoot h1.cons))
  · intro k' b' hk'; exact hperm.mem_iff.1 (h1.h2t k' b' hk')
  · intro k' b' hk'; exact h1.t2h k' b' (hperm.mem_iff.2 hk')

end CyVerif.C49

import CyVerif.Lemmas.C50TMapE
/-! TransitionMap, part F: `addWith` on ranges and on special events. -/
namespace CyVerif.C50

theorem TMap.addWith_range (m : TMap) (h : m.WF) (f : SSet → SSet) (hf : ∀ s, Sorted s → Sorted (f s))
    (c0 c1 : Int) (h0 : -maxint ≤ c0) (h0' : c0 ≤ maxint) (h1 : -maxint ≤ c1) (h1' : c1 ≤ maxint) :
    (m.addWith (.range c0 c1) f).WF ∧
    (∀ c, c < maxint → (m.addWith (.range c0 c1) f).lookup c =
      if c0 ≤ c ∧ c < c1 then f (m.lookup c) else m.lookup c) ∧
    (m.addWith (.range c0 c1) f).special = m.special := by
  have s1 := m.split_spec h c0 h0 h0'
  have s2 := (m.split c0).1.split_spec s1.wf c1 h1 h1'
  simp only [TMap.addWith]
  generalize m.split c0 = r1 at s1 s2
  generalize r1.1.split c1 = r2 at s2
  have hlook : ∀ c, lookupEnts r2.1.ents c [] = m.lookup c := by
    intro c; rw [s2.look, s1.look]; rfl
  by_cases hlt : c0 < c1
  · have hi : r2.1.codeAt r1.2 = c0 := by
      rw [s2.keep r1.2 s1.idx (by rw [s1.atIdx]; omega), s1.atIdx]
    have hil : r1.2 ≤ r2.1.ents.length := Nat.le_trans s1.idx s2.len
    rw [updRange_eq_map r2.1 s2.wf.incr f hil s2.idx hi s2.atIdx]
    refine ⟨r2.1.wf_map s2.wf f hf c0 c1, ?_, by rw [s2.special, s1.special]⟩
    intro c hc
    simp only [TMap.lookup]
    have hsorted : (r2.1.ents.map (·.1)).Pairwise (· < ·) := by
      have := s2.wf.incr
      unfold TMap.allCodes at this
      exact (List.pairwise_append.1 this).1
    have := lookup_map_range hsorted f c0 c1 c
      (by
        intro _
        have hne : r1.2 ≠ r2.1.ents.length := by
          intro he
          rw [he, r2.1.codeAt_len, s2.wf.last] at hi
          omega
        rw [← hi]
        exact r2.1.entry_at (by omega))
      (by
        intro _
        by_cases hj : r2.2 < r2.1.ents.length
        · left; rw [← s2.atIdx]; exact r2.1.entry_at hj
        · right
          have : r2.2 = r2.1.ents.length := by have := s2.idx; omega
          have h' := s2.atIdx
          rw [this, r2.1.codeAt_len, s2.wf.last] at h'
          omega)
    unfold rangeUpd at this
    rw [this, hlook]
    rfl
  · have hj : r2.2 ≤ r1.2 := s2.low r1.2 s1.idx (by rw [s1.atIdx]; omega)
    rw [updRange_noop f hj]
    refine ⟨s2.wf, ?_, by rw [s2.special, s1.special]⟩
    intro c _
    have : ¬ (c0 ≤ c ∧ c < c1) := by omega
    simp only [this, if_false, TMap.lookup]
    exact hlook c

/-! ### special events -/

theorem getSpecial_upd (f : SSet → SSet) (k k' : Sp) (sp : List (Sp × SSet)) :
    (getSpecial (updSpecial f k sp) k').getD [] =
      if k' = k then f ((getSpecial sp k).getD []) else (getSpecial sp k').getD [] := by
  induction sp with
  | nil =>
    by_cases h : k' = k
    · subst h; simp [updSpecial, getSpecial]
    · have : ¬ k = k' := fun e => h e.symm
      simp [updSpecial, getSpecial, h, this]
  | cons p ps ih =>
    obtain ⟨a, s⟩ := p
    simp only [updSpecial]
    by_cases hak : a = k
    · subst hak
      simp only [if_true, getSpecial]
      by_cases h : k' = a
      · subst h; simp
      · have : ¬ a = k' := fun e => h e.symm
        simp [h, this]
    · simp only [hak, if_false, getSpecial]
      by_cases hak' : a = k'
      · subst hak'
        simp [hak]
      · simp only [hak', if_false]
        exact ih

theorem updSpecial_sorted (f : SSet → SSet) (hf : ∀ s, Sorted s → Sorted (f s)) (k : Sp) (sp : List (Sp × SSet))
    (h : ∀ p ∈ sp, Sorted p.2) : ∀ p ∈ updSpecial f k sp, Sorted p.2 := by
  induction sp with
  | nil =>
    intro p hp
    simp only [updSpecial, List.mem_singleton] at hp
    subst hp
    exact hf _ sorted_nil
  | cons q qs ih =>
    obtain ⟨a, s⟩ := q
    intro p hp
    simp only [updSpecial] at hp
    split at hp
    · rcases List.mem_cons.1 hp with hp | hp
      · subst hp; exact hf _ (h (a, s) (by simp))
      · exact h p (by simp [hp])
    · rcases List.mem_cons.1 hp with hp | hp
      · subst hp; exact h (a, s) (by simp)
      · exact ih (fun p hp => h p (by simp [hp])) p hp

theorem updSpecial_keys (f : SSet → SSet) (k : Sp) (sp : List (Sp × SSet)) (a : Sp) :
    a ∈ (updSpecial f k sp).map (·.1) ↔ a = k ∨ a ∈ sp.map (·.1) := by
  induction sp with
  | nil => simp [updSpecial]
  | cons q qs ih =>
    obtain ⟨b, s⟩ := q
    simp only [updSpecial]
    split
    · rename_i hb; subst hb
      simp only [List.map_cons, List.mem_cons]
      constructor
      · rintro (h | h) <;> simp [h]
      · rintro (h | h | h) <;> simp [h]
    · simp only [List.map_cons, List.mem_cons, ih]
      constructor
      · rintro (h | h | h) <;> simp [h]
      · rintro (h | h | h) <;> simp [h]

theorem updSpecial_nodup (f : SSet → SSet) (k : Sp) (sp : List (Sp × SSet))
    (h : (sp.map (·.1)).Nodup) : ((updSpecial f k sp).map (·.1)).Nodup := by
  induction sp with
  | nil => simp [updSpecial]
  | cons q qs ih =>
    obtain ⟨b, s⟩ := q
    simp only [List.map_cons, List.nodup_cons] at h
    simp only [updSpecial]
    split
    · simp only [List.map_cons, List.nodup_cons]; exact h
    · rename_i hb
      simp only [List.map_cons, List.nodup_cons]
      refine ⟨?_, ih h.2⟩
      intro hmem
      rcases (updSpecial_keys f k qs b).1 hmem with h' | h'
      · exact hb h'
      · exact h.1 h'

theorem TMap.addWith_sp (m : TMap) (h : m.WF) (f : SSet → SSet) (hf : ∀ s, Sorted s → Sorted (f s)) (k : Sp) :
    (m.addWith (.sp k) f).WF ∧
    (∀ c, (m.addWith (.sp k) f).lookup c = m.lookup c) ∧
    (∀ k', (m.addWith (.sp k) f).lookupSp k' = if k' = k then f (m.lookupSp k) else m.lookupSp k') := by
  refine ⟨⟨h.first, h.ne, h.last, h.incr, h.sets, ?_, ?_⟩, fun _ => rfl, ?_⟩
  · exact updSpecial_sorted f hf k m.special h.spSets
  · exact updSpecial_nodup f k m.special h.spKeys
  · intro k'
    simp only [TMap.addWith, TMap.lookupSp]
    exact getSpecial_upd f k k' m.special

end CyVerif.C50

import CyVerif.Model.C25Sig
/-! Helper lemmas for the embedded-signature item list of C25 (signature part). -/
namespace CyVerif.C25Sig

def toItem (p : Param) : SigItem := .param p.name p.dflt

theorem pyInsert_eq_insertIdx {α} (l : List α) (i : Nat) (x : α) (h : i ≤ l.length) :
    pyInsert l i x = l.insertIdx i x := by
  induction l generalizing i with
  | nil => cases i <;> simp_all [pyInsert]
  | cons a as ih =>
    cases i with
    | zero => simp [pyInsert]
    | succ i =>
      have := ih i (by simpa using h)
      simp only [pyInsert, List.take_succ_cons, List.drop_succ_cons, List.cons_append,
        List.insertIdx_succ_cons] at this ⊢
      rw [this]

theorem pyInsert_past_end {α} (l : List α) (i : Nat) (x : α) (h : l.length ≤ i) :
    pyInsert l i x = l ++ [x] := by
  simp [pyInsert, List.take_of_length_le h, List.drop_eq_nil_of_le h]

/-- inserting at the seam of two lists -/
theorem pyInsert_seam {α} (a b : List α) (x : α) : pyInsert (a ++ b) a.length x = a ++ x :: b := by
  simp [pyInsert]

theorem pyInsert_A {α} (P N K : List α) (x : α) :
    pyInsert (P ++ (N ++ K)) (N.length + P.length) x = P ++ (N ++ x :: K) := by
  have := pyInsert_seam (P ++ N) K x
  rw [← List.append_assoc, ← List.append_assoc, ← this]; congr 1; simp; omega

theorem pyInsert_B {α} (P R : List α) (x : α) :
    pyInsert (P ++ R) P.length x = P ++ x :: R := pyInsert_seam P R x

theorem pyInsert_ite {α} (c : Prop) [Decidable c] (a b : List α) (n : Nat) (x : α) :
    pyInsert (if c then a else b) n x = if c then pyInsert a n x else pyInsert b n x := by
  split <;> rfl

theorem spanParams_map (ps : List Param) (r : List SigItem) :
    spanParams (ps.map toItem ++ r) = (ps ++ (spanParams r).1, (spanParams r).2) := by
  induction ps with
  | nil => simp
  | cons p ps ih => simp only [List.map_cons, List.cons_append, toItem, spanParams] at ih ⊢; rw [ih]

theorem spanParams_nil : spanParams [] = ([], []) := by simp [spanParams]
theorem spanParams_slash (r) : spanParams (.slash :: r) = ([], .slash :: r) := by simp [spanParams]
theorem spanParams_star (v r) : spanParams (.star v :: r) = ([], .star v :: r) := by simp [spanParams]
theorem spanParams_dstar (k r) : spanParams (.dstar k :: r) = ([], .dstar k :: r) := by simp [spanParams]

end CyVerif.C25Sig

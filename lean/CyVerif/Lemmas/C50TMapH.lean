import CyVerif.Lemmas.C50TMapG
/-! TransitionMap, part H: arbitrary sequences of `add` / `add_set` refine a function `code ↦ set`. -/
namespace CyVerif.C50

/-- one call of `add(event, new_state)` or `add_set(event, new_set)` -/
inductive TOp where
  | add (ev : Ev) (s : Nat)
  | addSet (ev : Ev) (t : SSet)

def TOp.apply (m : TMap) : TOp → TMap
  | .add ev s => m.add ev s
  | .addSet ev t => m.addSet ev t

/-- the map after a sequence of operations on a new `TransitionMap()` -/
def runOps (ops : List TOp) : TMap := ops.foldl TOp.apply TMap.empty

/-- event codes lie between the sentinels (what `split` requires) -/
def Ev.InBounds : Ev → Prop
  | .range c0 c1 => -maxint ≤ c0 ∧ c0 ≤ maxint ∧ -maxint ≤ c1 ∧ c1 ≤ maxint
  | .sp _ => True

def TOp.InBounds : TOp → Prop
  | .add ev _ => ev.InBounds
  | .addSet ev _ => ev.InBounds

/-- the set update an operation performs -/
def TOp.upd : TOp → SSet → SSet
  | .add _ s => sins s
  | .addSet _ t => fun a => sunion a t

def TOp.ev : TOp → Ev
  | .add ev _ => ev
  | .addSet ev _ => ev

/-- specification: the state set of character code `c` after the operations -/
def specChr (ops : List TOp) (c : Int) (init : SSet) : SSet :=
  ops.foldl (fun acc op => match op.ev with
    | .range c0 c1 => if c0 ≤ c ∧ c < c1 then op.upd acc else acc
    | .sp _ => acc) init

/-- specification: the state set of a special event after the operations -/
def specSp (ops : List TOp) (k : Sp) (init : SSet) : SSet :=
  ops.foldl (fun acc op => match op.ev with
    | .range _ _ => acc
    | .sp k' => if k = k' then op.upd acc else acc) init

theorem TOp.upd_sorted (op : TOp) (s : SSet) (h : Sorted s) : Sorted (op.upd s) := by
  cases op with
  | add _ x => exact sins_sorted h
  | addSet _ t => exact sunion_sorted h

theorem TOp.apply_eq (m : TMap) (op : TOp) : op.apply m = m.addWith op.ev op.upd := by
  cases op <;> rfl

theorem runOps_from (ops : List TOp) : ∀ (m : TMap), m.WF → (∀ op ∈ ops, op.InBounds) →
    (ops.foldl TOp.apply m).WF ∧
    (∀ c, c < maxint → (ops.foldl TOp.apply m).lookup c = specChr ops c (m.lookup c)) ∧
    (∀ k, (ops.foldl TOp.apply m).lookupSp k = specSp ops k (m.lookupSp k)) := by
  induction ops with
  | nil => intro m h _; exact ⟨h, fun _ _ => rfl, fun _ => rfl⟩
  | cons op ops ih =>
    intro m h hb
    have hop : op.InBounds := hb op (by simp)
    simp only [List.foldl_cons, specChr, specSp]
    rw [TOp.apply_eq]
    cases hev : op.ev with
    | range c0 c1 =>
      have hbd : -maxint ≤ c0 ∧ c0 ≤ maxint ∧ -maxint ≤ c1 ∧ c1 ≤ maxint := by
        cases op <;> simp only [TOp.InBounds, TOp.ev] at hop hev <;> rw [hev] at hop <;> exact hop
      obtain ⟨w1, w2, w3⟩ := m.addWith_range h op.upd (TOp.upd_sorted op) c0 c1 hbd.1 hbd.2.1 hbd.2.2.1 hbd.2.2.2
      obtain ⟨r1, r2, r3⟩ := ih _ w1 (fun o ho => hb o (by simp [ho]))
      refine ⟨r1, fun c hc => ?_, fun k => ?_⟩
      · rw [r2 c hc, w2 c hc]; rfl
      · rw [r3 k]
        have : (m.addWith (.range c0 c1) op.upd).lookupSp k = m.lookupSp k := by
          unfold TMap.lookupSp; rw [w3]
        rw [this]; rfl
    | sp k0 =>
      obtain ⟨w1, w2, w3⟩ := m.addWith_sp h op.upd (TOp.upd_sorted op) k0
      obtain ⟨r1, r2, r3⟩ := ih _ w1 (fun o ho => hb o (by simp [ho]))
      refine ⟨r1, fun c hc => ?_, fun k => ?_⟩
      · rw [r2 c hc, w2 c]; rfl
      · rw [r3 k, w3 k]
        by_cases hk : k = k0
        · subst hk; simp [specSp]
        · simp [specSp, hk]

end CyVerif.C50

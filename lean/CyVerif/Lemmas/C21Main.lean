import CyVerif.Lemmas.C21Sound
import CyVerif.Lemmas.C21Analysis
import CyVerif.Lemmas.C21Term
/-! Proofs of the main C21 theorems (statements repeated in `Props/C21.lean`). -/
namespace CyVerif.C21

theorem live_def_in_state_proof {g : Graph} {sol : Sol} {fl : Flags} (h : validate g sol fl = true)
    {b : Nat} {tr0 : List Ev} (hr : Reach g b tr0) (k : Nat) {v : Nat} (hv : v < g.nvars)
    (hb : b ≠ g.entry) :
    last g v (tr0 ++ (g.ev b).take k) ∈ run g (sol.i b) ((g.ev b).take k) := by
  have hV := valid_of h
  obtain ⟨h1, _, h3⟩ := reach_inv hV hr
  unfold last
  rw [lastFrom_append]
  exact run_last hV.wf hv _ (fun e he => ev_sub_allEv (List.mem_of_mem_take he)) _ _
    (lastFrom_mem_mask h1 (ub_mem_mask g v)) (h3 hb v hv)

theorem validate_sound_proof {g : Graph} {sol : Sol} {fl : Flags} (h : validate g sol fl = true)
    {tr : List Ev} {e : Ev} (hat : At g tr e) (init : Nat → Bool) :
    (fl.maybe e.node = false → bound init e.var tr = true) ∧
    (fl.isNull e.node = true → g.isClo e.var = false ∧
      ((∀ v, g.isClo v = false → init v = false) → bound init e.var tr = false)) := by
  obtain ⟨b, tr0, k, hr, hk, rfl⟩ := hat
  have hV := valid_of h
  obtain ⟨h1, h2, _⟩ := reach_inv hV hr
  have hmem : e ∈ g.ev b := List.mem_of_getElem? hk
  have hall := ev_sub_allEv hmem
  have hvar := hV.wf.var_lt e hall
  have hbe : b ≠ g.entry := by
    intro hbe
    rw [hbe, hV.entry_empty] at hmem
    cases hmem
  have hblt : b < g.blocks.length := by
    apply Classical.byContradiction
    intro hnot
    unfold Graph.ev at hmem
    rw [List.getD_eq_getElem?_getD, List.getElem?_eq_none (by omega)] at hmem
    cases hmem
  have hlive := live_def_in_state_proof h hr k hvar hbe
  have hok := flagsOk_at _ _ (hV.flags b hblt hbe) k e hk
  simp only [evOk, Bool.and_eq_true, Bool.or_eq_true, Bool.not_eq_true', List.contains_eq_mem,
    decide_eq_false_iff_not, List.all_eq_true, beq_iff_eq] at hok
  obtain ⟨hm, hn⟩ := hok
  constructor
  · intro hf
    have hnot : g.ub e.var ∉ run g (sol.i b) ((g.ev b).take k) := by
      rcases hm with hm | hm
      · exact hm
      · rw [hf] at hm; cases hm
    apply bound_of_last_ne g e.var _ (g.ub e.var) (init e.var) (fun hne => absurd rfl hne)
    intro heq
    exact hnot (heq ▸ hlive)
  · intro hf
    rcases hn with hn | ⟨hc, hn⟩
    · rw [hf] at hn; cases hn
    · refine ⟨hc, fun hinit => ?_⟩
      have hmask : last g e.var (tr0 ++ (g.ev b).take k) ∈ g.mask e.var :=
        lastFrom_mem_mask (fun x hx => by
          rcases List.mem_append.mp hx with hx | hx
          · exact h1 x hx
          · exact ev_sub_allEv (List.mem_of_mem_take hx)) (ub_mem_mask g e.var)
      have heq : last g e.var (tr0 ++ (g.ev b).take k) = g.ub e.var := by
        rcases hn _ hlive with hn | hn
        · exact absurd hmask hn
        · exact hn
      apply unbound_of_last_eq g e.var _ ?_ (g.ub e.var) (init e.var) (fun _ => hinit _ hc) heq
      intro w d n hx
      apply hV.wf.assign_ne w d n
      rcases List.mem_append.mp hx with hx | hx
      · exact h1 _ hx
      · exact ev_sub_allEv (List.mem_of_mem_take hx)

theorem analysis_validates_proof {g : Graph} {nn : Nat} {order : List Nat} {fuel : Nat} {sol : Sol}
    (hg : graphOk g nn = true)
    (hcov : ∀ b, b < g.blocks.length → b ≠ g.entry → b ∈ order) (hne : g.entry ∉ order)
    (hs : solve g order fuel = some sol) : validate g sol (flagsOf g sol nn) = true := by
  simp only [graphOk, Bool.and_eq_true] at hg
  obtain ⟨⟨hwfg, hent⟩, hnoin⟩ := hg
  obtain ⟨hvar, hnode, _, _, hedge, helt⟩ := wfg_of hwfg
  obtain ⟨s0, hl0, hsw⟩ := solveLoop_some hne fuel _ _ (initSol_loopInv helt) hs
  have hbase : SweepInv g s0 s0 [] :=
    ⟨hl0.len_i, hl0.len_o, fun _ _ => Iff.rfl, fun b hb => absurd hb (by simp)⟩
  have hfold : order.foldl (visit g) (s0, false) = (sol, false) := hsw
  have hinv := sweep_inv order s0 false [] hbase (by rw [hfold])
  rw [hfold] at hinv
  have hloop := foldl_loopInv order hne (s0, false) hl0
  rw [hfold] at hloop
  have hdone : ∀ b, b < g.blocks.length → b ≠ g.entry → b ∈ order.reverse ++ [] := by
    intro b hb hbe; simpa using hcov b hb hbe
  unfold validate
  simp only [Bool.and_eq_true]
  refine ⟨⟨⟨⟨⟨?_, hent⟩, hnoin⟩, ?_⟩, ?_⟩, ?_⟩
  · simp only [wf, Bool.and_eq_true, beq_iff_eq]
    refine ⟨⟨?_, hinv.len_i⟩, hinv.len_o⟩
    simpa [flagsOf] using hwfg
  · rw [hloop.entry]; exact sub_iff.mpr (fun x hx => hx)
  · simp only [List.all_eq_true, Prod.forall, sub_iff]
    intro p c hpc x hx
    have hc := (hedge p c hpc).2
    have hce : c ≠ g.entry := by
      simp only [List.all_eq_true, bne_iff_ne, ne_eq, Prod.forall] at hnoin
      exact hnoin p c hpc
    have hp : p ∈ parents g c := by
      simp only [parents, List.mem_map, List.mem_filter, beq_iff_eq]
      exact ⟨(p, c), ⟨hpc, rfl⟩, rfl⟩
    exact (hinv.dn c (hdone c hc hce) hc).1 p hp x ((hinv.eq p x).mp hx)
  · simp only [List.all_eq_true, List.mem_range, Bool.or_eq_true, beq_iff_eq, Bool.and_eq_true, sub_iff]
    intro b hb
    by_cases hbe : b = g.entry
    · exact Or.inl hbe
    · right
      constructor
      · apply flagsOk_of_pre
        intro q hq
        exact evOk_flagsOf hb hbe hq (hnode _ (ev_sub_allEv (preStates_snd_mem hq)))
      · intro x hx
        rw [(hinv.dn b (hdone b hb hbe) hb).2]
        exact run_sub_transfer g _ (fun e he => ev_sub_allEv he) _ x hx

theorem solve_terminates_proof {g : Graph} {nn : Nat} {order : List Nat} (hg : graphOk g nn = true)
    (hord : ∀ b ∈ order, b < g.blocks.length ∧ b ≠ g.entry) {fuel : Nat}
    (hf : g.blocks.length * (allBits g).length < fuel) : ∃ sol, solve g order fuel = some sol := by
  simp only [graphOk, Bool.and_eq_true] at hg
  obtain ⟨hvar, _⟩ := wfg_of hg.1.1
  apply solveLoop_terminates hvar order hord fuel _ (initSol_tinv hvar)
  have h1 : card (allBits g) ≤ (allBits g).length := card_le_length _
  have h2 : g.blocks.length * card (allBits g) ≤ g.blocks.length * (allBits g).length :=
    Nat.mul_le_mul_left _ h1
  omega

end CyVerif.C21

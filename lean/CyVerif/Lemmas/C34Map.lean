import CyVerif.Lemmas.C34
/-! The type mapper against the documented rule, for a member order without inversions. -/
namespace CyVerif.C34

/-- the sorted member list has no inversion w.r.t. `__lt__` (what a sort of a consistent order yields) -/
def NoInv (below : Ty → Bool) (s : List (Ty × Nat)) : Prop :=
  s.Pairwise (fun a b => lt below b.1 a.1 = false)

/-- The hypotheses under which the generated tests implement the documented rule. Each one excludes a
point where they do not (see the counterexample theorems). -/
structure Nice (ms : List (Ty × Nat)) (v : Val) : Prop where
  /-- every C integer member is a plain signed type (`signed` = 1: not unsigned, not `signed char`) -/
  signed : ∀ p ∈ ms, ∀ r sg sz, p.1 = .cint r sg sz → sg = 1
  /-- sizeof is monotone in the rank within one numeric class (true on every ABI) -/
  mono : ∀ p ∈ ms, ∀ q ∈ ms, p.1.cls = q.1.cls → p.1.rank ≤ q.1.rank → p.1.size ≤ q.1.size
  /-- a bool argument: not both a `bint` member and a C integer member -/
  boolOK : v = .bool → (∃ p ∈ ms, p.1 = .bint) → ∀ q ∈ ms, q.1.isCint = false
  /-- an extension instance: at most one member class among its ancestors -/
  extOK : ∀ mro, v = .inst mro → ∀ p ∈ ms, ∀ q ∈ ms, ∀ c c', p.1 = .ext c → q.1 = .ext c' →
    c ∈ mro → c' ∈ mro → c = c'
  /-- a buffer that matches a memoryview member by numpy dtype/ndim, or passes the trial coercion, is also
  acceptable to that member's argument conversion (native byte order, writable, contiguous where required) -/
  bufOK : ∀ p ∈ ms, (npMatch v p.1 = true ∨ trialOK v p.1 = true) → fromPyOK v p.1 = true
  /-- an instance of a subclass of a builtin type: that builtin type is not a member -/
  subOK : ∀ n, v = .builtin n false → ∀ p ∈ ms, p.1 ≠ .builtin n

theorem first_hit {below : Ty → Bool} {s : List (Ty × Nat)} {P : Ty × Nat → Bool} {p : Ty × Nat}
    (h : s.find? P = some p) (hs : NoInv below s) :
    p ∈ s ∧ P p = true ∧ ∀ q ∈ s, P q = true → q = p ∨ lt below q.1 p.1 = false := by
  obtain ⟨hp, as, bs, rfl, has⟩ := List.find?_eq_some_iff_append.mp h
  refine ⟨by simp, hp, ?_⟩
  intro q hq hPq
  rcases List.mem_append.mp hq with hq | hq
  · have := has q hq; simp [hPq] at this
  · rcases List.mem_cons.mp hq with hq | hq
    · exact Or.inl hq
    · right
      have h2 := (List.pairwise_append.mp hs).2.1
      exact (List.pairwise_cons.mp h2).1 q hq

theorem lt_false_cint {below : Ty → Bool} {r1 z1 r2 z2 : Nat} :
    lt below (.cint r1 1 z1) (.cint r2 1 z2) = false → r1 ≤ r2 := by
  simp [lt, Ty.isNumeric, Ty.rank, Ty.sg]

theorem lt_false_cfloat {below : Ty → Bool} {r1 z1 r2 z2 : Nat} :
    lt below (.cfloat r1 z1) (.cfloat r2 z2) = false → r1 ≤ r2 := by
  simp [lt, Ty.isNumeric, Ty.rank, Ty.sg]

theorem lt_false_ccomplex {below : Ty → Bool} {r1 z1 r2 z2 : Nat} :
    lt below (.ccomplex r1 z1) (.ccomplex r2 z2) = false → r1 ≤ r2 := by
  simp [lt]

/-- membership in `biggest` -/
theorem mem_biggest {K : Ty → Bool} {ms : List (Ty × Nat)} {p : Ty × Nat} :
    p ∈ biggest K ms ↔ p ∈ ms ∧ K p.1 = true ∧ ∀ q ∈ ms, K q.1 = true → q.1.size ≤ p.1.size := by
  simp only [biggest, List.mem_filter, Bool.and_eq_true, List.all_eq_true, Bool.or_eq_true,
    Bool.not_eq_true', decide_eq_true_eq]
  constructor
  · rintro ⟨h1, h2, h3⟩
    refine ⟨h1, h2, fun q hq hk => ?_⟩
    rcases h3 q hq with h | h
    · simp [hk] at h
    · exact h
  · rintro ⟨h1, h2, h3⟩
    refine ⟨h1, h2, fun q hq => ?_⟩
    by_cases hk : K q.1 = true
    · exact Or.inr (h3 q hq hk)
    · left; simpa using hk

/-- the first hit of a numeric class test is a biggest member of that class -/
theorem first_is_biggest {below : Ty → Bool} {s ms : List (Ty × Nat)} {K : Ty → Bool} {p : Ty × Nat}
    (hperm : s.Perm ms) (hs : NoInv below s)
    (h : s.find? (fun q => K q.1) = some p)
    (hmono : ∀ q ∈ ms, K q.1 = true → lt below q.1 p.1 = false → q.1.size ≤ p.1.size) :
    p ∈ biggest K ms := by
  obtain ⟨hp, hK, hall⟩ := first_hit h hs
  refine mem_biggest.mpr ⟨hperm.mem_iff.mp hp, hK, fun q hq hk => ?_⟩
  rcases hall q (hperm.mem_iff.mpr hq) hk with rfl | hlt
  · exact Nat.le_refl _
  · exact hmono q hq hk hlt


/-! ### the documented choice, piecewise -/

theorem doc_of_exact {ms : List (Ty × Nat)} {an : Bool} {v : Val} {p : Ty × Nat}
    (h : p ∈ exactSet ms an v) : p.2 ∈ docChoice ms an v := by
  have hne : exactSet ms an v ≠ [] := List.ne_nil_of_mem h
  simp only [docChoice, hne, ne_eq, not_false_eq_true, ite_true]
  exact List.mem_map.mpr ⟨p, h, rfl⟩

theorem doc_of_num {ms : List (Ty × Nat)} {an : Bool} {v : Val} {p : Ty × Nat}
    (he : exactSet ms an v = []) (h : p ∈ numSet ms v) : p.2 ∈ docChoice ms an v := by
  have hne : numSet ms v ≠ [] := List.ne_nil_of_mem h
  simp only [docChoice, he, ne_eq, not_true_eq_false, ite_false, hne, not_false_eq_true, ite_true]
  exact List.mem_map.mpr ⟨p, h, rfl⟩

theorem doc_of_obj {ms : List (Ty × Nat)} {an : Bool} {v : Val} {p : Ty × Nat}
    (he : exactSet ms an v = []) (hn : numSet ms v = []) (hp : p ∈ ms) (ho : p.1.isObj = true) :
    p.2 ∈ docChoice ms an v := by
  simp only [docChoice, he, hn, ne_eq, not_true_eq_false, ite_false]
  exact List.mem_map.mpr ⟨p, List.mem_filter.mpr ⟨hp, ho⟩, rfl⟩

theorem doc_nil {ms : List (Ty × Nat)} {an : Bool} {v : Val}
    (he : exactSet ms an v = []) (hn : numSet ms v = []) (ho : ∀ p ∈ ms, p.1.isObj = false) :
    docChoice ms an v = [] := by
  simp only [docChoice, he, hn, ne_eq, not_true_eq_false, ite_false, List.map_eq_nil_iff,
    List.filter_eq_nil_iff]
  intro p hp; simp [ho p hp]

theorem find_congr {α : Type} {P Q : α → Bool} {s : List α} (h : ∀ x ∈ s, P x = Q x) :
    s.find? P = s.find? Q := by
  induction s with
  | nil => rfl
  | cons a t ih =>
    simp only [List.find?_cons, h a (by simp)]
    rw [ih (fun x hx => h x (by simp [hx]))]

theorem find_none_of {α : Type} {P : α → Bool} {s : List α} (h : ∀ x ∈ s, P x = false) : s.find? P = none := by
  apply List.find?_eq_none.mpr; intro x hx; simp [h x hx]

/-- for an argument that is neither a buffer nor None, after all `isinstance` tests failed only the
object fallback is left -/
theorem mapType_tail {s : List (Ty × Nat)} {an : Bool} {v : Val}
    (hnp : ∀ t, npMatch v t = false) (htr : ∀ t, trialOK v t = false) (hnone : (v == Val.none) = false)
    (hinst : s.find? (fun p => isInst v p.1) = none) :
    mapType s an v = (s.find? (fun p => p.1.isObj)).map (·.2) := by
  simp only [mapType, hinst, hnone, Bool.and_false]
  rw [find_none_of (fun x _ => hnp x.1), find_none_of (fun x _ => by simp [htr x.1])]
  simp

theorem obj_find {s ms : List (Ty × Nat)} {i : Nat} (hperm : s.Perm ms)
    (h : (s.find? (fun p => p.1.isObj)).map (·.2) = some i) : ∃ p ∈ ms, p.1.isObj = true ∧ p.2 = i := by
  cases hf : s.find? (fun p => p.1.isObj) with
  | none => simp [hf] at h
  | some p =>
    simp [hf] at h
    have hpo : p.1.isObj = true := by have := List.find?_some hf; simpa using this
    exact ⟨p, hperm.mem_iff.mp (List.mem_of_find?_eq_some hf), hpo, h⟩

end CyVerif.C34

import CyVerif.Lemmas.C49Sim
/-!
Each operation of the heap model is simulated by the corresponding operation
of the flat-document specification (part 1: helpers, `new`, `write`).
-/
namespace CyVerif.C49
open Forest



theorem h2t_push {hs : List Nat} {T : List (Nat × Option Nat)} (c : Nat)
    (h : ∀ k b, hs[k]? = some b → (b, some k) ∈ T) :
    ∀ k b, (hs ++ [c])[k]? = some b → (b, some k) ∈ T ++ [(c, some hs.length)] := by
  intro k b hk
  by_cases hlt : k < hs.length
  · rw [List.getElem?_append_left hlt] at hk
    exact List.mem_append_left _ (h k b hk)
  · by_cases he : k = hs.length
    · subst he
      rw [List.getElem?_concat_length] at hk
      simp only [Option.some.injEq] at hk
      subst hk
      simp
    · rw [List.getElem?_eq_none (by simp; omega)] at hk
      cases hk

theorem t2h_push {hs : List Nat} {T : List (Nat × Option Nat)} (c : Nat)
    (h : ∀ k b, (b, some k) ∈ T → hs[k]? = some b) :
    ∀ k b, (b, some k) ∈ T ++ [(c, some hs.length)] → (hs ++ [c])[k]? = some b := by
  intro k b hk
  rcases List.mem_append.1 hk with hk | hk
  · have := h k b hk
    have hlt : k < hs.length := (List.getElem?_eq_some_iff.1 this).1
    rw [List.getElem?_append_left hlt]; exact this
  · simp only [List.mem_singleton, Prod.mk.injEq, Option.some.injEq] at hk
    obtain ⟨rfl, rfl⟩ := hk
    exact List.getElem?_concat_length

theorem h2t_anon {hs : List Nat} {T : List (Nat × Option Nat)} (c : Nat)
    (h : ∀ k b, hs[k]? = some b → (b, some k) ∈ T) :
    ∀ k b, hs[k]? = some b → (b, some k) ∈ T ++ [(c, none)] :=
  fun k b hk => List.mem_append_left _ (h k b hk)

theorem t2h_anon {hs : List Nat} {T : List (Nat × Option Nat)} (c : Nat)
    (h : ∀ k b, (b, some k) ∈ T → hs[k]? = some b) :
    ∀ k b, (b, some k) ∈ T ++ [(c, none)] → hs[k]? = some b := by
  intro k b hk
  rcases List.mem_append.1 hk with hk | hk
  · exact h k b hk
  · simp at hk

/-- names in use are below the number of handles -/
theorem Sim.name_lt {σ : St} {sp : Spec} {F : Forest} (h : Sim σ sp F) {k : Nat}
    (hk : k ∈ F.names) : k < σ.handles.length := by
  obtain ⟨⟨b, nm⟩, ht, hnm⟩ := List.mem_filterMap.1 hk
  simp only at hnm
  subst hnm
  exact (List.getElem?_eq_some_iff.1 (h.t2h k b ht)).1

theorem Sim.fresh_name {σ : St} {sp : Spec} {F : Forest} (h : Sim σ sp F) :
    σ.handles.length ∉ F.names := fun hk => Nat.lt_irrefl _ (h.name_lt hk)

theorem Sim.fresh_id {σ : St} {sp : Spec} {F : Forest} (h : Sim σ sp F) {c : Nat}
    (hc : σ.heap.length ≤ c) : c ∉ F.ids := fun hi =>
  Nat.lt_irrefl _ (Nat.lt_of_lt_of_le (Cons_ids_lt h.cons c hi) hc)

theorem nodup_ids_push {T : List (Nat × Option Nat)} {c : Nat} {nm : Option Nat} (h : (T.map (·.1)).Nodup)
    (hc : c ∉ T.map (·.1)) : ((T ++ [(c, nm)]).map (·.1)).Nodup := by
  rw [List.map_append, List.nodup_append]
  refine ⟨h, by simp, ?_⟩
  intro a ha b hb
  simp only [List.map_cons, List.map_nil, List.mem_singleton] at hb
  subst hb
  exact fun e => hc (e ▸ ha)

theorem nodup_names_push_some {T : List (Nat × Option Nat)} {c j : Nat} (h : (T.filterMap (·.2)).Nodup)
    (hj : j ∉ T.filterMap (·.2)) : ((T ++ [(c, some j)]).filterMap (·.2)).Nodup := by
  rw [List.filterMap_append, List.nodup_append]
  refine ⟨h, by simp, ?_⟩
  intro a ha b hb
  simp only [List.filterMap_cons, List.filterMap_nil, List.mem_singleton] at hb
  subst hb
  exact fun e => hj (e ▸ ha)

theorem nodup_names_push_none {T : List (Nat × Option Nat)} {c : Nat} (h : (T.filterMap (·.2)).Nodup) :
    ((T ++ [(c, (none : Option Nat))]).filterMap (·.2)).Nodup := by
  simpa [List.filterMap_append] using h

/-- a leaf node (no children, no fragments) -/
def leaf (c : Nat) (nm : Option Nat) (fs : List Frag) : Forest := .cons c nm fs .nil .nil

theorem Cons_leaf {H : Heap} {c : Nat} {nm : Option Nat} {fs : List Frag} {s : String} {ms : List Nat}
    (hn : H[c]? = some ⟨s, [], ms⟩) (hs : s = textD (fragItems fs)) (hm : ms = marksD (fragItems fs)) :
    Cons H (leaf c nm fs) :=
  ⟨⟨_, hn, rfl, hs, hm⟩, trivial, trivial⟩

theorem getElem?_push_of_some {H : Heap} {i : Nat} {n e : Node} (h : H[i]? = some n) :
    (H ++ [e])[i]? = some n := by
  rw [List.getElem?_append_left (List.getElem?_eq_some_iff.1 h).1]; exact h

/-- `new`: a fresh stand-alone buffer -/
theorem step_new {σ : St} {sp : Spec} {F : Forest} (h : Sim σ sp F) :
    Sim ⟨σ.heap ++ [emptyNode], σ.handles ++ [σ.heap.length]⟩
      ⟨sp.doc ++ [Item.op sp.n, Item.cl sp.n], sp.n + 1, sp.roots ++ [sp.n]⟩
      (F.append (leaf σ.heap.length (some σ.handles.length) [])) := by
  have hleaf : Cons (σ.heap ++ [emptyNode]) (leaf σ.heap.length (some σ.handles.length) []) :=
    Cons_leaf (s := "") (ms := []) List.getElem?_concat_length rfl rfl
  have hT : (F.append (leaf σ.heap.length (some σ.handles.length) [])).tags
      = F.tags ++ [(σ.heap.length, some σ.handles.length)] := by
    simp [Forest.tags_append, leaf, Forest.tags]
  exact
    { cons := Cons_append (Cons_frame (fun i _ n hn => getElem?_push_of_some hn) h.cons) hleaf
      doc := by simp [Forest.doc_append, leaf, Forest.doc, wrap, fragItems, h.doc, h.n]
      ids := by
        show ((F.append _).tags.map (·.1)).Nodup
        rw [hT]; exact nodup_ids_push h.ids (h.fresh_id (Nat.le_refl _))
      names := by
        show ((F.append _).tags.filterMap (·.2)).Nodup
        rw [hT]; exact nodup_names_push_some h.names h.fresh_name
      ne := Forest.NE_append h.ne ⟨by simp, trivial, trivial⟩
      n := by simp [h.n]
      h2t := by rw [hT]; exact h2t_push _ h.h2t
      t2h := by rw [hT]; exact t2h_push _ h.t2h
      roots := by simp [Forest.rootNames_append, leaf, Forest.rootNames, h.roots, h.n] }

end CyVerif.C49

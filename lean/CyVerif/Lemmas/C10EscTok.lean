import CyVerif.Lemmas.C10EscTextSound
/-! Facts about the characters inside an `ESCAPE` token. -/
namespace CyVerif.C10

theorem isHex_lt (c : Nat) (h : isHex c = true) : c < 128 ∧ c ≠ 92 := by
  simp only [isHex, Bool.or_eq_true, Bool.and_eq_true, decide_eq_true_eq] at h; omega

theorem hexPrefix_all (n : Nat) (t : List Nat) (h : hexPrefix n t = true) : ∀ x ∈ t.take n, x < 128 ∧ x ≠ 92 := by
  simp only [hexPrefix, Bool.and_eq_true, List.all_eq_true] at h
  intro x hx; exact isHex_lt x (h.2 x hx)

theorem nameOk_lt (P : LexP) (hP : P.WF) (x : Nat) (h : P.nameOk x = true) : x < 128 ∧ x ≠ 92 ∧ x ≠ 125 := by
  refine ⟨?_, ?_, ?_⟩
  · have := List.all_eq_true.mp hP.2.2 x (by simpa [LexP.nameOk] using h)
    simpa using this
  · intro e; subst e; rw [hP.2.1] at h; cases h
  · intro e; subst e; rw [hP.1] at h; cases h

theorem mem_takeWhile_sat (p : Nat → Bool) : ∀ (l : List Nat) (x : Nat), x ∈ l.takeWhile p → p x = true
  | [], x => by simp
  | y :: ys, x => by
    by_cases hy : p y = true
    · simp only [List.takeWhile, hy, List.mem_cons]
      rintro (rfl | h)
      · exact hy
      · exact mem_takeWhile_sat p ys x h
    · simp [List.takeWhile, hy]

/-- every character of an `ESCAPE` token (after the backslash) is ASCII, and none is a
backslash except in the token `\\\\` -/
theorem escTok_chars (P : LexP) (hP : P.WF) (d : Nat) (t : List Nat) :
    ∀ x ∈ (d :: t).take (escLen P (d :: t)), x < 128 ∧ (x = 92 → d = 92) := by
    intro x hx
    by_cases hoct : isOct d = true
    · -- up to three octal digits
      have hd := (isOct_iff d).1 hoct
      cases t with
      | nil => simp [escLen, hoct] at hx; omega
      | cons e t2 =>
        by_cases he : isOct e = true
        · have he' := (isOct_iff e).1 he
          cases t2 with
          | nil => simp [escLen, hoct, he] at hx; omega
          | cons g t3 =>
            by_cases hg : isOct g = true
            · have hg' := (isOct_iff g).1 hg
              simp [escLen, hoct, he, hg] at hx; omega
            · simp [escLen, hoct, he, hg] at hx; omega
        · simp [escLen, hoct, he] at hx; omega
    · have hoct' : isOct d = false := by simpa using hoct
      by_cases h78 : d = 78
      · subst h78
        cases t with
        | nil => simp [escLen, isOct] at hx; omega
        | cons e t2 =>
          by_cases he : e = 123
          · subst he
            cases hdw : t2.dropWhile P.nameOk with
            | nil => simp [escLen, isOct, hdw] at hx; omega
            | cons y r =>
              by_cases hy : y = 125
              · subst hy
                obtain ⟨htake, _⟩ := take_takeWhile_succ P.nameOk 125 t2 r hdw
                have hlen : escLen P (78 :: 123 :: t2) = (t2.takeWhile P.nameOk).length + 3 := by
                  simp [escLen, isOct, hdw]
                rw [hlen] at hx
                simp only [List.take_succ_cons, htake, List.mem_cons, List.mem_append, List.mem_nil_iff, or_false] at hx
                rcases hx with rfl | rfl | hx | rfl
                · omega
                · omega
                · have := nameOk_lt P hP x (mem_takeWhile_sat _ _ x hx); omega
                · omega
              · simp [escLen, isOct, hdw, hy] at hx; omega
          · simp [escLen, isOct, he] at hx; omega
      by_cases h117 : d = 117
      · subst h117
        by_cases hp : hexPrefix 4 t = true
        · simp only [escLen, isOct, hp] at hx
          simp at hx
          rcases hx with rfl | hx
          · omega
          · have := hexPrefix_all 4 t hp x hx; omega
        · simp [escLen, isOct, hp] at hx; omega
      by_cases h120 : d = 120
      · subst h120
        by_cases hp : hexPrefix 2 t = true
        · simp only [escLen, isOct, hp] at hx
          simp at hx
          rcases hx with rfl | hx
          · omega
          · have := hexPrefix_all 2 t hp x hx; omega
        · simp [escLen, isOct, hp] at hx; omega
      by_cases h85 : d = 85
      · subst h85
        by_cases hp : hexPrefix 8 t = true
        · simp only [escLen, isOct, hp] at hx
          simp at hx
          rcases hx with rfl | hx
          · omega
          · have := hexPrefix_all 8 t hp x hx; omega
        · simp [escLen, isOct, hp] at hx; omega
      by_cases hs : d ∈ simpleSet
      · have : escLen P (d :: t) = 1 := by simp [escLen, hoct', h78, h117, h120, h85, hs]
        rw [this] at hx
        simp at hx; subst hx
        simp [simpleSet] at hs; omega
      · have : escLen P (d :: t) = 0 := by simp [escLen, hoct', h78, h117, h120, h85, hs]
        rw [this] at hx; simp at hx

theorem escTok_ascii (P : LexP) (hP : P.WF) (rest : List Nat) : ∀ x ∈ rest.take (escLen P rest), x < 128 := by
  cases rest with
  | nil => simp
  | cons d t => intro x hx; exact (escTok_chars P hP d t x hx).1

end CyVerif.C10

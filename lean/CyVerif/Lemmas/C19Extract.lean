import CyVerif.Lemmas.C19Fits
/-! `extract_conditions` is sound: what it returns describes the test it was given. -/
namespace CyVerif.C19

theorem mem_insertSorted (x y : Nat) (l : List Nat) : y ∈ insertSorted x l ↔ y = x ∨ y ∈ l := by
  induction l with
  | nil => simp [insertSorted]
  | cons z zs ih =>
    unfold insertSorted
    split
    · simp
    · split
      · rename_i h; subst h; simp
      · simp [ih]; constructor
        · rintro (h | h | h) <;> simp [h]
        · rintro (h | h | h) <;> simp [h]

theorem mem_sortDedup (y : Nat) (l : List Nat) : y ∈ sortDedup l ↔ y ∈ l := by
  unfold sortDedup
  induction l with
  | nil => simp
  | cons z zs ih => simp [mem_insertSorted, ih]

theorem any_sortDedup (p : Nat → Bool) (l : List Nat) : (sortDedup l).any p = l.any p := by
  rw [Bool.eq_iff_iff]
  simp only [List.any_eq_true, mem_sortDedup]

theorem any_strConsts (f : Const → Bool) (chars : List Nat) (bytes : Bool) :
    (strConsts chars bytes).any f = chars.any (fun ch => f (if bytes then .bchr ch else .chr ch)) := by
  unfold strConsts
  rw [List.any_map, ← any_sortDedup (fun ch => f (if bytes then .bchr ch else .chr ch)) chars]
  rfl

/-- the test contains no `and` -/
def NoAnd : Cond → Prop
  | .bin isAnd a b => isAnd = false ∧ NoAnd a ∧ NoAnd b
  | .not a => NoAnd a
  | _ => True

/-- **Soundness of `extract_conditions`** (repaired `and` rule): the test is true exactly if
one of the returned constants equals the variable — negated if `not_in` was returned. -/
theorem extract_sound (V : Variant) (vk : Nat → VarKind) (env : Env) :
    ∀ (c : Cond) (_hV : V.andFix = true ∨ NoAnd c) (allowNot ni : Bool) (v : Nat) (cs : List Const),
      extract V vk c allowNot = some (ni, v, cs) →
      evalC vk env c = ((cs.any (eqSem vk env v)) != ni) := by
  intro c
  induction c with
  | cmp ne w k =>
    intro _ allowNot ni v cs h
    unfold extract at h
    split at h
    · cases h
    · split at h
      · cases h
      · simp only [Option.some.injEq, Prod.mk.injEq] at h
        obtain ⟨rfl, rfl, rfl⟩ := h
        simp [evalC]
  | inStr notin w chars bytes =>
    intro _ allowNot ni v cs h
    unfold extract at h
    split at h
    · split at h
      · cases h
      · simp only [Option.some.injEq, Prod.mk.injEq] at h
        obtain ⟨rfl, rfl, rfl⟩ := h
        simp only [evalC]
        rw [any_strConsts]
    · cases h
  | bin isAnd a b iha ihb =>
    intro hV allowNot ni v cs h
    have hVa : V.andFix = true ∨ NoAnd a := hV.elim Or.inl (fun h => Or.inr h.2.1)
    have hVb : V.andFix = true ∨ NoAnd b := hV.elim Or.inl (fun h => Or.inr h.2.2)
    have hrule_eq : ∀ n1 : Bool, (if V.andFix then n1 == isAnd else (!n1 || isAnd)) = true → n1 = isAnd := by
      intro n1 hr
      rcases hV with hV | hV
      · simpa [hV] using hr
      · have := hV.1; subst this
        cases V.andFix <;> cases n1 <;> simp_all
    unfold extract at h
    split at h
    · split at h
      · rename_i n1 t1 c1 n2 t2 c2 ha hb
        split at h
        · rename_i hcommon
          by_cases hrule : (if V.andFix then n1 == isAnd else (!n1 || isAnd)) = true
          · simp only [hrule, ↓reduceIte, Option.some.injEq, Prod.mk.injEq] at h
            obtain ⟨rfl, rfl, rfl⟩ := h
            simp only [Bool.and_eq_true, beq_iff_eq] at hcommon
            obtain ⟨rfl, rfl⟩ := hcommon
            have := hrule_eq n1 hrule
            subst this
            have ea := iha hVa _ _ _ _ ha
            have eb := ihb hVb _ _ _ _ hb
            simp only [evalC, ea, eb, List.any_append]
            cases n1 <;> cases List.any c1 (eqSem vk env t1) <;> cases List.any c2 (eqSem vk env t1) <;> rfl
          · simp [hrule] at h
        · cases h
      · cases h
    · cases h
  | not a _ => intro _ allowNot ni v cs h; simp [extract] at h
  | other k => intro _ allowNot ni v cs h; simp [extract] at h

/-- the same for the Python reading of the test -/
theorem extract_sound_py (V : Variant) (vk : Nat → VarKind) (env : Env) :
    ∀ (c : Cond) (_hV : V.andFix = true ∨ NoAnd c) (allowNot ni : Bool) (v : Nat) (cs : List Const),
      extract V vk c allowNot = some (ni, v, cs) →
      evalPy env c = ((cs.any (eqPy env v)) != ni) := by
  intro c
  induction c with
  | cmp ne w k =>
    intro _ allowNot ni v cs h
    unfold extract at h
    split at h
    · cases h
    · split at h
      · cases h
      · simp only [Option.some.injEq, Prod.mk.injEq] at h
        obtain ⟨rfl, rfl, rfl⟩ := h
        simp [evalPy]
  | inStr notin w chars bytes =>
    intro _ allowNot ni v cs h
    unfold extract at h
    split at h
    · split at h
      · cases h
      · simp only [Option.some.injEq, Prod.mk.injEq] at h
        obtain ⟨rfl, rfl, rfl⟩ := h
        simp only [evalPy]
        rw [any_strConsts]
        cases bytes <;> simp [eqPy, Const.pyval]
    · cases h
  | bin isAnd a b iha ihb =>
    intro hV allowNot ni v cs h
    have hVa : V.andFix = true ∨ NoAnd a := hV.elim Or.inl (fun h => Or.inr h.2.1)
    have hVb : V.andFix = true ∨ NoAnd b := hV.elim Or.inl (fun h => Or.inr h.2.2)
    have hrule_eq : ∀ n1 : Bool, (if V.andFix then n1 == isAnd else (!n1 || isAnd)) = true → n1 = isAnd := by
      intro n1 hr
      rcases hV with hV | hV
      · simpa [hV] using hr
      · have := hV.1; subst this
        cases V.andFix <;> cases n1 <;> simp_all
    unfold extract at h
    split at h
    · split at h
      · rename_i n1 t1 c1 n2 t2 c2 ha hb
        split at h
        · rename_i hcommon
          by_cases hrule : (if V.andFix then n1 == isAnd else (!n1 || isAnd)) = true
          · simp only [hrule, ↓reduceIte, Option.some.injEq, Prod.mk.injEq] at h
            obtain ⟨rfl, rfl, rfl⟩ := h
            simp only [Bool.and_eq_true, beq_iff_eq] at hcommon
            obtain ⟨rfl, rfl⟩ := hcommon
            have := hrule_eq n1 hrule
            subst this
            have ea := iha hVa _ _ _ _ ha
            have eb := ihb hVb _ _ _ _ hb
            simp only [evalPy, ea, eb, List.any_append]
            cases n1 <;> cases List.any c1 (eqPy env t1) <;> cases List.any c2 (eqPy env t1) <;> rfl
          · simp [hrule] at h
        · cases h
      · cases h
    · cases h
  | not a _ => intro _ allowNot ni v cs h; simp [extract] at h
  | other k => intro _ allowNot ni v cs h; simp [extract] at h

/-- without `allow_not_in` only positive tests are returned (both variants) -/
theorem extract_pos (V : Variant) (vk : Nat → VarKind) :
    ∀ (c : Cond) (ni : Bool) (v : Nat) (cs : List Const),
      extract V vk c false = some (ni, v, cs) → ni = false := by
  intro c
  cases c with
  | cmp ne w k =>
    intro ni v cs h
    unfold extract at h
    split at h
    · cases h
    · split at h
      · cases h
      · rename_i hne
        simp only [Option.some.injEq, Prod.mk.injEq] at h
        obtain ⟨rfl, _, _⟩ := h
        cases ne <;> simp_all
  | inStr notin w chars bytes =>
    intro ni v cs h
    unfold extract at h
    split at h
    · split at h
      · cases h
      · rename_i hne
        simp only [Option.some.injEq, Prod.mk.injEq] at h
        obtain ⟨rfl, _, _⟩ := h
        cases notin <;> simp_all
    · cases h
  | bin isAnd a b =>
    intro ni v cs h
    unfold extract at h
    cases isAnd with
    | true => simp at h
    | false =>
      cases hV : V.andFix <;> simp only [hV, Bool.false_eq_true, ↓reduceIte] at h
      all_goals
        split at h
        · split at h
          · split at h
            · split at h
              · rename_i hrule
                simp only [Option.some.injEq, Prod.mk.injEq] at h
                obtain ⟨rfl, _, _⟩ := h
                simpa using hrule
              · cases h
            · cases h
          · cases h
        · cases h
  | not a => intro ni v cs h; simp [extract] at h
  | other k => intro ni v cs h; simp [extract] at h

end CyVerif.C19

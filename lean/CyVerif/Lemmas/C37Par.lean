import CyVerif.Lemmas.C37Seq
/-! C37 leg 1: the parallel run projected on each variable. -/
namespace CyVerif.C37

def merged {w} (op : Op) (s0 : BitVec w) (merge : List Nat) (pred : Nat → BitVec w) : BitVec w :=
  merge.foldl (fun acc t => op.comb acc (pred t)) s0

def redK {w} (b : Body w) (acc : BitVec w) (k : Nat) : BitVec w := b.op.apply acc (b.g k)
def arrK {w} (b : Body w) (a : List Int) (k : Nat) : List Int := a.set (b.aidx k) (b.aval k)

theorem merged_parStep {w} (b : Body w) (N : Nat) (s0 : BitVec w) (merge : List Nat) (p : PSt w) (ev : Nat × Nat)
    (hnd : merge.Nodup) (hm : ev.1 ∈ merge) :
    merged b.op s0 merge (parStep b N p ev).pred = redK b (merged b.op s0 merge p.pred) ev.2 := by
  simp only [merged, parStep, redK]
  rw [Op.apply_eq_comb, Op.apply_eq_comb]
  exact foldl_upd_mem b.op p.pred ev.1 _ merge s0 hnd hm

theorem merged_run {w} (b : Body w) (N : Nat) (s0 : BitVec w) (merge : List Nat) (sched : List (Nat × Nat)) (p : PSt w)
    (hnd : merge.Nodup) (hm : ∀ ev ∈ sched, ev.1 ∈ merge) :
    merged b.op s0 merge (sched.foldl (parStep b N) p).pred
      = (sched.map Prod.snd).foldl (redK b) (merged b.op s0 merge p.pred) := by
  induction sched generalizing p with
  | nil => rfl
  | cons ev rest ih =>
    simp only [List.foldl_cons, List.map_cons]
    rw [ih _ (fun e he => hm e (List.mem_cons_of_mem _ he)), merged_parStep b N s0 merge p ev hnd (hm ev List.mem_cons_self)]

theorem merged_init {w} (b : Body w) (s : Vars w) (merge : List Nat) :
    merged b.op s.red merge (parInit b s).pred = s.red := by
  simp only [merged, parInit]
  induction merge with
  | nil => rfl
  | cons x xs ih => rw [List.foldl_cons, Op.comb_ident]; exact ih

theorem arr_run {w} (b : Body w) (N : Nat) (sched : List (Nat × Nat)) (p : PSt w) :
    (sched.foldl (parStep b N) p).arr = (sched.map Prod.snd).foldl (arrK b) p.arr := by
  induction sched generalizing p with
  | nil => rfl
  | cons ev rest ih => simp only [List.foldl_cons, List.map_cons]; rw [ih]; rfl

theorem last_keep {w} (b : Body w) (N : Nat) (sched : List (Nat × Nat)) (p : PSt w)
    (h : ∀ ev ∈ sched, ev.2 + 1 ≠ N) : (sched.foldl (parStep b N) p).last = p.last := by
  induction sched generalizing p with
  | nil => rfl
  | cons ev rest ih =>
    simp only [List.foldl_cons]
    rw [ih _ (fun e he => h e (List.mem_cons_of_mem _ he))]
    simp [parStep, h ev List.mem_cons_self]

theorem last_run {w} (b : Body w) (M : Nat) (v : Int) (sched : List (Nat × Nat)) (p : PSt w)
    (hv : b.asg M = some v) (h : ∃ ev ∈ sched, ev.2 = M) :
    (sched.foldl (parStep b (M + 1)) p).last = some (v, b.index M) := by
  induction sched generalizing p with
  | nil => obtain ⟨_, h, _⟩ := h; cases h
  | cons ev rest ih =>
    simp only [List.foldl_cons]
    by_cases hr : ∃ e ∈ rest, e.2 = M
    · exact ih _ hr
    · have hk : ev.2 = M := by
        obtain ⟨e, he, hM⟩ := h
        rcases List.mem_cons.mp he with h1 | h1
        · exact h1 ▸ hM
        · exact absurd ⟨e, h1, hM⟩ hr
      rw [last_keep]
      · simp [parStep, hk, hv]
      · intro e he hne
        exact hr ⟨e, he, by omega⟩

/-- sequential loop projected on each variable -/
theorem seq_red {w} (b : Body w) (s : Vars w) (l : List Nat) :
    (l.foldl (seqStep b) s).red = l.foldl (redK b) s.red := by
  induction l generalizing s with
  | nil => rfl
  | cons k ks ih => simp only [List.foldl_cons]; rw [ih]; rfl

theorem seq_arr {w} (b : Body w) (s : Vars w) (l : List Nat) :
    (l.foldl (seqStep b) s).arr = l.foldl (arrK b) s.arr := by
  induction l generalizing s with
  | nil => rfl
  | cons k ks ih => simp only [List.foldl_cons]; rw [ih]; rfl

theorem seq_last {w} (b : Body w) (s : Vars w) (M : Nat) :
    (seqRun b s (M + 1)).lp = (b.asg M).getD (seqRun b s M).lp ∧ (seqRun b s (M + 1)).idx = b.index M := by
  simp [seqRun, List.range_succ, List.foldl_append, seqStep]

end CyVerif.C37

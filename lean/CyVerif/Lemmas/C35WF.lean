import CyVerif.Lemmas.C35AList
/-! Invariant of the `FunctionState` model and basic facts. -/
namespace CyVerif.C35

def names (s : FS) : List Nat := s.allocated.map (·.name)

/-- representation invariant of `FunctionState` (holds for every reachable state: `wf_run`) -/
structure WF (s : FS) : Prop where
  namesNodup : (names s).Nodup
  bound : ∀ t ∈ s.allocated, t.name ≤ s.counter
  notTaken : ∀ t ∈ s.allocated, t.name ∉ s.taken
  used : ∀ t ∈ s.allocated, aget s.usedType t.name = some t.key
  usedOnly : ∀ n k, aget s.usedType n = some k → n ∈ names s
  freeKeys : (s.free.map (·.1)).Nodup
  members : ∀ k fl, aget s.free k = some fl → ∀ n ∈ fl.members, ∃ t ∈ s.allocated, t.name = n ∧ t.key = k
  orderSub : ∀ k fl, aget s.free k = some fl → ∀ n ∈ fl.order, n ∈ fl.members ∧ n ∉ s.zombies
  dead : ∀ k fl, aget s.free k = some fl → ∀ n ∈ fl.members, n ∉ fl.order → n ∈ s.zombies
  membersNodup : ∀ k fl, aget s.free k = some fl → fl.members.Nodup
  orderNodup : ∀ k fl, aget s.free k = some fl → fl.order.Nodup
  canonManage : ∀ t ∈ s.allocated, t.manage = true → t.ty.needsRefcounting = true
  zombiesSub : ∀ n ∈ s.zombies, n ∈ names s

theorem wf_init (taken : List Nat) : WF (FS.init taken) := by
  constructor <;> simp [FS.init, names, aget]

theorem le_maxOf {l : List Nat} {n : Nat} (h : n ∈ l) : n ≤ maxOf l := by
  induction l with
  | nil => simp at h
  | cons a l ih =>
    simp only [maxOf, List.foldr_cons]
    rcases List.mem_cons.mp h with h | h
    · subst h; exact Nat.le_max_left _ _
    · exact Nat.le_trans (ih h) (Nat.le_max_right _ _)

theorem nextNameGo_spec (taken : List Nat) (f c : Nat) (h : maxOf taken ≤ f + c) :
    c < nextNameGo taken f c ∧ nextNameGo taken f c ∉ taken := by
  induction f generalizing c with
  | zero =>
    simp only [nextNameGo]
    refine ⟨Nat.lt_succ_self _, fun hm => ?_⟩
    have := le_maxOf hm; omega
  | succ f ih =>
    simp only [nextNameGo]
    split
    · have := ih (c + 1) (by omega)
      exact ⟨by omega, this.2⟩
    · rename_i hn; exact ⟨Nat.lt_succ_self _, hn⟩

/-- the `while True` loop ends on a name above the counter that is not in `names_taken` -/
theorem nextName_spec (taken : List Nat) (c : Nat) :
    c < nextName taken c ∧ nextName taken c ∉ taken :=
  nextNameGo_spec taken _ c (by omega)

theorem eq_of_nodup_map {α β : Type} (f : α → β) {l : List α} (nd : (l.map f).Nodup) {a b : α}
    (ha : a ∈ l) (hb : b ∈ l) (h : f a = f b) : a = b := by
  induction l with
  | nil => simp at ha
  | cons x l ih =>
    simp only [List.map_cons, List.nodup_cons] at nd
    rcases List.mem_cons.mp ha with ha1 | ha1 <;> rcases List.mem_cons.mp hb with hb1 | hb1
    · rw [ha1, hb1]
    · rw [ha1] at h; exact absurd (List.mem_map.mpr ⟨b, hb1, h.symm⟩ : f x ∈ l.map f) nd.1
    · rw [hb1] at h; exact absurd (List.mem_map.mpr ⟨a, ha1, h⟩ : f x ∈ l.map f) nd.1
    · exact ih nd.2 ha1 hb1

theorem temp_eq_of_name {s : FS} (w : WF s) {t u : Temp} (ht : t ∈ s.allocated) (hu : u ∈ s.allocated)
    (h : t.name = u.name) : t = u := by
  have nd := w.namesNodup
  unfold names at nd
  exact eq_of_nodup_map _ nd ht hu h

theorem mem_names {s : FS} {n : Nat} : n ∈ names s ↔ ∃ t ∈ s.allocated, t.name = n := by
  simp [names]

end CyVerif.C35

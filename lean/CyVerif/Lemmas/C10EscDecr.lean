import CyVerif.Lemmas.C10EscText5
/-! The reference steps consume input (needed for fuel independence). -/
namespace CyVerif.C10

theorem refOct_snd_le (d : Nat) (t : List Nat) : (refOct d t).2.length ≤ t.length := by
  unfold refOct
  cases t with
  | nil => simp
  | cons e t2 =>
    simp only []
    split
    · cases t2 with
      | nil => simp
      | cons g t3 => simp only []; split <;> simp <;> omega
    · simp

theorem refHex_snd_le (n : Nat) (t : List Nat) (acc v : Nat) (r : List Nat) (h : refHex n t acc = some (v, r)) :
    r.length ≤ t.length := by
  rw [refHex_spec] at h
  split at h
  · cases hp : parseDigits 16 isHex (t.take n) acc with
    | none => rw [hp] at h; cases h
    | some w => rw [hp] at h; simp at h; rw [← h.2]; simp
  · cases h

theorem refHexEsc_snd_le (n : Nat) (t : List Nat) : (refHexEsc n t).2.length ≤ t.length := by
  unfold refHexEsc
  cases h : refHex n t 0 with
  | none => simp
  | some p =>
    obtain ⟨v, r⟩ := p
    have := refHex_snd_le n t 0 v r h
    simp only []
    split <;> simpa using this

theorem dropWhile_length_le (p : Nat → Bool) (l : List Nat) : (l.dropWhile p).length ≤ l.length := by
  induction l with
  | nil => simp
  | cons x xs ih => simp only [List.dropWhile]; split <;> simp <;> omega

theorem refStep_decr (lk : Lookup) (fstr : Bool) : Decreasing (refStep lk fstr) := by
  intro c rest
  by_cases h92 : c = 92
  · subst h92
    cases rest with
    | nil => simp [refStep]
    | cons d t =>
      rw [refStep_bs]
      split
      · simp
      · split
        · simp
        · split
          · have := refOct_snd_le d t; simp; omega
          · split
            · have := refHexEsc_snd_le 2 t; simp; omega
            · split
              · have := refHexEsc_snd_le 4 t; simp; omega
              · split
                · have := refHexEsc_snd_le 8 t; simp; omega
                · split
                  · split
                    · rename_i t2
                      split
                      · rename_i r hdw
                        have := dropWhile_length_le (fun x => decide (x ≠ 125)) t2
                        rw [hdw] at this
                        simp only [List.length_cons] at this ⊢
                        split
                        · simp; omega
                        · split <;> simp <;> omega
                      · simp
                    · simp
                  · simp
  · simp only [refStep, ne_eq, h92, not_false_eq_true, if_true]
    split
    · cases rest with
      | nil => simp
      | cons d t => simp only []; split <;> simp
    · simp

theorem refBStep_decr : Decreasing refBStep := by
  intro c rest
  by_cases h92 : c = 92
  · subst h92
    cases rest with
    | nil => simp [refBStep]
    | cons d t =>
      simp only [refBStep, if_neg (show ¬ ((92 : Nat) ≠ 92) by decide)]
      split
      · simp
      · split
        · simp
        · split
          · have := refOct_snd_le d t; simp; omega
          · split
            · cases h : refHex 2 t 0 with
              | none => simp
              | some p =>
                obtain ⟨v, r⟩ := p
                have := refHex_snd_le 2 t 0 v r h
                simp; omega
            · simp
  · simp [refBStep, h92]

end CyVerif.C10

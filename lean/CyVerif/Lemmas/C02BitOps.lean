import CyVerif.Lemmas.C02Bits
import CyVerif.Lemmas.C02Arith
/-!
C02: `&`, `|`, `^` of `__Pyx_Unpacked_…` act bitwise on the infinite two's complement representations
(including the single-digit `&` shortcut, which looks at `digits[0]` of an arbitrarily large int).
-/
namespace CyVerif.C02
open CyVerif.C05

def BitOp.toOp : BitOp → Op
  | .and => .and
  | .or => .or
  | .xor => .xor

theorem bit_zero_left (k : Nat) : bit 0 k = false := by unfold bit; simp

theorem bit_of_small {c : Int} {k : Nat} (h0 : 0 ≤ c) (h1 : c < two k) : bit c k = false := by
  unfold bit; rw [Int.ediv_eq_zero_of_lt h0 h1]; simp

theorem toU_congr {n : Nat} {a b : Int} (h : a % two n = b % two n) : toU n a = toU n b := by
  unfold toU; rw [h]

theorem bit_congr_mod {n k : Nat} {a b : Int} (h : a % two n = b % two n) (hk : k < n) : bit a k = bit b k := by
  rw [bit_eq_testBit hk, bit_eq_testBit hk, toU_congr h]

/-- The shortcut `(intval & PyLong_MASK) == intval` holds only for `0 ≤ intval < 2^PyLong_SHIFT`. -/
theorem and_mask_eq {P : Plat} (hP : PlatOK P) {c : Int} (h : cbit P.tLong .and c (mask P) = c) :
    0 ≤ c ∧ c < two P.shift := by
  obtain ⟨hS, hi0, hiL, hL4, hLLL, hLL8, hSL, hSLL⟩ := hP
  have hb : 0 < P.tLong.bytes := by show 0 < P.longBytes; omega
  have hmask : mask P = ((2 ^ P.shift - 1 : Nat) : Int) := by
    unfold mask two; have := Nat.two_pow_pos P.shift; omega
  have hlt : 2 ^ P.shift - 1 < 2 ^ P.tLong.bits := by
    have : 2 ^ P.shift ≤ 2 ^ P.tLong.bits := Nat.pow_le_pow_right (by omega) (by rw [tLong_bits]; omega)
    have := Nat.two_pow_pos P.shift; omega
  have hU : toU P.tLong.bits (mask P) = 2 ^ P.shift - 1 := by rw [hmask]; exact toU_natCast hlt
  have hmod : toU P.tLong.bits c % 2 ^ P.shift < 2 ^ P.shift := Nat.mod_lt _ (Nat.two_pow_pos _)
  have hval : cbit P.tLong .and c (mask P) = ((toU P.tLong.bits c % 2 ^ P.shift : Nat) : Int) := by
    unfold cbit; rw [hU]
    simp only [BitOp.nat, Nat.and_two_pow_sub_one_eq_mod]
    apply cast_of_inRange hb
    apply inRange_of_bnd rfl (n := P.shift) _ (by rw [tLong_bits]; omega)
    have := natCast_lt_two hmod; have := two_pos P.shift; unfold Bnd; omega
  rw [hval] at h
  have := natCast_lt_two hmod
  omega

theorem andShortcut_spec (P : Plat) (hP : PlatOK P) (p : PyLong) (hwf : p.WF P.shift) (hne : p.digits ≠ [])
    (c : Int) (o : Out) (h : andShortcut P p (isPos p) c = some o) :
    ∃ r, o = .int r ∧ ∀ k, bit r k = (bit (p.value P.shift) k && bit c k) := by
  have hP' := hP
  obtain ⟨hS, hi0, hiL, hL4, hLLL, hLL8, hSL, hSLL⟩ := hP'
  have hb : 0 < P.tLong.bytes := by show 0 < P.longBytes; omega
  unfold andShortcut at h
  by_cases hm : cbit P.tLong .and c (mask P) = c
  · rw [if_pos hm] at h
    obtain ⟨hc0, hc1⟩ := and_mask_eq hP hm
    have hS2 := two_le_two (show P.shift ≤ P.tLong.bits - 2 by rw [tLong_bits]; omega)
    have hhalf : two (P.tLong.bits - 1) = 2 * two (P.tLong.bits - 2) := by
      have := two_succ (P.tLong.bits - 2)
      rw [show P.tLong.bits - 2 + 1 = P.tLong.bits - 1 by rw [tLong_bits]; omega] at this; exact this
    have hcr : P.tLong.inRange c := by rw [inRange_signed_iff _ rfl]; have := two_pos (P.tLong.bits - 2); omega
    match hds : p.digits, hne with
    | d :: rest, _ =>
      have hd : d < 2 ^ P.shift := hwf.1 d (by rw [hds]; simp)
      have hdi : (d : Int) < two P.shift := natCast_lt_two hd
      have hdig : p.digit0 = d := by unfold PyLong.digit0; rw [hds]
      have hpos : isPos p = !p.neg := isPos_of_ne hne
      have hvalue : p.value P.shift = if p.neg then -((d : Int) + two P.shift * (natVal P.shift rest : Int))
          else (d : Int) + two P.shift * (natVal P.shift rest : Int) := by
        unfold PyLong.value; rw [hds]; simp only [natVal]; unfold two; split <;> simp
      -- the operand the constant is and-ed with, and its congruence with the value
      have hother : ∃ other : Int, o = .int (cbit P.tLong .and c other) ∧ 0 ≤ other ∧ other ≤ two P.shift ∧
          other % two P.shift = p.value P.shift % two P.shift := by
        rw [hpos, hdig] at h
        cases hn : p.neg
        · rw [hn] at h
          simp only [Bool.not_false, if_true, bind, Except.bind, pure, Except.pure, ofE, Option.some.injEq] at h
          refine ⟨(d : Int), h.symm, by omega, by omega, ?_⟩
          rw [hvalue, hn]; simp only [Bool.false_eq_true, if_false]
          rw [Int.add_mul_emod_self_left]
        · have hr1 : P.tLong.inRange (mask P - (d : Int)) := by
            rw [inRange_signed_iff _ rfl]; unfold mask; omega
          have hr2 : P.tLong.inRange (mask P - (d : Int) + 1) := by
            rw [inRange_signed_iff _ rfl]; unfold mask; omega
          rw [hn] at h
          simp only [Bool.not_true, Bool.false_eq_true, if_false, bind, Except.bind, csub_ok rfl hr1, cadd_ok hr2,
            pure, Except.pure, ofE, Option.some.injEq] at h
          refine ⟨mask P - (d : Int) + 1, h.symm, by unfold mask; omega, by unfold mask; omega, ?_⟩
          rw [hvalue, hn]; simp only [if_true]
          have : mask P - (d : Int) + 1 = -((d : Int) + two P.shift * (natVal P.shift rest : Int))
              + two P.shift * (1 + (natVal P.shift rest : Int)) := by
            unfold mask; rw [Int.mul_add]; omega
          rw [this, Int.add_mul_emod_self_left]
      obtain ⟨other, hoe, ho0, ho1, hcong⟩ := hother
      have hor : P.tLong.inRange other := by rw [inRange_signed_iff _ rfl]; have := two_pos (P.tLong.bits - 2); omega
      refine ⟨cbit P.tLong .and c other, hoe, ?_⟩
      intro k
      rw [cbit_bit rfl hb .and hcr hor k]
      simp only [BitOp.bool]
      by_cases hk : k < P.shift
      · rw [bit_congr_mod hcong hk, Bool.and_comm]
      · have : bit c k = false := bit_of_small hc0 (Int.lt_of_lt_of_le hc1 (two_le_two (by omega)))
        rw [this]; simp
  · rw [if_neg hm] at h; cases h

/-- the result is an int whose bits are the bitwise combination of the operands' bits -/
def BitRight (o : BitOp) (a b : Int) (out : Out) : Prop :=
  IsFallback out ∨ ∃ r, out = .int r ∧ ∀ k, bit r k = o.bool (bit a k) (bit b k)

theorem calc_bitop (P : Plat) (cfg : Cfg) (o : BitOp) (a b xv : Int) (size : Nat) :
    calcLong P cfg o.toOp a b xv size = .ok (.int (cbit P.tLong o a b)) ∧
    calcLL P cfg o.toOp a b = .ok (.int (cbit P.tLL o a b)) := by
  cases o <;> exact ⟨rfl, rfl⟩

theorem bitop_raw (P : Plat) (hP : PlatOK P) (cfg : Cfg) (o : BitOp) (ord : Order) (p : PyLong) (hwf : p.WF P.shift)
    (c : Int) (hc : CBnd c) (zc : Bool) :
    BitRight o (opA ord (p.value P.shift) c) (opB ord (p.value P.shift) c) (unpacked P cfg o.toOp ord p c zc) := by
  have hP' := hP
  obtain ⟨hS, hi0, hiL, hL4, hLLL, hLL8, hSL, hSLL⟩ := hP'
  have hex : extra o.toOp = 0 := by cases o <;> rfl
  have key : ∀ (t : CTy), t.signed = true → 0 < t.bytes → ∀ v n, Bnd n v → n + 2 ≤ t.bits → 32 ≤ t.bits →
      BitRight o (opA ord v c) (opB ord v c) (.int (cbit t o (opA ord v c) (opB ord v c))) := by
    intro t hs hb v n hb1 hn h32
    have hrv : t.inRange v := inRange_of_bnd hs hb1 (by omega)
    have hrc : t.inRange c := inRange_of_bnd hs (cbnd_bnd hc) (by omega)
    refine .inr ⟨_, rfl, fun k => ?_⟩
    cases ord
    · exact cbit_bit hs hb o hrv hrc k
    · exact cbit_bit hs hb o hrc hrv k
  apply unpacked_frame P hP cfg o.toOp ord p hwf c zc
    (fun out => BitRight o (opA ord (p.value P.shift) c) (opB ord (p.value P.shift) c) out)
  · intro hz out ho
    rw [value_zero hz]
    cases ord <;> cases o <;> simp [zeroCase, BitOp.toOp] at ho <;> subst ho <;>
      exact .inr ⟨_, rfl, fun k => by simp [opA, opB, BitOp.bool, bit_zero_left]⟩
  · exact .inl ⟨_, rfl⟩
  · intro hand hne out ho
    have ho' : o = .and := by cases o <;> simp [BitOp.toOp] at hand ⊢
    subst ho'
    obtain ⟨r, hr, hbits⟩ := andShortcut_spec P hP p hwf hne c out ho
    refine .inr ⟨r, hr, fun k => ?_⟩
    rw [hbits k]
    cases ord <;> simp [opA, opB, BitOp.bool, Bool.and_comm]
  · intro v n hv _ _ hb h1 _
    subst hv
    rw [(calc_bitop P cfg o _ _ _ _).1]
    exact key P.tLong rfl (by show 0 < P.longBytes; omega) _ n hb (by rw [tLong_bits]; omega) (by rw [tLong_bits]; omega)
  · intro v n hv _ _ hb h2 _
    subst hv
    rw [hex] at h2
    rw [(calc_bitop P cfg o _ _ 0 0).2]
    exact key P.tLL rfl (by show 0 < P.llBytes; omega) _ n hb (by rw [tLL_bits]; omega) (by rw [tLL_bits]; omega)

end CyVerif.C02

import CyVerif.Lemmas.C02Unpack
/-!
C02: proof frame for `__Pyx_Unpacked_…`: a property holds of the result if it holds of the zero shortcut,
of the single-digit `&` shortcut, of the slot fallback, and of `calculate_long` / `calculate_long_long`
run on the exact value with the bound given by the digit-count guard.
-/
namespace CyVerif.C02
open CyVerif.C05

theorem value_zero {S : Nat} {p : PyLong} (hz : p.digits = []) : p.value S = 0 := by
  unfold PyLong.value; rw [hz]; simp [natVal]

theorem value_ne_zero {S : Nat} {p : PyLong} (hwf : p.WF S) (hne : p.digits ≠ []) : p.value S ≠ 0 := by
  have h := natVal_ge S p.digits hne hwf.2.1
  have := Nat.two_pow_pos ((p.digits.length - 1) * S)
  unfold PyLong.value; split <;> omega

theorem isZero_iff (p : PyLong) : isZero p = true ↔ p.digits = [] := by
  unfold isZero; simp

theorem unpacked_frame (P : Plat) (hP : PlatOK P) (cfg : Cfg) (op : Op) (ord : Order) (p : PyLong)
    (hwf : p.WF P.shift) (c : Int) (zc : Bool) (Q : Out → Prop)
    (hzero : p.digits = [] → ∀ o, zeroCase P op ord c zc = some o → Q o)
    (hslot : Q (.fallback "slot"))
    (hand : op = .and → p.digits ≠ [] → ∀ o, andShortcut P p (isPos p) c = some o → Q o)
    (hlong : ∀ v n, v = p.value P.shift → n = p.digits.length * P.shift → v ≠ 0 → Bnd n v → n + 2 ≤ 8 * P.longBytes →
      n + extra op + 1 ≤ 8 * P.llBytes →
      Q (ofE (calcLong P cfg op (opA ord v c) (opB ord v c) v p.digits.length)))
    (hll : ∀ v n, v = p.value P.shift → n = p.digits.length * P.shift → v ≠ 0 → Bnd n v →
      n + extra op + 2 ≤ 8 * P.llBytes → op ≠ .tdiv →
      Q (ofE (calcLL P cfg op (opA ord v c) (opB ord v c)))) :
    Q (unpacked P cfg op ord p c zc) := by
  unfold unpacked
  by_cases hz : p.digits = []
  · have hiz : isZero p = true := (isZero_iff p).mpr hz
    simp only [hiz, if_true]
    cases hzc : zeroCase P op ord c zc with
    | some o => exact hzero hz o hzc
    | none =>
      simp only
      have hop : op ≠ .and := by
        intro h; subst h; cases ord <;> simp [zeroCase] at hzc
      rw [if_neg hop]
      simp only [unpack_zero P op p hz, bind, Except.bind, ofE, pure, Except.pure]
      exact hslot
  · have hiz : isZero p = false := by
      cases h : isZero p with
      | false => rfl
      | true => exact absurd ((isZero_iff p).mp h) hz
    simp only [hiz, Bool.false_eq_true, if_false]
    have main : Q (ofE (do
        match ← unpack P op p (isPos p) with
        | .long v => calcLong P cfg op (opA ord v c) (opB ord v c) v p.digits.length
        | .ll v => calcLL P cfg op (opA ord v c) (opB ord v c)
        | .slot => pure (.fallback "slot"))) := by
      obtain ⟨u, hu, hok⟩ := unpack_spec P hP op p hwf hz
      rw [hu]
      simp only [bind, Except.bind]
      cases hok with
      | slot => exact hslot
      | long hb h1 h2 => exact hlong _ _ rfl rfl (value_ne_zero hwf hz) hb h1 h2
      | ll hb h2 hop => exact hll _ _ rfl rfl (value_ne_zero hwf hz) hb h2 hop
    by_cases hop : op = .and
    · rw [if_pos hop]
      cases hs : andShortcut P p (isPos p) c with
      | some o => exact hand hop hz o hs
      | none => exact main
    · rw [if_neg hop]; exact main

end CyVerif.C02

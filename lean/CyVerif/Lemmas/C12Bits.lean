import CyVerif.Model.C12
/-!
Bit-level facts for C12: the three back-reference byte layouts are inverted by the
decoder's masks/shifts, and the compressor's flag register equals the flag byte the
decoder consumes.  Finite domains are closed by `decide`.
-/
namespace CyVerif.C12

/-! ### byte with the high bit set -/

theorem hibit_facts : ∀ a, a < 128 →
    (a ||| 0x80) &&& 0x80 ≠ 0 ∧ (a ||| 0x80) &&& 0x7F = a ∧ (a ||| 0x80) < 256 ∧ a &&& 0x80 = 0 := by
  decide

theorem and7F_lt (o : Nat) : o &&& 0x7F < 128 :=
  Nat.lt_of_le_of_lt Nat.and_le_right (by decide)

theorem and7F_eq_mod (o : Nat) : o &&& 0x7F = o % 128 :=
  Nat.and_two_pow_sub_one_eq_mod o 7

theorem shl7_or (a b : Nat) (hb : b < 128) : a <<< 7 ||| b = a * 128 + b := by
  rw [← Nat.shiftLeft_add_eq_or_of_lt (i := 7) (by simpa using hb) a, Nat.shiftLeft_eq]

/-! ### mid form: `lo = (o & 0x7F) | 0x80`, `hi = ((o & 0x180) >> 2) | lb` -/

theorem mid_hi_facts : ∀ h, h < 4 → ∀ lb, lb < 32 →
    ((h * 32) ||| lb) &&& 0x80 = 0 ∧ ((((h * 32) ||| lb) <<< 2) &&& 0x180) = h * 128 ∧
    ((h * 32) ||| lb) &&& 0x1F = lb ∧ ((h * 32) ||| lb) < 256 := by
  decide

theorem mid_split : ∀ o, o < 512 →
    (o &&& 0x180) >>> 2 = (o / 128) * 32 ∧ ((o / 128) * 128 ||| (o &&& 0x7F)) = o ∧ o / 128 < 4 := by
  decide +kernel

theorem mid_codec (o lb : Nat) (ho : o < 512) (hl : lb < 32) :
    ((o &&& 0x7F) ||| 0x80) &&& 0x80 ≠ 0 ∧
    (((o &&& 0x180) >>> 2) ||| lb) &&& 0x80 = 0 ∧
    ((((((o &&& 0x180) >>> 2) ||| lb) <<< 2) &&& 0x180) ||| (((o &&& 0x7F) ||| 0x80) &&& 0x7F)) = o ∧
    (((o &&& 0x180) >>> 2) ||| lb) &&& 0x1F = lb ∧
    ((o &&& 0x7F) ||| 0x80) < 256 ∧ (((o &&& 0x180) >>> 2) ||| lb) < 256 := by
  obtain ⟨s1, s2, s3⟩ := mid_split o ho
  obtain ⟨h1, h2, h3, h4⟩ := mid_hi_facts (o / 128) s3 lb hl
  obtain ⟨a1, a2, a3, _⟩ := hibit_facts (o &&& 0x7F) (and7F_lt o)
  rw [s1]
  refine ⟨a1, h1, ?_, h3, a3, h4⟩
  rw [h2, a2, s2]

/-! ### long form: `lo = o & 0x7F | 0x80`, `hi = (o >> 7) & 0x7F | 0x80` -/

theorem long_codec (o : Nat) (ho : o < 16384) :
    (o &&& 0x7F ||| 0x80) &&& 0x80 ≠ 0 ∧
    ((o >>> 7) &&& 0x7F ||| 0x80) &&& 0x80 ≠ 0 ∧
    ((((o >>> 7) &&& 0x7F ||| 0x80) &&& 0x7F) <<< 7 ||| ((o &&& 0x7F ||| 0x80) &&& 0x7F)) = o ∧
    (o &&& 0x7F ||| 0x80) < 256 ∧ ((o >>> 7) &&& 0x7F ||| 0x80) < 256 := by
  obtain ⟨a1, a2, a3, _⟩ := hibit_facts (o &&& 0x7F) (and7F_lt o)
  obtain ⟨b1, b2, b3, _⟩ := hibit_facts ((o >>> 7) &&& 0x7F) (and7F_lt _)
  refine ⟨a1, b1, ?_, a3, b3⟩
  rw [a2, b2, shl7_or _ _ (and7F_lt o), and7F_eq_mod, and7F_eq_mod, Nat.shiftRight_eq_div_pow]
  simp only [Nat.reducePow]
  omega

/-! ### enumeration of the flag patterns of a group -/

def allBools : Nat → List (List Bool)
  | 0 => [[]]
  | k + 1 => (allBools k).flatMap fun l => [false :: l, true :: l]

theorem mem_allBools : ∀ (bs : List Bool), bs ∈ allBools bs.length
  | [] => by simp [allBools]
  | b :: bs => by
    simp only [List.length_cons, allBools, List.mem_flatMap]
    refine ⟨bs, mem_allBools bs, ?_⟩
    cases b <;> simp

/-- flag byte of a list of "is literal" bits, LSB first -/
def fb : List Bool → Nat
  | [] => 0
  | b :: bs => (if b then 1 else 0) + 2 * fb bs

theorem flagByte_eq_fb (ts : List Token) : flagByte ts = fb (ts.map Token.isLit) := by
  induction ts with
  | nil => rfl
  | cons t ts ih => simp [flagByte, fb, ih]

/-- the compressor's flag register after the tokens of the current group -/
def reg (bs : List Bool) : Nat :=
  bs.foldl (fun f b => ((if b then 1 else 0) <<< 7) ||| (f >>> 1)) 0xFF0000

theorem reg_snoc (bs : List Bool) (b : Bool) :
    reg (bs ++ [b]) = ((if b then 1 else 0) <<< 7) ||| (reg bs >>> 1) := by
  simp [reg, List.foldl_append]

/-- what one has to know about a pattern of at most 8 flags -/
def FlagFacts (bs : List Bool) : Prop :=
  (bs.length < 8 → reg bs ≥ 0x10000) ∧
  (bs.length = 8 → reg bs < 0x10000 ∧ reg bs &&& 0xFF = fb bs) ∧
  (padFlags (reg bs) (reg bs) &&& 0xFF = fb bs) ∧
  fb bs < 256 ∧
  (∀ j, j < bs.length →
    ((fb bs ||| 0xFF00) >>> j) &&& 0x100 ≠ 0 ∧
    (((fb bs ||| 0xFF00) >>> j) &&& 1 ≠ 0 ↔ bs[j]? = some true)) ∧
  ((fb bs ||| 0xFF00) >>> 8) &&& 0x100 = 0

instance (bs : List Bool) : Decidable (FlagFacts bs) := by unfold FlagFacts; infer_instance

theorem flagFacts_upto (k : Nat) (hk : k ≤ 8) : ∀ bs ∈ allBools k, FlagFacts bs := by
  have h : ∀ k, k < 9 → ∀ bs ∈ allBools k, FlagFacts bs := by decide +kernel
  exact h k (by omega)

theorem flagFacts (bs : List Bool) (h : bs.length ≤ 8) : FlagFacts bs :=
  flagFacts_upto bs.length h bs (mem_allBools bs)

end CyVerif.C12

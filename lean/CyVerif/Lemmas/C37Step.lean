import CyVerif.Lemmas.C37Sum
/-! C37 leg 2: the step function as a relation with one constructor per emitted code path. -/
namespace CyVerif.C37

inductive Step (c : Cfg) (st : St) (t : Nat) : St → Prop where
  | skip (k rest) : st.pc t = .idle → st.todo t = k :: rest → 2 ≤ st.why →
      Step c st t { st with todo := upd st.todo t rest, skipped := k :: st.skipped }
  | runCont (k rest) : st.pc t = .idle → st.todo t = k :: rest → c.kinds k = .cont →
      Step c st t { st with todo := upd st.todo t rest, ran := k :: st.ran }
  | runBrk (k rest) : st.pc t = .idle → st.todo t = k :: rest → c.kinds k = .brk →
      Step c st t { st with todo := upd st.todo t rest, ran := k :: st.ran, pc := upd st.pc t (.setWhy 2) }
  | runRet (k rest) : st.pc t = .idle → st.todo t = k :: rest → c.kinds k = .ret →
      Step c st t { st with todo := upd st.todo t rest, ran := k :: st.ran, pc := upd st.pc t (.writeRet k) }
  | runRaise (k rest) : st.pc t = .idle → st.todo t = k :: rest → c.kinds k = .raise →
      Step c st t { st with todo := upd st.todo t rest, ran := k :: st.ran, pc := upd st.pc t .fetch,
                            released := (st.cur t).toList ++ st.released, cur := upd st.cur t (some k) }
  | finMaster : st.pc t = .idle → st.todo t = [] → t = 0 →
      Step c st t { st with pc := upd st.pc t .finished }
  | finWorker : st.pc t = .idle → st.todo t = [] → t ≠ 0 →
      Step c st t { st with pc := upd st.pc t .finished, released := (st.cur t).toList ++ st.released,
                            cur := upd st.cur t none }
  | setWhy (v) : st.pc t = .setWhy v →
      Step c st t { st with why := v, pc := upd st.pc t .idle }
  | writeRet (v) : st.pc t = .writeRet v →
      Step c st t { st with ret := some v, pc := upd st.pc t (.setWhy 3) }
  | fetchFull : st.pc t = .fetch → c.guarded = true → st.slot.isSome = true →
      Step c st t { st with pc := upd st.pc t (.setWhy 4) }
  | fetchTake : st.pc t = .fetch → (c.guarded = false ∨ st.slot = none) →
      Step c st t { st with slot := st.cur t, cur := upd st.cur t none, pc := upd st.pc t (.setWhy 4) }

theorem step_sound {c : Cfg} {st st' : St} {t : Nat} {sk : Bool} (h : step c st t sk = some st') :
    t < c.n ∧ Step c st t st' := by
  unfold step at h
  split at h
  next ht =>
    refine ⟨ht, ?_⟩
    split at h
    next k rest hpc htodo =>
      split at h
      · split at h
        · cases h; exact .skip k rest hpc htodo ‹_›
        · cases h
      · split at h
        · cases h; exact .runCont k rest hpc htodo ‹_›
        · cases h; exact .runBrk k rest hpc htodo ‹_›
        · cases h; exact .runRet k rest hpc htodo ‹_›
        · cases h; exact .runRaise k rest hpc htodo ‹_›
    next hpc htodo =>
      split at h
      · cases h; exact .finMaster hpc htodo ‹_›
      · cases h; exact .finWorker hpc htodo ‹_›
    next hpc => cases h; exact .setWhy _ hpc
    next hpc => cases h; exact .writeRet _ hpc
    next hpc =>
      split at h
      next hg =>
        cases h
        simp only [Bool.and_eq_true] at hg
        exact .fetchFull hpc hg.1 hg.2
      next hg =>
        cases h
        refine .fetchTake hpc ?_
        simp only [Bool.and_eq_true, not_and, Bool.not_eq_true] at hg
        cases hc : c.guarded
        · exact Or.inl rfl
        · right
          have := hg hc
          cases hs : st.slot <;> simp_all
    next => cases h
  next => cases h

end CyVerif.C37

import CyVerif.Lemmas.C50DfaK
/-! Subset construction, part L: seeding, the final machine, and the simulation theorem. -/
namespace CyVerif.C50
open CyVerif.C46 (Reach)

theorem lookupInit_setInit (name name' : String) (v : Nat) (l : List (String × Nat)) :
    lookupInit name' (setInit name v l) = if name' = name then some v else lookupInit name' l := by
  induction l with
  | nil =>
    by_cases h : name' = name
    · subst h; simp [setInit, lookupInit]
    · have : ¬ name = name' := fun e => h e.symm
      simp [setInit, lookupInit, h, this]
  | cons p ps ih =>
    obtain ⟨a, b⟩ := p
    simp only [setInit]
    by_cases ha : a = name
    · subst ha
      simp only [if_true, lookupInit]
      by_cases h : a = name'
      · subst h; simp
      · have : ¬ name' = a := fun e => h e.symm
        simp [h, this]
    · simp only [ha, if_false, lookupInit]
      by_cases h : a = name'
      · subst h
        have : ¬ a = name := ha
        simp [this]
      · simp only [h, if_false]; exact ih

theorem smInv_oldToNew (n : NFA) (sm : SMap) (S : SSet) (inv : SMInv n sm 0) (hs : Sorted S) (hc : EpsClosed n S) :
    SMInv n (sm.oldToNew n S).1 0 ∧ (sm.oldToNew n S).2 < (sm.oldToNew n S).1.states.length ∧
    (sm.oldToNew n S).1.key (sm.oldToNew n S).2 = S ∧
    (sm.oldToNew n S).1.inits = sm.inits ∧ sm.states.length ≤ (sm.oldToNew n S).1.states.length ∧
    (∀ p, p < sm.states.length → (sm.oldToNew n S).1.key p = sm.key p) := by
  obtain ⟨hk, hi, hcase⟩ := oldToNew_spec n sm S inv.len
  have hlt : (sm.oldToNew n S).2 < (sm.oldToNew n S).1.keys.length := by
    rcases List.getElem?_eq_some_iff.1 hk with ⟨h, _⟩; exact h
  have hkey : (sm.oldToNew n S).1.key (sm.oldToNew n S).2 = S := by unfold SMap.key; rw [hk]; rfl
  rcases hcase with hc' | ⟨hks, hss⟩
  · rw [hc'] at hlt hkey ⊢
    exact ⟨inv, by rw [← inv.len]; exact hlt, hkey, rfl, Nat.le_refl _, fun _ _ => rfl⟩
  · have hlen : (sm.oldToNew n S).1.keys.length = (sm.oldToNew n S).1.states.length := by
      rw [hks, hss]; simp [inv.len]
    have hold : ∀ p, p < sm.states.length → (sm.oldToNew n S).1.key p = sm.key p := by
      intro p hp
      unfold SMap.key
      rw [hks, List.getElem?_append_left (by rw [inv.len]; exact hp)]
    have hdst : ∀ p, p < sm.states.length → dstate (sm.oldToNew n S).1.states p = dstate sm.states p := by
      intro p hp
      unfold dstate
      rw [hss, List.getElem?_append_left hp]
    have hnew : dstate (sm.oldToNew n S).1.states sm.states.length = freshD (highestPriorityAction n S) := by
      unfold dstate
      rw [hss, List.getElem?_append_right (Nat.le_refl _)]
      simp
    have hnewkey : (sm.oldToNew n S).1.key sm.states.length = S := by
      unfold SMap.key
      rw [hks, ← inv.len, List.getElem?_append_right (Nat.le_refl _)]
      simp
    refine ⟨⟨hlen, ?_, ?_, ?_, ?_, fun q hq => by omega⟩, by rw [← hlen]; exact hlt, hkey, hi,
      by rw [hss]; simp, hold⟩
    · intro K hK
      rw [hks] at hK
      rcases List.mem_append.1 hK with hK | hK
      · exact inv.sorted K hK
      · simp only [List.mem_singleton] at hK; subst hK; exact hs
    · intro K hK
      rw [hks] at hK
      rcases List.mem_append.1 hK with hK | hK
      · exact inv.closed K hK
      · simp only [List.mem_singleton] at hK; subst hK; exact hc
    · intro q hq
      rw [hss] at hq
      simp only [List.length_append, List.length_singleton] at hq
      by_cases hq0 : q < sm.states.length
      · rw [hdst q hq0, hold q hq0]; exact inv.action q hq0
      · have : q = sm.states.length := by omega
        subst this
        rw [hnew, hnewkey]; rfl
    · intro q _ hq
      rw [hss] at hq
      simp only [List.length_append, List.length_singleton] at hq
      by_cases hq0 : q < sm.states.length
      · rw [hdst q hq0]; exact inv.fresh q (Nat.zero_le _) hq0
      · have : q = sm.states.length := by omega
        subst this
        rw [hnew]; rfl

/-- the initial states of the new machine stand for the epsilon closures of the old initial states -/
def InitsOK (n : NFA) (sm : SMap) (P : List (String × Nat)) : Prop :=
  ∀ name q, lookupInit name sm.inits = some q →
    q < sm.states.length ∧ ∃ s, (name, s) ∈ P ∧ ∀ u, u ∈ sm.key q ↔ Reach n.eps s u

theorem seedInits_spec (n : NFA) (L : List (String × Nat)) :
    ∀ (P : List (String × Nat)) (sm sm' : SMap), SMInv n sm 0 → InitsOK n sm P → seedInits n L sm = .ok sm' →
      SMInv n sm' 0 ∧ InitsOK n sm' (P ++ L) := by
  induction L with
  | nil =>
    intro P sm sm' inv hi hr
    simp only [seedInits, Except.ok.injEq] at hr
    subst hr
    exact ⟨inv, by simpa using hi⟩
  | cons it L ih =>
    intro P sm sm' inv hi hr
    obtain ⟨name, s⟩ := it
    simp only [seedInits] at hr
    cases hc : epsClosure n s with
    | none => simp [hc] at hr
    | some c =>
      simp only [hc] at hr
      obtain ⟨cs, cm⟩ := epsClosure_spec n s c hc
      obtain ⟨inv1, hlt, hkey, hin, hgrow, hold⟩ := smInv_oldToNew n sm c inv cs (epsClosure_closed n s c hc)
      generalize sm.oldToNew n c = r at hr inv1 hlt hkey hin hgrow hold
      have inv2 : SMInv n { r.1 with inits := setInit name r.2 r.1.inits } 0 :=
        ⟨inv1.len, inv1.sorted, inv1.closed, inv1.action, inv1.fresh, inv1.done⟩
      have hi2 : InitsOK n { r.1 with inits := setInit name r.2 r.1.inits } (P ++ [(name, s)]) := by
        intro name' q hq
        simp only [lookupInit_setInit] at hq
        by_cases hn : name' = name
        · simp only [hn, if_true, Option.some.injEq] at hq
          subst hq
          refine ⟨hlt, s, by simp [hn], fun u => ?_⟩
          show u ∈ r.1.key r.2 ↔ _
          rw [hkey]; exact cm u
        · simp only [hn, if_false, hin] at hq
          obtain ⟨a, s', hs', hu⟩ := hi name' q hq
          refine ⟨Nat.lt_of_lt_of_le a hgrow, s', by simp [hs'], fun u => ?_⟩
          show u ∈ r.1.key q ↔ _
          rw [hold q a]; exact hu u
      have := ih (P ++ [(name, s)]) _ sm' inv2 hi2 hr
      simpa using this

theorem nfaToDfa_spec (n : NFA) (hn : n.WF) (he : n.EndsAgree) (fuel : Nat) (sm : SMap)
    (hr : nfaToDfa n fuel = .ok sm) :
    SMInv n sm sm.states.length ∧ InitsOK n sm n.inits := by
  unfold nfaToDfa at hr
  cases hs : seedInits n n.inits ⟨[], [], []⟩ with
  | error e => simp [hs] at hr
  | ok sm0 =>
    simp only [hs] at hr
    have inv0 : SMInv n ⟨[], [], []⟩ 0 :=
      ⟨rfl, by simp, by simp, fun q hq => by simp at hq, fun q _ hq => by simp at hq, fun q hq => by omega⟩
    have hi0 : InitsOK n ⟨[], [], []⟩ [] := by intro name q hq; simp [lookupInit] at hq
    obtain ⟨inv1, hi1⟩ := seedInits_spec n n.inits [] _ sm0 inv0 hi0 hs
    obtain ⟨inv2, g, i, k⟩ := dfaLoop_spec n hn he fuel 0 sm0 sm inv1 (Nat.zero_le _) hr
    refine ⟨inv2, ?_⟩
    intro name q hq
    rw [i] at hq
    obtain ⟨a, s, hs', hu⟩ := hi1 name q hq
    refine ⟨Nat.lt_of_lt_of_le a g, s, by simpa using hs', fun u => ?_⟩
    rw [k q (by rw [inv1.len]; exact a)]; exact hu u

end CyVerif.C50

import CyVerif.Model.C11
/-! Lemmas about the C literal automaton `run`: composition, safe tokens, identity of phases 1 and 2. -/
namespace CyVerif.C11

theorem run_append (q : Nat) (s : St) (x y : List Nat) :
    run q s (x ++ y) =
      match run q s x with
      | none => none
      | some (s', e) =>
        match run q s' y with
        | none => none
        | some (s'', e') => some (s'', e ++ e') := by
  induction x generalizing s with
  | nil =>
    simp only [List.nil_append, run]
    cases run q s y with
    | none => rfl
    | some r => simp
  | cons c cs ih =>
    simp only [List.cons_append, run]
    cases hstep : step q s c with
    | none => simp
    | some r =>
      obtain ⟨s1, e1⟩ := r
      simp only [ih]
      cases run q s1 cs with
      | none => simp
      | some r2 =>
        obtain ⟨s2, e2⟩ := r2
        simp only
        cases run q s2 y with
        | none => simp
        | some r3 => simp [List.append_assoc]

theorem tok_run (q : Nat) (hq : q = 34 ∨ q = 39) (t : List Nat) (v : Nat) (h : tokVal t = some v) :
    run q .lit t = some (.lit, [v]) := by
  rcases t with _ | ⟨a, _ | ⟨b, _ | ⟨c, _ | ⟨d, _ | ⟨e, t⟩⟩⟩⟩⟩
  · simp [tokVal] at h
  · simp only [tokVal] at h
    split at h
    · rename_i hc
      injection h with h; subst h
      have h1 : a ≠ q := by rcases hq with rfl | rfl <;> omega
      simp [run, step, stepLit, h1, hc.2.2.2.2, hc.1, hc.2.1]
    · simp at h
  · simp only [tokVal] at h
    split at h
    · rename_i hb; subst hb
      have h1 : (92:Nat) ≠ q := by rcases hq with rfl | rfl <;> omega
      simp [run, step, stepLit, h1, h]
    · simp at h
  · simp [tokVal] at h
  · simp only [tokVal] at h
    split at h
    · rename_i hh
      obtain ⟨hb, hx, hy, hz, hv⟩ := hh
      injection h with h; subst h; subst hb
      have h1 : (92:Nat) ≠ q := by rcases hq with rfl | rfl <;> omega
      have hs : simpleEsc b = none := by
        simp only [isOct, Bool.and_eq_true, decide_eq_true_eq] at hx
        unfold simpleEsc
        repeat (split; omega)
        rfl
      have he : ((b - 48) * 8 + (c - 48)) * 8 + (d - 48) = (b - 48) * 64 + (c - 48) * 8 + (d - 48) := by omega
      simp [run, step, stepLit, h1, hs, hx, hy, hz, he, hv]
    · simp at h
  · simp [tokVal] at h


theorem decodeToks_cons {t : List Nat} {ts : List (List Nat)} {vs : List Nat}
    (h : decodeToks (t :: ts) = some vs) :
    ∃ v vs', tokVal t = some v ∧ decodeToks ts = some vs' ∧ vs = v :: vs' := by
  simp only [decodeToks] at h
  cases h1 : tokVal t with
  | none => simp [h1] at h
  | some v =>
    cases h2 : decodeToks ts with
    | none => simp [h1, h2] at h
    | some vs' =>
      simp [h1, h2] at h
      exact ⟨v, vs', rfl, rfl, h.symm⟩

theorem decodeToks_append {ts us : List (List Nat)} {vs ws : List Nat}
    (h1 : decodeToks ts = some vs) (h2 : decodeToks us = some ws) :
    decodeToks (ts ++ us) = some (vs ++ ws) := by
  induction ts generalizing vs with
  | nil => simp [decodeToks] at h1; subst h1; simpa using h2
  | cons t ts ih =>
    obtain ⟨v, vs', hv, hts, rfl⟩ := decodeToks_cons h1
    simp [decodeToks, hv, ih hts]

/-- A text made of safe tokens is decoded token by token, inside either kind of literal. -/
theorem run_toks (q : Nat) (hq : q = 34 ∨ q = 39) (ts : List (List Nat)) (vs : List Nat)
    (h : decodeToks ts = some vs) : run q .lit ts.flatten = some (.lit, vs) := by
  induction ts generalizing vs with
  | nil => simp [decodeToks] at h; subst h; simp [run]
  | cons t ts ih =>
    obtain ⟨v, vs', hv, hts, rfl⟩ := decodeToks_cons h
    rw [List.flatten_cons, run_append, tok_run q hq t v hv]
    simp [ih vs' hts]

theorem noQQ_cons_of_ne {c : Nat} (h : c ≠ 63) (s : List Nat) : noQQ (c :: s) = noQQ s := by
  conv => lhs; unfold noQQ
  split
  · omega
  · rfl

theorem noQQ_tail {c : Nat} {s : List Nat} (h : noQQ (c :: s) = true) : noQQ s = true := by
  unfold noQQ at h
  split at h
  · simp at h
  · exact h

theorem trigraphs_id (s : List Nat) (h : noQQ s = true) : trigraphs s = s := by
  unfold trigraphs
  induction s with
  | nil => rfl
  | cons c rest ih =>
    unfold trigraphsAux
    split
    · rename_i x r
      simp [noQQ] at h
    · rw [ih (noQQ_tail h)]

theorem splice_id (s : List Nat) (h : 10 ∉ s) : splice s = s := by
  unfold splice
  induction s with
  | nil => rfl
  | cons c rest ih =>
    unfold spliceAux
    split
    · simp at h
    · rw [ih (by intro h'; exact h (List.mem_cons_of_mem _ h'))]

end CyVerif.C11

import CyVerif.Lemmas.C35Nanny2
/-! `balFrom` as plain counting over prefixes; net refcount of balanced streams. -/
namespace CyVerif.C35

def NEv.regOf (e : NEv) (o : Nat) : Nat :=
  match e.kind with
  | .reg (some x) => if x = o then 1 else 0
  | _ => 0

def NEv.delOf (e : NEv) (o : Nat) : Nat :=
  match e.kind with
  | .del (some x) _ => if x = o then 1 else 0
  | _ => 0

/-- number of registrations (`GOTREF`, `INCREF`) of `o` -/
def regs (es : List NEv) (o : Nat) : Nat := (es.map (·.regOf o)).sum
/-- number of releases (`GIVEREF`, `DECREF`) of `o` -/
def dels (es : List NEv) (o : Nat) : Nat := (es.map (·.delOf o)).sum

/-- no `GOTREF/INCREF/GIVEREF/DECREF` of a NULL pointer (the `X` macros skip NULL themselves) -/
def NoNull (es : List NEv) : Prop := ∀ e ∈ es, e.kind ≠ .reg none ∧ ∀ d, e.kind ≠ .del none d

/-- in every prefix no object has been released more often than registered -/
def PrefixOK (held : Nat → Nat) (es : List NEv) : Prop :=
  ∀ k o, dels (es.take k) o ≤ held o + regs (es.take k) o

theorem regs_cons (e : NEv) (es : List NEv) (o : Nat) : regs (e :: es) o = e.regOf o + regs es o := by
  simp [regs]
theorem dels_cons (e : NEv) (es : List NEv) (o : Nat) : dels (e :: es) o = e.delOf o + dels es o := by
  simp [dels]

theorem inc_apply (held : Nat → Nat) (x o : Nat) : inc held x o = if x = o then held o + 1 else held o := by
  unfold inc; by_cases h : x = o
  · subst h; simp
  · have : ¬ o = x := fun e => h e.symm
    simp [h, this]

theorem dec_apply (held : Nat → Nat) (x o : Nat) : dec held x o = if x = o then held o - 1 else held o := by
  unfold dec; by_cases h : x = o
  · subst h; simp
  · have : ¬ o = x := fun e => h e.symm
    simp [h, this]

theorem prefixOK_cons {held held' : Nat → Nat} {e : NEv} {es : List NEv}
    (hh : ∀ o, held' o + e.delOf o = held o + e.regOf o) (h0 : ∀ o, e.delOf o ≤ held o + e.regOf o) :
    PrefixOK held (e :: es) ↔ PrefixOK held' es := by
  constructor
  · intro h k o
    have := h (k + 1) o
    simp only [List.take_succ_cons, regs_cons, dels_cons] at this
    have := hh o; omega
  · intro h k o
    cases k with
    | zero => simp [dels, regs]
    | succ k =>
      simp only [List.take_succ_cons, regs_cons, dels_cons]
      have := h k o; have := hh o; have := h0 o; omega

theorem balFrom_iff (held : Nat → Nat) (es : List NEv) :
    balFrom held es ↔ NoNull es ∧ PrefixOK held es ∧ ∀ o, held o + regs es o = dels es o := by
  induction es generalizing held with
  | nil =>
    simp only [balFrom, NoNull, PrefixOK, regs, dels]
    constructor
    · intro h; exact ⟨by simp, by simp, by simpa using h⟩
    · intro h o; simpa using h.2.2 o
  | cons e es ih =>
    simp only [balFrom]
    have nn : NoNull (e :: es) ↔ (e.kind ≠ .reg none ∧ ∀ d, e.kind ≠ .del none d) ∧ NoNull es := by
      simp [NoNull]
    cases hk : e.kind with
    | nop =>
      have hr : ∀ o, e.regOf o = 0 := by intro o; simp [NEv.regOf, hk]
      have hd : ∀ o, e.delOf o = 0 := by intro o; simp [NEv.delOf, hk]
      simp only [ih, nn, hk, regs_cons, dels_cons, hr, hd, Nat.zero_add]
      rw [prefixOK_cons (held' := held) (by intro o; rw [hr, hd]) (by intro o; rw [hd]; omega)]
      simp
    | reg p =>
      cases p with
      | none => simp [nn, hk]
      | some x =>
        have hr : ∀ o, e.regOf o = if x = o then 1 else 0 := by intro o; simp [NEv.regOf, hk]
        have hd : ∀ o, e.delOf o = 0 := by intro o; simp [NEv.delOf, hk]
        simp only [ih, nn, hk, regs_cons, dels_cons, hd, Nat.zero_add]
        rw [prefixOK_cons (held' := inc held x)
          (by intro o; rw [hr, hd, inc_apply]; by_cases h : x = o <;> simp [h])
          (by intro o; rw [hd]; omega)]
        have : ∀ o, inc held x o + regs es o = held o + (e.regOf o + regs es o) := by
          intro o; rw [hr, inc_apply]; by_cases h : x = o <;> simp [h] <;> omega
        simp [this]
    | del p d =>
      cases p with
      | none => simp [nn, hk]
      | some x =>
        have hr : ∀ o, e.regOf o = 0 := by intro o; simp [NEv.regOf, hk]
        have hd : ∀ o, e.delOf o = if x = o then 1 else 0 := by intro o; simp [NEv.delOf, hk]
        constructor
        · rintro ⟨hp, hb⟩
          obtain ⟨h1, h2, h3⟩ := (ih _).mp hb
          refine ⟨nn.mpr ⟨by simp [hk], h1⟩, ?_, ?_⟩
          · rw [prefixOK_cons (held' := dec held x)
              (by intro o; rw [hr, hd, dec_apply]; by_cases h : x = o
                  · subst h; simp; omega
                  · simp [h])
              (by intro o; rw [hr, hd]; by_cases h : x = o
                  · subst h; simp; omega
                  · simp [h])]
            exact h2
          · intro o
            have := h3 o
            simp only [regs_cons, dels_cons, hr, hd]
            rw [dec_apply] at this
            by_cases h : x = o
            · subst h; simp at this ⊢; omega
            · simp [h] at this ⊢; omega
        · rintro ⟨h1, h2, h3⟩
          have hp : 0 < held x := by
            have := h2 1 x
            simp [dels, regs, hr, hd] at this
            exact this
          refine ⟨hp, (ih _).mpr ⟨(nn.mp h1).2, ?_, ?_⟩⟩
          · rw [← prefixOK_cons (held := held) (e := e)
              (by intro o; rw [hr, hd, dec_apply]; by_cases h : x = o
                  · subst h; simp; omega
                  · simp [h])
              (by intro o; rw [hr, hd]; by_cases h : x = o
                  · subst h; simp; omega
                  · simp [h])]
            exact h2
          · intro o
            have := h3 o
            simp only [regs_cons, dels_cons, hr, hd] at this
            rw [dec_apply]
            by_cases h : x = o
            · subst h; simp at this ⊢; omega
            · simp [h] at this ⊢; omega

/-- `Balanced` in plain words: no NULL argument, never more releases than registrations in any
prefix, equally many at the end -/
theorem balanced_iff (es : List NEv) :
    Balanced es ↔ NoNull es ∧ (∀ k o, dels (es.take k) o ≤ regs (es.take k) o) ∧ ∀ o, regs es o = dels es o := by
  unfold Balanced
  rw [balFrom_iff]
  simp [PrefixOK]

end CyVerif.C35

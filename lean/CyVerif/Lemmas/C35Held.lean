import CyVerif.Lemmas.C35Detect
import CyVerif.Model.C35Func
/-! Running the counting specification over a prefix; counting owned temps. -/
namespace CyVerif.C35

def stepHeld (held : Nat → Nat) (e : NEv) : Option (Nat → Nat) :=
  match e.kind with
  | .nop => some held
  | .reg none => none
  | .del none _ => none
  | .reg (some o) => some (inc held o)
  | .del (some o) _ => if 0 < held o then some (dec held o) else none

def runHeld (held : Nat → Nat) : List NEv → Option (Nat → Nat)
  | [] => some held
  | e :: es => (stepHeld held e).bind (fun h => runHeld h es)

theorem balFrom_cons (held : Nat → Nat) (e : NEv) (es : List NEv) :
    balFrom held (e :: es) ↔ ∃ h', stepHeld held e = some h' ∧ balFrom h' es := by
  simp only [balFrom, stepHeld]
  cases e.kind with
  | nop => simp
  | reg p => cases p <;> simp
  | del p d =>
    cases p with
    | none => simp
    | some o => by_cases h : 0 < held o <;> simp [h]

theorem balFrom_append (held : Nat → Nat) (xs ys : List NEv) :
    balFrom held (xs ++ ys) ↔ ∃ h', runHeld held xs = some h' ∧ balFrom h' ys := by
  induction xs generalizing held with
  | nil => simp [runHeld]
  | cons e xs ih =>
    simp only [List.cons_append, balFrom_cons, runHeld, ih]
    constructor
    · rintro ⟨h1, he, h2, hx, hy⟩; exact ⟨h2, by simp [he, hx], hy⟩
    · rintro ⟨h2, hx, hy⟩
      cases he : stepHeld held e with
      | none => simp [he] at hx
      | some h1 => simp [he] at hx; exact ⟨h1, rfl, h2, hx, hy⟩

theorem runHeld_append (held : Nat → Nat) (xs ys : List NEv) :
    runHeld held (xs ++ ys) = (runHeld held xs).bind (fun h => runHeld h ys) := by
  induction xs generalizing held with
  | nil => simp [runHeld]
  | cons e xs ih =>
    simp only [List.cons_append, runHeld]
    cases stepHeld held e with
    | none => simp
    | some h1 => simp [ih]

/-- how many temps currently hold a reference to `o` -/
def ownedCount (owned : List (Nat × Nat)) (o : Nat) : Nat := (owned.filter (fun e => e.2 = o)).length

theorem ownedCount_append (owned : List (Nat × Nat)) (t x : Nat) :
    ownedCount (owned ++ [(t, x)]) = inc (ownedCount owned) x := by
  funext o
  rw [inc_apply]
  by_cases h : x = o <;> simp [ownedCount, List.filter_append, h]

theorem ownedCount_pos {owned : List (Nat × Nat)} {t o : Nat} (h : aget owned t = some o) :
    0 < ownedCount owned o := by
  have := mem_of_aget h
  unfold ownedCount
  exact List.length_pos_of_mem (List.mem_filter.mpr ⟨this, by simp⟩)

theorem ownedCount_remove {owned : List (Nat × Nat)} {t o : Nat} (nd : (owned.map (·.1)).Nodup)
    (h : aget owned t = some o) :
    ownedCount (owned.filter (fun e => e.1 != t)) = dec (ownedCount owned) o := by
  funext x
  rw [dec_apply]
  induction owned with
  | nil => simp [aget] at h
  | cons p l ih =>
    simp only [List.map_cons, List.nodup_cons] at nd
    simp only [aget] at h
    by_cases hp : p.1 = t
    · simp only [hp, if_true] at h
      have hp2 : p.2 = o := Option.some.inj h
      -- no further entry with key t
      have hrest : l.filter (fun e => e.1 != t) = l := by
        apply List.filter_eq_self.mpr
        intro e he
        have : e.1 ≠ t := by
          intro e'; apply nd.1; rw [hp, ← e']; exact List.mem_map.mpr ⟨e, he, rfl⟩
        simp [this]
      simp only [List.filter_cons, hp, bne_self_eq_false, Bool.false_eq_true, if_false, hrest, ownedCount, hp2]
      by_cases hx : o = x <;> simp [hx]
    · simp only [hp, if_false] at h
      have hp' : (p.1 != t) = true := by simp [hp]
      have := ih nd.2 h
      simp only [ownedCount, List.filter_cons, hp', if_true] at this ⊢
      by_cases hpx : p.2 = x
      · simp only [hpx, decide_true, if_true, List.length_cons, this]
        have hpos := ownedCount_pos h
        unfold ownedCount at hpos
        by_cases hx : o = x
        · subst hx; simp; omega
        · simp [hx]
      · simp only [hpx, decide_false, Bool.false_eq_true, if_false, this]

end CyVerif.C35

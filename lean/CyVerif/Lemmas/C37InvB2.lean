import CyVerif.Lemmas.C37InvB
/-! C37 leg 2: part-B invariant is inductive (thread-indexed fields). -/
namespace CyVerif.C37

theorem invB_pcWhy {c : Cfg} {st st' : St} {t : Nat} (ht : t < c.n) (inv : InvB c st) (h : Step c st t st') :
    ∀ u < c.n, ∀ v, st'.pc u = .setWhy v → whyOK c st'.ran st'.ret v := by
  intro u hu v hpc
  have ih := inv.pcWhy u hu v
  cases h with
  | skip k rest hp htodo hw => exact ih hpc
  | runCont k rest hp htodo hk => exact whyOK_cons k (ih hpc)
  | runBrk k rest hp htodo hk =>
    dsimp only at hpc ⊢
    by_cases hut : u = t
    · subst hut; rw [upd_same] at hpc; cases hpc; exact Or.inl ⟨rfl, k, List.mem_cons_self, hk⟩
    · rw [upd_other _ _ _ u hut] at hpc; exact whyOK_cons k (ih hpc)
  | runRet k rest hp htodo hk | runRaise k rest hp htodo hk =>
    dsimp only at hpc ⊢
    by_cases hut : u = t
    · subst hut; rw [upd_same] at hpc; cases hpc
    · rw [upd_other _ _ _ u hut] at hpc; exact whyOK_cons k (ih hpc)
  | finMaster hp | finWorker hp | setWhy v' hp =>
    dsimp only at hpc ⊢
    by_cases hut : u = t
    · subst hut; rw [upd_same] at hpc; cases hpc
    · rw [upd_other _ _ _ u hut] at hpc; exact ih hpc
  | writeRet v' hp =>
    dsimp only at hpc ⊢
    by_cases hut : u = t
    · subst hut; rw [upd_same] at hpc; cases hpc; exact Or.inr (Or.inl ⟨rfl, rfl⟩)
    · rw [upd_other _ _ _ u hut] at hpc; exact whyOK_ret v' (ih hpc)
  | fetchFull hp | fetchTake hp =>
    dsimp only at hpc ⊢
    by_cases hut : u = t
    · subst hut; rw [upd_same] at hpc; cases hpc; exact Or.inr (Or.inr ⟨rfl, inv.pcFetch u ht hp⟩)
    · rw [upd_other _ _ _ u hut] at hpc; exact ih hpc

theorem invB_pcRet {c : Cfg} {st st' : St} {t : Nat} (inv : InvB c st) (h : Step c st t st') :
    ∀ u < c.n, ∀ k, st'.pc u = .writeRet k → k ∈ st'.ran ∧ c.kinds k = .ret := by
  intro u hu r hpc
  have ih := inv.pcRet u hu r
  cases h with
  | skip k rest hp htodo hw => exact ih hpc
  | runCont k rest hp htodo hk => exact ⟨List.mem_cons_of_mem _ (ih hpc).1, (ih hpc).2⟩
  | runRet k rest hp htodo hk =>
    dsimp only at hpc ⊢
    by_cases hut : u = t
    · subst hut; rw [upd_same] at hpc; cases hpc; exact ⟨List.mem_cons_self, hk⟩
    · rw [upd_other _ _ _ u hut] at hpc; exact ⟨List.mem_cons_of_mem _ (ih hpc).1, (ih hpc).2⟩
  | runBrk k rest hp htodo hk | runRaise k rest hp htodo hk =>
    dsimp only at hpc ⊢
    by_cases hut : u = t
    · subst hut; rw [upd_same] at hpc; cases hpc
    · rw [upd_other _ _ _ u hut] at hpc; exact ⟨List.mem_cons_of_mem _ (ih hpc).1, (ih hpc).2⟩
  | finMaster hp | finWorker hp | setWhy v' hp | writeRet v' hp | fetchFull hp | fetchTake hp =>
    dsimp only at hpc ⊢
    by_cases hut : u = t
    · subst hut; rw [upd_same] at hpc; cases hpc
    · rw [upd_other _ _ _ u hut] at hpc; exact ih hpc

theorem invB_pcFetch {c : Cfg} {st st' : St} {t : Nat} (inv : InvB c st) (h : Step c st t st') :
    ∀ u < c.n, st'.pc u = .fetch → ∃ k ∈ st'.ran, c.kinds k = .raise := by
  intro u hu hpc
  have ih := inv.pcFetch u hu
  have lift : ∀ k, (∃ k' ∈ st.ran, c.kinds k' = .raise) → ∃ k' ∈ k :: st.ran, c.kinds k' = .raise :=
    fun k ⟨k', hm, hk'⟩ => ⟨k', List.mem_cons_of_mem _ hm, hk'⟩
  cases h with
  | skip k rest hp htodo hw => exact ih hpc
  | runCont k rest hp htodo hk => exact lift k (ih hpc)
  | runRaise k rest hp htodo hk => exact ⟨k, List.mem_cons_self, hk⟩
  | runBrk k rest hp htodo hk | runRet k rest hp htodo hk =>
    dsimp only at hpc ⊢
    by_cases hut : u = t
    · subst hut; rw [upd_same] at hpc; cases hpc
    · rw [upd_other _ _ _ u hut] at hpc; exact lift k (ih hpc)
  | finMaster hp | finWorker hp | setWhy v' hp | writeRet v' hp | fetchFull hp | fetchTake hp =>
    dsimp only at hpc ⊢
    by_cases hut : u = t
    · subst hut; rw [upd_same] at hpc; cases hpc
    · rw [upd_other _ _ _ u hut] at hpc; exact ih hpc

end CyVerif.C37

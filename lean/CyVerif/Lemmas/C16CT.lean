import CyVerif.Lemmas.C16Top
/-!
The compile-time path: the per-index loop of `generate_buffer_slice_code`
(`SimpleSlice`, `ToughSlice`, `SliceIndex` templates, newaxis) on direct
dimensions with the default directives (wraparound, boundscheck).
-/
namespace CyVerif.C16
open PySlice

theorem sliceLen_full {n : Int} (h : 0 ≤ n) : sliceLen 0 n 1 = n := by
  unfold sliceLen
  simp only [show ¬ ((1 : Int) < 0) by omega, if_false]
  by_cases hn : 0 < n
  · simp only [hn, if_true]
    rw [Int.tdiv_one]; omega
  · simp only [hn, if_false]; omega

theorem indices_full {n : Int} (h : 0 ≤ n) :
    PySlice.indices n .none .none .none = .ok (⟨0, n, n⟩, 1) := by
  unfold PySlice.indices
  simp [sliceLen_full h]

theorem sliceIndexCT_eq (src : Dim) (i : Int) :
    sliceIndexCT ⟨true, true⟩ src i = PySlice.index src.shape i := by
  unfold sliceIndexCT PySlice.index
  by_cases h1 : i < 0 <;> by_cases h2 : 0 ≤ i + src.shape <;> by_cases h3 : i < src.shape <;> by_cases h4 : 0 ≤ i <;>
    by_cases h5 : i + src.shape < src.shape <;>
    simp [h1, h2, h3, h4, h5] <;> omega

/-- agreement hypothesis aligned with dimensions the way the compiler aligns them (`None` consumes none) -/
def AgreesCT (v : Variant) : List Dim → List Item → Prop
  | _, [] => True
  | dims, .none :: rest => AgreesCT v dims rest
  | [], _ :: _ => True
  | src :: dims, it :: rest => AgreesItem v src it ∧ AgreesCT v dims rest

theorem specSels_cons_none (dims : List Dim) (rest : List Item) :
    specSels dims (.none :: rest) =
      match specSels dims rest with
      | .ok l => .ok ((⟨1, 0, -1⟩, .newaxis) :: l)
      | .err e => .err e := by
  cases dims <;> first | rfl | simp [specSels]

theorem bufferSliceLoop_direct (v : Variant) :
    ∀ (items : List Item) (dims : List Dim) (sh st : List Int) (off : Int),
      (items.filter consumesDim).length = dims.length →
      (∀ it ∈ items, PlainItem it ∨ it = .none) →
      (∀ d ∈ dims, d.suboffset = -1 ∧ 0 ≤ d.shape) →
      AgreesCT v dims items →
      bufferSliceLoop v ⟨true, true⟩ dims items (Dst.direct sh st off) =
        (specSels dims items).map (extendDirect sh st off) := by
  intro items
  induction items with
  | nil =>
    intro dims sh st off hlen _ _ _
    cases dims with
    | nil => simp [bufferSliceLoop, specSels, Res.map, extendDirect, viewShape, viewStrides, viewOffset]
    | cons d ds => simp at hlen
  | cons it rest ih =>
    intro dims sh st off hlen hplain hdir hag
    have hplain' : ∀ it ∈ rest, PlainItem it ∨ it = .none := fun x hx => hplain x (List.mem_cons_of_mem _ hx)
    have hp := hplain it (List.mem_cons_self ..)
    by_cases hnone : it = .none
    · subst hnone
      have hlen' : (rest.filter consumesDim).length = dims.length := by
        simpa [List.filter_cons, consumesDim] using hlen
      have hag' : AgreesCT v dims rest := by cases dims <;> simpa [AgreesCT] using hag
      rw [specSels_cons_none]
      have hb : bufferSliceLoop v ⟨true, true⟩ dims (.none :: rest) (Dst.direct sh st off) =
          bufferSliceLoop v ⟨true, true⟩ dims rest (Dst.direct (sh ++ [1]) (st ++ [0]) off) := by
        cases dims <;> simp [bufferSliceLoop, Dst.direct]
      rw [hb, ih dims _ _ _ hlen' hplain' hdir hag']
      cases specSels dims rest with
      | err e => rfl
      | ok l => simp [Res.map, extendDirect, viewShape, viewStrides, viewOffset]
    · have hpi : PlainItem it := by rcases hp with h | h; exact h; exact absurd h hnone
      have hcons : consumesDim it = true := by cases it <;> simp_all [PlainItem, consumesDim]
      cases dims with
      | nil => simp [hcons] at hlen
      | cons src dims =>
        have hlen' : (rest.filter consumesDim).length = dims.length := by
          simpa [List.filter_cons, hcons] using hlen
        obtain ⟨hsub, hshape⟩ := hdir src (List.mem_cons_self ..)
        have hdir' : ∀ d ∈ dims, d.suboffset = -1 ∧ 0 ≤ d.shape := fun x hx => hdir x (List.mem_cons_of_mem _ hx)
        have hag2 : AgreesItem v src it ∧ AgreesCT v dims rest := by
          cases it <;> first | (simpa [AgreesCT] using hag) | exact absurd rfl hnone
        cases it with
        | idx i =>
          rw [specSels_cons_idx]
          simp only [bufferSliceLoop]
          rw [toSsize_ok hpi]
          simp only []
          rw [sliceIndexCT_eq]
          cases hj : PySlice.index src.shape i with
          | err e => rfl
          | ok j =>
            have hd : ({ Dst.direct sh st off with data := addLast (Dst.direct sh st off).data (j * src.stride) } : Dst) =
                Dst.direct sh st (off + j * src.stride) := by simp [Dst.direct, addLast]
            simp only [hd]
            rw [ih dims _ _ _ hlen' hplain' hdir' hag2.2]
            cases specSels dims rest with
            | err e => rfl
            | ok l =>
              simp only [Res.map, extendDirect, viewShape, viewStrides, viewOffset]
              rw [Int.add_assoc]
        | slc s e c =>
          obtain ⟨h1, h2, h3⟩ := hpi
          rw [specSels_cons_slc]
          by_cases hfull : s = .none ∧ e = .none ∧ c = .none
          · obtain ⟨rfl, rfl, rfl⟩ := hfull
            simp only [bufferSliceLoop]
            rw [indices_full hshape]
            simp only []
            have hd : (⟨(Dst.direct sh st off).shape ++ [src.shape], (Dst.direct sh st off).strides ++ [src.stride],
                        (Dst.direct sh st off).suboffsets ++ [-1], (Dst.direct sh st off).data,
                        (Dst.direct sh st off).suboffsetDim⟩ : Dst) =
                Dst.direct (sh ++ [src.shape]) (st ++ [src.stride]) off := by simp [Dst.direct]
            rw [hd, ih dims _ _ _ hlen' hplain' hdir' hag2.2]
            cases specSels dims rest with
            | err e => rfl
            | ok l =>
              simp [Res.map, extendDirect, viewShape, viewStrides, viewOffset]
          · have hb : bufferSliceLoop v ⟨true, true⟩ (src :: dims) (.slc s e c :: rest) (Dst.direct sh st off) =
                match optToSsize s, optToSsize e, optToSsize c with
                | .ok cs, .ok ce, .ok cst =>
                  match sliceMemviewslice v (Dst.direct sh st off) src ⟨cs, ce, cst, s.isSome, e.isSome, c.isSome⟩ true with
                  | .err e => .err e
                  | .ok d' => bufferSliceLoop v ⟨true, true⟩ dims rest d'
                | .err e, _, _ => .err e
                | _, .err e, _ => .err e
                | _, _, .err e => .err e := by
              cases s <;> cases e <;> cases c <;> first | (exact absurd ⟨rfl, rfl, rfl⟩ hfull) | rfl | (simp only [bufferSliceLoop]; rfl)
            rw [hb, optToSsize_ok h1, optToSsize_ok h2, optToSsize_ok h3]
            simp only []
            rw [slice_step_direct v sh st off src hsub _ hag2.1, specTriple_ofOptions]
            cases hj : PySlice.indices src.shape s e c with
            | err e => rfl
            | ok p =>
              obtain ⟨adj, step⟩ := p
              simp only [Res.map]
              rw [ih dims _ _ _ hlen' hplain' hdir' hag2.2]
              cases specSels dims rest with
              | err e => rfl
              | ok l =>
                simp only [Res.map, extendDirect, viewShape, viewStrides, viewOffset, List.append_assoc,
                  List.singleton_append]
                rw [Int.add_assoc]
        | ell => exact absurd hpi (by simp [PlainItem])
        | none => exact absurd rfl hnone
        | bad => exact absurd hpi (by simp [PlainItem])

end CyVerif.C16

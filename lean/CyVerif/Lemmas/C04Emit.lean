import CyVerif.Lemmas.C04Helpers3
/-!
From the helpers to the emitted statements: the helper as selected by the
compiler (`helper`, `binop`, `callHelper`), `DivInt`, and the fold evaluators.
-/
namespace CyVerif.C04

/-- the type is one of the three base widths (so `Binop` dispatches to a real helper) -/
def BaseWidth (P : Plat) (w : Nat) : Prop := w = P.wint ∨ w = P.wl ∨ w = P.wll

instance (P w) : Decidable (BaseWidth P w) := by unfold BaseWidth; exact inferInstance

theorem BaseWidth.widen {P : Plat} (hP : P.WF) {w : Nat} (h : BaseWidth P w) :
    2 ≤ w ∧ P.wint ≤ w ∧ (w < P.wl → 2 * w ≤ P.wl) ∧ (w < P.wll → 2 * w ≤ P.wll) := by
  obtain ⟨h1, h2, h3, h4, h5, h6⟩ := hP
  rcases h with h | h | h <;> subst h <;> refine ⟨by omega, by omega, ?_, ?_⟩ <;> intro _ <;> omega

/-- add / sub / mul: every variant, every constness, signed or unsigned — the helper returns the
wrapped exact result and flags exactly the non-representable results. -/
theorem helper_eq_builtin {V : Variant} {P : Plat} (hP : 1 ≤ P.wint) {sg : Bool} {w : Nat} (hw : 2 ≤ w)
    (hwl : w < P.wl → 2 * w ≤ P.wl) (hwll : w < P.wll → 2 * w ≤ P.wll) (df : Bool)
    {op : Op} (hop : op ≠ .div) (const : Bool) (cp : Constp) {a b : Int}
    (ha : InR sg w a) (hb : InR sg w b) :
    helper V P df sg w op const cp a b = .ok (builtinOvf sg w (op.exact a b)) := by
  have hw1 : 1 ≤ w := by omega
  cases V
  · cases op <;> first | rfl | exact absurd rfl hop
  · cases op
    · cases sg
      · exact addU_portable_eq ha hb
      · exact addS_portable_eq hP hw1 ha hb
    · cases sg
      · exact subU_portable_eq ha hb
      · exact subS_portable_eq hP hw1 ha hb
    · cases sg <;> cases const
      · exact mulU_portable_eq hwl hwll cp ha hb
      · exact mulConstU_portable_eq _ ha hb
      · exact mulS_portable_eq hw hwl hwll cp ha hb
      · exact mulConstS_portable_eq hw _ ha hb
    · exact absurd rfl hop

theorem binop_base {V : Variant} {P : Plat} (hP : P.WF) {nf df sg : Bool} {w : Nat} (hb : BaseWidth P w)
    (op : Op) (const : Bool) (cp : Constp) (a b : Int) :
    binop V P nf df sg w op const cp a b = helper V P df sg w op const cp a b := by
  obtain ⟨_, hge, _, _⟩ := hb.widen hP
  unfold binop
  rw [if_neg (by omega)]
  rcases hb with h | h | h
  · subst h; rw [if_pos rfl]
  · subst h; split
    · rename_i h; rw [h]
    · rw [if_pos rfl]
  · subst h; split
    · rename_i h; rw [h]
    · split
      · rename_i h; rw [h]
      · rw [if_pos rfl]

/-- what every checked call yields on in-range operands of a base-width type -/
theorem callHelper_spec {C : Cfg} (hP : C.P.WF) {base sg : Bool} {w : Nat} (hbw : BaseWidth C.P w)
    (op : BOp) (const : Bool) {a b : Int} (ha : InR sg w a) (hb : InR sg w b) :
    ∃ r f, callHelper C base sg w op const a b = .ok (r, f) ∧ InR sg w r ∧
      (f = false → op.exactDefined a b ∧ r = op.exact a b) ∧
      (¬ (op.exactDefined a b ∧ InR sg w (op.exact a b)) → f = true) := by
  obtain ⟨hw, hge, hwl, hwll⟩ := hbw.widen hP
  have hP1 : 1 ≤ C.P.wint := by have := hP.1; omega
  have hw1 : 1 ≤ w := by omega
  have arith : ∀ o : Op, o ≠ .div → ∀ e : Int, e = o.exact a b →
      (if base then helper C.V C.P C.divFixed sg w o const C.cp a b
        else binop C.V C.P C.narrowFixed C.divFixed sg w o const C.cp a b) = .ok (builtinOvf sg w e) := by
    intro o ho e he
    subst he
    cases base
    · simp only [Bool.false_eq_true, if_false]
      rw [binop_base hP hbw]; exact helper_eq_builtin hP1 hw hwl hwll _ ho _ _ ha hb
    · simp only [if_true]; exact helper_eq_builtin hP1 hw hwl hwll _ ho _ _ ha hb
  have fin : ∀ e : Int, ∃ r f, (Except.ok (builtinOvf sg w e) : Except Ub (Int × Bool)) = .ok (r, f) ∧ InR sg w r ∧
      (f = false → True ∧ r = e) ∧ (¬ (True ∧ InR sg w e) → f = true) := by
    intro e
    refine ⟨_, _, by rw [builtinOvf_eq hw1], wrap_inR hw1 e, ?_, ?_⟩
    · intro h; simp only [decide_eq_false_iff_not, Decidable.not_not] at h
      exact ⟨trivial, wrap_of_inR hw1 h⟩
    · intro h; simpa using h
  cases op
  · have := arith .add (by simp) (a + b) rfl
    simp only [callHelper, BOp.exactDefined, BOp.exact]; rw [this]; exact fin _
  · have := arith .sub (by simp) (a - b) rfl
    simp only [callHelper, BOp.exactDefined, BOp.exact]; rw [this]; exact fin _
  · have := arith .mul (by simp) (a * b) rfl
    simp only [callHelper, BOp.exactDefined, BOp.exact]; rw [this]; exact fin _
  · simp only [callHelper, BOp.exactDefined, BOp.exact]
    rw [lshift_spec hw ha hb]
    by_cases hf : lshiftFlag C.P sg w a b
    · rw [if_pos hf]
      refine ⟨0, true, rfl, ?_, by simp, fun _ => rfl⟩
      have := tmin_nonpos sg w
      have : 0 ≤ tmax sg w := by
        have := two_pow_pos' (w - 1); have := two_pow_pos' w
        cases sg <;> simp [tmax] <;> omega
      exact ⟨by omega, by omega⟩
    · rw [if_neg hf]
      unfold lshiftFlag at hf
      have hb0 : 0 ≤ b := by
        cases sg
        · have := hb.1; simp [tmin] at this; exact this
        · have : ¬ (a < 0 ∨ b < 0) := fun h => hf (Or.inl ⟨rfl, h⟩)
          omega
      have ha0 : 0 ≤ a := by
        cases sg
        · have := ha.1; simp [tmin] at this; exact this
        · have : ¬ (a < 0 ∨ b < 0) := fun h => hf (Or.inl ⟨rfl, h⟩)
          omega
      have hfit : a * (2 : Int) ^ b.toNat ≤ tmax sg w := by
        have : ¬ (tmax sg w < a * (2 : Int) ^ b.toNat) := fun h => hf (Or.inr (Or.inr (Or.inr h)))
        omega
      have hnn : 0 ≤ a * (2 : Int) ^ b.toNat := Int.mul_nonneg ha0 (by have := two_pow_pos' b.toNat; omega)
      have hin : InR sg w (a * (2 : Int) ^ b.toNat) := ⟨by have := tmin_nonpos sg w; omega, hfit⟩
      exact ⟨_, false, rfl, hin, fun _ => ⟨hb0, rfl⟩, fun h => absurd ⟨hb0, hin⟩ h⟩

end CyVerif.C04

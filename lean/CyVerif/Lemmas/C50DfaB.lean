import CyVerif.Lemmas.C50DfaA
/-! Subset construction, part B: `mergeItems` / `mergeStates`. -/
namespace CyVerif.C50
open CyVerif.C46 (Reach)

/-- targets contributed by a list of items on character code `c` -/
def ContribChr (n : NFA) (its : List (Ev × SSet)) (c : Int) (u : Nat) : Prop :=
  ∃ c0 c1 S, (Ev.range c0 c1, S) ∈ its ∧ c0 ≤ c ∧ c < c1 ∧ ∃ t ∈ S, Reach n.eps t u

/-- targets contributed by a list of items on a special symbol -/
def ContribSp (n : NFA) (its : List (Ev × SSet)) (k : Sp) (u : Nat) : Prop :=
  k ≠ .eps ∧ ∃ S, (Ev.sp k, S) ∈ its ∧ ∃ t ∈ S, Reach n.eps t u

def ItemBounds (its : List (Ev × SSet)) : Prop :=
  ∀ c0 c1 S, (Ev.range c0 c1, S) ∈ its → -maxint ≤ c0 ∧ c0 ≤ maxint ∧ -maxint ≤ c1 ∧ c1 ≤ maxint

theorem mergeItems_spec (n : NFA) (its : List (Ev × SSet)) (tm tm' : TMap) (h : tm.WF)
    (hb : ItemBounds its) (hr : mergeItems n its tm = some tm') :
    tm'.WF ∧
    (∀ c, c < maxint → ∀ u, u ∈ tm'.lookup c ↔ u ∈ tm.lookup c ∨ ContribChr n its c u) ∧
    (∀ k u, u ∈ tm'.lookupSp k ↔ u ∈ tm.lookupSp k ∨ ContribSp n its k u) := by
  induction its generalizing tm with
  | nil =>
    simp only [mergeItems, Option.some.injEq] at hr
    subst hr
    refine ⟨h, fun c _ u => ?_, fun k u => ?_⟩
    · simp [ContribChr]
    · simp [ContribSp]
  | cons it its ih =>
    obtain ⟨ev, tgt⟩ := it
    have hb' : ItemBounds its := fun c0 c1 S hm => hb c0 c1 S (List.mem_cons_of_mem _ hm)
    simp only [mergeItems] at hr
    by_cases hcond : ev ≠ .sp .eps ∧ tgt ≠ []
    · rw [if_pos hcond] at hr
      cases hc : setEpsClosure n tgt with
      | none => simp [hc] at hr
      | some cl =>
        simp only [hc] at hr
        obtain ⟨cs, cm⟩ := setEpsClosure_spec n tgt cl hc
        have hf : ∀ s, Sorted s → Sorted ((fun a => sunion a cl) s) := fun s hs => sunion_sorted hs
        cases ev with
        | range c0 c1 =>
          obtain ⟨b1, b2, b3, b4⟩ := hb c0 c1 tgt (by simp)
          obtain ⟨w1, w2, w3⟩ := tm.addWith_range h _ hf c0 c1 b1 b2 b3 b4
          obtain ⟨r1, r2, r3⟩ := ih (tm.addSet (.range c0 c1) cl) w1 hb' hr
          refine ⟨r1, fun c hc' u => ?_, fun k u => ?_⟩
          · rw [r2 c hc' u]
            unfold TMap.addSet
            rw [w2 c hc']
            constructor
            · rintro (hu | ⟨a, b, S, hm, h1, h2, h3⟩)
              · by_cases hin : c0 ≤ c ∧ c < c1
                · simp only [hin, and_self, if_true, mem_sunion] at hu
                  rcases hu with hu | hu
                  · exact .inl hu
                  · exact .inr ⟨c0, c1, tgt, by simp, hin.1, hin.2, (cm u).1 hu⟩
                · simp only [hin, if_false] at hu; exact .inl hu
              · exact .inr ⟨a, b, S, List.mem_cons_of_mem _ hm, h1, h2, h3⟩
            · rintro (hu | ⟨a, b, S, hm, h1, h2, h3⟩)
              · left
                by_cases hin : c0 ≤ c ∧ c < c1
                · simp only [hin, and_self, if_true, mem_sunion]; exact .inl hu
                · simp only [hin, if_false]; exact hu
              · rcases List.mem_cons.1 hm with e | e
                · simp only [Prod.mk.injEq, Ev.range.injEq] at e
                  obtain ⟨⟨rfl, rfl⟩, rfl⟩ := e
                  left
                  simp only [h1, h2, and_self, if_true, mem_sunion]
                  exact .inr ((cm u).2 h3)
                · exact .inr ⟨a, b, S, e, h1, h2, h3⟩
          · rw [r3 k u]
            have : (tm.addSet (.range c0 c1) cl).lookupSp k = tm.lookupSp k := by
              unfold TMap.lookupSp TMap.addSet; rw [w3]
            rw [this]
            constructor
            · rintro (hu | ⟨hk, S, hm, h3⟩)
              · exact .inl hu
              · exact .inr ⟨hk, S, List.mem_cons_of_mem _ hm, h3⟩
            · rintro (hu | ⟨hk, S, hm, h3⟩)
              · exact .inl hu
              · rcases List.mem_cons.1 hm with e | e
                · simp at e
                · exact .inr ⟨hk, S, e, h3⟩
        | sp k0 =>
          have hk0 : k0 ≠ .eps := fun e => hcond.1 (by rw [e])
          obtain ⟨w1, w2, w3⟩ := tm.addWith_sp h _ hf k0
          obtain ⟨r1, r2, r3⟩ := ih (tm.addSet (.sp k0) cl) w1 hb' hr
          refine ⟨r1, fun c hc' u => ?_, fun k u => ?_⟩
          · rw [r2 c hc' u]
            unfold TMap.addSet
            rw [w2 c]
            constructor
            · rintro (hu | ⟨a, b, S, hm, h1, h2, h3⟩)
              · exact .inl hu
              · exact .inr ⟨a, b, S, List.mem_cons_of_mem _ hm, h1, h2, h3⟩
            · rintro (hu | ⟨a, b, S, hm, h1, h2, h3⟩)
              · exact .inl hu
              · rcases List.mem_cons.1 hm with e | e
                · simp at e
                · exact .inr ⟨a, b, S, e, h1, h2, h3⟩
          · rw [r3 k u]
            unfold TMap.addSet
            rw [w3 k]
            constructor
            · rintro (hu | ⟨hk, S, hm, h3⟩)
              · by_cases hkk : k = k0
                · simp only [hkk, if_true, mem_sunion] at hu
                  rcases hu with hu | hu
                  · left; rw [hkk]; exact hu
                  · exact .inr ⟨by rw [hkk]; exact hk0, tgt, by rw [hkk]; simp, (cm u).1 hu⟩
                · simp only [hkk, if_false] at hu; exact .inl hu
              · exact .inr ⟨hk, S, List.mem_cons_of_mem _ hm, h3⟩
            · rintro (hu | ⟨hk, S, hm, h3⟩)
              · left
                by_cases hkk : k = k0
                · simp only [hkk, if_true, mem_sunion]; left; rw [← hkk]; exact hu
                · simp only [hkk, if_false]; exact hu
              · rcases List.mem_cons.1 hm with e | e
                · simp only [Prod.mk.injEq, Ev.sp.injEq] at e
                  obtain ⟨rfl, rfl⟩ := e
                  left
                  simp only [if_true, mem_sunion]
                  exact .inr ((cm u).2 h3)
                · exact .inr ⟨hk, S, e, h3⟩
    · rw [if_neg hcond] at hr
      obtain ⟨r1, r2, r3⟩ := ih tm h hb' hr
      refine ⟨r1, fun c hc' u => ?_, fun k u => ?_⟩
      · rw [r2 c hc' u]
        constructor
        · rintro (hu | ⟨a, b, S, hm, h1, h2, h3⟩)
          · exact .inl hu
          · exact .inr ⟨a, b, S, List.mem_cons_of_mem _ hm, h1, h2, h3⟩
        · rintro (hu | ⟨a, b, S, hm, h1, h2, t, ht, h3⟩)
          · exact .inl hu
          · rcases List.mem_cons.1 hm with e | e
            · simp only [Prod.mk.injEq] at e
              obtain ⟨rfl, rfl⟩ := e
              have : S = [] := by
                by_cases hS : S = []
                · exact hS
                · exact absurd ⟨by simp, hS⟩ hcond
              rw [this] at ht; cases ht
            · exact .inr ⟨a, b, S, e, h1, h2, t, ht, h3⟩
      · rw [r3 k u]
        constructor
        · rintro (hu | ⟨hk, S, hm, h3⟩)
          · exact .inl hu
          · exact .inr ⟨hk, S, List.mem_cons_of_mem _ hm, h3⟩
        · rintro (hu | ⟨hk, S, hm, t, ht, h3⟩)
          · exact .inl hu
          · rcases List.mem_cons.1 hm with e | e
            · simp only [Prod.mk.injEq] at e
              obtain ⟨rfl, rfl⟩ := e
              have : S = [] := by
                by_cases hS : S = []
                · exact hS
                · exact absurd ⟨by simpa using hk, hS⟩ hcond
              rw [this] at ht; cases ht
            · exact .inr ⟨hk, S, e, t, ht, h3⟩

end CyVerif.C50

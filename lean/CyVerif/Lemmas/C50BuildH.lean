import CyVerif.Lemmas.C50BuildG
/-! RE → NFA, part H: the NFA of a whole (single-state) `Lexicon`. -/
namespace CyVerif.C50

/-- certificate for the machine of a lexicon whose rules all start in state `0`:
`Fs[k] = (final state of rule k, language of rule k)` -/
structure LexCert (n : NFA) (Fs : List (Nat × (List CurChar → Prop))) where
  added : Nat → Option CurChar → Nat → Prop
  lab : Nat → List CurChar → Prop
  wf : n.WF
  pos : 0 < n.nodes.length
  edges : ∀ s l u, NEdge n s l u ↔ added s l u
  srcLt : ∀ s l u, added s l u → s < n.nodes.length
  labInit : lab 0 []
  labEdge : ∀ s l u w, added s l u → lab s w → lab u (w ++ l.toList)
  labLt : ∀ s w, lab s w → s < n.nodes.length
  labI : ∀ w, lab 0 w → w = []
  finals : ∀ p ∈ Fs, p.1 ≠ 0 ∧ p.1 < n.nodes.length ∧ (∀ w, lab p.1 w → p.2 w) ∧ (∀ w, p.2 w → APath added 0 w p.1)

/-- accepting states: exactly the finals, rule `k` with action `k` and priority `-(k+1)` -/
structure LexActs (n : NFA) (Fs : List (Nat × (List CurChar → Prop))) : Prop where
  fin : ∀ k (h : k < Fs.length), (n.node Fs[k].1).action = some k ∧ (n.node Fs[k].1).prio = -((k : Int) + 1)
  other : ∀ s, (∀ p ∈ Fs, s ≠ p.1) → (n.node s).action = none ∧ (n.node s).prio = -maxint
  inj : ∀ j k (hj : j < Fs.length) (hk : k < Fs.length), Fs[j].1 = Fs[k].1 → j = k
  inits : n.inits = [("", 0)]

theorem setAction_node (n : NFA) (s : Nat) (a : Nat) (p : Int) (hs : s < n.nodes.length) (s' : Nat) :
    (n.setAction s a p).node s' =
      if s' = s then (if p > (n.node s).prio then { n.node s with action := some a, prio := p } else n.node s)
      else n.node s' := by
  unfold NFA.setAction
  rw [node_modify n _ s s' hs]

theorem setAction_edge (n : NFA) (s : Nat) (a : Nat) (p : Int) (hs : s < n.nodes.length) (s' : Nat) (l : Option CurChar) (u : Nat) :
    NEdge (n.setAction s a p) s' l u ↔ NEdge n s' l u := by
  unfold NEdge
  rw [setAction_node n s a p hs]
  by_cases h : s' = s
  · subst h
    simp only [if_true]
    split <;> rfl
  · simp [h]

theorem setAction_wf (n : NFA) (h : n.WF) (s : Nat) (a : Nat) (p : Int) : (n.setAction s a p).WF := by
  unfold NFA.setAction
  apply NFA.wf_modify n h
  intro nd hnd
  split <;> exact hnd

theorem nfaEmpty_node (s : Nat) : NFA.empty.node s = Node.new := by
  simp [NFA.node, NFA.empty]

theorem nodeNew_edge (l : Option CurChar) (u : Nat) : u ∉ Node.new.trans.targets l := by
  cases l with
  | none => simp [Node.new, TMap.targets, TMap.empty_lookupSp]
  | some x => cases x <;> simp [Node.new, TMap.targets, TMap.empty_lookupSp, TMap.empty_lookup]

/-- the machine with only the default initial state -/
def lexCertInit : LexCert (NFA.empty.newInitialState "").1 [] where
  added := fun _ _ _ => False
  lab := fun s w => s = 0 ∧ w = []
  wf := by
    intro nd hnd
    simp only [NFA.newInitialState, NFA.newState, NFA.empty, List.nil_append, List.mem_singleton] at hnd
    subst hnd; exact TMap.empty_wf
  pos := by simp [NFA.newInitialState, NFA.newState, NFA.empty]
  edges := by
    intro s l u
    simp only [iff_false]
    rintro ⟨_, h⟩
    have : ((NFA.empty.newInitialState "").1).node s = Node.new := by
      show (NFA.empty.newState.1).node s = Node.new
      rw [newState_node, nfaEmpty_node]
    rw [this] at h
    exact nodeNew_edge l u h
  srcLt := fun _ _ _ h => h.elim
  labInit := ⟨rfl, rfl⟩
  labEdge := fun _ _ _ _ h => h.elim
  labLt := by
    rintro s w ⟨rfl, _⟩
    simp [NFA.newInitialState, NFA.newState, NFA.empty]
  labI := fun _ h => h.2
  finals := fun _ h => by cases h

end CyVerif.C50

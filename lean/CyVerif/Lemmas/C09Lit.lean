import CyVerif.Lemmas.C09Int
/-! C09 part A: digit classes, scanner-language facts, `str_to_number` by literal shape. -/
namespace CyVerif.C09

theorem decDigit_spec {c : Char} (h : decDigit c = true) : digitValue c < 10 ∧ specDigit c = digitValue c := by
  simp [decDigit] at h
  rcases h with rfl|rfl|rfl|rfl|rfl|rfl|rfl|rfl|rfl|rfl <;> decide

theorem octDigit_spec {c : Char} (h : octDigit c = true) : digitValue c < 8 ∧ specDigit c = digitValue c := by
  simp [octDigit] at h
  rcases h with rfl|rfl|rfl|rfl|rfl|rfl|rfl|rfl <;> decide

theorem binDigit_spec {c : Char} (h : binDigit c = true) : digitValue c < 2 ∧ specDigit c = digitValue c := by
  simp [binDigit] at h
  rcases h with rfl|rfl <;> decide

theorem hexDigit_spec {c : Char} (h : hexDigit c = true) : digitValue c < 16 ∧ specDigit c = digitValue c := by
  simp [hexDigit] at h
  rcases h with rfl|rfl|rfl|rfl|rfl|rfl|rfl|rfl|rfl|rfl|rfl|rfl|rfl|rfl|rfl|rfl|rfl|rfl|rfl|rfl|rfl|rfl <;> decide

theorem nonzeroDigit_spec {c : Char} (h : nonzeroDigit c = true) : decDigit c = true ∧ c ≠ '0' := by
  simp [nonzeroDigit] at h
  rcases h with rfl|rfl|rfl|rfl|rfl|rfl|rfl|rfl|rfl <;> decide

theorem zeroDigit_spec {c : Char} (h : zeroDigit c = true) : c = '0' := by
  simpa [zeroDigit] using h

theorem decDigit_lt8_or {c : Char} (h : decDigit c = true) : digitValue c < 8 ∨ c = '8' ∨ c = '9' := by
  simp [decDigit] at h
  rcases h with rfl|rfl|rfl|rfl|rfl|rfl|rfl|rfl|rfl|rfl <;> decide

/-- spec value = implementation fold on digit strings whose digits agree -/
theorem positional_eq_dfold (b : Nat) (ds : List Char) (h : ∀ c ∈ ds, specDigit c = digitValue c) :
    positional b (ds.map specDigit) = dfold b 0 ds := by
  unfold positional dfold
  rw [List.foldl_map]
  generalize 0 = acc
  induction ds generalizing acc with
  | nil => rfl
  | cons c cs ih =>
    simp only [List.foldl_cons]
    rw [h c (by simp)]
    exact ih (fun x hx => h x (by simp [hx])) _

/-- what `underscore_digits` leaves after the underscores are stripped -/
theorem ud_filter (d : Char → Bool) (hd : d '_' = false) : ∀ (l : List Char) (need : Bool),
    ud d need l = true →
    (∀ x ∈ l.filter (· ≠ '_'), d x = true) ∧ (need = true → l.filter (· ≠ '_') ≠ []) := by
  intro l
  induction l with
  | nil => intro need h; simp [ud] at h; simp [h]
  | cons c cs ih =>
    intro need h
    rw [ud] at h
    by_cases hdc : d c = true
    · have hcu : c ≠ '_' := by intro hc; subst hc; rw [hd] at hdc; exact absurd hdc (by decide)
      simp only [hdc, if_true] at h
      obtain ⟨h1, _⟩ := ih false h
      constructor
      · intro x hx
        simp only [List.filter_cons, hcu, ne_eq, not_false_eq_true, decide_true, if_true, List.mem_cons] at hx
        rcases hx with rfl | hx
        · exact hdc
        · exact h1 x hx
      · intro _; simp [hcu]
    · simp only [hdc, Bool.false_eq_true, if_false] at h
      split at h
      · rename_i hc
        obtain ⟨rfl, hn⟩ := hc
        obtain ⟨h1, h2⟩ := ih true h
        constructor
        · intro x hx; simp only [List.filter_cons, ne_eq, not_true_eq_false, decide_false] at hx; exact h1 x (by simpa using hx)
        · intro hneed; simp [hneed] at hn
      · exact absurd h (by decide)

theorem optUd_filter (d : Char → Bool) (hd : d '_' = false) (l : List Char) (h : optUd d l = true) :
    (∀ x ∈ l.filter (· ≠ '_'), d x = true) ∧ l.filter (· ≠ '_') ≠ [] := by
  unfold optUd at h
  split at h
  · rename_i cs
    obtain ⟨h1, h2⟩ := ud_filter d hd cs true h
    simp only [List.filter_cons, ne_eq, not_true_eq_false, decide_false]
    exact ⟨by simpa using h1, by simpa using h2 rfl⟩
  · obtain ⟨h1, h2⟩ := ud_filter d hd l true h
    exact ⟨h1, h2 rfl⟩

theorem filter_us_of_all {d : Char → Bool} (hd : d '_' = false) (l : List Char) (h : l.all d = true) :
    l.filter (· ≠ '_') = l := by
  rw [List.filter_eq_self]
  intro x hx
  have := (List.all_eq_true.mp h) x hx
  have hne : x ≠ '_' := by intro hc; subst hc; rw [hd] at this; exact absurd this (by decide)
  simpa using hne

/-- `int(s, 0)` on a decimal string without leading zero -/
theorem pyInt_dec0 (lim : Nat) (c : Char) (r : List Char) (hc0 : c ≠ '0')
    (hall : ∀ x ∈ c :: r, digitValue x < 10) :
    pyInt lim (c :: r) 0 =
      if (c :: r).length > 640 ∧ lim ≠ 0 ∧ (c :: r).length > lim then .err "ValueError"
      else .ok (dfold 10 0 (c :: r) : Nat) := by
  have hws : stripWs (c :: r) = c :: r := stripWs_clean _ (fun x hx => isWs_digit (by have := hall x hx; omega))
  have hc : digitValue c < 37 := by have := hall c (by simp); omega
  unfold pyInt
  rw [if_neg (by omega)]
  simp only [hws, splitSign_digit r hc, chooseBase_dec r hc0, stripBasePrefix_clean 10 _ hall (by omega)]
  unfold pyIntCore
  rw [if_neg (by simp), scanDigits_clean 10 (by omega) _ _ _ _ (by simp) hall]
  simp [isPow2Base]

theorem pyInt_zero0 (lim : Nat) : pyInt lim ['0'] 0 = .ok 0 := by
  have hws : stripWs ['0'] = ['0'] := by decide
  unfold pyInt
  rw [if_neg (by omega)]
  have h1 : splitSign ['0'] = (false, ['0']) := by decide
  have h2 : chooseBase 0 ['0'] = (10, true) := by decide
  have h3 : stripBasePrefix 10 ['0'] = ['0'] := by decide
  simp only [hws, h1, h2, h3]
  have h4 : scanDigits 10 ['0'] true 0 0 = some (0, 1) := by decide
  unfold pyIntCore
  rw [if_neg (by simp), h4]
  simp

/-- digit-limit side condition in the form used by the theorems -/
theorem limit_ok {lim n : Nat} (h : digitsOK lim n) : ¬ (n > 640 ∧ lim ≠ 0 ∧ n > lim) := by
  unfold digitsOK at h; omega

/-- shape 1: decimal without leading zero (`int(value, 0)` in both the short and the general branch) -/
theorem s2n_decimal (lim : Nat) (c : Char) (r : List Char) (hc0 : c ≠ '0')
    (hall : ∀ x ∈ c :: r, digitValue x < 10) (hlim : digitsOK lim (c :: r).length) :
    strToNumber lim (c :: r) = .ok (dfold 10 0 (c :: r) : Nat) := by
  have hminus : c ≠ '-' := by
    intro h; subst h; have := hall '-' (by simp); revert this; decide
  have habs : strToNumberAbs lim (c :: r) = pyInt lim (c :: r) 0 := by
    unfold strToNumberAbs
    cases r with
    | nil => rfl
    | cons d ds => simp [hc0]
  have : strToNumber lim (c :: r) = strToNumberAbs lim (c :: r) := by
    unfold strToNumber
    split
    · rename_i heq; simp at heq; exact absurd heq.1 hminus
    · rfl
  rw [this, habs, pyInt_dec0 lim c r hc0 hall, if_neg (limit_ok hlim)]

theorem s2n_zero (lim : Nat) : strToNumber lim ['0'] = .ok 0 := by
  have : strToNumber lim ['0'] = strToNumberAbs lim ['0'] := by
    unfold strToNumber; split
    · rename_i heq; simp at heq
    · rfl
  rw [this]; unfold strToNumberAbs; exact pyInt_zero0 lim

theorem s2n_lead0 (lim : Nat) (c1 : Char) (rest : List Char) :
    strToNumber lim ('0' :: c1 :: rest) = strToNumberAbs lim ('0' :: c1 :: rest) := by
  unfold strToNumber; split
  · rename_i heq; simp at heq
  · rfl

theorem getLast?_mem_tail {α} (a b : α) (l : List α) (hl : l ≠ []) :
    ∃ x ∈ l, (a :: b :: l).getLast? = some x := by
  refine ⟨l.getLast hl, List.getLast_mem hl, ?_⟩
  rw [List.getLast?_cons_cons]
  obtain ⟨c, r, rfl⟩ := List.exists_cons_of_ne_nil hl
  rw [List.getLast?_cons_cons, List.getLast?_eq_some_getLast]

/-- shape 2: `0x…` -/
theorem s2n_hex (lim : Nat) (x : Char) (ds : List Char) (hx : x = 'x' ∨ x = 'X') (hne : ds ≠ [])
    (hall : ∀ c ∈ ds, digitValue c < 16) :
    strToNumber lim ('0' :: x :: ds) = .ok (dfold 16 0 ds : Nat) := by
  rw [s2n_lead0]
  unfold strToNumberAbs
  simp only [if_true, hx]
  obtain ⟨l, hl, hlast⟩ := getLast?_mem_tail '0' x ds hne
  have hl16 := hall l hl
  have hnl : ¬ (l = 'l' ∨ l = 'L') := by
    rintro (rfl | rfl) <;> revert hl16 <;> decide
  have : stripPy2LongSuffix ('0' :: x :: ds) = some ('0' :: x :: ds) := by
    unfold stripPy2LongSuffix; rw [hlast]; simp [hnl]
  rw [this]
  simp only [List.drop_succ_cons, List.drop_zero]
  rw [pyInt_clean lim 16 ds (by omega) (by omega) hne hall]
  simp [isPow2Base]

/-- shape 3: `0o…` -/
theorem s2n_oct (lim : Nat) (x : Char) (ds : List Char) (hx : x = 'o' ∨ x = 'O') (hne : ds ≠ [])
    (hall : ∀ c ∈ ds, digitValue c < 8) :
    strToNumber lim ('0' :: x :: ds) = .ok (dfold 8 0 ds : Nat) := by
  rw [s2n_lead0]
  unfold strToNumberAbs
  have h1 : ¬ (x = 'x' ∨ x = 'X') := by rcases hx with rfl | rfl <;> decide
  simp only [if_true, h1, if_false, hx]
  rw [pyInt_clean lim 8 ds (by omega) (by omega) hne hall]
  simp [isPow2Base]

/-- shape 4: `0b…` -/
theorem s2n_bin (lim : Nat) (x : Char) (ds : List Char) (hx : x = 'b' ∨ x = 'B') (hne : ds ≠ [])
    (hall : ∀ c ∈ ds, digitValue c < 2) :
    strToNumber lim ('0' :: x :: ds) = .ok (dfold 2 0 ds : Nat) := by
  rw [s2n_lead0]
  unfold strToNumberAbs
  have h1 : ¬ (x = 'x' ∨ x = 'X') := by rcases hx with rfl | rfl <;> decide
  have h2 : ¬ (x = 'o' ∨ x = 'O') := by rcases hx with rfl | rfl <;> decide
  simp only [if_true, h1, h2, if_false, hx]
  rw [pyInt_clean lim 2 ds (by omega) (by omega) hne hall]
  simp [isPow2Base]

/-- shape 5: legacy octal / zeros: `0` followed by at least one octal digit -/
theorem s2n_legacy (lim : Nat) (d : Char) (ds : List Char)
    (hall : ∀ c ∈ '0' :: d :: ds, digitValue c < 8) :
    strToNumber lim ('0' :: d :: ds) = .ok (dfold 8 0 ('0' :: d :: ds) : Nat) := by
  rw [s2n_lead0]
  unfold strToNumberAbs
  have hd : digitValue d < 8 := hall d (by simp)
  have h1 : ¬ (d = 'x' ∨ d = 'X') := by rintro (rfl | rfl) <;> revert hd <;> decide
  have h2 : ¬ (d = 'o' ∨ d = 'O') := by rintro (rfl | rfl) <;> revert hd <;> decide
  have h3 : ¬ (d = 'b' ∨ d = 'B') := by rintro (rfl | rfl) <;> revert hd <;> decide
  simp only [if_true, h1, h2, h3, if_false]
  rw [pyInt_clean lim 8 _ (by omega) (by omega) (by simp) hall]
  simp [isPow2Base]

end CyVerif.C09

import CyVerif.Model.C30Cmp
namespace CyVerif.C30Cmp

theorem cyCmp_eq_pyCmp {α} (O : Ops α) (op : Op) (ps : List (α × α))
    (h : ∀ p ∈ ps, Sane O p.1 p.2) : cyCmp O op ps = pyCmp O op ps := by
  induction ps with
  | nil => rfl
  | cons p t ih =>
    obtain ⟨x, y⟩ := p
    have iht := ih (fun q hq => h q (by simp [hq]))
    obtain ⟨hne, hid, heq, hneq⟩ := h (x, y) (by simp)
    simp only at hne hid heq hneq
    unfold cyCmp pyCmp
    cases he : O.eq x y with
    | true =>
      obtain ⟨hlt, hgt⟩ := heq he
      cases op <;> simp [hne, he, iht, Ops.strict, hlt, hgt]
    | false =>
      have hi : O.ident x y = false := by
        cases hi : O.ident x y with
        | false => rfl
        | true => rw [hid hi] at he; cases he
      obtain ⟨hle, hge⟩ := hneq he
      cases op with
      | eq => simp [hne, he, hi]
      | lt =>
        simp only [hne, he, hi, Ops.strict, Ops.apply, Bool.or_self, Bool.false_eq_true, if_false, Bool.not_false, if_true]
        cases O.lt x y with
        | err e => rfl
        | ok b => cases b <;> rfl
      | le =>
        simp only [hne, he, hi, Ops.strict, Ops.apply, Bool.or_self, Bool.false_eq_true, if_false, Bool.not_false, if_true, hle]
        cases O.lt x y with
        | err e => rfl
        | ok b => cases b <;> rfl
      | gt =>
        simp only [hne, he, hi, Ops.strict, Ops.apply, Bool.or_self, Bool.false_eq_true, if_false, Bool.not_false, if_true]
        cases O.gt x y with
        | err e => rfl
        | ok b => cases b <;> rfl
      | ge =>
        simp only [hne, he, hi, Ops.strict, Ops.apply, Bool.or_self, Bool.false_eq_true, if_false, Bool.not_false, if_true, hge]
        cases O.gt x y with
        | err e => rfl
        | ok b => cases b <;> rfl

/-- with a guard that passes exactly the same-class operands, the whole method (guard + field
comparison) agrees with CPython's for every class relation -/
theorem cyMethod_eq_pyMethod {α} (g : Guard) (hg : GuardWF g) (O : Ops α) (op : Op) (rel : Rel)
    (inDef : Bool) (ps : List (α × α)) (h : ∀ p ∈ ps, Sane O p.1 p.2) :
    cyMethod g O op rel inDef ps = pyMethod O op rel ps := by
  unfold cyMethod pyMethod
  obtain ⟨h1, h2, h3, h4⟩ := hg inDef
  rw [cyCmp_eq_pyCmp O op ps h]
  cases rel
  · rw [h1]; rfl
  · rw [h2]; rfl
  · rw [h3]; rfl
  · rw [h4]; rfl

end CyVerif.C30Cmp

import CyVerif.Model.C06
/-! Lemmas about the `PyOS_string_to_double` acceptance model: it only looks at "grammar characters",
so appending text that starts with any other character (white space, NUL, end) changes nothing, and
whatever it consumes consists of grammar characters. -/
namespace CyVerif.C06

/-- characters `_Py_dg_strtod` / `_Py_parse_inf_or_nan` can consume -/
def gchar (c : Nat) : Bool :=
  isDigit c || c == 46 || isExp c || isSign c ||
  lower c == 105 || lower c == 110 || lower c == 102 || lower c == 116 || lower c == 121 || lower c == 97

/-- characters of a decimal literal -/
def dchar (c : Nat) : Bool := isDigit c || c == 46 || isExp c || isSign c

/-- the text `y` starts with something no scanner accepts (or is empty) -/
def StopHead (y : List Nat) : Prop := ∀ c, y.head? = some c → gchar c = false

theorem stopHead_nil : StopHead [] := by intro c h; simp at h

theorem gchar_false {c : Nat} (h : gchar c = false) :
    isDigit c = false ∧ (c == 46) = false ∧ isExp c = false ∧ isSign c = false ∧
    (lower c == 105) = false ∧ (lower c == 110) = false := by
  simp only [gchar, Bool.or_eq_false_iff] at h
  obtain ⟨⟨⟨⟨⟨⟨⟨⟨⟨h1, h2⟩, h3⟩, h4⟩, h5⟩, h6⟩, _⟩, _⟩, _⟩, _⟩ := h
  exact ⟨h1, h2, h3, h4, h5, h6⟩

theorem countDigits_le (x : List Nat) : countDigits x ≤ x.length := by
  induction x with
  | nil => simp [countDigits]
  | cons c cs ih => simp only [countDigits]; split <;> simp <;> omega

theorem countDigits_append {x y : List Nat} (hy : StopHead y) :
    countDigits (x ++ y) = countDigits x := by
  induction x with
  | nil =>
    cases y with
    | nil => rfl
    | cons c t =>
      have := (gchar_false (hy c rfl)).1
      simp [countDigits, this]
  | cons c cs ih => simp only [List.cons_append, countDigits, ih]

theorem signLen_le (x : List Nat) : signLen x ≤ x.length := by
  cases x with
  | nil => simp [signLen]
  | cons c cs => simp only [signLen]; split <;> simp

theorem signLen_append {x y : List Nat} (hy : StopHead y) : signLen (x ++ y) = signLen x := by
  cases x with
  | nil =>
    cases y with
    | nil => rfl
    | cons c t =>
      have := (gchar_false (hy c rfl)).2.2.2.1
      simp [signLen, this]
  | cons c cs => simp [signLen]

theorem expLen_append {x y : List Nat} (hy : StopHead y) : expLen (x ++ y) = expLen x := by
  cases x with
  | nil =>
    cases y with
    | nil => rfl
    | cons c t =>
      have := (gchar_false (hy c rfl)).2.2.1
      simp [expLen, this]
  | cons c cs =>
    simp only [List.cons_append, expLen, signLen_append hy]
    rw [List.drop_append_of_le_length (signLen_le cs), countDigits_append hy]

theorem expLen_le (x : List Nat) : expLen x ≤ x.length := by
  cases x with
  | nil => simp [expLen]
  | cons c cs =>
    simp only [expLen]
    have h1 := signLen_le cs
    have h2 := countDigits_le (cs.drop (signLen cs))
    simp only [List.length_drop] at h2
    split
    · split <;> simp <;> omega
    · simp

theorem fracLen_append {x y : List Nat} (hy : StopHead y) : fracLen (x ++ y) = fracLen x := by
  cases x with
  | nil =>
    cases y with
    | nil => rfl
    | cons c t =>
      have := (gchar_false (hy c rfl)).2.1
      simp at this
      simp [fracLen, cDot, this]
  | cons c cs => simp only [List.cons_append, fracLen, countDigits_append hy]

theorem fracLen_le {x : List Nat} {k : Nat} (h : fracLen x = some k) : 1 + k ≤ x.length := by
  cases x with
  | nil => simp [fracLen] at h
  | cons c cs =>
    simp only [fracLen] at h
    split at h
    · have := countDigits_le cs
      simp at h; subst h; simp; omega
    · simp at h

/-- length of the mantissa part (after the sign) -/
def mantLen (t1 : List Nat) : Nat :=
  countDigits t1 + (match fracLen (t1.drop (countDigits t1)) with | some k => 1 + k | none => 0)

theorem mantLen_le (t1 : List Nat) : mantLen t1 ≤ t1.length := by
  unfold mantLen
  have h1 := countDigits_le t1
  cases h : fracLen (t1.drop (countDigits t1)) with
  | none => simp; exact h1
  | some k =>
    have := fracLen_le h
    simp only [List.length_drop] at this
    simp; omega

theorem decLen_eq (t : List Nat) :
    decLen t =
      if countDigits (t.drop (signLen t)) + (fracLen ((t.drop (signLen t)).drop (countDigits (t.drop (signLen t))))).getD 0 = 0
      then 0
      else signLen t + mantLen (t.drop (signLen t)) + expLen ((t.drop (signLen t)).drop (mantLen (t.drop (signLen t)))) := by
  rfl

theorem decLen_append {x y : List Nat} (hy : StopHead y) : decLen (x ++ y) = decLen x := by
  rw [decLen_eq, decLen_eq, signLen_append hy, List.drop_append_of_le_length (signLen_le x)]
  have hm : mantLen (x.drop (signLen x) ++ y) = mantLen (x.drop (signLen x)) := by
    unfold mantLen
    rw [countDigits_append hy, List.drop_append_of_le_length (countDigits_le _), fracLen_append hy]
  rw [hm, countDigits_append hy, List.drop_append_of_le_length (countDigits_le _), fracLen_append hy,
    List.drop_append_of_le_length (mantLen_le _), expLen_append hy]

theorem decLen_le (t : List Nat) : decLen t ≤ t.length := by
  rw [decLen_eq]
  split
  · omega
  · have h1 := signLen_le t
    have h2 := mantLen_le (t.drop (signLen t))
    have h3 := expLen_le ((t.drop (signLen t)).drop (mantLen (t.drop (signLen t))))
    simp only [List.length_drop] at h2 h3
    omega

theorem ciMatch_append {x y w : List Nat} (hy : StopHead y)
    (hw : ∀ d ∈ w, d = 105 ∨ d = 110 ∨ d = 102 ∨ d = 116 ∨ d = 121 ∨ d = 97) :
    ciMatch (x ++ y) w = ciMatch x w := by
  induction x generalizing w with
  | nil =>
    cases w with
    | nil => simp [ciMatch]
    | cons d ds =>
      cases y with
      | nil => simp [ciMatch]
      | cons c t =>
        have hc := hy c rfl
        simp only [gchar, Bool.or_eq_false_iff] at hc
        have hd := hw d (by simp)
        simp only [List.nil_append, ciMatch]
        have : (lower c == d) = false := by
          rcases hd with h | h | h | h | h | h <;> subst h <;> simp_all
        simp [this]
  | cons c cs ih =>
    cases w with
    | nil => simp [ciMatch]
    | cons d ds =>
      simp only [List.cons_append, ciMatch]
      rw [ih (fun d' hd' => hw d' (by simp [hd']))]

theorem parseInfNan_append {x y : List Nat} (hy : StopHead y) :
    parseInfNan (x ++ y) = parseInfNan x := by
  have hh : ((x ++ y).head? == some cMinus) = (x.head? == some cMinus) := by
    cases x with
    | nil =>
      cases y with
      | nil => rfl
      | cons c t =>
        have := (gchar_false (hy c rfl)).2.2.2.1
        simp only [isSign, Bool.or_eq_false_iff] at this
        simp [cMinus]
        have := this.2
        simp at this
        exact this
    | cons c cs => simp
  unfold parseInfNan
  simp only [hh, signLen_append hy, List.drop_append_of_le_length (signLen_le x)]
  rw [ciMatch_append hy (by simp [sINF]), ciMatch_append hy (by simp [sNAN])]
  by_cases h3 : 3 ≤ (x.drop (signLen x)).length
  · rw [List.drop_append_of_le_length h3, ciMatch_append hy (by simp [sINITY])]
  · -- fewer than three characters: "inf" cannot match
    have : ciMatch (x.drop (signLen x)) sINF = false := by
      generalize x.drop (signLen x) = z at h3
      match z, h3 with
      | [], _ => simp [ciMatch, sINF]
      | [a], _ => simp [ciMatch, sINF]
      | [a, b], _ => simp [ciMatch, sINF]
      | _ :: _ :: _ :: _, h => simp at h
    simp [this]

theorem strtod_append {x y : List Nat} (hy : StopHead y) : strtod (x ++ y) = strtod x := by
  unfold strtod
  simp only [decLen_append hy, parseInfNan_append hy]
  rw [List.take_append_of_le_length (decLen_le x)]

/-! ### what is consumed consists of grammar characters -/

theorem countDigits_take (x : List Nat) : ∀ c ∈ x.take (countDigits x), isDigit c = true := by
  induction x with
  | nil => simp [countDigits]
  | cons a as ih =>
    simp only [countDigits]
    split
    · intro c hc
      rw [List.take_succ_cons, List.mem_cons] at hc
      rcases hc with rfl | hc
      · assumption
      · exact ih c hc
    · simp

theorem signLen_take (x : List Nat) : ∀ c ∈ x.take (signLen x), isSign c = true := by
  cases x with
  | nil => simp [signLen]
  | cons a as =>
    simp only [signLen]
    split
    · intro c hc; simp at hc; subst hc; assumption
    · simp

theorem fracLen_take {x : List Nat} {k : Nat} (h : fracLen x = some k) :
    ∀ c ∈ x.take (1 + k), c = 46 ∨ isDigit c = true := by
  cases x with
  | nil => simp [fracLen] at h
  | cons a as =>
    simp only [fracLen] at h
    split at h
    · rename_i ha
      simp at h; subst h
      intro c hc
      rw [Nat.add_comm, List.take_succ_cons, List.mem_cons] at hc
      rcases hc with rfl | hc
      · left; exact ha
      · right; exact countDigits_take as c hc
    · simp at h

theorem expLen_take (x : List Nat) :
    ∀ c ∈ x.take (expLen x), isExp c = true ∨ isSign c = true ∨ isDigit c = true := by
  cases x with
  | nil => simp [expLen]
  | cons a as =>
    simp only [expLen]
    split
    · rename_i ha
      split
      · simp
      · intro c hc
        rw [show 1 + signLen as + countDigits (as.drop (signLen as)) = (signLen as + countDigits (as.drop (signLen as))) + 1 by omega,
          List.take_succ_cons, List.mem_cons, List.take_add, List.mem_append] at hc
        rcases hc with rfl | hc | hc
        · left; exact ha
        · right; left; exact signLen_take as c hc
        · right; right; exact countDigits_take _ c hc
    · simp

theorem mantLen_take (x : List Nat) : ∀ c ∈ x.take (mantLen x), c = 46 ∨ isDigit c = true := by
  intro c hc
  unfold mantLen at hc
  rw [List.take_add, List.mem_append] at hc
  rcases hc with hc | hc
  · right; exact countDigits_take x c hc
  · cases h : fracLen (x.drop (countDigits x)) with
    | none => simp [h] at hc
    | some k => simp only [h] at hc; exact fracLen_take h c hc

theorem decLen_take (t : List Nat) : ∀ c ∈ t.take (decLen t), dchar c = true := by
  intro c hc
  rw [decLen_eq] at hc
  split at hc
  · simp at hc
  · rw [List.take_add, List.take_add, List.mem_append, List.mem_append] at hc
    simp only [dchar, Bool.or_eq_true]
    rcases hc with (hc | hc) | hc
    · have := signLen_take t c hc; simp [this]
    · rcases mantLen_take _ c hc with h | h
      · subst h; simp
      · simp [h]
    · rw [List.drop_drop] at hc
      rw [← List.drop_drop] at hc
      rcases expLen_take _ c hc with h | h | h <;> simp [h]

theorem dchar_gchar {c : Nat} (h : dchar c = true) : gchar c = true := by
  simp only [dchar, Bool.or_eq_true] at h
  simp only [gchar, Bool.or_eq_true]
  rcases h with ((h | h) | h) | h <;> simp [h]

theorem ciMatch_take {x w : List Nat}
    (hw : ∀ d ∈ w, d = 105 ∨ d = 110 ∨ d = 102 ∨ d = 116 ∨ d = 121 ∨ d = 97)
    (h : ciMatch x w = true) : ∀ c ∈ x.take w.length, gchar c = true := by
  induction w generalizing x with
  | nil => simp
  | cons d ds ih =>
    cases x with
    | nil => simp
    | cons a as =>
      simp only [ciMatch, Bool.and_eq_true] at h
      intro c hc
      simp only [List.length_cons, List.take_succ_cons, List.mem_cons] at hc
      rcases hc with rfl | hc
      · have hd := hw d (by simp)
        have h1 := h.1
        simp only [gchar, Bool.or_eq_true]
        rcases hd with e | e | e | e | e | e <;> subst e <;> simp [h1]
      · exact ih (fun d' hd' => hw d' (by simp [hd'])) h.2 c hc

theorem ciMatch_len {x w : List Nat} (h : ciMatch x w = true) : w.length ≤ x.length := by
  induction w generalizing x with
  | nil => simp
  | cons d ds ih =>
    cases x with
    | nil => simp [ciMatch] at h
    | cons a as =>
      simp only [ciMatch, Bool.and_eq_true] at h
      have := ih h.2
      simp; omega

theorem sign_gchar {c : Nat} (h : isSign c = true) : gchar c = true := by
  simp only [gchar, Bool.or_eq_true]; simp [h]

theorem parseInfNan_take {t : List Nat} {n : Nat} {v : Num} (h : parseInfNan t = some (n, v)) :
    n ≤ t.length ∧ ∀ c ∈ t.take n, gchar c = true := by
  simp only [parseInfNan] at h
  have hs := signLen_le t
  have hsg : ∀ c ∈ t.take (signLen t), gchar c = true := fun c hc => sign_gchar (signLen_take t c hc)
  have hINF : ∀ d ∈ sINF, d = 105 ∨ d = 110 ∨ d = 102 ∨ d = 116 ∨ d = 121 ∨ d = 97 := by simp [sINF]
  have hINITY : ∀ d ∈ sINITY, d = 105 ∨ d = 110 ∨ d = 102 ∨ d = 116 ∨ d = 121 ∨ d = 97 := by simp [sINITY]
  have hNAN : ∀ d ∈ sNAN, d = 105 ∨ d = 110 ∨ d = 102 ∨ d = 116 ∨ d = 121 ∨ d = 97 := by simp [sNAN]
  split at h
  · rename_i h1
    have l1 := ciMatch_len h1
    have t1 := ciMatch_take hINF h1
    simp only [List.length_drop, show sINF.length = 3 from rfl] at l1 t1
    split at h
    · rename_i h2
      have l2 := ciMatch_len h2
      have t2 := ciMatch_take hINITY h2
      simp only [List.length_drop, show sINITY.length = 5 from rfl] at l2 t2
      simp at h; obtain ⟨rfl, _⟩ := h
      refine ⟨by omega, ?_⟩
      intro c hc
      rw [show signLen t + 8 = signLen t + (3 + 5) by omega, List.take_add, List.take_add, List.mem_append,
        List.mem_append] at hc
      rcases hc with hc | hc | hc
      · exact hsg c hc
      · exact t1 c hc
      · exact t2 c hc
    · simp at h; obtain ⟨rfl, _⟩ := h
      refine ⟨by omega, ?_⟩
      intro c hc
      rw [List.take_add, List.mem_append] at hc
      rcases hc with hc | hc
      · exact hsg c hc
      · exact t1 c hc
  · split at h
    · rename_i _ h1
      have l1 := ciMatch_len h1
      have t1 := ciMatch_take hNAN h1
      simp only [List.length_drop, show sNAN.length = 3 from rfl] at l1 t1
      simp at h; obtain ⟨rfl, _⟩ := h
      refine ⟨by omega, ?_⟩
      intro c hc
      rw [List.take_add, List.mem_append] at hc
      rcases hc with hc | hc
      · exact hsg c hc
      · exact t1 c hc
    · simp at h

/-- **L1**: whatever `PyOS_string_to_double` consumes consists of grammar characters. -/
theorem strtod_take {t : List Nat} {n : Nat} {v : Num} (h : strtod t = some (n, v)) :
    n ≤ t.length ∧ ∀ c ∈ t.take n, gchar c = true := by
  simp only [strtod] at h
  split at h
  · exact parseInfNan_take h
  · simp at h
    obtain ⟨rfl, _⟩ := h
    exact ⟨decLen_le t, fun c hc => dchar_gchar (decLen_take t c hc)⟩

/-- a fully consumed text has only grammar characters -/
theorem strtod_full {t : List Nat} {v : Num} (h : strtod t = some (t.length, v)) :
    ∀ c ∈ t, gchar c = true := by
  have := (strtod_take h).2
  simpa using this

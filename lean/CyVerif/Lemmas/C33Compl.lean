import CyVerif.Lemmas.C33ErrMain
/-! # C33 — completeness: every error of `fromPy` is explained by a first bad position; error classes -/
namespace CyVerif.C33

mutual
/-- type well-formedness: structs have one name per field; no unions (their conversion is modelled
separately, see `fromPy` and `union_no_roundtrip`) -/
def TyOK : Ty → Bool
  | .pair a b => TyOK a && TyOK b
  | .vec t => TyOK t | .lst t => TyOK t | .set t => TyOK t | .uset t => TyOK t
  | .map k v => TyOK k && TyOK v | .umap k v => TyOK k && TyOK v
  | .struct ns ts => ns.length == ts.length && TyOKL ts
  | .union _ _ => false
  | .carray t _ => TyOK t
  | .ctuple ts => TyOKL ts
  | _ => true
def TyOKL : List Ty → Bool
  | [] => true
  | t :: ts => TyOK t && TyOKL ts
end

theorem lookups_length (p : PyVal) : ∀ (ns : List String) (vs : List PyVal), lookups p ns = .ok vs → vs.length = ns.length
  | [], vs, h => by simp [lookups] at h; subst h; rfl
  | n :: ns, vs, h => by
    simp only [lookups, bind, Except.bind] at h
    cases hs : subscript n p with
    | error e => rw [hs] at h; simp at h
    | ok o =>
      rw [hs] at h
      cases o with
      | none => simp at h
      | some v =>
        simp only at h
        cases hr : lookups p ns with
        | error e => rw [hr] at h; simp at h
        | ok r => rw [hr] at h; simp at h; subst h; simp [lookups_length p ns r hr]

theorem errOf_error {α} (r : R α) (e : String) (h : r = .error e) : errOf r = some e := by subst h; rfl

theorem bind_ok_err {α β} (r : R α) (f : α → β) (e : String)
    (h : (do let x ← r; (.ok (f x) : R β)) = .error e) : r = .error e := by
  cases r with
  | error e' => simp [bind, Except.bind] at h; subst h; rfl
  | ok x => simp [bind, Except.bind] at h

theorem kv_ok_inv (m : Mode) (k v : Ty) (kv : PyVal × PyVal) (b : CVal × CVal)
    (h : (do let ck ← fromPy m k kv.1; let cv ← fromPy m v kv.2; (.ok (ck, cv) : R (CVal × CVal))) = .ok b) :
    ∃ ck cv, fromPy m k kv.1 = .ok ck ∧ fromPy m v kv.2 = .ok cv := by
  simp only [bind, Except.bind] at h
  cases h1 : fromPy m k kv.1 with
  | error e => rw [h1] at h; simp at h
  | ok ck =>
    rw [h1] at h
    cases h2 : fromPy m v kv.2 with
    | error e => rw [h2] at h; simp at h
    | ok cv => exact ⟨ck, cv, rfl, rfl⟩

/-- a ctuple input either has the right shape (its items are then converted component-wise) or is rejected
by the node itself -/
theorem ctuple_cases (m : Mode) (ts : List Ty) (p : PyVal) :
    (∃ xs, comps (.ctuple ts) p = some (ts, xs) ∧ xs.length = ts.length ∧
      fromPy m (.ctuple ts) p = (do let cs ← fromPyL m ts xs; .ok (.seq cs))) ∨
    (∃ e, immediate m (.ctuple ts) p = some e) := by
  cases p with
  | tuple xs =>
    by_cases hn : xs.length = ts.length
    · left; exact ⟨xs, by simp [comps, hn], hn, by simp [fromPy, hn]⟩
    · right; exact ⟨"TypeError", by simp [immediate, hn]⟩
  | list xs =>
    by_cases hn : xs.length = ts.length
    · left; exact ⟨xs, by simp [comps, hn], hn, by simp [fromPy, hn]⟩
    · right; exact ⟨"TypeError", by simp [immediate, hn]⟩
  | bytes b =>
    by_cases hn : b.length = ts.length
    · left; exact ⟨b.map fun x => .int (x : Nat), by simp [comps, isSequence, iterate, hn], by simpa using hn,
        by simp [fromPy, isSequence, iterate, hn, bind, Except.bind]⟩
    · right; exact ⟨"TypeError", by simp [immediate, isSequence, iterate, hn]⟩
  | bytearray b =>
    by_cases hn : b.length = ts.length
    · left; exact ⟨b.map fun x => .int (x : Nat), by simp [comps, isSequence, iterate, hn], by simpa using hn,
        by simp [fromPy, isSequence, iterate, hn, bind, Except.bind]⟩
    · right; exact ⟨"TypeError", by simp [immediate, isSequence, iterate, hn]⟩
  | str b =>
    by_cases hn : b.length = ts.length
    · left; exact ⟨b.map fun c => .str [c], by simp [comps, isSequence, iterate, hn], by simpa using hn,
        by simp [fromPy, isSequence, iterate, hn, bind, Except.bind]⟩
    · right; exact ⟨"TypeError", by simp [immediate, isSequence, iterate, hn]⟩
  | _ => right; exact ⟨"TypeError", by simp [immediate, isSequence]⟩

mutual
/-- **Every error has a cause**: if `fromPy` fails with `e`, some node (at some depth) raised `e` and
everything before it in conversion order converted. -/
theorem complete (m : Mode) : ∀ (t : Ty) (p : PyVal) (e : String), TyOK t = true →
    fromPy m t p = .error e → FirstBad m t p e
  | .int w sg, p, e, _, h => by
    simp only [fromPy] at h
    exact .node (by simp only [immediate]; exact errOf_error _ _ (bind_ok_err _ _ _ h))
  | .dbl, p, e, _, h => by
    simp only [fromPy] at h
    exact .node (by simp only [immediate]; exact errOf_error _ _ (bind_ok_err _ _ _ h))
  | .bool, p, e, _, h => by simp [fromPy] at h
  | .str, p, e, _, h => by
    simp only [fromPy] at h
    exact .node (by simp only [immediate]; exact errOf_error _ _ (bind_ok_err _ _ _ h))
  | .cstr, p, e, _, h => by
    simp only [fromPy] at h
    exact .node (by simp only [immediate]; exact errOf_error _ _ (bind_ok_err _ _ _ h))
  | .cplx, p, e, _, h => by
    simp only [fromPy] at h
    exact .node (by simp only [immediate]; exact errOf_error _ _ (bind_ok_err _ _ _ h))
  | .pair a b, p, e, hok, h => by
    simp only [TyOK, Bool.and_eq_true] at hok
    simp only [fromPy, bind, Except.bind] at h
    cases hi : iterate p with
    | error e' => rw [hi] at h; simp at h; subst h; exact .node (by simp [immediate, hi])
    | ok xs =>
      rw [hi] at h; simp only at h
      match xs, hi, h with
      | [], hi, h => simp at h; subst h; exact .node (by simp [immediate, hi])
      | [_], hi, h => simp at h; subst h; exact .node (by simp [immediate, hi])
      | _ :: _ :: _ :: _, hi, h => simp at h; subst h; exact .node (by simp [immediate, hi])
      | [x, y], hi, h =>
        simp only at h
        cases hx : fromPy m a x with
        | error e' =>
          rw [hx] at h; simp at h; subst h
          exact .comp (tpre := []) (ti := a) (tpost := [b]) (xpre := []) (xi := x) (xpost := [y])
            (by simp [comps, hi]) rfl rfl rfl (by intro cs; simp [fromPyL]) (complete m a x _ hok.1 hx)
        | ok ca =>
          rw [hx] at h
          cases hy : fromPy m b y with
          | error e' =>
            rw [hy] at h; simp at h; subst h
            exact .comp (tpre := [a]) (ti := b) (tpost := []) (xpre := [x]) (xi := y) (xpost := [])
              (by simp [comps, hi]) rfl rfl rfl (by intro cs; simp [fromPyL, hx, bind, Except.bind])
              (complete m b y _ hok.2 hy)
          | ok cb => rw [hy] at h; simp at h
  | .vec t, p, e, hok, h => by
    simp only [TyOK] at hok
    simp only [fromPy, bind, Except.bind] at h
    cases hi : iterate p with
    | error e' => rw [hi] at h; simp at h; subst h; exact .node (by simp [immediate, hi, errOf])
    | ok xs =>
      rw [hi] at h; simp only at h
      cases hm : mapR (fromPy m t) xs with
      | ok cs => rw [hm] at h; simp at h
      | error e' =>
        rw [hm] at h; simp at h; subst h
        obtain ⟨pre, x, post, rfl, hp, hx⟩ := mapR_err_inv _ _ _ hm
        exact .elem (t' := t) (pre := pre) (x := x) (post := post) (by simp [elems, hi]) hp (complete m t x _ hok hx)
  | .lst t, p, e, hok, h => by
    simp only [TyOK] at hok
    simp only [fromPy, bind, Except.bind] at h
    cases hi : iterate p with
    | error e' => rw [hi] at h; simp at h; subst h; exact .node (by simp [immediate, hi, errOf])
    | ok xs =>
      rw [hi] at h; simp only at h
      cases hm : mapR (fromPy m t) xs with
      | ok cs => rw [hm] at h; simp at h
      | error e' =>
        rw [hm] at h; simp at h; subst h
        obtain ⟨pre, x, post, rfl, hp, hx⟩ := mapR_err_inv _ _ _ hm
        exact .elem (t' := t) (pre := pre) (x := x) (post := post) (by simp [elems, hi]) hp (complete m t x _ hok hx)
  | .set t, p, e, hok, h => by
    simp only [TyOK] at hok
    simp only [fromPy, bind, Except.bind] at h
    cases hi : iterate p with
    | error e' => rw [hi] at h; simp at h; subst h; exact .node (by simp [immediate, hi, errOf])
    | ok xs =>
      rw [hi] at h; simp only at h
      cases hm : mapR (fromPy m t) xs with
      | ok cs => rw [hm] at h; simp at h
      | error e' =>
        rw [hm] at h; simp at h; subst h
        obtain ⟨pre, x, post, rfl, hp, hx⟩ := mapR_err_inv _ _ _ hm
        exact .elem (t' := t) (pre := pre) (x := x) (post := post) (by simp [elems, hi]) hp (complete m t x _ hok hx)
  | .uset t, p, e, hok, h => by
    simp only [TyOK] at hok
    simp only [fromPy, bind, Except.bind] at h
    cases hi : iterate p with
    | error e' => rw [hi] at h; simp at h; subst h; exact .node (by simp [immediate, hi, errOf])
    | ok xs =>
      rw [hi] at h; simp only at h
      cases hm : mapR (fromPy m t) xs with
      | ok cs => rw [hm] at h; simp at h
      | error e' =>
        rw [hm] at h; simp at h; subst h
        obtain ⟨pre, x, post, rfl, hp, hx⟩ := mapR_err_inv _ _ _ hm
        exact .elem (t' := t) (pre := pre) (x := x) (post := post) (by simp [elems, hi]) hp (complete m t x _ hok hx)
  | .map k v, p, e, hok, h => by
    simp only [TyOK, Bool.and_eq_true] at hok
    simp only [fromPy] at h
    cases hi : items p with
    | error e' => rw [hi] at h; simp [bind, Except.bind] at h; subst h; exact .node (by simp [immediate, hi, errOf])
    | ok kvs =>
      rw [hi] at h
      cases hm : mapR (fun kv => do let ck ← fromPy m k kv.1; let cv ← fromPy m v kv.2; (.ok (ck, cv) : R (CVal × CVal))) kvs with
      | ok cs => simp only [bind, Except.bind] at h hm; rw [hm] at h; simp at h
      | error e' =>
        have he : e' = e := by
          simp only [bind, Except.bind] at h hm; rw [hm] at h; simpa using h
        subst he
        obtain ⟨pre, kv, post, rfl, hp, hx⟩ := mapR_err_inv _ _ _ hm
        obtain ⟨kx, vx⟩ := kv
        have hp' : ∀ kv ∈ pre, ∃ ck cv, fromPy m k kv.1 = .ok ck ∧ fromPy m v kv.2 = .ok cv := by
          intro kv hkv; obtain ⟨b, hb⟩ := hp kv hkv; exact kv_ok_inv m k v kv b hb
        simp only [bind, Except.bind] at hx
        cases hk : fromPy m k kx with
        | error e'' =>
          rw [hk] at hx; simp at hx; subst hx
          exact .mapKey (k := k) (v := v) (by simp [mapTys]) hi rfl hp' (complete m k kx _ hok.1 hk)
        | ok ck =>
          rw [hk] at hx
          cases hv : fromPy m v vx with
          | error e'' =>
            rw [hv] at hx; simp at hx; subst hx
            exact .mapVal (k := k) (v := v) (by simp [mapTys]) hi rfl hp' hk (complete m v vx _ hok.2 hv)
          | ok cv => rw [hv] at hx; simp at hx
  | .umap k v, p, e, hok, h => by
    simp only [TyOK, Bool.and_eq_true] at hok
    simp only [fromPy] at h
    cases hi : items p with
    | error e' => rw [hi] at h; simp [bind, Except.bind] at h; subst h; exact .node (by simp [immediate, hi, errOf])
    | ok kvs =>
      rw [hi] at h
      cases hm : mapR (fun kv => do let ck ← fromPy m k kv.1; let cv ← fromPy m v kv.2; (.ok (ck, cv) : R (CVal × CVal))) kvs with
      | ok cs => simp only [bind, Except.bind] at h hm; rw [hm] at h; simp at h
      | error e' =>
        have he : e' = e := by
          simp only [bind, Except.bind] at h hm; rw [hm] at h; simpa using h
        subst he
        obtain ⟨pre, kv, post, rfl, hp, hx⟩ := mapR_err_inv _ _ _ hm
        obtain ⟨kx, vx⟩ := kv
        have hp' : ∀ kv ∈ pre, ∃ ck cv, fromPy m k kv.1 = .ok ck ∧ fromPy m v kv.2 = .ok cv := by
          intro kv hkv; obtain ⟨b, hb⟩ := hp kv hkv; exact kv_ok_inv m k v kv b hb
        simp only [bind, Except.bind] at hx
        cases hk : fromPy m k kx with
        | error e'' =>
          rw [hk] at hx; simp at hx; subst hx
          exact .mapKey (k := k) (v := v) (by simp [mapTys]) hi rfl hp' (complete m k kx _ hok.1 hk)
        | ok ck =>
          rw [hk] at hx
          cases hv : fromPy m v vx with
          | error e'' =>
            rw [hv] at hx; simp at hx; subst hx
            exact .mapVal (k := k) (v := v) (by simp [mapTys]) hi rfl hp' hk (complete m v vx _ hok.2 hv)
          | ok cv => rw [hv] at hx; simp at hx
  | .struct ns ts, p, e, hok, h => by
    simp only [TyOK, Bool.and_eq_true, beq_iff_eq] at hok
    simp only [fromPy] at h
    split at h
    · rename_i hm
      cases hl : lookups p ns with
      | error e' =>
        rw [hl] at h; simp [bind, Except.bind] at h; subst h
        exact .node (by simp [immediate, hm, hl, errOf])
      | ok vs =>
        rw [hl] at h; simp only [bind, Except.bind] at h
        cases hf : fromPyL m ts vs with
        | ok cs => rw [hf] at h; simp at h
        | error e' =>
          rw [hf] at h; simp at h; subst h
          have hlen : ts.length = vs.length := by rw [lookups_length p ns vs hl]; exact hok.1.symm
          obtain ⟨tpre, ti, tpost, xpre, xi, xpost, h1, h2, h3, h4, h5⟩ := completeL m ts vs _ hok.2 hlen hf
          exact .comp (by simp [comps, hm, hl]) h1 h2 h3 h4 h5
    · rename_i hm; simp at h; subst h; exact .node (by simp [immediate, hm])
  | .union _ _, _, _, hok, _ => by simp [TyOK] at hok
  | .carray t n, p, e, hok, h => by
    simp only [TyOK] at hok
    simp only [fromPy, carrayFrom] at h
    cases hl : pyLen p with
    | some l =>
      rw [hl] at h; simp only at h
      split at h
      · rename_i hn
        simp only [bind, Except.bind] at h
        cases hi : iterate p with
        | error e' => rw [hi] at h; simp at h; subst h; exact .node (by simp [immediate, hl, hn, hi, errOf])
        | ok xs =>
          rw [hi] at h; simp only at h
          cases hm : mapR (fromPy m t) xs with
          | ok cs => rw [hm] at h; simp at h
          | error e' =>
            rw [hm] at h; simp at h; subst h
            obtain ⟨pre, x, post, rfl, hp, hx⟩ := mapR_err_inv _ _ _ hm
            exact .elem (t' := t) (pre := pre) (x := x) (post := post) (by simp [elems, hl, hi, hn]) hp (complete m t x _ hok hx)
      · rename_i hn; simp at h; subst h; exact .node (by simp [immediate, hl, hn])
    | none =>
      rw [hl] at h; simp only [bind, Except.bind] at h
      cases hi : iterate p with
      | error e' => rw [hi] at h; simp at h; subst h; exact .node (by simp [immediate, hl, hi, errOf])
      | ok xs =>
        rw [hi] at h; simp only at h
        cases hm : mapR (fromPy m t) (xs.take n) with
        | ok cs =>
          rw [hm] at h; simp only at h
          split at h
          · simp at h
          · rename_i hn; simp at h; subst h
            exact .carrayLate hl hi hn (mapR_ok_all _ _ _ hm)
        | error e' =>
          rw [hm] at h; simp at h; subst h
          obtain ⟨pre, x, post, hsplit, hp, hx⟩ := mapR_err_inv _ _ _ hm
          exact .elem (t' := t) (pre := pre) (x := x) (post := post) (by simp [elems, hl, hi, hsplit]) hp (complete m t x _ hok hx)
  | .ctuple ts, p, e, hok, h => by
    simp only [TyOK] at hok
    rcases ctuple_cases m ts p with ⟨xs, hc, hlen, heq⟩ | ⟨e', hi⟩
    · rw [heq] at h
      simp only [bind, Except.bind] at h
      cases hf : fromPyL m ts xs with
      | ok cs => rw [hf] at h; simp at h
      | error e' =>
        rw [hf] at h; simp at h; subst h
        obtain ⟨tpre, ti, tpost, xpre, xi, xpost, h1, h2, h3, h4, h5⟩ := completeL m ts xs _ hok hlen.symm hf
        exact .comp hc h1 h2 h3 h4 h5
    · have := immediate_err m _ _ _ hi
      rw [this] at h; injection h with h; subst h
      exact .node hi
theorem completeL (m : Mode) : ∀ (ts : List Ty) (xs : List PyVal) (e : String), TyOKL ts = true →
    ts.length = xs.length → fromPyL m ts xs = .error e →
    ∃ tpre ti tpost xpre xi xpost, ts = tpre ++ ti :: tpost ∧ xs = xpre ++ xi :: xpost ∧
      tpre.length = xpre.length ∧ (∀ cs, fromPyL m tpre xpre ≠ .error cs) ∧ FirstBad m ti xi e
  | [], xs, e, _, _, h => by simp [fromPyL] at h
  | _ :: _, [], e, _, hl, _ => by simp at hl
  | t :: ts, x :: xs, e, hok, hl, h => by
    simp only [TyOKL, Bool.and_eq_true] at hok
    simp only [fromPyL, bind, Except.bind] at h
    cases hx : fromPy m t x with
    | error e' =>
      rw [hx] at h; simp at h; subst h
      exact ⟨[], t, ts, [], x, xs, rfl, rfl, rfl, by simp [fromPyL], complete m t x _ hok.1 hx⟩
    | ok c =>
      rw [hx] at h
      cases hr : fromPyL m ts xs with
      | ok cs => rw [hr] at h; simp at h
      | error e' =>
        rw [hr] at h; simp at h; subst h
        obtain ⟨tpre, ti, tpost, xpre, xi, xpost, rfl, rfl, hlen, hpre, hb⟩ :=
          completeL m ts xs _ hok.2 (by simpa using hl) hr
        refine ⟨t :: tpre, ti, tpost, x :: xpre, xi, xpost, rfl, rfl, by simp [hlen], ?_, hb⟩
        intro cs hcs
        simp only [fromPyL, hx, bind, Except.bind] at hcs
        cases hq : fromPyL m tpre xpre with
        | error e2 => exact hpre _ hq
        | ok c2 => rw [hq] at hcs; simp at hcs
end

end CyVerif.C33

import CyVerif.Lemmas.C49Steps5
/-! Ghost side of `reset`: the children of the reset node that are user-visible
buffers become stand-alone trees; anonymous (committed) children are dropped. -/
namespace CyVerif.C49
open Forest

theorem keepTop_some_split {j : Nat} {A : Doc} (h : Item.cl j ∉ A) (Y : Doc) :
    keepTop (some j) (A ++ Item.cl j :: Y) = A ++ Item.cl j :: keepTop none Y := by
  induction A with
  | nil => simp [keepTop]
  | cons a r ih =>
    have e : a ≠ Item.cl j := fun e => h (by simp [e])
    have : Item.cl j ∉ r := fun m => h (List.mem_cons_of_mem _ m)
    simp [keepTop, e, ih this]

theorem topNames_some_split {j : Nat} {A : Doc} (h : Item.cl j ∉ A) (Y : Doc) :
    topNames (some j) (A ++ Item.cl j :: Y) = topNames none Y := by
  induction A with
  | nil => simp [topNames]
  | cons a r ih =>
    have e : a ≠ Item.cl j := fun e => h (by simp [e])
    have : Item.cl j ∉ r := fun m => h (List.mem_cons_of_mem _ m)
    simp [topNames, e, ih this]

theorem keepTop_none_frags (fs : List Frag) (Y : Doc) :
    keepTop none (fragItems fs ++ Y) = keepTop none Y := by
  induction fs with
  | nil => rfl
  | cons f r ih => simpa [fragItems, keepTop] using ih

theorem topNames_none_frags (fs : List Frag) (Y : Doc) :
    topNames none (fragItems fs ++ Y) = topNames none Y := by
  induction fs with
  | nil => rfl
  | cons f r ih => simpa [fragItems, topNames] using ih

/-- named top-level trees stay whole, anonymous top-level nodes dissolve -/
def Forest.orphans : Forest → Forest
  | .nil => .nil
  | .cons _ none _ kids rest => (orphans kids).append (orphans rest)
  | .cons id (some j) fs kids rest => .cons id (some j) fs kids (orphans rest)

theorem Forest.doc_orphans : ∀ (F : Forest), F.names.Nodup → ∀ Y : Doc,
    keepTop none (F.doc ++ Y) = F.orphans.doc ++ keepTop none Y ∧
    topNames none (F.doc ++ Y) = F.orphans.rootNames ++ topNames none Y := by
  intro F
  induction F with
  | nil => intro _ Y; exact ⟨rfl, rfl⟩
  | cons id nm fs kd r ihk ihr =>
    intro hnm Y
    obtain ⟨n1, n2, n3, n4⟩ := Forest.nodup_names_cons hnm
    cases nm with
    | none =>
      have e : (Forest.cons id none fs kd r).doc ++ Y = kd.doc ++ (fragItems fs ++ (r.doc ++ Y)) := by
        simp [Forest.doc, wrap]
      rw [e, (ihk n2 _).1, (ihk n2 _).2, keepTop_none_frags, topNames_none_frags,
        (ihr n3 _).1, (ihr n3 _).2]
      simp [Forest.orphans, Forest.doc_append, Forest.rootNames_append]
    | some j =>
      have hnot : Item.cl j ∉ kd.doc ++ fragItems fs := by
        simp only [List.mem_append, not_or]
        exact ⟨fun h => (n1 j rfl).1 (Forest.cl_mem_doc h), not_mem_fragItems_cl _ _⟩
      have e : (Forest.cons id (some j) fs kd r).doc ++ Y
          = Item.op j :: ((kd.doc ++ fragItems fs) ++ Item.cl j :: (r.doc ++ Y)) := by
        simp [Forest.doc, wrap]
      rw [e]
      simp only [keepTop, topNames]
      rw [keepTop_some_split hnot, topNames_some_split hnot, (ihr n3 _).1, (ihr n3 _).2]
      simp [Forest.orphans, Forest.doc, wrap, Forest.rootNames]

theorem Forest.orphans_tags_sublist (F : Forest) : F.orphans.tags.Sublist F.tags := by
  induction F with
  | nil => exact List.Sublist.refl _
  | cons id nm fs kd r ihk ihr =>
    cases nm with
    | none =>
      simp only [Forest.orphans, Forest.tags_append, Forest.tags]
      exact List.Sublist.cons _ (List.Sublist.append ihk ihr)
    | some j =>
      simp only [Forest.orphans, Forest.tags]
      exact List.Sublist.cons_cons _ (List.Sublist.append (List.Sublist.refl _) ihr)

theorem Forest.orphans_named {F : Forest} {b j : Nat} (h : (b, some j) ∈ F.tags) :
    (b, some j) ∈ F.orphans.tags := by
  induction F with
  | nil => simp [Forest.tags] at h
  | cons id nm fs kd r ihk ihr =>
    simp only [Forest.tags, List.mem_cons, List.mem_append, Prod.mk.injEq] at h
    cases nm with
    | none =>
      simp only [Forest.orphans, Forest.tags_append, List.mem_append]
      rcases h with h | h | h
      · cases h.2
      · exact Or.inl (ihk h)
      · exact Or.inr (ihr h)
    | some j' =>
      simp only [Forest.orphans, Forest.tags, List.mem_cons, List.mem_append, Prod.mk.injEq]
      rcases h with h | h | h
      · exact Or.inl h
      · exact Or.inr (Or.inl h)
      · exact Or.inr (Or.inr (ihr h))

theorem Forest.NE_orphans {F : Forest} (h : F.NE) : F.orphans.NE := by
  induction F with
  | nil => trivial
  | cons id nm fs kd r ihk ihr =>
    cases nm with
    | none => exact Forest.NE_append (ihk h.2.1) (ihr h.2.2)
    | some j => exact ⟨h.1, h.2.1, ihr h.2.2⟩

theorem Cons_orphans {H : Heap} {F : Forest} (h : Cons H F) : Cons H F.orphans := by
  induction F with
  | nil => trivial
  | cons id nm fs kd r ihk ihr =>
    cases nm with
    | none => exact Cons_append (ihk h.2.1) (ihr h.2.2)
    | some j => exact ⟨h.1, h.2.1, ihr h.2.2⟩

end CyVerif.C49

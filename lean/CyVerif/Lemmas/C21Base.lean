import CyVerif.Model.C21
/-! Basic facts about the bit-set operations and the ghost `last` definition of C21. -/
namespace CyVerif.C21

theorem sub_iff {a b : List Nat} : sub a b = true ↔ ∀ x ∈ a, x ∈ b := by
  simp [sub]

theorem mem_kill {s m : List Nat} {x : Nat} : x ∈ kill s m ↔ x ∈ s ∧ x ∉ m := by
  simp [kill]

theorem lastFrom_append (g : Graph) (v : Nat) (a b : List Ev) (d : Nat) :
    lastFrom g v d (a ++ b) = lastFrom g v (lastFrom g v d a) b := by
  induction a generalizing d with
  | nil => rfl
  | cons e es ih => cases e <;> simp [lastFrom, ih]

theorem boundFrom_append (v : Nat) (a b : List Ev) (x : Bool) :
    boundFrom v x (a ++ b) = boundFrom v (boundFrom v x a) b := by
  induction a generalizing x with
  | nil => rfl
  | cons e es ih => cases e <;> simp [boundFrom, ih]

theorem run_append (g : Graph) (a b : List Ev) (s : List Nat) :
    run g s (a ++ b) = run g (run g s a) b := by
  induction a generalizing s with
  | nil => rfl
  | cons e es ih => simp [run, ih]

theorem ub_mem_mask (g : Graph) (v : Nat) : g.ub v ∈ g.mask v := by simp [Graph.mask]

/-- the own bit of a stat on `v` is in the mask of `v` -/
theorem bit_mem_mask {g : Graph} {e : Ev} {d : Nat} (he : e ∈ g.allEv) (hb : e.bit? = some d) :
    d ∈ g.mask e.var := by
  simp only [Graph.mask, Graph.statBits, List.mem_cons, List.mem_filterMap]
  right
  exact ⟨e, he, by simp [hb]⟩

/-- events of a block are events of the graph -/
theorem ev_sub_allEv {g : Graph} {b : Nat} {e : Ev} (h : e ∈ g.ev b) : e ∈ g.allEv := by
  unfold Graph.ev at h
  unfold Graph.allEv
  rw [List.getD_eq_getElem?_getD] at h
  by_cases hb : b < g.blocks.length
  · rw [List.getElem?_eq_getElem hb] at h
    exact List.mem_flatten.mpr ⟨_, List.getElem_mem hb, h⟩
  · rw [List.getElem?_eq_none (by omega)] at h
    cases h

/-- the live definition of `v` stays inside the mask of `v` -/
theorem lastFrom_mem_mask {g : Graph} {v : Nat} {tr : List Ev} (htr : ∀ e ∈ tr, e ∈ g.allEv)
    {d : Nat} (hd : d ∈ g.mask v) : lastFrom g v d tr ∈ g.mask v := by
  induction tr generalizing d with
  | nil => exact hd
  | cons e es ih =>
    have hes : ∀ e ∈ es, e ∈ g.allEv := fun x hx => htr x (List.mem_cons_of_mem _ hx)
    have he := htr e List.mem_cons_self
    cases e with
    | assign w d' n =>
      simp only [lastFrom]
      by_cases hw : w = v
      · subst hw
        simp only [if_true]
        exact ih hes (bit_mem_mask (e := .assign w d' n) he rfl)
      · simp only [hw, if_false]; exact ih hes hd
    | del w d' n =>
      simp only [lastFrom]
      by_cases hw : w = v
      · simp only [hw, if_true]; exact ih hes (ub_mem_mask g v)
      · simp only [hw, if_false]; exact ih hes hd
    | read w n => simp only [lastFrom]; exact ih hes hd

/-- not the marker bit ⇒ the last event was an assignment ⇒ bound (no hypothesis on the start) -/
theorem bound_of_last_ne (g : Graph) (v : Nat) (tr : List Ev) (d : Nat) (b : Bool)
    (h0 : d ≠ g.ub v → b = true) (h : lastFrom g v d tr ≠ g.ub v) : boundFrom v b tr = true := by
  induction tr generalizing d b with
  | nil => exact h0 h
  | cons e es ih =>
    cases e with
    | assign w d' n =>
      simp only [lastFrom, boundFrom] at h ⊢
      by_cases hw : w = v
      · simp only [hw, if_true] at h ⊢; exact ih _ _ (fun _ => rfl) h
      · simp only [hw, if_false] at h ⊢; exact ih _ _ h0 h
    | del w d' n =>
      simp only [lastFrom, boundFrom] at h ⊢
      by_cases hw : w = v
      · simp only [hw, if_true] at h ⊢; exact ih _ _ (fun hne => absurd rfl hne) h
      · simp only [hw, if_false] at h ⊢; exact ih _ _ h0 h
    | read w n => simp only [lastFrom, boundFrom] at h ⊢; exact ih _ _ h0 h

/-- the marker bit ⇒ no assignment since entry / the last deletion ⇒ unbound, provided an
assignment never carries the marker bit of its own variable -/
theorem unbound_of_last_eq (g : Graph) (v : Nat) (tr : List Ev)
    (hwf : ∀ w d n, Ev.assign w d n ∈ tr → d ≠ g.ub w) (d : Nat) (b : Bool)
    (h0 : d = g.ub v → b = false) (h : lastFrom g v d tr = g.ub v) : boundFrom v b tr = false := by
  induction tr generalizing d b with
  | nil => exact h0 h
  | cons e es ih =>
    have hes : ∀ w d n, Ev.assign w d n ∈ es → d ≠ g.ub w :=
      fun w d n hx => hwf w d n (List.mem_cons_of_mem _ hx)
    cases e with
    | assign w d' n =>
      simp only [lastFrom, boundFrom] at h ⊢
      by_cases hw : w = v
      · have hne := hwf w d' n List.mem_cons_self
        simp only [hw, if_true] at h ⊢
        exact ih hes _ _ (fun hd => absurd (hw ▸ hd) hne) h
      · simp only [hw, if_false] at h ⊢; exact ih hes _ _ h0 h
    | del w d' n =>
      simp only [lastFrom, boundFrom] at h ⊢
      by_cases hw : w = v
      · simp only [hw, if_true] at h ⊢; exact ih hes _ _ (fun _ => rfl) h
      · simp only [hw, if_false] at h ⊢; exact ih hes _ _ h0 h
    | read w n => simp only [lastFrom, boundFrom] at h ⊢; exact ih hes _ _ h0 h

end CyVerif.C21

import CyVerif.Lemmas.C50BuildB
/-! RE → NFA, part C: combining certificates — alternation and sequence. -/
namespace CyVerif.C50

theorem newState_node (m : NFA) (s : Nat) : (m.newState.1).node s = m.node s := by
  unfold NFA.newState NFA.node
  simp only
  by_cases h : s < m.nodes.length
  · rw [List.getElem?_append_left h]
  · rw [List.getElem?_append_right (by omega)]
    rw [List.getElem?_eq_none (l := m.nodes) (by omega)]
    by_cases h' : s - m.nodes.length = 0
    · simp [h']
    · rw [List.getElem?_eq_none (by simp; omega)]

theorem newState_wf (m : NFA) (h : m.WF) : (m.newState.1).WF := by
  intro nd hnd
  simp only [NFA.newState, List.mem_append, List.mem_singleton] at hnd
  rcases hnd with hnd | hnd
  · exact h nd hnd
  · subst hnd; exact TMap.empty_wf

theorem newState_edge (m : NFA) (s : Nat) (l : Option CurChar) (u : Nat) :
    NEdge (m.newState.1) s l u ↔ NEdge m s l u := by
  unfold NEdge; rw [newState_node]

/-- two machines between the same pair of states -/
def certAlt {m n1 n2 : NFA} {i f : Nat} {L1 L2 : List CurChar → Prop} (hif : i ≠ f)
    (hi : i < m.nodes.length) (hf : f < m.nodes.length)
    (c1 : BuildCert m n1 i f L1) (c2 : BuildCert n1 n2 i f L2) :
    BuildCert m n2 i f (fun w => L1 w ∨ L2 w) where
  added := fun s l u => c1.added s l u ∨ c2.added s l u
  lab := fun s w => c1.lab s w ∨ c2.lab s w
  wf := c2.wf
  grow := Nat.le_trans c1.grow c2.grow
  inits := by rw [c2.inits, c1.inits]
  acts := fun s => ⟨by rw [(c2.acts s).1, (c1.acts s).1], by rw [(c2.acts s).2, (c1.acts s).2]⟩
  edges := fun s l u => by rw [c2.edges, c1.edges, or_assoc]
  src := by
    have := c1.grow; have := c2.grow
    rintro s l u (h | h)
    · rcases c1.src s l u h with e | e
      · exact .inl e
      · exact .inr ⟨e.1, by omega⟩
    · rcases c2.src s l u h with e | e
      · exact .inl e
      · exact .inr ⟨by omega, e.2⟩
  dst := by
    have := c1.grow; have := c2.grow
    rintro s l u (h | h)
    · rcases c1.dst s l u h with e | e
      · exact .inl e
      · exact .inr ⟨e.1, by omega⟩
    · rcases c2.dst s l u h with e | e
      · exact .inl e
      · exact .inr ⟨by omega, e.2⟩
  labInit := .inl c1.labInit
  labEdge := by
    have := c1.grow; have := c2.grow
    rintro s l u w (h | h) (hl | hl)
    · exact .inl (c1.labEdge s l u w h hl)
    · -- an edge of the first machine leaving a state labelled by the second: only `i`
      rcases c1.src s l u h with e | e
      · subst e
        have := c2.labI w hl
        subst this
        exact .inl (c1.labEdge _ l u [] h c1.labInit)
      · rcases c2.labSupp s w hl with e' | e' | e' <;> omega
    · rcases c2.src s l u h with e | e
      · subst e
        have := c1.labI w hl
        subst this
        exact .inr (c2.labEdge _ l u [] h c2.labInit)
      · rcases c1.labSupp s w hl with e' | e' | e' <;> omega
    · exact .inr (c2.labEdge s l u w h hl)
  labSupp := by
    have := c1.grow; have := c2.grow
    rintro s w (h | h)
    · rcases c1.labSupp s w h with e | e | e
      · exact .inl e
      · exact .inr (.inl e)
      · exact .inr (.inr ⟨e.1, by omega⟩)
    · rcases c2.labSupp s w h with e | e | e
      · exact .inl e
      · exact .inr (.inl e)
      · exact .inr (.inr ⟨by omega, e.2⟩)
  labI := by
    rintro w (h | h)
    · exact c1.labI w h
    · exact c2.labI w h
  labF := by
    rintro w (h | h)
    · exact .inl (c1.labF w h)
    · exact .inr (c2.labF w h)
  complete := by
    rintro w (h | h)
    · exact (c1.complete w h).mono (fun _ _ _ e => .inl e)
    · exact (c2.complete w h).mono (fun _ _ _ e => .inr e)

/-- a machine from `i` to a new state `mid`, followed by a machine from `mid` to `f` -/
def certSeq {m0 n1 n2 : NFA} {i f : Nat} {L1 L2 : List CurChar → Prop} (hif : i ≠ f)
    (hi : i < m0.nodes.length) (hf : f < m0.nodes.length)
    (c1 : BuildCert m0.newState.1 n1 i m0.nodes.length L1) (c2 : BuildCert n1 n2 m0.nodes.length f L2) :
    BuildCert m0 n2 i f (fun w => ∃ w1 w2, w = w1 ++ w2 ∧ L1 w1 ∧ L2 w2) where
  added := fun s l u => c1.added s l u ∨ c2.added s l u
  lab := fun s w => c1.lab s w ∨ ∃ w1 w2, w = w1 ++ w2 ∧ L1 w1 ∧ c2.lab s w2
  wf := c2.wf
  grow := by
    have := c1.grow; have := c2.grow
    simp only [NFA.newState, List.length_append, List.length_singleton] at *
    omega
  inits := by rw [c2.inits, c1.inits]; rfl
  acts := fun s => by
    rw [(c2.acts s).1, (c1.acts s).1, (c2.acts s).2, (c1.acts s).2, newState_node]; exact ⟨rfl, rfl⟩
  edges := fun s l u => by rw [c2.edges, c1.edges, newState_edge, or_assoc]
  src := by
    have h1 := c1.grow; have h2 := c2.grow
    simp only [NFA.newState, List.length_append, List.length_singleton] at h1
    rintro s l u (h | h)
    · rcases c1.src s l u h with e | e
      · exact .inl e
      · simp only [NFA.newState, List.length_append, List.length_singleton] at e
        exact .inr ⟨by omega, by omega⟩
    · rcases c2.src s l u h with e | e
      · exact .inr ⟨by omega, by omega⟩
      · exact .inr ⟨by omega, e.2⟩
  dst := by
    have h1 := c1.grow; have h2 := c2.grow
    simp only [NFA.newState, List.length_append, List.length_singleton] at h1
    rintro s l u (h | h)
    · rcases c1.dst s l u h with e | e
      · exact .inr ⟨by omega, by omega⟩
      · simp only [NFA.newState, List.length_append, List.length_singleton] at e
        exact .inr ⟨by omega, by omega⟩
    · rcases c2.dst s l u h with e | e
      · exact .inl e
      · exact .inr ⟨by omega, e.2⟩
  labInit := .inl c1.labInit
  labEdge := by
    have h1 := c1.grow; have h2 := c2.grow
    simp only [NFA.newState, List.length_append, List.length_singleton] at h1
    rintro s l u w (h | h) (hl | ⟨w1, w2, rfl, hw1, hl⟩)
    · exact .inl (c1.labEdge s l u w h hl)
    · -- source of a first-machine edge labelled by the second machine: impossible
      have hs := c1.src s l u h
      have hs' := c2.labSupp s w2 hl
      simp only [NFA.newState, List.length_append, List.length_singleton] at hs
      rcases hs with e | e <;> rcases hs' with e' | e' | e' <;> omega
    · -- a second-machine edge leaves `mid`, reached by a word of `L1`
      have hs := c2.src s l u h
      have hs' := c1.labSupp s w hl
      simp only [NFA.newState, List.length_append, List.length_singleton] at hs'
      have : s = m0.nodes.length := by
        rcases hs with e | e <;> rcases hs' with e' | e' | e' <;> omega
      subst this
      refine .inr ⟨w, l.toList, rfl, c1.labF w hl, ?_⟩
      have := c2.labEdge _ l u [] h c2.labInit
      simpa using this
    · refine .inr ⟨w1, w2 ++ l.toList, by simp, hw1, c2.labEdge s l u w2 h hl⟩
  labSupp := by
    have h1 := c1.grow; have h2 := c2.grow
    simp only [NFA.newState, List.length_append, List.length_singleton] at h1
    rintro s w (h | ⟨w1, w2, _, _, h⟩)
    · rcases c1.labSupp s w h with e | e | e
      · exact .inl e
      · exact .inr (.inr ⟨by omega, by omega⟩)
      · simp only [NFA.newState, List.length_append, List.length_singleton] at e
        exact .inr (.inr ⟨by omega, by omega⟩)
    · rcases c2.labSupp s w2 h with e | e | e
      · exact .inr (.inr ⟨by omega, by omega⟩)
      · exact .inr (.inl e)
      · exact .inr (.inr ⟨by omega, e.2⟩)
  labI := by
    have h1 := c1.grow
    simp only [NFA.newState, List.length_append, List.length_singleton] at h1
    rintro w (h | ⟨w1, w2, _, _, h⟩)
    · exact c1.labI w h
    · rcases c2.labSupp i w2 h with e | e | e <;> omega
  labF := by
    have h1 := c1.grow
    rintro w (h | ⟨w1, w2, rfl, hw1, h⟩)
    · have := c1.labSupp f w h
      simp only [NFA.newState, List.length_append, List.length_singleton] at this
      rcases this with e | e | e <;> omega
    · exact ⟨w1, w2, rfl, hw1, c2.labF w2 h⟩
  complete := by
    rintro w ⟨w1, w2, rfl, h1, h2⟩
    exact ((c1.complete w1 h1).mono (fun _ _ _ e => .inl e)).append
      ((c2.complete w2 h2).mono (fun _ _ _ e => .inr e))

end CyVerif.C50

import CyVerif.Model.C02Float
import CyVerif.Lemmas.C02Frame
/-!
C02: `PyFloatBinop` reads an int's digits only inside the object and only uses the result when it converts to
`double` exactly (`< 2^53`).
-/
namespace CyVerif.C02
open CyVerif.C05

/-- the guard of the `_size` block -/
def FG (P : Plat) (k : Nat) : Prop :=
  8 * P.longBytes > k * P.shift ∧ (8 * P.longBytes < 53 ∨ (k - 1) * P.shift < 53)

theorem shl_one_53 (P : Plat) (hLL8 : 8 ≤ P.llBytes) : C05.shl P.tLL 1 53 = .ok (two 53) := by
  unfold C05.shl
  rw [if_neg (by rw [tLL_bits]; omega)]
  simp only [show P.tLL.signed = true from rfl, if_true]
  rw [if_neg (by omega), if_pos (by rw [Int.one_mul]; exact two_lt_two (by rw [tLL_bits]; omega)), Int.one_mul]

theorem floatJoin_skip (P : Plat) (p : PyLong) (k : Nat) (ks : List Nat) (h : ¬(p.digits.length ≤ k ∧ FG P k)) :
    floatJoin P p (k :: ks) = floatJoin P p ks := by
  unfold FG at h
  conv => lhs; unfold floatJoin
  rw [if_neg h]

theorem floatJoin_take (P : Plat) (hP : PlatOK P) (p : PyLong) (hwf : p.WF P.shift) (k : Nat) (ks : List Nat)
    (hlen : p.digits.length = k) (hk : 0 < k) (hg : FG P k) :
    floatJoin P p (k :: ks) =
      if 8 * P.longBytes < 53 ∨ k * P.shift < 53 ∨ ((natVal P.shift p.digits : Nat) : Int) < two 53 then
        .ok (some (p.value P.shift)) else floatJoin P p ks := by
  obtain ⟨hS, hi0, hiL, hL4, hLLL, hLL8, hSL, hSLL⟩ := hP
  have hne : p.digits ≠ [] := by intro h; rw [h] at hlen; simp at hlen; omega
  have hg' := hg
  unfold FG at hg'
  conv => lhs; unfold floatJoin
  rw [if_pos ⟨by omega, hg'⟩]
  have hfd : firstDigits p.digits k = .ok p.digits := by
    unfold firstDigits; rw [if_pos (by omega), List.take_of_length_le (by omega)]
  have hj := pylongJoin_spec P P.tULong p.digits hS hne hwf.1
    (by show p.digits.length * P.shift ≤ (if false = true then 8 * P.longBytes - 1 else 8 * P.longBytes); simp; rw [hlen]; omega)
    hiL (by show 0 < P.longBytes; omega)
  have hval : (if p.neg = true then -((natVal P.shift p.digits : Nat) : Int) else ((natVal P.shift p.digits : Nat) : Int))
      = p.value P.shift := by unfold PyLong.value; rfl
  simp only [hfd, hj, shl_one_53 P hLL8, bind, Except.bind, pure, Except.pure, hval]

theorem value_natAbs {S : Nat} (p : PyLong) : (p.value S).natAbs = natVal S p.digits := by
  unfold PyLong.value; split <;> omega

theorem FG_anti (P : Plat) {k k' : Nat} (hk : 1 ≤ k) (h : k ≤ k') (hg : ¬ FG P k) : ¬ FG P k' := by
  unfold FG at *
  have h1 : k * P.shift ≤ k' * P.shift := Nat.mul_le_mul_right _ h
  have h2 : (k - 1) * P.shift ≤ (k' - 1) * P.shift := Nat.mul_le_mul_right _ (by omega)
  omega

/-- The digit loop of `PyFloatBinop` on a non-compact int: falls through, or produces the exact value, which is below `2^53`. -/
theorem floatJoin_spec (P : Plat) (hP : PlatOK P) (p : PyLong) (hwf : p.WF P.shift) (hlen : 2 ≤ p.digits.length) :
    floatJoin P p [2, 3, 4] = .ok none ∨
      (floatJoin P p [2, 3, 4] = .ok (some (p.value P.shift)) ∧ (p.value P.shift).natAbs < 2 ^ 53) := by
  have hd := hwf.1
  have hnil : floatJoin P p [] = .ok none := rfl
  -- all blocks beyond the digit count are skipped once one guard failed / the exactness test failed
  have skip_all : ∀ (ks : List Nat) (k0 : Nat), 1 ≤ k0 → (∀ k' ∈ ks, k0 ≤ k') → ¬ FG P k0 → floatJoin P p ks = .ok none := by
    intro ks
    induction ks with
    | nil => intro _ _ _ _; exact hnil
    | cons k ks ih =>
      intro k0 h1 hall hg
      rw [floatJoin_skip P p k ks (fun h => FG_anti P h1 (hall k (by simp)) hg h.2)]
      exact ih k0 h1 (fun k' hk' => hall k' (by simp [hk'])) hg
  have hvlt := natVal_lt P.shift p.digits hd
  -- the block with `_size = len`
  have block : ∀ k ks, p.digits.length = k → (∀ k' ∈ ks, k < k') →
      floatJoin P p (k :: ks) = .ok none ∨
        (floatJoin P p (k :: ks) = .ok (some (p.value P.shift)) ∧ (p.value P.shift).natAbs < 2 ^ 53) := by
    intro k ks hk hall
    have hk0 : 0 < k := by omega
    by_cases hg : FG P k
    · rw [floatJoin_take P hP p hwf k ks hk hk0 hg]
      by_cases hex : 8 * P.longBytes < 53 ∨ k * P.shift < 53 ∨ ((natVal P.shift p.digits : Nat) : Int) < two 53
      · rw [if_pos hex]
        right; refine ⟨rfl, ?_⟩
        rw [value_natAbs]
        rw [hk] at hvlt
        unfold FG at hg
        rcases hex with h | h | h
        · have := Nat.pow_le_pow_right (show 0 < 2 by omega) (show k * P.shift ≤ 53 by omega); omega
        · have := Nat.pow_le_pow_right (show 0 < 2 by omega) (show k * P.shift ≤ 53 by omega); omega
        · unfold two at h; omega
      · rw [if_neg hex]
        left
        -- the exactness test failed: `k*S ≥ 53` and `8L ≥ 53`, so every later guard is false
        apply skip_all ks (k + 1) (by omega)
        · intro k' hk'; have := hall k' hk'; omega
        · unfold FG; simp only [Nat.add_sub_cancel]; omega
    · rw [floatJoin_skip P p k ks (fun h => hg h.2)]
      left
      exact skip_all ks k (by omega) (fun k' hk' => Nat.le_of_lt (hall k' hk')) hg
  have hskip : ∀ k ks, k < p.digits.length → floatJoin P p (k :: ks) = floatJoin P p ks :=
    fun k ks h => floatJoin_skip P p k ks (fun hh => by omega)
  by_cases h2 : p.digits.length = 2
  · exact block 2 [3, 4] h2 (by simp)
  · rw [hskip 2 _ (by omega)]
    by_cases h3 : p.digits.length = 3
    · exact block 3 [4] h3 (by simp)
    · rw [hskip 3 _ (by omega)]
      by_cases h4 : p.digits.length = 4
      · exact block 4 [] h4 (by simp)
      · rw [hskip 4 _ (by omega)]; left; exact hnil

end CyVerif.C02

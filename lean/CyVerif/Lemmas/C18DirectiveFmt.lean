import CyVerif.Lemmas.C18Directive
/-! C18 lemmas: `format()` with the specs the repaired `_build_fstring` emits = the `%` layouts. -/
set_option linter.unusedSimpArgs false
namespace CyVerif.C18

theorem ssize_of_lt (n : Nat) (h : n < 2147483648) : n ≤ SSIZE_MAX := by unfold SSIZE_MAX; omega

/-- `format(text, spec)` for the string specs of the repaired rewrite = `%`-style padding -/
theorem str_format_eq (t : List Nat) (left : Bool) (wd p : List Char) (hwd : wd.all isDig = true)
    (hwd0 : wd.head? ≠ some '0') (hp : p = [] ∨ ∃ ds, p = '.' :: ds ∧ ds ≠ [] ∧ ds.all isDig = true)
    (hw : digitsVal wd < 2147483648) (hpv : ∀ ds, p = '.' :: ds → digitsVal ds < 2147483648)
    (d : PDir) (hdl : d.left = left) (hdw : d.width = widthOf wd) :
    pyFormat (.str t) ((if wd.isEmpty then [] else [if left then '<' else '>']) ++ (wd ++ p)) =
      some (.text (padField d (match precOf p with | some k => t.take k | none => t))) := by
  by_cases he : wd = [] ∧ p = []
  · obtain ⟨rfl, rfl⟩ := he
    simp [pyFormat, padField, hdw, widthOf, precOf]
  · have hne : ((if wd.isEmpty then [] else [if left then '<' else '>']) ++ (wd ++ p)).isEmpty = false := by
      cases wd with
      | nil =>
        cases p with
        | nil => exact absurd ⟨rfl, rfl⟩ he
        | cons a b => simp
      | cons a b => simp
    have hps := parseSpec_str (if wd.isEmpty then [] else [if left then '<' else '>']) wd p
      (by cases wd.isEmpty <;> cases left <;> simp) hwd hwd0 hp (ssize_of_lt _ hw)
      (fun ds e => ssize_of_lt _ (hpv ds e))
    unfold pyFormat
    simp only [hne, Bool.false_eq_true, if_false, hps, if_true]
    unfold renderStr padField
    simp only [Option.isSome_none, Bool.false_eq_true, if_false, hdw, hdl]
    cases hpr : precOf p <;> simp only [] <;>
    cases hwe : wd.isEmpty with
    | true =>
      -- no width: no padding at all
      have : wd = [] := by cases wd <;> simp_all
      subst this
      simp [widthOf]
    | false =>
      cases left with
      | true =>
        have h1 : ('<' : Char) ≠ '=' := by decide
        have h2 : ('<' : Char) ≠ '>' := by decide
        have h3 : ('<' : Char) ≠ '^' := by decide
        simp [h1, h2, h3]
      | false =>
        have h1 : ('>' : Char) ≠ '=' := by decide
        simp [h1]


def isIntConv (c : Char) : Bool := c = 'd' || c = 'o' || c = 'x' || c = 'X'

theorem isIntConv_facts (c : Char) (h : isIntConv c = true) :
    isTypeC c = true ∧ c ≠ 'c' ∧ c ≠ 'i' ∧ c ≠ 'u' ∧
    (c = 'b' ∨ c = 'c' ∨ c = 'd' ∨ c = 'o' ∨ c = 'x' ∨ c = 'X') := by
  simp only [isIntConv, Bool.or_eq_true, decide_eq_true_eq] at h
  rcases h with ((rfl | rfl) | rfl) | rfl <;> decide

/-- `format(v, spec)` for the integer specs of the repaired rewrite = `%d/%o/%x/%X` layout -/
theorem int_format_eq (v : Int) (L S Z0 : Bool) (wd : List Char) (hwd : wd.all isDig = true)
    (hwd0 : wd.head? ≠ some '0') (hw : digitsVal wd < 2147483648) (ft : Char) (hft : isIntConv ft = true) :
    pyFormat (.int v) ((if L then ['<'] else []) ++ (if S then [' '] else []) ++
        (if Z0 && !L then ['0'] else []) ++ wd ++ [ft]) =
      some (.text (percentInt ⟨L, false, S, false, Z0, widthOf wd, none, ft⟩ v)) := by
  obtain ⟨htc, hc, hi, hu, hty⟩ := isIntConv_facts ft hft
  have hps := parseSpec_pct_int L S (Z0 && !L) (by intro h; simp [h]) wd hwd hwd0 ft htc (ssize_of_lt _ hw)
  have hne : ((if L then ['<'] else []) ++ (if S then [' '] else []) ++
      (if (Z0 && !L) = true then ['0'] else []) ++ wd ++ [ft]).isEmpty = false := by simp
  unfold pyFormat
  simp only [hne, Bool.false_eq_true, if_false, hps, hty, if_true, ne_eq, not_true_eq_false]
  unfold renderInt percentInt numberText
  simp only [Option.isSome_none, Bool.false_eq_true, if_false, hc, hi, hu, or_self, Option.getD_none,
    Nat.zero_sub, List.replicate_zero, List.nil_append, List.length_nil, Nat.add_zero]
  have e1 : ('<' : Char) ≠ '^' := by decide
  have e2 : ('<' : Char) ≠ '=' := by decide
  have e3 : ('=' : Char) ≠ '<' := by decide
  have e4 : ('=' : Char) ≠ '^' := by decide
  have e5 : ('>' : Char) ≠ '<' := by decide
  have e6 : ('>' : Char) ≠ '^' := by decide
  have e7 : ('>' : Char) ≠ '=' := by decide
  cases L <;> cases S <;> cases Z0 <;> by_cases hn : v < 0 <;>
    simp [hn, e1, e2, e3, e4, e5, e6, e7]


theorem inStr_ars (c : Char) : inStr c ['a', 'r', 's'] = true ↔ (c = 'a' ∨ c = 'r' ∨ c = 's') := by
  simp only [inStr, List.contains_cons, List.contains_nil, Bool.or_false, Bool.or_eq_true, beq_iff_eq]

theorem inStr_doxX (c : Char) : inStr c ['d', 'o', 'x', 'X'] = true ↔ (c = 'd' ∨ c = 'o' ∨ c = 'x' ∨ c = 'X') := by
  simp only [inStr, List.contains_cons, List.contains_nil, Bool.or_false, Bool.or_eq_true, beq_iff_eq, or_assoc]

end CyVerif.C18

import CyVerif.Lemmas.C11Esc
/-! `split_string_literal` cuts only at token boundaries. -/
namespace CyVerif.C11

/-- The only facts about safe tokens that the splitting argument uses. -/
inductive Shape : List Nat → Prop
  | plain (c : Nat) (h : c ≠ 92) : Shape [c]
  | two (e : Nat) : Shape [92, e]
  | four (x y z : Nat) (hx : x ≠ 92) (hy : y ≠ 92) (hz : z ≠ 92) : Shape [92, x, y, z]

theorem shape_of_tokVal {t : List Nat} {v : Nat} (h : tokVal t = some v) : Shape t := by
  rcases t with _ | ⟨a, _ | ⟨b, _ | ⟨c, _ | ⟨d, _ | ⟨e, t⟩⟩⟩⟩⟩
  · simp [tokVal] at h
  · simp only [tokVal] at h
    split at h
    · rename_i hc; exact Shape.plain a hc.2.2.2.2
    · simp at h
  · simp only [tokVal] at h
    split at h
    · rename_i hb; subst hb; exact Shape.two b
    · simp at h
  · simp [tokVal] at h
  · simp only [tokVal] at h
    split at h
    · rename_i hh
      obtain ⟨hb, hx, hy, hz, _⟩ := hh
      subst hb
      simp only [isOct, Bool.and_eq_true, decide_eq_true_eq] at hx hy hz
      exact Shape.four b c d (by omega) (by omega) (by omega)
    · simp at h
  · simp [tokVal] at h

theorem shapes_of_decodeToks {ts : List (List Nat)} {vs : List Nat} (h : decodeToks ts = some vs) :
    ∀ t ∈ ts, Shape t := by
  induction ts generalizing vs with
  | nil => simp
  | cons t ts ih =>
    obtain ⟨v, vs', hv, hts, _⟩ := decodeToks_cons h
    intro u hu
    rcases List.mem_cons.1 hu with rfl | hu
    · exact shape_of_tokVal hv
    · exact ih hts u hu

/-- `e` is the length of the text of a prefix of the token list. -/
def IsB (ts : List (List Nat)) (e : Nat) : Prop :=
  ∃ ts1 ts2, ts = ts1 ++ ts2 ∧ ts1.flatten.length = e

theorem IsB.zero (ts : List (List Nat)) : IsB ts 0 := ⟨[], ts, rfl, rfl⟩

theorem IsB.cons {ts : List (List Nat)} {e : Nat} (t : List Nat) (h : IsB ts e) : IsB (t :: ts) (t.length + e) := by
  obtain ⟨a, b, rfl, rfl⟩ := h
  exact ⟨t :: a, b, rfl, by simp⟩

/-- A position that is not a token boundary has a backslash among the three characters before it. -/
theorem backslash_of_not_boundary (ts : List (List Nat)) (hs : ∀ t ∈ ts, Shape t) (e : Nat)
    (he : e ≤ ts.flatten.length) (hnb : ¬ IsB ts e) :
    ∃ j, j < e ∧ e ≤ j + 3 ∧ ts.flatten[j]? = some 92 := by
  induction ts generalizing e with
  | nil => simp at he; subst he; exact absurd (IsB.zero []) hnb
  | cons t ts ih =>
    by_cases h0 : e = 0
    · subst h0; exact absurd (IsB.zero _) hnb
    by_cases hle : t.length ≤ e
    · have hnb' : ¬ IsB ts (e - t.length) := by
        intro h
        have := IsB.cons t h
        rw [Nat.add_sub_cancel' hle] at this
        exact hnb this
      have he' : e - t.length ≤ ts.flatten.length := by
        rw [List.flatten_cons, List.length_append] at he; omega
      obtain ⟨j, hj1, hj2, hj3⟩ := ih (fun u hu => hs u (by simp [hu])) _ he' hnb'
      refine ⟨t.length + j, by omega, by omega, ?_⟩
      rw [List.flatten_cons, List.getElem?_append_right (by omega)]
      rw [Nat.add_sub_cancel_left]; exact hj3
    · have hsh := hs t (by simp)
      cases hsh with
      | plain c _ => simp at hle; omega
      | two x => exact ⟨0, by omega, by simp at hle; omega, by simp⟩
      | four x y z _ _ _ => exact ⟨0, by omega, by simp at hle; omega, by simp⟩

/-- A backslash that is not preceded by a backslash starts a token. -/
theorem boundary_of_backslash (ts : List (List Nat)) (hs : ∀ t ∈ ts, Shape t) (e : Nat)
    (h1 : ts.flatten[e]? = some 92) (h2 : e = 0 ∨ ts.flatten[e - 1]? ≠ some 92) : IsB ts e := by
  induction ts generalizing e with
  | nil => simp at h1
  | cons t ts ih =>
    by_cases h0 : e = 0
    · subst h0; exact IsB.zero _
    have h2' : (t :: ts).flatten[e - 1]? ≠ some 92 := by rcases h2 with h | h; exact absurd h h0; exact h
    by_cases hle : t.length ≤ e
    · rw [List.flatten_cons, List.getElem?_append_right hle] at h1
      have := ih (fun u hu => hs u (by simp [hu])) (e - t.length) h1 (by
        by_cases h00 : e - t.length = 0
        · exact Or.inl h00
        · right
          rw [List.flatten_cons, List.getElem?_append_right (by omega)] at h2'
          rwa [show e - t.length - 1 = e - 1 - t.length by omega])
      have := IsB.cons t this
      rwa [Nat.add_sub_cancel' hle] at this
    · exfalso
      have hlt : e < t.length := by omega
      rw [List.flatten_cons, List.getElem?_append_left hlt] at h1
      rw [List.flatten_cons, List.getElem?_append_left (by omega)] at h2'
      have hsh := hs t (by simp)
      cases hsh with
      | plain c _ => simp at hlt; omega
      | two x =>
        have : e = 1 := by simp at hlt; omega
        subst this
        simp at h2'
      | four x y z hx hy hz =>
        simp at hlt
        have : e = 1 ∨ e = 2 ∨ e = 3 := by omega
        rcases this with rfl | rfl | rfl <;> simp at h1 <;> omega

/-- Inside a run of backslashes that starts at a token boundary, every even offset is a boundary. -/
theorem boundary_even_backslashes (m : Nat) (ts : List (List Nat)) (hs : ∀ t ∈ ts, Shape t)
    (h : ∀ i, i < 2 * m → ts.flatten[i]? = some 92) : IsB ts (2 * m) := by
  induction m generalizing ts with
  | zero => exact IsB.zero _
  | succ m ih =>
    have h0 := h 0 (by omega)
    have h1 := h 1 (by omega)
    cases ts with
    | nil => simp at h0
    | cons t ts =>
      have hsh := hs t (by simp)
      cases hsh with
      | plain c hc => simp at h0; exact absurd h0 hc
      | two x =>
        simp at h1
        subst h1
        have := ih ts (fun u hu => hs u (by simp [hu])) (by
          intro i hi
          have := h (i + 2) (by omega)
          rw [List.flatten_cons, List.getElem?_append_right (by simp)] at this
          simpa using this)
        have := IsB.cons [92, 92] this
        simpa [Nat.mul_add, Nat.add_comm] using this
      | four x y z hx _ _ => simp at h1; exact absurd h1 hx


theorem takeWhile_spec (l : List Nat) :
    (l.takeWhile (· = 92)).length ≤ l.length ∧
    (∀ i, i < (l.takeWhile (· = 92)).length → l[i]? = some 92) ∧
    ((l.takeWhile (· = 92)).length < l.length → l[(l.takeWhile (· = 92)).length]? ≠ some 92) := by
  induction l with
  | nil => simp
  | cons a l ih =>
    by_cases ha : a = 92
    · subst ha
      simp only [List.takeWhile_cons, decide_true, if_true, List.length_cons]
      refine ⟨by omega, ?_, ?_⟩
      · intro i hi
        cases i with
        | zero => simp
        | succ i => simpa using ih.2.1 i (by omega)
      · intro h; simpa using ih.2.2 (by omega)
    · simp [ha]

/-- What the inner `while` loop of `split_string_literal` sees. -/
theorem trailing_spec (s : List Nat) :
    trailingBackslashes s ≤ s.length ∧
    (∀ i, s.length - trailingBackslashes s ≤ i → i < s.length → s[i]? = some 92) ∧
    (trailingBackslashes s < s.length → s[s.length - trailingBackslashes s - 1]? ≠ some 92) := by
  obtain ⟨h1, h2, h3⟩ := takeWhile_spec s.reverse
  unfold trailingBackslashes
  simp only [List.length_reverse] at h1 h2 h3
  refine ⟨h1, ?_, ?_⟩
  · intro i hi1 hi2
    have := h2 (s.length - 1 - i) (by omega)
    rw [List.getElem?_reverse (by omega)] at this
    rwa [show s.length - 1 - (s.length - 1 - i) = i by omega] at this
  · intro h
    have := h3 h
    rw [List.getElem?_reverse h] at this
    rwa [show s.length - 1 - (List.takeWhile (fun x => decide (x = 92)) s.reverse).length =
      s.length - (List.takeWhile (fun x => decide (x = 92)) s.reverse).length - 1 by omega] at this

theorem window_getElem? (rest : List Nat) (limit back i : Nat) (hb : back ≤ limit) :
    ((rest.take limit).drop (limit - back))[i]? = if i < back then rest[limit - back + i]? else none := by
  rw [List.getElem?_drop, List.getElem?_take]
  by_cases h : i < back
  · simp [h]; omega
  · simp [h]; omega

/-- One round of the loop cuts at a token boundary (or takes everything), and makes progress. -/
theorem nextEnd_boundary (p : SplitParams) (hp : p.WF) (ts : List (List Nat)) (hs : ∀ t ∈ ts, Shape t) :
    0 < nextEnd p ts.flatten ∧ (ts.flatten.length ≤ nextEnd p ts.flatten ∨ IsB ts (nextEnd p ts.flatten)) := by
  obtain ⟨hb3, hce, hbc, hcl⟩ := hp
  generalize hrest : ts.flatten = rest
  unfold nextEnd
  simp only
  split
  · rename_i hc
    obtain ⟨hlen, hmem⟩ := hc
    have hk := List.idxOf_lt_length_of_mem hmem
    have hget := List.getElem_idxOf hk
    generalize hkk : List.idxOf 92 (List.drop (p.limit - p.back) (List.take p.limit rest)) = k at *
    have hget' : ((rest.take p.limit).drop (p.limit - p.back))[k]? = some 92 := by
      rw [List.getElem?_eq_getElem hk, hget]
    have hkb : k < p.back := by
      rw [window_getElem? _ _ _ _ (by omega)] at hget'
      by_cases h : k < p.back
      · exact h
      · simp [h] at hget'
    rw [window_getElem? _ _ _ _ (by omega), if_pos hkb] at hget'
    generalize he1 : p.limit - p.back + k = e1 at *
    have he1len : e1 < rest.length := by
      by_cases h : e1 < rest.length
      · exact h
      · rw [List.getElem?_eq_none (by omega)] at hget'; simp at hget'
    have hslen : (rest.take e1).length = e1 := by simp; omega
    obtain ⟨t1, t2, t3⟩ := trailing_spec (rest.take e1)
    rw [hslen] at t1 t2 t3
    generalize trailingBackslashes (rest.take e1) = n at *
    have htake : ∀ i, i < e1 → (rest.take e1)[i]? = rest[i]? := by
      intro i hi; rw [List.getElem?_take, if_pos hi]
    split
    · rename_i hn
      subst hn
      refine ⟨by omega, Or.inr ?_⟩
      obtain ⟨m, hm⟩ : ∃ m, p.limit - p.limit % 2 - p.corner = 2 * m := ⟨(p.limit - p.limit % 2 - p.corner) / 2, by omega⟩
      rw [hm]
      apply boundary_even_backslashes m ts hs
      intro i hi
      rw [hrest, ← htake i (by omega)]
      exact t2 i (by omega) (by omega)
    · rename_i hn
      refine ⟨by omega, Or.inr ?_⟩
      apply boundary_of_backslash ts hs
      · rw [hrest]
        by_cases h0 : n = 0
        · subst h0; simpa using hget'
        · rw [← htake _ (by omega)]; exact t2 _ (by omega) (by omega)
      · right
        rw [hrest, ← htake _ (by omega)]
        exact t3 (by omega)
  · rename_i hc
    refine ⟨by omega, ?_⟩
    by_cases hlen : rest.length ≤ p.limit
    · exact Or.inl hlen
    · right
      apply Classical.byContradiction
      intro hnb
      obtain ⟨j, hj1, hj2, hj3⟩ := backslash_of_not_boundary ts hs p.limit (by rw [hrest]; omega) hnb
      apply hc
      refine ⟨by omega, ?_⟩
      apply List.mem_of_getElem? (i := j - (p.limit - p.back))
      rw [window_getElem? _ _ _ _ (by omega), if_pos (by omega), ← hrest, ← hj3]
      congr 1; omega

theorem flatten_eq_nil_of_shapes (ts : List (List Nat)) (hs : ∀ t ∈ ts, Shape t) (h : ts.flatten = []) : ts = [] := by
  cases ts with
  | nil => rfl
  | cons t ts =>
    have := hs t (by simp)
    cases this <;> simp at h

/-- The chunks are the texts of consecutive groups of whole tokens. -/
theorem chunks_groups (p : SplitParams) (hp : p.WF) :
    ∀ fuel (ts : List (List Nat)), (∀ t ∈ ts, Shape t) → ts.flatten.length < fuel →
      ∃ groups : List (List (List Nat)), groups.flatten = ts ∧
        chunks p fuel ts.flatten = some (groups.map List.flatten) := by
  intro fuel
  induction fuel with
  | zero => intro ts _ h; omega
  | succ fuel ih =>
    intro ts hs hlen
    cases hrest : ts.flatten with
    | nil =>
      have := flatten_eq_nil_of_shapes ts hs hrest
      subst this
      exact ⟨[], rfl, by simp [chunks]⟩
    | cons c rest =>
      obtain ⟨hpos, hb⟩ := nextEnd_boundary p hp ts hs
      rw [hrest] at hpos hb
      simp only [chunks]
      generalize he : nextEnd p (c :: rest) = e at *
      rcases hb with hall | ⟨ts1, ts2, hts, hl⟩
      · refine ⟨[ts], by simp, ?_⟩
        rw [List.drop_of_length_le hall, List.take_of_length_le hall]
        cases fuel with
        | zero => simp [chunks, hrest]
        | succ f => simp [chunks, hrest]
      · subst hts
        rw [List.flatten_append] at hrest
        rw [← hrest, List.drop_left' hl, List.take_left' hl]
        have hlen2 : ts2.flatten.length < fuel := by
          rw [List.flatten_append, List.length_append] at hlen
          omega
        obtain ⟨g2, hg2, hc2⟩ := ih ts2 (fun t ht => hs t (by simp [ht])) hlen2
        exact ⟨ts1 :: g2, by simp [hg2], by rw [hc2]; simp⟩

theorem decodeToks_append_inv {ts us : List (List Nat)} {vs : List Nat} (h : decodeToks (ts ++ us) = some vs) :
    ∃ v1 v2, decodeToks ts = some v1 ∧ decodeToks us = some v2 ∧ vs = v1 ++ v2 := by
  induction ts generalizing vs with
  | nil => exact ⟨[], vs, rfl, h, rfl⟩
  | cons t ts ih =>
    obtain ⟨v, vs', hv, hts, rfl⟩ := decodeToks_cons h
    obtain ⟨v1, v2, h1, h2, rfl⟩ := ih hts
    exact ⟨v :: v1, v2, by simp [decodeToks, hv, h1], h2, rfl⟩

/-- Reading the joined chunks (with the closing quote) from inside the first literal. -/
theorem run_join (groups : List (List (List Nat))) (vs : List Nat) (h : decodeToks groups.flatten = some vs) :
    run 34 .lit (joinChunks (groups.map List.flatten) ++ [34]) = some (.out, vs) := by
  induction groups generalizing vs with
  | nil => simp [decodeToks] at h; subst h; simp [joinChunks, run, step, stepLit]
  | cons g gs ih =>
    rw [List.flatten_cons] at h
    obtain ⟨v1, v2, h1, h2, rfl⟩ := decodeToks_append_inv h
    cases gs with
    | nil =>
      simp [decodeToks] at h2; subst h2
      simp only [List.map_cons, List.map_nil, joinChunks]
      rw [run_append, run_toks 34 (Or.inl rfl) g v1 h1]
      simp [run, step, stepLit]
    | cons g' gs' =>
      have := ih v2 h2
      simp only [List.map_cons, joinChunks] at this ⊢
      rw [List.append_assoc, run_append, run_toks 34 (Or.inl rfl) g v1 h1]
      simp only [List.cons_append, run, step, stepLit]
      simp only [if_true, List.nil_append]
      rw [this]

end CyVerif.C11
